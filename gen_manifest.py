#!/usr/bin/env python3
"""Regenerates /verif/MANIFEST.json from checks_config.py (single source of truth)."""
import json, os, subprocess, sys
sys.path.insert(0, os.path.dirname(os.path.abspath(__file__)))
from checks_config import PROPS_CLAIMED as PROPS, NOT_APPLICABLE, HOOK_COMMITS

ids = [json.loads(l)["id"] for l in open(os.path.join(os.path.dirname(os.path.abspath(__file__)), "properties.jsonl"))]
checks = []
for pid in ids:
    if pid not in PROPS:
        continue
    c = PROPS[pid]
    checks.append({
        "property_id": pid,
        "quick_cmd": "./check %s --tier quick" % pid,
        "thorough_cmd": "./check %s --tier thorough" % pid,
        "evidence_file": "/verif/evidence/%s.json" % pid,
        "replay_cmd_template": "./check %s --replay {path}" % pid,
        "engine": "rapid-harness",
        "level_claimed": {"category": c["level"], "text": c["level_text"], "design_ref": "DESIGN.md §4 " + pid},
        "level_note": "; ".join(c.get("assumptions", [])),
        "technique": c["technique"],
    })
na = [{"property_id": p, "reason": NOT_APPLICABLE.get(p, "check not built yet in this session (planned: DESIGN.md §4 %s)" % p)}
      for p in ids if p not in PROPS]
m = {
    "version": 1,
    "setup_cmd": "./setup.sh",
    "hooks": {
        "guard": "verif",
        "enable": "go build tag: the driver builds the harness with `go test -c -tags verif`; /repo is linked through go.mod replace => /repo",
        "baseline_off_cmd": "for m in $(cat /w/out/gomods.txt); do MF=$(cd /repo/$m && . /w/out/goenv.sh && gomodflag); (cd /repo/$m && go test $MF -json -vet=off -count=1 -timeout 25m ./...); done",
        "source_commits": HOOK_COMMITS,
        "add_only": True,
    },
    "engines": [{
        "name": "rapid-harness", "path": "/verif/harness",
        "serves_properties": [c["property_id"] for c in checks],
        "kind_free_text": "property-based testing (pgregory.net/rapid v1.3.0 stateful generation + shrinking) and native go fuzzing against reference models / differential / metamorphic oracles; python driver /verif/check shards, merges statistics and writes evidence",
    }],
    "checks": checks,
    "notes": "All checks compile against /repo's working tree via go.mod replace. Exit 2 = no verdict (build failure, timeout). Known findings: /verif/known_findings.json.",
    "not_applicable": na,
}
json.dump(m, open(os.path.join(os.path.dirname(os.path.abspath(__file__)), "MANIFEST.json"), "w"), indent=1)
print("MANIFEST.json: %d checks, %d not claimed" % (len(checks), len(na)))
