#!/usr/bin/env python3
# usage: seedprompt.py <seed id, e.g. C14-h>   -> prints the brief for an independent sub-agent (property text + earlier changes to avoid).
# The brief contains nothing from /verif except the property text and one-paragraph descriptions of the earlier seeded changes.
import json, sys, os, glob, subprocess
sid = sys.argv[1]
pid = sid.split("-")[0]
here = os.path.dirname(os.path.abspath(__file__))
prop = next(json.loads(l) for l in open(os.path.join(here, "properties.jsonl")) if json.loads(l)["id"] == pid)
earlier = []
for d in sorted(glob.glob(os.path.join(here, "seeded", pid + "-*"))):
    if os.path.basename(d) == sid:
        continue
    try:
        m = json.load(open(os.path.join(d, "meta.json")))
    except Exception:
        continue
    earlier.append("- " + (m.get("change") or "")[:600].replace("\n", " "))
w = "/var/tmp/seedwork/" + sid
print(f"""You are helping to evaluate a verification framework for the Go project NethermindEth/juno (a Starknet full node). Your job is to write ONE realistic, subtle code change ("seeded defect") that breaks a given semantic property of juno while the project still compiles and all existing unit tests still pass, plus a demonstration test that fails with the change and passes without it.

Work ONLY inside your own scratch git worktree: {w}
Create it first:  mkdir -p /var/tmp/seedwork && git -C /repo worktree add --detach {w} HEAD
Never edit /repo itself and never look into /verif (it is off limits: your change must be independent of what exists there).
Environment for every go command:  export GOFLAGS=-mod=mod GOPROXY=off   (do NOT set GOTOOLCHAIN or GOSUMDB; there is no network). Packages whose test binaries need the Rust VM (rpc, rpc/v*, vm, node, sync, consensus/driver, genesis, ...) cannot be linked by `go test` here; `go build ./...` prints a jemalloc pkg-config error that can be ignored; `go vet <pkg>` type-checks those packages. If after your change `go.sum`/`go.mod` in the worktree got modified, restore them (git checkout go.mod go.sum).

THE PROPERTY ({pid}): {prop['title']}
Statement: {prop['statement']}
Quantifier (what it must hold for): {prop['quantifier']}
Why unit tests cannot settle it: {prop['why_tests_cant']}
Anchors (code the property lives in): {json.dumps(prop['anchors'])}

WHAT TO PRODUCE
1. A change to juno's non-test Go code (a plausible "optimisation", "simplification", refactoring slip, off-by-one, cache, reordering, missing invalidation, early return ...; something a reviewer could wave through; typically 3-40 lines) such that the property above is violated, but ONLY when something specific happens: a particular interleaving, a crash or injected fault at a particular point, a multi-step sequence of operations, an unusual-but-legal input (size, boundary value, configuration, rarely used option), or two cooperating sites that each look fine alone. Ordinary use must NOT expose it at once. It must not be a change that a compiler, `go vet`, or the existing tests would flag.
2. `go build ./...` must succeed (apart from the jemalloc message) and the EXISTING unit tests of every package you touched (and of packages that directly use the touched code and can be linked here) must still pass, unedited.
3. A demonstration: a new _test.go file (or files) placed inside the worktree in the appropriate package(s), using only the repository's own code and dependencies already in the module cache, that FAILS with your change and PASSES without it (verify both: `git stash`/`git apply -R`). It should fail because the property is violated (wrong answer, lost data, panic...), not because of an implementation detail. Name the test functions TestSeedDemo... so they can be skipped.
4. It must use a DIFFERENT mechanism, file/function, clause of the property and element of the quantifier from all the earlier seeded changes for this property, which were:
{chr(10).join(earlier) if earlier else '(none)'}
   Look for parts of the anchored code, clauses of the statement, or elements of the quantifier that none of these touches.

DELIVERABLE (write it to {w}.out/ — a directory OUTSIDE the worktree):
  {w}.out/patch.diff     `git diff` of the NON-test change only (must apply to /repo HEAD with `git apply`)
  {w}.out/demo/<same relative path as in the repo>/<your>_test.go    the demonstration test file(s) only (not part of patch.diff)
  {w}.out/meta.json      JSON object with keys: "property" ("{pid}"), "change" (one paragraph: what was changed and why it breaks the property), "needs" (what exactly is needed for it to manifest), "files" (list), "tests_run" (list of the commands you ran with their results: unit tests with the change, demo with the change = FAIL, demo without = PASS)
Leave the worktree in place (it will be removed by the caller). In your final answer give a 5-line summary: what the change is, what it needs to manifest, and the exact commands that show FAIL with / PASS without.""")
