#!/bin/bash
# usage: seedverify.sh <seed-dir with patch.diff and demo/> <PROP> [more PROPs...]
# fresh scratch worktree of /repo: (1) apply patch: project builds, unit tests of the touched packages PASS; (2) registered checks of the
# given properties run against the patched tree (VERIF_REPO); (3) demo copied in: FAILS with the change, PASSES after reverting it.
set -u
S=$(readlink -f "$1"); shift
W=/var/tmp/sv-$$
export GOFLAGS=-mod=mod GOPROXY=off CGO_LDFLAGS=-L/verif/stubs/lib
git -C /repo worktree add -q --detach $W HEAD || exit 2
trap 'git -C /repo worktree remove --force $W' EXIT
(cd $W && git apply --whitespace=nowarn "$S/patch.diff") || { echo "PATCH DOES NOT APPLY"; exit 2; }
echo "== changed files:"; git -C $W diff --stat | cat
PK=$(git -C $W diff --name-only | grep '\.go$' | xargs -n1 dirname | sort -u)
echo "== build + unit tests of touched packages WITH the change (must pass; VM-dependent packages cannot run here)"
(cd $W && go build ./... 2>&1 | grep -v "jemalloc\|pkg-config\|PKG_CONFIG\|virtual:world" | head -5)
for p in $PK; do (cd $W && go test -count=1 ./$p/ 2>&1 | tail -2); done
for P in "$@"; do echo "== check $P against the change"; (cd /verif && VERIF_REPO=$W ./check $P --no-evidence 2>&1 | tail -4); done
cp -r "$S"/demo/. $W/
DEMOPK=$(cd "$S/demo" && find . -name '*.go' | xargs -n1 dirname | sort -u | sed 's#^\./##')
run_demo() { for p in $DEMOPK; do (cd $W && go test -count=1 ./$p/ 2>&1 | tail -3); done; }
echo "== demo WITH the change (must FAIL) [$DEMOPK]"; run_demo
(cd $W && git apply -R --whitespace=nowarn "$S/patch.diff")
echo "== demo WITHOUT the change (must PASS)"; run_demo
