# Aggregates the per-property driver configuration: every /verif/harness/cNN/config.py defines
#   PROP = dict(pkg=..., level=..., technique=..., level_text=..., rule=..., assumptions=[...], runs=[...])
# Budgets (cases per shard and tier) live in the Go harness (stats.Budget); `runs` lists the -test.run
# patterns that make up the check, with race=True for binaries built with -race, thorough_only=True,
# fuzz="FuzzName" (native fuzzing, thorough tier only).
import glob, os, re

_here = os.path.dirname(os.path.abspath(__file__))
PROPS = {}
for _p in sorted(glob.glob(os.path.join(_here, "harness", "c[0-9][0-9]", "config.py"))):
    _ns = {}
    exec(compile(open(_p).read(), _p, "exec"), _ns)
    _pid = "C" + re.search(r"c(\d\d)", os.path.basename(os.path.dirname(_p))).group(1)
    PROPS[_pid] = _ns["PROP"]

# Only these are claimed in MANIFEST.json (a package can exist while it is still being built).
CLAIMED = ["C01", "C02", "C03", "C04", "C05", "C06", "C07", "C08", "C09", "C10", "C11", "C12", "C13", "C14", "C15", "C16", "C17", "C18", "C19", "C20"]
PROPS_ALL = PROPS
PROPS_CLAIMED = {k: v for k, v in PROPS.items() if k in CLAIMED}

# Properties deliberately not claimed, with the reason (others not yet built get a default reason).
NOT_APPLICABLE = {}
# /repo commits that add build-tag-guarded hooks (MANIFEST.hooks.source_commits)
HOOK_COMMITS = ["f2370cb"]
