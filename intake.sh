#!/bin/bash
# usage: intake.sh <seed id, e.g. C10-g> [PROPs to run the checks of; default: the seed's own property]
# Takes a sub-agent's deliverable (/var/tmp/seedwork/<id>.out) into /verif/seeded/<id>, removes the agent's worktree and
# verifies it with seedverify.sh (patch applies, unit tests green with it, demo fails with / passes without, check result).
set -u
ID=$1; shift
P=${ID%%-*}
OUT=/var/tmp/seedwork/$ID.out
[ -f $OUT/patch.diff ] || { echo "no deliverable at $OUT"; exit 2; }
mkdir -p /verif/seeded/$ID
cp -r $OUT/. /verif/seeded/$ID/
git -C /repo worktree remove --force /var/tmp/seedwork/$ID 2>/dev/null
/verif/seedverify.sh /verif/seeded/$ID ${@:-$P} 2>&1 | tee /var/tmp/seedwork/$ID.verify.log
