#!/bin/sh
# Run once after a fresh restore (MANIFEST.setup_cmd). Offline: builds the stub archives that stand in
# for the Rust VM / Sierra compiler (never executed by any check) and refreshes go.sum from /repo.
set -e
cd "$(dirname "$0")"
mkdir -p stubs/lib evidence replays
T=$(mktemp -d)
gcc -c -O1 -fPIC stubs/vmstub.c -o "$T/vmstub.o"
ar rcs stubs/lib/libjuno_starknet_rs.a "$T/vmstub.o"
gcc -c -O1 -fPIC stubs/compstub.c -o "$T/compstub.o"
ar rcs stubs/lib/libjuno_starknet_compiler_rs.a "$T/compstub.o"
rm -rf "$T"
cp /repo/go.sum harness/go.sum
grep -q '^pgregory.net/rapid v1.3.0 ' harness/go.sum || cat >> harness/go.sum <<'SUM'
pgregory.net/rapid v1.3.0 h1:vBvO0VSqti75J1jjYqpgPNBLKMd1+gxa9fYo7vk/Exc=
pgregory.net/rapid v1.3.0/go.mod h1:dPlE4OBBxgXPqkP79flB6sJL1dx5azpI7HQ9MY9Z7uk=
SUM
echo "setup ok"
