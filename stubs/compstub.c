/* Stub for libjuno_starknet_compiler_rs.a */
#include <stdlib.h>
#include <stdio.h>
static void die(const char *n){ fprintf(stderr,"verif stub: %s called\n",n); abort(); }
void compileSierraToCasm(void){ die("compileSierraToCasm"); }
void freeCstr(void){ die("freeCstr"); }
