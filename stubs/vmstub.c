/* Stub for libjuno_starknet_rs.a: the Rust VM is not built in this sandbox.
 * No verification check executes Cairo; reaching any of these is a harness bug. */
#include <stdlib.h>
#include <stdio.h>
static void die(const char *n){ fprintf(stderr,"verif stub: %s called\n",n); abort(); }
void cairoVMCall(void){ die("cairoVMCall"); }
void cairoVMExecute(void){ die("cairoVMExecute"); }
void setVersionedConstants(void){ die("setVersionedConstants"); }
void freeString(void){ die("freeString"); }
