package c13

import (
	"fmt"
	"os"
	"strings"

	"github.com/NethermindEth/juno/consensus/types"
	"github.com/NethermindEth/juno/consensus/types/wal"
	"github.com/NethermindEth/juno/consensus/walstore"

	"verif/harness/internal/stats"
)

func (t *trial) clone() *trial {
	t.mu.Lock()
	defer t.mu.Unlock()
	c := newTrial()
	for k, v := range t.seenProp {
		c.seenProp[k] = v
	}
	for k, s := range t.pcSeen {
		c.pcSeen[k] = map[int]bool{}
		for j := range s {
			c.pcSeen[k][j] = true
		}
	}
	return c
}

// logRec is one record of a completed flush together with the decisions the node took when it
// first processed the logged input: the visible actions (broadcasts, commit) that follow the
// record's WriteWAL action in the action list, up to the next WriteWAL action.
type logRec struct {
	walRec
	visAfter []string
}

// lifeline is the history of one node across crashes.
type lifeline struct {
	tr       *trial
	runs     []*rec
	names    []string
	model    []logRec     // records of all completed flushes, in order
	fedEver  map[int]bool // inputs ever handed to the node
	durable  map[int]bool // inputs with a flushed log entry
	commits  int          // completed commits = blocks the harness's block store persisted (OnCommit returned true)
	lastEnts []walRec     // entries the latest run had to replay
}

func (ck *checker) newLifeline() *lifeline {
	return &lifeline{tr: newTrial(), fedEver: map[int]bool{}, durable: map[int]bool{}}
}

func (l *lifeline) fork() *lifeline {
	c := &lifeline{tr: l.tr.clone(), fedEver: map[int]bool{}, durable: map[int]bool{}, commits: l.commits}
	c.runs = append(c.runs, l.runs...)
	c.names = append(c.names, l.names...)
	c.model = append(c.model, l.model...)
	c.lastEnts = append(c.lastEnts, l.lastEnts...)
	for k := range l.fedEver {
		c.fedEver[k] = true
	}
	for k := range l.durable {
		c.durable[k] = true
	}
	return c
}

func (l *lifeline) plain() []walRec {
	out := make([]walRec, len(l.model))
	for i, m := range l.model {
		out[i] = m.walRec
	}
	return out
}

// segments pairs the WriteWAL actions of every live call of r with the records the store proxy saw.
func segments(r *rec) []logRec {
	out := make([]logRec, len(r.wal))
	for i, w := range r.wal {
		out[i].walRec = w
	}
	next := 0 // next record to match
	for ci, c := range r.calls {
		if c.replay {
			continue
		}
		cur := -1
		for _, a := range c.acts {
			if strings.HasPrefix(a, "wal:") {
				cur = -1
				for next < len(r.wal) && (r.wal[next].prune || r.wal[next].call < ci) {
					next++
				}
				if next < len(r.wal) && r.wal[next].call == ci {
					if "wal:"+r.wal[next].str != a && !strings.HasPrefix(a, "wal:start(") {
						stats.HarnessError("log record %q does not match action %q", r.wal[next].str, a)
					}
					cur = next
					next++
				}
				continue
			}
			if strings.HasPrefix(a, "bcast-") || strings.HasPrefix(a, "commit(") {
				if cur >= 0 {
					out[cur].visAfter = append(out[cur].visAfter, a)
				}
			}
		}
	}
	return out
}

// absorb adds a finished (killed, stopped or complete) run to the history.
func (l *lifeline) absorb(name string, r *rec, replayed []walRec) {
	l.runs = append(l.runs, r)
	l.names = append(l.names, name)
	l.lastEnts = replayed
	for _, s := range segments(r) {
		if s.flushed {
			l.model = append(l.model, s)
			if !s.prune && s.input >= 0 {
				l.durable[s.input] = true
			}
		}
	}
	for _, idx := range r.fed {
		l.fedEver[idx] = true
	}
	l.commits += r.persistedCommits()
}

func (ck *checker) lifeCtx(l *lifeline, extra ...*rec) func() string {
	return func() string {
		var b strings.Builder
		b.WriteString(ck.describe())
		for i, r := range l.runs {
			b.WriteString(describeRun(l.names[i], r))
		}
		for _, r := range extra {
			b.WriteString(describeRun("run after recovery", r))
		}
		return b.String()
	}
}

// nextOrder: inputs for the run after the latest crash: what the peers send again of the
// delivered-but-not-durable inputs, then everything never delivered.
func (ck *checker) nextOrder(l *lifeline, redeliver func(int) bool) (order []int, lost int) {
	last := l.runs[len(l.runs)-1]
	for _, idx := range last.fed {
		if !l.durable[idx] {
			if redeliver(idx) {
				order = append(order, idx)
			} else {
				lost++
			}
		}
	}
	for idx := range ck.env.inputs {
		if !l.fedEver[idx] {
			order = append(order, idx)
		}
	}
	return
}

// lastFullyDurableCall returns the index of the last live call of r all of whose log records are
// flushed, and whether some call is only partly durable (possible once a call appends more than
// one record).
func lastFullyDurableCall(r *rec) (last int, partial bool) {
	last = -1
	flushed := map[int]int{}
	total := map[int]int{}
	for _, w := range r.wal {
		if w.prune {
			continue
		}
		total[w.call]++
		if w.flushed {
			flushed[w.call]++
		}
	}
	for ci, c := range r.calls {
		if c.replay {
			continue
		}
		nW := 0
		for _, a := range c.acts {
			if strings.HasPrefix(a, "wal:") {
				nW++
			}
		}
		if nW == 0 {
			continue
		}
		switch {
		case flushed[ci] == nW:
			last = ci
		case flushed[ci] > 0:
			partial = true
		}
	}
	return
}

// recoverRun starts a new process on image (the crash image of the latest run of l) and checks it.
// crash (may be nil) kills the recovering process as well.
func (ck *checker) recoverRun(l *lifeline, image string, order []int, lost int, crash *crashSpec) (*rec, []walRec) {
	env := ck.env
	resumeH := env.startH + types.Height(l.commits)
	prev := l.runs[len(l.runs)-1]
	inc := len(l.runs)
	rc := ck.run(&runCfg{env: env, tr: l.tr, dir: image, startH: resumeH, inc: inc, order: order, drain: 5, image: image + ".img", crash: crash})
	ck.c.Info("crash-points")
	name := fmt.Sprintf("run %d (after recovery)", inc)
	ctx := func() string {
		return ck.lifeCtx(l)() + fmt.Sprintf("restart at height %d; inputs delivered again or for the first time: %v (%d delivered-but-not-durable inputs lost)\n", resumeH, order, lost) +
			describeRun(name, rc)
	}
	ck.healthy(name, rc, ctx)

	// (1) nothing broadcast after recovery conflicts with what was broadcast before
	ck.noConflict(append(append([]*rec{}, l.runs...), rc), append(append([]string{}, l.names...), name), ctx)

	// (P) the log of a height is pruned only once the commit of that height has completed: a durable
	// prune record for a height >= resumeH removes inputs the node has to process again
	for _, m := range l.model {
		if m.prune && m.height >= resumeH {
			ck.fail("pruned-unfinished-height", fmt.Sprintf("the log was durably pruned up to height %d, but the last height whose commit completed (block persisted) is %d: the recorded inputs of height %d cannot be processed again after the restart\n%s",
				m.height, resumeH-1, resumeH, ctx()))
		}
	}

	// (3) the log after restart is what the store contract says (flushed records, prunes applied);
	// replay delivers exactly the flushed entries of the heights whose commit has not completed, in
	// order (height ascending, append order) - whatever the driver asked the store to prune
	dur := durableEntries(l.plain())
	var wantLoaded, wantReplay []string
	var replayEntries []walRec
	var replaySegs [][]string
	{
		// visAfter lookup: durableEntries preserves the records, match them back by identity of position
		type key struct {
			str  string
			call int
			inp  int
		}
		pool := map[key][][]string{}
		for _, m := range l.model {
			if !m.prune {
				k := key{m.str, m.call, m.input}
				pool[k] = append(pool[k], m.visAfter)
			}
		}
		for _, w := range dur {
			wantLoaded = append(wantLoaded, w.str)
		}
		for _, w := range durableEntries(withoutPrunes(l.plain())) {
			k := key{w.str, w.call, w.input}
			var seg []string
			if len(pool[k]) > 0 {
				seg = pool[k][0]
				pool[k] = pool[k][1:]
			}
			if w.height >= resumeH {
				wantReplay = append(wantReplay, w.str)
				replayEntries = append(replayEntries, w)
				replaySegs = append(replaySegs, seg)
			}
		}
	}
	cut := rc.cut()
	if cut && len(rc.loaded) < len(wantLoaded) { // killed / stopped while replaying
		wantLoaded = wantLoaded[:len(rc.loaded)]
	}
	if strings.Join(rc.loaded, "\n") != strings.Join(wantLoaded, "\n") {
		ck.fail("wal-content", fmt.Sprintf("log after restart differs from the flushed records: %s\nlog:\n%swant:\n%s%s",
			firstDiff(rc.loaded, wantLoaded), joinLines("  ", rc.loaded), joinLines("  ", wantLoaded), ctx()))
	}
	var gotReplay, gotReplayVis []string
	for _, c := range rc.calls {
		if c.replay {
			gotReplay = append(gotReplay, c.desc)
			gotReplayVis = append(gotReplayVis, c.vis...)
		}
	}
	nRep := len(wantReplay)
	if cut && len(gotReplay) < nRep {
		nRep = len(gotReplay)
	}
	if strings.Join(gotReplay, "\n") != strings.Join(wantReplay[:nRep], "\n") {
		ck.fail("replay-exact", fmt.Sprintf("replayed inputs differ from the durable inputs of heights >= %d: %s\n%s", resumeH, firstDiff(gotReplay, wantReplay[:nRep]), ctx()))
	}

	// (R) replaying reproduces the decisions the node took when it first processed the durable inputs
	var wantVis []string
	for _, s := range replaySegs {
		wantVis = append(wantVis, s...)
	}
	if nRep < len(replaySegs) && len(gotReplayVis) <= len(wantVis) {
		// killed while replaying: the decisions so far are a prefix (a decision may be attached to a
		// later entry than the first time, e.g. a re-proposal of the valid value and its own log entry)
		wantVis = wantVis[:len(gotReplayVis)]
	}
	if strings.Join(gotReplayVis, "\n") != strings.Join(wantVis, "\n") {
		ck.fail("replay-fidelity", fmt.Sprintf("decisions taken while replaying differ from the decisions taken on the same durable inputs when they were first processed: %s\nreplay:\n%sfirst time:\n%s%s",
			firstDiff(gotReplayVis, wantVis), joinLines("  ", gotReplayVis), joinLines("  ", wantVis), ctx()))
	}

	// (S) the durable log alone rebuilds the state the previous process had after its last durable input
	lastCall, partial := lastFullyDurableCall(prev)
	if partial {
		ck.c.Info("state-equivalence-skipped-partial-call")
	} else {
		ref2 := newRef(env, prev.cfg.startH, prev.cfg.inc)
		for _, w := range l.lastEnts {
			ref2.applyEntry(cloneEntry(w.entry))
		}
		for i, c := range prev.calls {
			if !c.replay && i <= lastCall {
				ref2.applyCall(c)
			}
		}
		ref1s := newRef(env, resumeH, inc)
		for _, w := range replayEntries {
			ref1s.applyEntry(cloneEntry(w.entry))
		}
		if ref2.sm.Height() < resumeH {
			ck.fail("resume-height", fmt.Sprintf("commit of height %d completed but the inputs that caused it are not durable\n%s", resumeH-1, ctx()))
		}
		pa, pb := probe(env, ref1s.sm, ref1s.app), probe(env, ref2.sm, ref2.app)
		if strings.Join(pa, "\n") != strings.Join(pb, "\n") {
			ck.fail("state-equivalence", fmt.Sprintf("a state machine rebuilt from the durable log reacts differently from one that processed the same inputs without crashing: %s\n%s",
				firstDiff(pa, pb), ctx()))
		}
	}

	// (4) the recovered driver behaves like a driver-less state machine that replays the durable
	// inputs and is then given the same live inputs
	ref1 := newRef(env, resumeH, inc)
	for _, w := range replayEntries[:nRep] {
		ref1.applyEntry(cloneEntry(w.entry))
	}
	for _, c := range rc.calls {
		if !c.replay {
			ref1.applyCall(c)
		}
	}
	got := visOf(rc)
	want := ref1.vis
	if cut && len(got) < len(want) {
		want = want[:len(got)]
	}
	if strings.Join(got, "\n") != strings.Join(want, "\n") {
		ck.fail("recovered-vs-reference", fmt.Sprintf("broadcasts/commits after recovery differ from the reference run on the durable inputs: %s\n%s", firstDiff(got, want), ctx()))
	}
	if !cut && (crash == nil || !crash.graceful) {
		pa, pb := probe(env, rc.sm, rc.app), probe(env, ref1.sm, ref1.app)
		if strings.Join(pa, "\n") != strings.Join(pb, "\n") {
			ck.fail("final-state", fmt.Sprintf("final state after recovery differs from the reference run: %s\n%s", firstDiff(pa, pb), ctx()))
		}
	}

	// (5) resumes at the height after the last completed commit; decisions agree with the uncrashed run
	ck.checkCommits(name, rc, ctx)
	decided := map[types.Height]string{}
	for _, cm := range ck.base.commits {
		decided[cm.h] = cm.v
	}
	for _, cm := range rc.commits {
		if v, ok := decided[cm.h]; ok && v != cm.v && env.concrete[cm.h] {
			ck.fail("decision", fmt.Sprintf("height %d decided %s, the uncrashed run decided %s\n%s", cm.h, cm.v, v, ctx()))
		}
	}

	// statistics
	if len(replayEntries) > 0 {
		ck.c.Label("replayed-entries")
	}
	if len(gotReplayVis) > 0 {
		ck.c.Label("replay-rebroadcasts")
	}
	if lost > 0 {
		ck.c.Label("inputs-lost")
	}
	if resumeH > env.startH {
		ck.c.Label("resume-above-start")
	}
	if len(rc.commits) > 0 {
		ck.c.Label("commit-after-recovery")
	}
	for _, c := range rc.calls {
		if c.replay && strings.HasPrefix(c.desc, "timeout") {
			ck.c.Label("replayed-timeout")
		}
		if c.replay && strings.HasPrefix(c.vis0(), "commit") {
			ck.c.Label("commit-during-replay")
		}
	}
	return rc, replayEntries
}

// checkStartEntries: a start record carries the height that was started.
func (ck *checker) checkStartEntries(name string, r *rec, ctx func() string) {
	for _, w := range r.wal {
		if s, ok := w.entry.(*wal.Start); ok && w.call >= 0 && w.call < len(r.calls) {
			if c := r.calls[w.call]; c.kind == "start" && types.Height(*s) != c.hBefore {
				ck.fail("start-entry-height", fmt.Sprintf("%s: the start of height %d was logged as %s\n%s", name, c.hBefore, w.str, ctx()))
			}
		}
	}
}

// trial runs one crash experiment: kill at the point, restart on the image, feed the rest; then
// (second != nil) kill the recovering process too and recover once more.
// redeliver decides, per delivered-but-not-durable input, whether the peers send it again.
func (ck *checker) trial(p point, redeliver func(idx int) bool, second func(recovery *rec) *crashSpec) {
	env, base := ck.env, ck.base
	order := make([]int, len(env.inputs))
	for i := range order {
		order[i] = i
	}
	l := ck.newLifeline()
	d := ck.dir("crash")
	img := d + ".img"
	spec := p.spec
	cr := ck.run(&runCfg{env: env, tr: l.tr, dir: d, startH: env.startH, order: order, drain: 5, image: img, crash: &spec})
	defer os.RemoveAll(d)
	defer os.RemoveAll(img)

	// the stopped run must be the unstopped run up to the stop (the harness owns the schedule); after
	// an orderly stop the process still does what is left of the current call, which is a prefix too
	if !spec.graceful {
		want := spec.k - 1
		if spec.after || spec.kind == stopHold || spec.kind == stopFail {
			want = spec.k
		}
		if spec.kind == stopKill && (!cr.crashed || len(cr.effects) != want) {
			stats.HarnessError("kill point not reached: %s, effects %d crashed %v", &spec, len(cr.effects), cr.crashed)
		}
		if spec.kind != stopKill && (!cr.stopped || cr.crashed || len(cr.effects) < want) {
			stats.HarnessError("stop point not reached: %s, effects %d stopped %v", &spec, len(cr.effects), cr.stopped)
		}
	}
	for i, e := range cr.effects {
		if i >= len(base.effects) || base.effects[i].desc != e.desc {
			stats.HarnessError("run is not deterministic: effect %d is %q, uncrashed run had %q", i+1, e.desc, base.effects[min(i, len(base.effects)-1)].desc)
		}
	}
	l.absorb("run 0 (before the crash)", cr, nil)
	ctx1 := ck.lifeCtx(l)
	ck.healthy("run 0 (before the crash)", cr, ctx1)
	ck.checkCommits("run 0 (before the crash)", cr, ctx1)

	next, lost := ck.nextOrder(l, redeliver)
	var l2 *lifeline
	img2 := img + ".second"
	if second != nil {
		l2 = l.fork()
		if err := copyDir(walstore.DefaultWALDir(img), walstore.DefaultWALDir(img2)); err != nil {
			stats.HarnessError("copy image: %v", err)
		}
		defer os.RemoveAll(img2)
		defer os.RemoveAll(img2 + ".img")
	}
	rc, _ := ck.recoverRun(l, img, next, lost, nil)
	defer os.RemoveAll(img + ".img")
	for _, n := range p.nt {
		ck.c.NonTrivial(n)
	}
	if spec.graceful {
		ck.c.Label("orderly-stop")
	}
	ck.c.Label("stop:" + spec.label())
	ck.c.Info("experiments-stop:" + spec.label())
	if !spec.graceful && spec.kind != stopKill {
		unp := false
		for _, cm := range cr.commits {
			unp = unp || !cm.persisted
		}
		if unp {
			ck.c.Label("stop-left-decided-block-unpersisted")
			if len(rc.commits) > 0 && rc.commits[0].h == cr.commits[len(cr.commits)-1].h {
				ck.c.Label("unpersisted-height-committed-again-after-restart")
			}
		}
		if cr.runErr != nil {
			ck.c.Label("run-returned-error")
		}
	}
	if second == nil {
		return
	}
	spec2 := second(rc)
	if spec2 == nil {
		return
	}
	// the recovering process is killed as well
	rc2, ents2 := ck.recoverRun(l2, img2, next, lost, spec2)
	if !rc2.cut() {
		stats.HarnessError("second stop point not reached: %s of %d", spec2, len(rc.effects))
	}
	for i, e := range rc2.effects {
		if i >= len(rc.effects) || rc.effects[i].desc != e.desc {
			stats.HarnessError("recovery run is not deterministic: effect %d is %q, first time %q", i+1, e.desc, rc.effects[min(i, len(rc.effects)-1)].desc)
		}
	}
	inReplay := len(rc2.effects) > 0 && rc2.effects[len(rc2.effects)-1].replay || len(rc2.calls) > 0 && rc2.calls[len(rc2.calls)-1].replay
	l2.absorb("run 1 (after recovery, killed again)", rc2, ents2)
	next2, lost2 := ck.nextOrder(l2, redeliver)
	ck.recoverRun(l2, img2+".img", next2, lost2, nil)
	defer os.RemoveAll(img2 + ".img.img")
	ck.c.Label("second-crash")
	ck.c.Label("second-stop:" + spec2.label())
	ck.c.Info("experiments-second-stop:" + spec2.label())
	if inReplay {
		ck.c.NonTrivial("second-crash-during-replay")
	}
}

// withoutPrunes drops the prune records: what the log would hold had nothing ever been pruned.
func withoutPrunes(recs []walRec) []walRec {
	var out []walRec
	for _, x := range recs {
		if !x.prune {
			out = append(out, x)
		}
	}
	return out
}
