package c13

import (
	"context"
	"errors"
	"fmt"
	"os"
	"path/filepath"
	"strings"
	"testing"

	"github.com/NethermindEth/juno/consensus/starknet"
	"github.com/NethermindEth/juno/consensus/types"
	_ "github.com/NethermindEth/juno/encoder/registry"
	"pgregory.net/rapid"

	"verif/harness/internal/stats"
)

func TestMain(m *testing.M) { stats.Main(m) }

const (
	keyProposerValue = "c13-proposer-value-not-logged"
	keyStartAlias    = "c13-start-entry-aliases-height"
)

// known: stats.Known, unless C13_DEBUG_IGNORE_KNOWN is set (used to verify a proposed fix against a
// scratch checkout while the finding is still listed as known).
func known(key string) bool {
	return stats.Known(key) && os.Getenv("C13_DEBUG_IGNORE_KNOWN") == ""
}

func scratchRoot() string {
	if st, err := os.Stat("/dev/shm"); err == nil && st.IsDir() {
		if d, err := os.MkdirTemp("/dev/shm", "verif-c13-"); err == nil {
			return d
		}
	}
	d, err := os.MkdirTemp("", "verif-c13-")
	if err != nil {
		stats.HarnessError("mkdtemp: %v", err)
	}
	return d
}

// ---------------------------------------------------------------------------------------------
// reference: a fresh state machine without any driver or log

type refSM struct {
	sm  SM
	app *app
	vis []string
}

func newRef(env *caseEnv, h types.Height, inc int) *refSM {
	sm, ap := newSM(env, h, inc)
	return &refSM{sm: sm, app: ap}
}

func (r *refSM) take(as []act) []string {
	all, vis := rActions(as)
	r.vis = append(r.vis, vis...)
	return all
}

// applyEntry replays one logged entry through the state machine's replay entry point.
func (r *refSM) applyEntry(e starknet.WALEntry) []string {
	return r.take(r.sm.ProcessWAL(e))
}

// applyCall repeats a call observed on a driver's state machine.
func (r *refSM) applyCall(c callRec) []string {
	switch c.kind {
	case "start":
		return r.take(r.sm.ProcessStart(0))
	case "timeout":
		return r.take(r.sm.ProcessTimeout(c.tm))
	case "proposal":
		m := *c.msg.(*starknet.Proposal)
		return r.take(r.sm.ProcessProposal(&m))
	case "prevote":
		m := *c.msg.(*starknet.Prevote)
		return r.take(r.sm.ProcessPrevote(&m))
	case "precommit":
		m := *c.msg.(*starknet.Precommit)
		return r.take(r.sm.ProcessPrecommit(&m))
	case "wal":
		return r.applyEntry(cloneEntry(c.entry))
	}
	stats.HarnessError("applyCall: unexpected call kind %q", c.kind)
	return nil
}

// probe drives a state machine through a fixed battery of inputs at its current height and returns
// the rendered reactions: two machines in the same consensus state answer identically.
func probe(env *caseEnv, sm SM, ap *app) []string {
	ap.probing = true
	var out []string
	do := func(name string, as []act) {
		all, _ := rActions(as)
		out = append(out, fmt.Sprintf("h%d %s -> %s", sm.Height(), name, strings.Join(all, " | ")))
	}
	h := sm.Height()
	me := env.vs.me
	do("start", sm.ProcessStart(0))
	for rr := 0; rr <= 2; rr++ {
		r := types.Round(rr)
		do(fmt.Sprintf("timeout-propose r%d", rr), sm.ProcessTimeout(types.Timeout{Step: types.StepPropose, Height: h, Round: r}))
		pv := mkVal(mkTag(tagProbe, 0, 0, uint64(rr)))
		id := pv.Hash()
		if p := env.vs.proposerIdx(h, r); p != me {
			v := pv
			do(fmt.Sprintf("proposal r%d", rr), sm.ProcessProposal(&starknet.Proposal{
				MessageHeader: starknet.MessageHeader{Height: h, Round: r, Sender: addrOf(p)}, ValidRound: -1, Value: &v}))
		}
		for j := 0; j < nVal; j++ {
			if j != me {
				x := id
				do(fmt.Sprintf("prevote r%d from%d", rr, j), sm.ProcessPrevote(&starknet.Prevote{
					MessageHeader: starknet.MessageHeader{Height: h, Round: r, Sender: addrOf(j)}, ID: &x}))
			}
		}
		do(fmt.Sprintf("timeout-prevote r%d", rr), sm.ProcessTimeout(types.Timeout{Step: types.StepPrevote, Height: h, Round: r}))
		for j := 0; j < nVal; j++ {
			if j != me {
				do(fmt.Sprintf("precommit-nil r%d from%d", rr, j), sm.ProcessPrecommit(&starknet.Precommit{
					MessageHeader: starknet.MessageHeader{Height: h, Round: r, Sender: addrOf(j)}}))
			}
		}
		do(fmt.Sprintf("timeout-precommit r%d", rr), sm.ProcessTimeout(types.Timeout{Step: types.StepPrecommit, Height: h, Round: r}))
	}
	return out
}

// ---------------------------------------------------------------------------------------------
// crash points

type point struct {
	spec crashSpec
	nt   []string // non-trivial reasons
	// live (long runs): the stop follows a log cleanup that had flushed entries of a live height in
	// the log files written before it
	live bool
}

func isBcast(k byte) bool { return k == 'P' || k == 'V' || k == 'C' }

// classify lists every stop point of the uncrashed run:
//   - a hard kill before and after each of the E effects;
//   - an orderly shutdown (context cancelled, Run returns, Close) while the driver is idle, before
//     every script position;
//   - an orderly shutdown requested in the middle of a call: before each effect, and after the last
//     effect of each call ("after effect k" and "before effect k+1" of one call are the same history);
//     when a commit callback is still entered afterwards, both outcomes of the hand-over;
//   - per commit callback: the listener holds the hand-over and the shutdown arrives while it is
//     blocked; the block writer reports a persist error (Run returns an error by itself).
func classify(base *rec, nInputs int) []point { return classifyFrom(base, nInputs, 0, 0) }

// classifyFrom lists the stop points at effect index >= fromEff (0-based) and the idle shutdowns
// before script positions >= fromPos (long runs only look at the end of the process life).
func classifyFrom(base *rec, nInputs, fromEff, fromPos int) []point {
	eff := base.effects
	var pts []point
	for i := fromEff; i < len(eff); i++ {
		k := i + 1
		// state "before effect k" = effects 1..k-1 done; "after effect k" = effects 1..k done.
		for _, after := range []bool{false, true} {
			p := point{spec: crashSpec{k: k, after: after}}
			last := i - 1 // index of the last effect performed
			if after {
				last = i
			}
			next := last + 1
			if last >= 0 && next < len(eff) && eff[last].kind == 'F' && (isBcast(eff[next].kind) || eff[next].kind == 'O') && !eff[next].replay {
				p.nt = append(p.nt, "between-flush-and-visible")
			}
			if last >= 0 && (eff[last].kind == 'O' || eff[last].kind == 'D') {
				p.nt = append(p.nt, "between-commit-and-prune-flush")
			}
			prop := false
			if last >= 0 {
				prop = eff[last].propAft
			}
			if next < len(eff) && eff[next].kind == 'P' {
				prop = true
			}
			if prop {
				p.nt = append(p.nt, "while-proposer")
			}
			pts = append(pts, p)
		}
	}
	for pos := fromPos; pos <= nInputs; pos++ {
		pts = append(pts, point{spec: crashSpec{graceful: true, gracefulAt: pos}})
	}
	// a commit callback the driver still enters once its context is cancelled at effect index `from`:
	// one of the same call, or (replay does not look at the context) any later one of the replay
	commitFollows := func(from int, after bool) bool {
		lo := from
		if after {
			lo = from + 1
		}
		for j := lo; j < len(eff); j++ {
			same := eff[j].call == eff[from].call || (eff[from].replay && eff[j].replay)
			if !same { // effects of one call, and the effects of the replay, are contiguous
				break
			}
			if eff[j].kind == 'O' {
				return true
			}
		}
		return false
	}
	for i := fromEff; i < len(eff); i++ {
		k := i + 1
		lastOfCall := i == len(eff)-1 || eff[i+1].call != eff[i].call
		for _, after := range []bool{false, true} {
			if after && !lastOfCall {
				continue
			}
			var nt []string
			prop := eff[i].propBef
			if after {
				prop = eff[i].propAft
			}
			if prop {
				nt = append(nt, "while-proposer")
			}
			if commitFollows(i, after) {
				for _, persists := range []bool{false, true} {
					pts = append(pts, point{spec: crashSpec{k: k, after: after, kind: stopCancel, cancelPersists: persists},
						nt: append(append([]string{}, nt...), "shutdown-before-commit-callback")})
				}
				continue
			}
			pts = append(pts, point{spec: crashSpec{k: k, after: after, kind: stopCancel}, nt: nt})
		}
		if eff[i].kind == 'O' {
			pts = append(pts, point{spec: crashSpec{k: k, kind: stopHold}, nt: []string{"shutdown-inside-commit-callback"}})
			pts = append(pts, point{spec: crashSpec{k: k, kind: stopFail}, nt: []string{"failed-commit"}})
		}
	}
	return pts
}

// commitStop: the lifetime ends inside a commit callback that does not persist the block.
func (p point) commitStop() bool {
	return !p.spec.graceful && (p.spec.kind == stopHold || p.spec.kind == stopFail)
}

// ---------------------------------------------------------------------------------------------
// the check

type checker struct {
	t    *testing.T
	rt   *rapid.T // nil in deterministic tests
	c    *stats.Case
	env  *caseEnv
	root string
	seq  int
	base *rec
	// strict: see run
	strict, countedStrict bool
	// fail reports an oracle failure. In TestKnown it records instead of failing.
	fail func(key, msg string)
}

// run executes one process lifetime. While c13-start-entry-aliases-height is listed, the class
// "a height is decided inside ProcessStart" is excluded by construction: that needs two non-nil
// precommits of the other validators to be in the vote counter before the height starts, so the
// second such precommit for a height the node has not reached is held back until it gets there.
func (ck *checker) run(cfg *runCfg) *rec {
	if ck.strict {
		cfg.pcLimit = 2
	}
	cfg.watch = ck.env.long
	r := runDriver(ck.t, cfg)
	if !ck.countedStrict && r.strictDefers > 0 {
		ck.countedStrict = true
		ck.c.Excluded(keyStartAlias)
	}
	return r
}

func (ck *checker) dir(tag string) string {
	ck.seq++
	return filepath.Join(ck.root, fmt.Sprintf("%s%d", tag, ck.seq))
}

func (ck *checker) describe() string {
	env := ck.env
	var b strings.Builder
	fmt.Fprintf(&b, "node under test = validator %d, heights %d, application values %s\n", env.vs.me, env.heights, map[bool]string{true: "stable", false: "fresh per call"}[env.stable])
	if env.long {
		fmt.Fprintf(&b, "LONG RUN: start height %d, filler heights (one round, minimal quorum, no timer fires) %d..%d, then drawn heights up to %d; filler proposers are the senders of the proposals in the script (none = the node itself)\n",
			env.startH, env.startH, env.fillerTo, env.lastH())
	}
	b.WriteString("proposers:")
	for h := env.firstTableH(); h <= env.lastH()+1; h++ {
		for r := 0; r <= 3; r++ {
			fmt.Fprintf(&b, " (h%d r%d)=%d", h, r, env.vs.proposerIdx(h, types.Round(r)))
		}
	}
	b.WriteString("\ntimers (slots until firing, -1 never):")
	for _, k := range sortedKeys(env.delay, func(a, b timerKey) bool {
		if a.h != b.h {
			return a.h < b.h
		}
		if a.r != b.r {
			return a.r < b.r
		}
		return a.step < b.step
	}) {
		if k.r <= 2 {
			fmt.Fprintf(&b, " h%d r%d %s=%d", k.h, k.r, k.step, env.delay[k])
		}
	}
	b.WriteString("\ninvalid values:")
	for v := range env.invalid {
		fmt.Fprintf(&b, " %s", rVal(&v))
	}
	b.WriteString("\nscript:\n")
	hidden := 0
	for i, in := range env.inputs {
		if in.h < env.showFrom {
			hidden++
			continue
		}
		if hidden > 0 {
			fmt.Fprintf(&b, "  ... %d inputs of heights < %d not shown\n", hidden, env.showFrom)
			hidden = 0
		}
		fmt.Fprintf(&b, "  in%-3d %s\n", i, in)
	}
	return b.String()
}

func (e *caseEnv) firstTableH() types.Height {
	if e.tableFrom == 0 {
		return e.startH
	}
	return e.tableFrom
}

func describeRun(name string, r *rec) string {
	var b strings.Builder
	fmt.Fprintf(&b, "--- %s: start height %d, incarnation %d, stop: %s; Run returned %v, blocks persisted %d\n", name, r.cfg.startH, r.cfg.inc, r.cfg.crash, r.runErr, r.persistedCommits())
	ci := -1
	showFrom := r.cfg.env.showFrom // long runs: the calls made at lower heights are not shown
	hidden := 0
	for i, e := range r.effects {
		for ci < e.call {
			ci++
			c := r.calls[ci]
			if c.hBefore < showFrom {
				continue
			}
			fmt.Fprintf(&b, "      call%-3d %s%s  => %s\n", ci, map[bool]string{true: "replay ", false: ""}[c.replay], c.desc, strings.Join(c.acts, " | "))
		}
		if e.call >= 0 && r.calls[e.call].hBefore < showFrom && !strings.Contains(e.note, "cleanup") {
			hidden++
			continue
		}
		if hidden > 0 {
			fmt.Fprintf(&b, "  ... %d effects of calls made at heights < %d not shown\n", hidden, showFrom)
			hidden = 0
		}
		fmt.Fprintf(&b, "  e%-3d %c %s%s\n", i+1, e.kind, e.desc, e.note)
	}
	if hidden > 0 {
		fmt.Fprintf(&b, "  ... %d effects of calls made at heights < %d not shown\n", hidden, showFrom)
	}
	for ci++; ci < len(r.calls); ci++ {
		c := r.calls[ci]
		fmt.Fprintf(&b, "      call%-3d %s%s  => %s\n", ci, map[bool]string{true: "replay ", false: ""}[c.replay], c.desc, strings.Join(c.acts, " | "))
	}
	return b.String()
}

// healthy: a run on an intact directory must not fail on its own.
func (ck *checker) healthy(name string, r *rec, ctx func() string) {
	if r.openErr != nil {
		ck.fail("wal-open", fmt.Sprintf("%s: opening the log failed: %v\n%s", name, r.openErr, ctx()))
	}
	if r.panicVal != "" {
		ck.fail("driver-panic", fmt.Sprintf("%s: driver panicked: %s\n%s", name, r.panicVal, ctx()))
	}
	if len(r.storeErrs) > 0 {
		ck.fail("wal-error", fmt.Sprintf("%s: log store errors %v\n%s", name, r.storeErrs, ctx()))
	}
	if r.runErr != nil && !r.crashed {
		// an error from Run is expected only where the harness caused it: the context error when the
		// shutdown hit a commit callback, the commit listener's failure when the block was not persisted
		expected := false
		if c := r.cfg.crash; r.stopped && c != nil && !c.graceful {
			switch c.kind {
			case stopCancel, stopHold:
				expected = errors.Is(r.runErr, context.Canceled)
			case stopFail:
				expected = true
			}
		}
		if !expected {
			ck.fail("driver-error", fmt.Sprintf("%s: Run returned %v\n%s", name, r.runErr, ctx()))
		}
	}
	if len(r.unlogged) > 0 && os.Getenv("C13_DEBUG_SKIP_LOGGED_BEFORE_VISIBLE") == "" { // knob for sensitivity experiments only
		ck.fail("logged-before-visible", fmt.Sprintf("%s: %s\n%s", name, strings.Join(r.unlogged, "\n"), ctx()))
	}
	for _, c := range r.calls {
		for _, a := range c.acts {
			if strings.HasPrefix(a, "trigger-sync") || strings.HasPrefix(a, "NIL") || strings.HasPrefix(a, "UNKNOWN") {
				stats.HarnessError("%s: unexpected action %s from %s", name, a, c.desc)
			}
		}
	}
	ck.checkStartEntries(name, r, ctx)
	// every message handed to the driver reached the state machine exactly once, in order
	var live []string
	for _, c := range r.calls {
		if !c.replay && (c.kind == "proposal" || c.kind == "prevote" || c.kind == "precommit") {
			live = append(live, c.desc)
		}
	}
	want := r.fedDesc
	if r.cut() && len(live) < len(want) { // the message in flight at the kill / shutdown
		want = want[:len(live)]
	}
	if strings.Join(live, "\n") != strings.Join(want, "\n") {
		ck.fail("delivery", fmt.Sprintf("%s: messages processed differ from messages delivered: %s\n%s", name, firstDiff(live, want), ctx()))
	}
}

type voteKey struct {
	kind byte
	h    types.Height
	r    types.Round
}

// noConflict: oracle (1) - per (height, round, kind) at most one value was ever broadcast.
func (ck *checker) noConflict(runs []*rec, names []string, ctx func() string) {
	seen := map[voteKey]string{}
	where := map[voteKey]string{}
	for i, r := range runs {
		for _, b := range r.bcasts {
			k := voteKey{b.kind, b.h, b.r}
			val := b.id
			if b.kind == 'P' {
				val = fmt.Sprintf("%s vr%d", b.id, b.vr)
			}
			if old, ok := seen[k]; ok && old != val {
				key := "conflicting-vote"
				if b.kind == 'P' {
					key = "conflicting-proposal"
				}
				ck.fail(key, fmt.Sprintf("%s: %s after %s had broadcast %s for the same height and round (%s)\n%s",
					names[i], b, where[k], old, map[byte]string{'P': "proposal", 'V': "prevote", 'C': "precommit"}[b.kind], ctx()))
			}
			if _, ok := seen[k]; !ok {
				seen[k], where[k] = val, names[i]
			}
		}
	}
}

func visOf(r *rec) []string {
	// merge broadcasts and commits in effect order
	var out []string
	bi, ci := 0, 0
	for bi < len(r.bcasts) || ci < len(r.commits) {
		if ci >= len(r.commits) || (bi < len(r.bcasts) && r.bcasts[bi].eff < r.commits[ci].eff) {
			out = append(out, r.bcasts[bi].String())
			bi++
		} else {
			out = append(out, fmt.Sprintf("commit(h%d %s)", r.commits[ci].h, r.commits[ci].v))
			ci++
		}
	}
	return out
}

// checkCommits: the commit callback is called for (height of the block store)+1, where the block
// store advances exactly when a callback returned true.
func (ck *checker) checkCommits(name string, r *rec, ctx func() string) {
	next := r.cfg.startH
	for i, cm := range r.commits {
		if cm.h != next {
			ck.fail("commit-sequence", fmt.Sprintf("%s: commit #%d is for height %d, the block store is at height %d (the process started at height %d)\n%s", name, i, cm.h, next-1, r.cfg.startH, ctx()))
		}
		if cm.persisted {
			next++
		}
	}
}

func (ck *checker) baseline() {
	env := ck.env
	order := make([]int, len(env.inputs))
	for i := range order {
		order[i] = i
	}
	d := ck.dir("base")
	ck.base = ck.run(&runCfg{env: env, tr: newTrial(), dir: d, startH: env.startH, order: order, drain: 5, image: d + ".img"})
	ctx := func() string { return ck.describe() + describeRun("uncrashed run", ck.base) }
	ck.healthy("uncrashed run", ck.base, ctx)
	ck.noConflict([]*rec{ck.base}, []string{"uncrashed run"}, ctx)
	ck.checkCommits("uncrashed run", ck.base, ctx)
}

func (c callRec) vis0() string {
	if len(c.vis) == 0 {
		return ""
	}
	return c.vis[len(c.vis)-1]
}

func (ck *checker) labelBaseline() {
	c, base := ck.c, ck.base
	if len(base.commits) > 0 {
		c.Label("commits>=1")
	}
	if len(base.commits) > 1 {
		c.Label("commits>=2")
	}
	maxR := types.Round(0)
	for _, b := range base.bcasts {
		if b.kind == 'P' {
			c.Label("node-proposed")
			if b.vr >= 0 {
				c.Label("node-reproposed-valid-value")
			}
		}
		if b.kind == 'C' && b.id != "nil" {
			c.Label("node-locked")
		}
		if b.r > maxR {
			maxR = b.r
		}
	}
	if maxR > 0 {
		c.Label("round>0")
	}
	for _, cl := range base.calls {
		if cl.kind == "timeout" && len(cl.acts) > 0 {
			c.Label("timeout-acted")
		}
		if cl.kind == "start" && len(cl.vis) > 0 && strings.HasPrefix(cl.vis0(), "commit") {
			c.Label("commit-inside-start")
		}
	}
	for range base.effects {
		c.Info("effects-total")
	}
}

const propRule = "LONG RUNS (4 % of the cases, drawn with fair coins): one process life of 250-270 heights (thorough: 30 % of them 512-524) from a drawn start height - filler heights (one round; proposal from a drawn proposer, votes of two or three of the others, drawn sender order/silent validator/local swap; no timer fires; in 3 of 4 heights the first 1-5 messages or the whole first round of the NEXT height overtake the last messages of the height, so the log file holds flushed entries of a live height when the height before it is pruned) followed by 1-3 heights of the ordinary generator - so that the walstore's amortised cleanup after 256 prune records (watermark write, log rotation, obsolete-file removal, per-file height reference counts) happens with the real driver in the loop; the cleanup is observed in the directory, not predicted; 3 stops per long case (thorough 10) drawn from the height before the cleanup to the end of the life, 60 % of them in the stretch 'cleanup has run, next prune not durable yet', all stop kinds below, second stop as below; in 25 % of the long cases whose length allows it the FIRST life is stopped in an early filler height instead and the RECOVERING process lives through > 256 heights and is stopped around its own cleanup (directory then holds the previous life's log file too). SHORT CASES (all others, unchanged): drawn role/timer tables and input script (proposals, votes, duplicates, equivocation, early next-height and overtaking messages; 1-3 heights) run unstopped on the real driver+state machine+walstore, then stopped at enumerated points (quick: <=10 drawn points per case, one of them inside a commit callback when the script commits, four more non-trivial; thorough: every point): hard kill before/after each effect (crash image); orderly shutdown = context cancelled while idle before a script position, or in the middle of a call before each effect / after the last effect of a call, Run returns and Close() flushes (a commit callback entered after the cancel persists or not, both); commit listener holds the hand-over and the shutdown arrives while the callback is blocked (OnCommit false, block not persisted); block writer reports a persist error (OnCommit false, Run returns an error, Close()). The process is restarted on the resulting directory at (blocks persisted by the harness's block store)+1 and fed the rest of the script (delivered-but-not-durable inputs re-delivered or lost by draw); in 30% of the experiments (thorough: all) the recovering process is stopped too at a drawn effect (kill, 2 in 10 shutdown, 3 in 10 inside a commit callback when it commits) and recovered again; non-trivial = kill between a Flush and the broadcast/commit it covers, between OnCommit and the prune flush, stop while the node is proposer of its current round, shutdown with a commit callback still ahead in the call, stop inside a commit callback (held hand-over or persist error), second stop during replay, or (long runs) a stop after an observed log cleanup and before the next durable prune / a second stop around the cleanup of the recovered process"

func TestPropCrashRecovery(t *testing.T) {
	crashRecovery(t, stats.Budget{Quick: 1000, Thorough: 1000}, false)
}

// TestRaceCrashRecovery: the same property on a binary built with -race (the driver shares its
// timeout channel and context with timer goroutines; the harness objects are called from them).
func TestRaceCrashRecovery(t *testing.T) {
	crashRecovery(t, stats.Budget{Quick: 20, Thorough: 60}, true)
}

func crashRecovery(t *testing.T, budget stats.Budget, fewPoints bool) {
	root := scratchRoot()
	defer os.RemoveAll(root)
	n := 0
	stats.Check(t, budget, propRule,
		func(rt *rapid.T, c *stats.Case) {
			n++
			var env *caseEnv
			if unif(rt, 1000, "long-run") < longRunPermille {
				env = genLongCase(rt, stats.Thorough() && !fewPoints)
			} else {
				env = genCase(rt)
			}
			fresh := rapid.IntRange(0, 9).Draw(rt, "fresh-values") < 7
			if fresh && known(keyProposerValue) {
				// known finding: a block builder that cannot reproduce its value after a restart makes the
				// node re-propose. Excluded by construction: the application reproduces its values.
				c.Excluded(keyProposerValue)
				fresh = false
			}
			env.stable = !fresh
			caseRoot := filepath.Join(root, fmt.Sprint(n))
			defer os.RemoveAll(caseRoot)
			ck := &checker{t: t, rt: rt, c: c, env: env, root: caseRoot, strict: known(keyStartAlias)}
			ck.fail = func(key, msg string) { c.Violation(key, "%s", msg) }
			c.Fp("me%d st%v start%d", env.vs.me, env.stable, env.startH)
			for _, in := range env.inputs {
				c.Fp("%s", in)
			}
			for h := env.firstTableH(); h <= env.lastH()+1; h++ {
				for r := 0; r <= 2; r++ {
					c.Fp("%d", env.vs.proposerIdx(h, types.Round(r)))
					for s := 0; s < 3; s++ {
						c.Fp("%d", env.delayOf(timerKey{h, types.Step(s), types.Round(r)}))
					}
				}
			}
			ck.baseline()
			ck.labelBaseline()
			if env.long {
				nTrials := ck.longTrials(rt, fewPoints)
				c.Sample(func() any {
					env.showFrom = env.fillerTo - 1
					return map[string]any{"case": ck.describe(), "uncrashed": describeRun("uncrashed run", ck.base), "crash-points": nTrials}
				})
				return
			}
			pts := classify(ck.base, len(env.inputs))
			var chosen []point
			if stats.Thorough() && !fewPoints {
				chosen = pts
			} else {
				var nts, cstops []int
				for i, p := range pts {
					if len(p.nt) > 0 {
						nts = append(nts, i)
					}
					if p.commitStop() {
						cstops = append(cstops, i)
					}
				}
				used := map[int]bool{}
				pick := func(from []int, label string) {
					if len(from) == 0 {
						return
					}
					i := from[rapid.IntRange(0, len(from)-1).Draw(rt, label)]
					if !used[i] {
						used[i] = true
						chosen = append(chosen, pts[i])
					}
				}
				all := make([]int, len(pts))
				for i := range all {
					all[i] = i
				}
				// one stop inside a commit callback (held hand-over + shutdown, or persist error) per case
				// whose script commits at all, then non-trivial points of any kind, then any point
				pick(cstops, "commit-stop-point")
				for i := 0; i < 4; i++ {
					pick(nts, "nontrivial-point")
				}
				for len(chosen) < 10 && len(used) < len(pts) {
					pick(all, "point")
				}
			}
			for _, p := range chosen {
				mode := rapid.IntRange(0, 3).Draw(rt, "redelivery")
				c.Fp("%s m%d", &p.spec, mode)
				var second func(*rec) *crashSpec
				if (stats.Thorough() && !fewPoints) || rapid.IntRange(0, 9).Draw(rt, "second-crash") < 3 {
					second = func(rc *rec) *crashSpec {
						n := len(rc.effects)
						if n == 0 {
							return nil
						}
						hi := n
						if rapid.Bool().Draw(rt, "second-crash-early") { // while replaying or right after
							nr := 0
							for _, e := range rc.effects {
								if e.replay {
									nr++
								}
							}
							hi = min(n, nr+2)
						}
						return drawSecondSpec(rt, rc, 1, hi)
					}
				}
				ck.trial(p, redeliverBy(rt, mode), second)
			}
			c.Sample(func() any {
				return map[string]any{"case": ck.describe(), "uncrashed": describeRun("uncrashed run", ck.base), "crash-points": len(chosen)}
			})
		})
}

// redeliverBy: what the peers do with the delivered-but-not-durable inputs after the stop:
// 0 send all of them again, 1 none, 2/3 drawn per input.
func redeliverBy(rt *rapid.T, mode int) func(int) bool {
	return func(int) bool {
		switch mode {
		case 0:
			return true
		case 1:
			return false
		}
		return rapid.Bool().Draw(rt, "redeliver")
	}
}

// drawSecondSpec draws how the recovering process rc ends, at an effect lo..hi (1-based) of its
// unstopped run: mostly a kill; else an orderly shutdown at that effect, or - when it commits in
// that range (typically while replaying) - a stop inside a commit callback.
func drawSecondSpec(rt *rapid.T, rc *rec, lo, hi int) *crashSpec {
	sp := &crashSpec{k: rapid.IntRange(lo, hi).Draw(rt, "second-crash-k"), after: rapid.Bool().Draw(rt, "second-crash-after")}
	var ocb []int
	for i, e := range rc.effects {
		if e.kind == 'O' && i+1 >= lo && (lo == 1 || i+1 <= hi) {
			ocb = append(ocb, i+1)
		}
	}
	switch x := rapid.IntRange(0, 9).Draw(rt, "second-stop-kind"); {
	case x < 2:
		sp.kind, sp.cancelPersists = stopCancel, rapid.Bool().Draw(rt, "second-cancel-persists")
	case x < 5 && len(ocb) > 0:
		sp.k, sp.after = ocb[rapid.IntRange(0, len(ocb)-1).Draw(rt, "second-commit-stop")], false
		sp.kind = stopHold
		if rapid.Bool().Draw(rt, "second-commit-fails") {
			sp.kind = stopFail
		}
	}
	return sp
}
