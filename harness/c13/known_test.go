package c13

import (
	"os"
	"path/filepath"
	"strings"
	"testing"

	"github.com/NethermindEth/juno/consensus/types"

	"verif/harness/internal/stats"
)

// TestKnownProposerValueNotLogged is the deterministic witness of c13-proposer-value-not-logged.
//
// Validator 0 is proposer of (height 1, round 0); its application yields a new value on every
// request (as consensus/proposer does: a block whose hash depends on the wall clock, kept in an
// in-memory store). Uncrashed it performs
//
//	e1 W start(h1)   e2 F flush   e3 P proposal(h1 r0 X)   e4 F flush   e5 V prevote(h1 r0 X)
//
// The process is killed after e5 and restarted on its log at height 1. The log holds start(h1)
// only - the value X the node proposed was never written - so replay calls Application.Value()
// again, obtains Y != X and broadcasts proposal(h1 r0 Y) and prevote(h1 r0 Y): two different
// proposals and two different prevotes for one (height, round).
func TestKnownProposerValueNotLogged(t *testing.T) {
	root := scratchRoot()
	defer os.RemoveAll(root)
	stats.Once(t, "deterministic witness: proposer of (h1,r0) with a fresh-valued application, killed after its first prevote", func(c *stats.Case) {
		env := &caseEnv{vs: &vset{me: 0, prop: map[hr]int{{1, 0}: 0, {1, 1}: 1, {1, 2}: 2}}, startH: 1, heights: 1,
			delay: map[timerKey]int{}, invalid: map[V]bool{}, stable: false}
		_ = types.Height(0)
		var failed []string
		ck := &checker{t: t, c: c, env: env, root: filepath.Join(root, "w")}
		ck.fail = func(key, msg string) { failed = append(failed, key) }
		ck.baseline()
		k := 0
		for i, e := range ck.base.effects {
			if e.kind == 'V' {
				k = i + 1
				break
			}
		}
		if k == 0 {
			t.Logf("witness: the node did not prevote\n%s", describeRun("uncrashed", ck.base))
			stats.KnownFindingWitness(t, keyProposerValue, false)
			return
		}
		failed = nil
		ck.trial(point{spec: crashSpec{k: k, after: true}}, func(int) bool { return true }, nil)
		got := strings.Join(failed, ",")
		reproduced := strings.Contains(got, "conflicting-proposal") && strings.Contains(got, "conflicting-vote")
		t.Logf("oracles that fired: %s", got)
		stats.KnownFindingWitness(t, keyProposerValue, reproduced)
		if !reproduced && stats.Known(keyProposerValue) {
			t.Logf("known finding %s no longer reproduces (fixed?)", keyProposerValue)
		}
	})
}

// TestKnownStartEntryAliasesHeight is the deterministic witness of c13-start-entry-aliases-height.
//
// Validator 3 is never proposer. While it is at height 1 the complete first round of height 2
// (proposal, two prevotes, two precommits of the others) arrives, then height 1 is decided. The
// next ProcessStart call finds everything it needs, prevotes, precommits and decides height 2 inside
// the call - incrementing s.state.height - before the driver executes the WriteWAL action whose
// entry is (*wal.Start)(&s.state.height): the start of height 2 is logged as start(h3).
func TestKnownStartEntryAliasesHeight(t *testing.T) {
	root := scratchRoot()
	defer os.RemoveAll(root)
	stats.Once(t, "deterministic witness: first round of height 2 arrives while the node is at height 1", func(c *stats.Case) {
		prop := map[hr]int{}
		for h := 1; h <= 3; h++ {
			for r := 0; r <= 2; r++ {
				prop[hr{types.Height(h), types.Round(r)}] = r % 3
			}
		}
		env := &caseEnv{vs: &vset{me: 3, prop: prop}, startH: 1, heights: 2,
			delay: map[timerKey]int{}, invalid: map[V]bool{}, stable: true, concrete: map[types.Height]bool{}}
		v1 := vref{kind: refConcrete, val: mkVal(mkTag(tagOther, 0, 1, 0))}
		v2 := vref{kind: refConcrete, val: mkVal(mkTag(tagOther, 0, 2, 0))}
		add := func(kind, from int, h types.Height, ref vref) {
			env.inputs = append(env.inputs, input{kind: kind, from: from, h: h, r: 0, vr: -1, ref: ref})
		}
		add(kProposal, 0, 1, v1)
		add(kPrevote, 0, 1, v1)
		add(kPrevote, 1, 1, v1)
		add(kProposal, 0, 2, v2) // height 2, early
		add(kPrevote, 0, 2, v2)
		add(kPrevote, 1, 2, v2)
		add(kPrecommit, 0, 2, v2)
		add(kPrecommit, 1, 2, v2)
		add(kPrecommit, 0, 1, v1)
		add(kPrecommit, 1, 1, v1) // decides height 1; height 2 is then decided inside ProcessStart
		var failed []string
		ck := &checker{t: t, c: c, env: env, root: filepath.Join(root, "w")}
		ck.fail = func(key, msg string) { failed = append(failed, key) }
		ck.baseline()
		got := strings.Join(failed, ",")
		t.Logf("oracles that fired: %s; commits %d", got, len(ck.base.commits))
		stats.KnownFindingWitness(t, keyStartAlias, strings.Contains(got, "start-entry-height"))
	})
}
