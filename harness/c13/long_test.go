package c13

import (
	"os"
	"strconv"

	"github.com/NethermindEth/juno/consensus/types"
	"pgregory.net/rapid"

	"verif/harness/internal/stats"
)

// Long runs (process-lifetime thresholds). See genLongCase for what is drawn. This file chooses where
// such a life is stopped; the experiments themselves (stop, restart on the image, oracles) are the
// ones of the short cases (checker.trial / recoverRun), nothing is decided here.
//
// The store's amortised cleanup is OBSERVED (rec.observeDirLocked: the prune watermark file changed
// during a Flush), not predicted. Around an observed cleanup the interesting stretch of the life is
// "the cleanup has run, the next prune is not durable yet": the restart then needs the flushed
// entries of the live height, some of which (the early ones) were written to the log file the
// cleanup has just rotated away from.

// longRunPermille: share of the generated cases that are long runs (drawn with unif, see there). A
// long case costs roughly what a dozen short cases cost (4-5 process lives of ~260 heights each,
// ~4500 effects per life), so the share is small; the short cases keep most of the budget.
var longRunPermille = func() int {
	if v, err := strconv.Atoi(os.Getenv("C13_DEBUG_LONG_PERMILLE")); err == nil { // knob for measurements only
		return v
	}
	return 40
}()

// cleanupWin is the stretch of effects [lo, hi] of a run between an observed cleanup (effect lo =
// the Flush that ran it) and the Flush that makes the next prune durable (effect hi; the end of the
// run when there is none).
type cleanupWin struct {
	c      cleanupRec
	lo, hi int
}

func cleanupWindows(r *rec) []cleanupWin {
	var out []cleanupWin
	for _, c := range r.cleanups {
		w := cleanupWin{c: c, lo: c.eff, hi: len(r.effects) + 1}
	scan:
		for i := c.eff; i < len(r.effects); i++ { // effects after the cleanup flush
			if r.effects[i].kind == 'D' {
				for j := i + 1; j < len(r.effects); j++ {
					if r.effects[j].kind == 'F' {
						w.hi = j + 1
						break scan
					}
				}
				break
			}
		}
		out = append(out, w)
	}
	return out
}

// in: the stop leaves the log in the state "this cleanup has run, the next prune is not durable".
func (w cleanupWin) in(base *rec, s crashSpec) bool {
	if s.graceful {
		if s.gracefulAt >= len(base.posEff) {
			return len(base.effects) >= w.lo && len(base.effects) < w.hi
		}
		n := base.posEff[s.gracefulAt] // effects performed when the shutdown is requested
		return n >= w.lo && n < w.hi
	}
	switch {
	case s.k == w.lo:
		return s.after
	case s.k == w.hi:
		return !s.after || s.kind == stopHold || s.kind == stopFail
	}
	return s.k > w.lo && s.k < w.hi
}

// hsub: h - n, 0 when that is below zero (heights are unsigned).
func hsub(h types.Height, n int) types.Height {
	if uint64(h) <= uint64(n) {
		return 0
	}
	return h - types.Height(n)
}

// effHeight: the height the node was at when it made the call effect i (0-based) belongs to.
func effHeight(r *rec, i int) types.Height {
	if c := r.effects[i].call; c >= 0 && c < len(r.calls) {
		return r.calls[c].hBefore
	}
	return r.cfg.startH
}

// firstEffectAt returns the index of the first effect of a call made at height >= h, and the first
// script position reached after that many effects.
func firstEffectAt(r *rec, h types.Height) (eff, pos int) {
	eff = len(r.effects)
	for i := range r.effects {
		if effHeight(r, i) >= h {
			eff = i
			break
		}
	}
	pos = len(r.posEff)
	for p, n := range r.posEff {
		if n >= eff {
			pos = p
			break
		}
	}
	return
}

// longTrials runs the stop experiments of a long case and returns their number.
func (ck *checker) longTrials(rt *rapid.T, fewPoints bool) int {
	env, base, c := ck.env, ck.base, ck.c
	c.Label("long-run")
	if env.startH > 1 {
		c.Label("long-run:start-height>1")
	}
	if len(base.commits) < env.heights-3 {
		// With the unchanged state machine every filler height decides (seen in the evidence: this label
		// stays at 0). Progress is not part of this property, so a life that stalls early is still a
		// history to stop and recover - it just does not reach the thresholds.
		c.Label("long-run:stalled-in-filler-height")
	}
	wins := cleanupWindows(base)
	live := false
	for _, w := range wins {
		live = live || w.c.liveEntries > 0
	}
	switch {
	case len(wins) == 0:
		c.Label("long-run:below-cleanup-threshold")
	case len(wins) > 1:
		c.Label("long-run:two-cleanups")
		fallthrough
	default:
		c.Label("long-run:crossed-cleanup")
		if live {
			c.Label("long-run:cleanup-with-flushed-entries-of-live-height-in-older-file")
		}
	}
	for _, w := range wins {
		if len(w.c.before) > 0 && len(w.c.after) < len(w.c.before) {
			c.Label("long-run:cleanup-removed-log-file")
		}
		if len(w.c.before) > 0 && len(w.c.after) == len(w.c.before) && w.c.liveEntries > 0 {
			c.Label("long-run:cleanup-kept-referenced-log-file")
		}
	}

	// where the first life is looked at: from the height before the (first observed) cleanup on; the
	// last four heights when there was none
	reached := env.startH
	if n := len(base.effects); n > 0 {
		reached = effHeight(base, n-1)
	}
	fromH := hsub(min(env.lastH(), reached), 3)
	if len(wins) > 0 {
		fromH = hsub(effHeight(base, wins[0].lo-1), 1)
	}
	fromEff, fromPos := firstEffectAt(base, max(fromH, env.startH))
	pts := classifyFrom(base, len(env.inputs), fromEff, fromPos)
	var inWin, nts []int
	for i := range pts {
		for _, w := range wins {
			if w.in(base, pts[i].spec) {
				pts[i].nt = append(pts[i].nt, "stop-after-log-cleanup-before-next-prune")
				if w.c.liveEntries > 0 {
					pts[i].live = true
				}
				inWin = append(inWin, i)
				break
			}
		}
		if len(pts[i].nt) > 0 {
			nts = append(nts, i)
		}
	}
	nPts := stats.Pick(3, 10)
	if fewPoints {
		nPts = 2
	}
	trials := 0
	used := map[int]bool{}
	for trials < nPts && len(used) < len(pts) {
		// long second life: the FIRST life ends early (a filler height), the recovering process is the
		// one that lives long enough to run the cleanup (its log directory then also holds the file of
		// the previous life), and it is stopped after its own cleanup
		earlyTo := hsub(env.lastH(), walCleanupInterval+1) // 0 = the life is too short for that
		if trials == 0 && earlyTo > 0 && earlyTo >= env.startH && unif(rt, 100, "long-second-life") < 25 {
			endEff, _ := firstEffectAt(base, earlyTo+1)
			if endEff >= 1 {
				ck.longSecondLife(rt, endEff)
				trials++
				continue
			}
		}
		var from []int
		switch x := unif(rt, 100, "long-point-class"); {
		case x < 60 && len(inWin) > 0:
			from = inWin
		case x < 80 && len(nts) > 0:
			from = nts
		default:
			from = make([]int, len(pts))
			for i := range from {
				from[i] = i
			}
		}
		i := from[unif(rt, len(from), "long-point")]
		if used[i] {
			continue
		}
		used[i] = true
		p := pts[i]
		mode := rapid.IntRange(0, 3).Draw(rt, "redelivery")
		c.Fp("%s m%d", &p.spec, mode)
		var second func(*rec) *crashSpec
		if rapid.IntRange(0, 9).Draw(rt, "second-crash") < 3 {
			second = func(rc *rec) *crashSpec {
				if len(rc.effects) == 0 {
					return nil
				}
				return drawSecondSpec(rt, rc, 1, len(rc.effects))
			}
		}
		env.showFrom = 0
		if !p.spec.graceful {
			env.showFrom = hsub(effHeight(base, min(p.spec.k, len(base.effects))-1), 2)
		} else if p.spec.gracefulAt < len(env.inputs) {
			env.showFrom = hsub(env.inputs[p.spec.gracefulAt].h, 3)
		} else {
			env.showFrom = hsub(env.lastH(), 3)
		}
		ck.trial(p, redeliverBy(rt, mode), second)
		c.Label("long-run:stopped-around-or-after-threshold")
		if p.live {
			c.Label("long-run:stop-after-cleanup-needs-early-entries-from-older-file")
			c.Info("experiments-stop-after-cleanup-needs-early-entries-from-older-file")
		}
		trials++
	}
	env.showFrom = 0
	return trials
}

// longSecondLife: see longTrials. endEff = number of leading effects of the uncrashed run that belong
// to heights early enough for the recovering process to decide more than walCleanupInterval heights.
// Every delivered-but-not-durable input is sent again: no timer fires in a filler height, so a lost
// message would simply stall the node there (which the short cases generate).
func (ck *checker) longSecondLife(rt *rapid.T, endEff int) {
	env, c := ck.env, ck.c
	sp := crashSpec{k: rapid.IntRange(1, endEff).Draw(rt, "long-first-stop-k"), after: rapid.Bool().Draw(rt, "long-first-stop-after")}
	if unif(rt, 10, "long-first-stop-kind") < 3 {
		sp.kind, sp.cancelPersists = stopCancel, rapid.Bool().Draw(rt, "long-first-cancel-persists")
	}
	c.Fp("second-life %s", &sp)
	crossed, live := false, false
	second := func(rc *rec) *crashSpec {
		n := len(rc.effects)
		if n == 0 {
			return nil
		}
		lo, hi := max(1, n-60), n
		if ws := cleanupWindows(rc); len(ws) > 0 {
			w := ws[len(ws)-1]
			lo, hi = w.lo, min(w.hi, n)
			crossed, live = true, w.c.liveEntries > 0
			if unif(rt, 10, "long-second-stop-wide") < 3 {
				lo, hi = max(1, w.lo-30), n
			}
		}
		env.showFrom = hsub(effHeight(rc, lo-1), 2)
		return drawSecondSpec(rt, rc, lo, hi)
	}
	env.showFrom = 0
	ck.trial(point{spec: sp}, func(int) bool { return true }, second)
	c.Label("long-run:second-life-long")
	if crossed {
		c.Label("long-run:second-life-crossed-cleanup")
		c.NonTrivial("second-stop-around-log-cleanup-of-the-recovered-process")
	}
	if live {
		c.Label("long-run:second-life-cleanup-with-flushed-entries-of-live-height-in-older-file")
	}
}
