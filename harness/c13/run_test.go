package c13

import (
	"context"
	"encoding/binary"
	"errors"
	"fmt"
	"io"
	"iter"
	"os"
	"path/filepath"
	"runtime/debug"
	"sync"
	"sync/atomic"
	"testing"
	"testing/synctest"
	"time"

	"github.com/NethermindEth/juno/consensus/driver"
	"github.com/NethermindEth/juno/consensus/p2p"
	"github.com/NethermindEth/juno/consensus/starknet"
	"github.com/NethermindEth/juno/consensus/tendermint"
	"github.com/NethermindEth/juno/consensus/types"
	"github.com/NethermindEth/juno/consensus/types/actions"
	"github.com/NethermindEth/juno/consensus/types/wal"
	"github.com/NethermindEth/juno/consensus/walstore"
	"github.com/NethermindEth/juno/db"
	"github.com/NethermindEth/juno/db/memory"
	junosync "github.com/NethermindEth/juno/sync"
	"github.com/NethermindEth/juno/utils/log"

	"verif/harness/internal/stats"
)

// ---------------------------------------------------------------------------------------------
// store plumbing (NewTendermintWALStore only calls Path() on the database it is given)

type pathDB struct {
	db.KeyValueStore
	path string
}

func (p pathDB) Path() string { return p.path }

var sharedMem = memory.New()

func openStore(base string) (store, error) {
	return walstore.NewTendermintWALStore[V, H, A](pathDB{KeyValueStore: sharedMem, path: base})
}

func copyDir(src, dst string) error {
	if err := os.MkdirAll(dst, 0o755); err != nil {
		return err
	}
	ents, err := os.ReadDir(src)
	if err != nil {
		if errors.Is(err, os.ErrNotExist) {
			return nil
		}
		return err
	}
	for _, e := range ents {
		s, d := filepath.Join(src, e.Name()), filepath.Join(dst, e.Name())
		if e.IsDir() {
			if err := copyDir(s, d); err != nil {
				return err
			}
			continue
		}
		in, err := os.Open(s)
		if err != nil {
			return err
		}
		out, err := os.Create(d)
		if err != nil {
			in.Close()
			return err
		}
		_, err = io.Copy(out, in)
		in.Close()
		if cerr := out.Close(); err == nil {
			err = cerr
		}
		if err != nil {
			return err
		}
	}
	return nil
}

// ---------------------------------------------------------------------------------------------
// what a run records

type effect struct {
	kind    byte // W F D P V C T O
	desc    string
	call    int  // index of the state-machine call whose actions are being executed
	replay  bool // performed while the driver replays the log
	propBef bool // the node was proposer of its current round when the effect started
	propAft bool
	note    string
}

type bcast struct {
	kind   byte // P V C
	h      types.Height
	r      types.Round
	id     string
	vr     types.Round
	eff    int
	replay bool
}

func (b bcast) String() string {
	switch b.kind {
	case 'P':
		return fmt.Sprintf("bcast-proposal(h%d r%d vr%d %s)", b.h, b.r, b.vr, b.id)
	case 'V':
		return fmt.Sprintf("bcast-prevote(h%d r%d %s)", b.h, b.r, b.id)
	}
	return fmt.Sprintf("bcast-precommit(h%d r%d %s)", b.h, b.r, b.id)
}

// commitRec is one call of the commit callback. persisted is the harness's own model of the block
// store: OnCommit returned true <=> the block of height h was persisted <=> the commit of h
// completed; the chain height after the process is (start height - 1) + number of persisted commits.
type commitRec struct {
	h         types.Height
	v         string
	eff       int
	persisted bool
}

type walRec struct {
	prune   bool
	height  types.Height
	str     string
	entry   starknet.WALEntry
	call    int
	input   int
	flushed bool
}

type callRec struct {
	kind    string // start proposal prevote precommit timeout wal sync
	desc    string
	hBefore types.Height
	acts    []string
	vis     []string
	input   int
	replay  bool
	tm      types.Timeout
	msg     any
	entry   starknet.WALEntry
}

// How a process lifetime ends (besides running to the end of the script).
//
//	stopKill    hard kill before/after effect k: the directory as it is on disk is the crash image;
//	            nothing the process still does is recorded or reaches the image.
//	stopCancel  orderly shutdown requested before/after effect k: the driver's context is cancelled at
//	            that point, the driver finishes whatever it does with a cancelled context, Run returns
//	            and Close() runs; the directory AFTER Close is the image. A commit callback entered
//	            with the context already cancelled hands the block over or not (cancelPersists: the
//	            real listener selects between ctx.Done and the hand-over).
//	stopHold    effect k is a commit callback; the commit listener holds the hand-over (the block
//	            writer does not take the block), the shutdown is requested WHILE the callback is
//	            blocked, OnCommit returns false, Run returns ctx.Err, Close() runs.
//	stopFail    effect k is a commit callback; the block writer reports a persist error: OnCommit
//	            returns false with a live context, Run returns an error, Close() runs.
//
// graceful: orderly shutdown while the driver is idle, before script position gracefulAt.
type stopKind int

const (
	stopKill stopKind = iota
	stopCancel
	stopHold
	stopFail
)

type crashSpec struct {
	k              int // 1-based effect number
	after          bool
	kind           stopKind
	cancelPersists bool // stopCancel: a commit callback entered after the cancel still persists the block
	graceful       bool // orderly shutdown (context cancelled, Close flushes) before script position gracefulAt
	gracefulAt     int
}

func (c *crashSpec) String() string {
	if c == nil {
		return "none"
	}
	if c.graceful {
		return fmt.Sprintf("graceful-stop before script position %d", c.gracefulAt)
	}
	ba := "before"
	if c.after {
		ba = "after"
	}
	switch c.kind {
	case stopCancel:
		return fmt.Sprintf("shutdown requested (context cancelled) %s effect %d, later commit callbacks persist=%v; Run returns, Close()", ba, c.k, c.cancelPersists)
	case stopHold:
		return fmt.Sprintf("commit callback (effect %d) holds the hand-over, shutdown requested while it is blocked: block NOT persisted; Run returns, Close()", c.k)
	case stopFail:
		return fmt.Sprintf("commit callback (effect %d) reports a persist error: block NOT persisted; Run returns, Close()", c.k)
	}
	return fmt.Sprintf("kill %s effect %d", ba, c.k)
}

// label names the stop dimension for the evidence.
func (c *crashSpec) label() string {
	switch {
	case c.graceful:
		return "graceful-idle"
	case c.kind == stopCancel:
		return "graceful-mid-call"
	case c.kind == stopHold:
		return "inside-commit-callback"
	case c.kind == stopFail:
		return "failed-commit"
	}
	return "kill"
}

// trial is what the world outside the process remembers across a crash.
type trial struct {
	mu       sync.Mutex
	seenProp map[hr]V                // first proposal the peers saw from the node per (h, r)
	pcSeen   map[string]map[int]bool // senders of non-nil precommits ever handed to the node
}

func newTrial() *trial {
	return &trial{seenProp: map[hr]V{}, pcSeen: map[string]map[int]bool{}}
}

type runCfg struct {
	env    *caseEnv
	tr     *trial
	dir    string
	startH types.Height
	inc    int
	order  []int
	crash  *crashSpec
	image  string
	drain  int
	// pcLimit: a non-nil precommit above the node's height is held back when it would be the
	// pcLimit-th sender for its (height, round, id). 3 = avoid the block-sync path only.
	pcLimit int
	// watch: after every completed Flush the harness looks at the log directory (file names, prune
	// watermark) to learn when the store's amortised cleanup ran (long runs only; observation only).
	watch bool
}

// cleanupRec: one observed run of the store's cleanup (the prune watermark file changed).
type cleanupRec struct {
	eff           int // number of the Flush effect inside which the cleanup ran
	watermark     uint64
	before, after []string // log files before / after
	// liveHeights: heights above the watermark that had flushed entries (of this process life) in
	// the log files written before the cleanup - what the cleanup must not lose
	liveHeights []types.Height
	liveEntries int
}

const (
	slotLen   = time.Second
	timerStep = 100 * time.Microsecond
	never     = 100000 * time.Hour
)

var errCrashed = errors.New("c13: process killed")

type rec struct {
	mu     sync.Mutex
	cfg    *runCfg
	sm     SM
	app    *app
	cancel context.CancelFunc
	t0     time.Time
	slot   atomic.Int64
	seq    int

	n            int
	crashed      bool // killed (stopKill)
	stopped      bool // the stop point of a stopCancel/stopHold/stopFail spec was reached; the process goes on until Run returns
	held         bool // the commit callback is blocked right now (stopHold)
	inReplay     bool
	propNow      bool
	curInput     int
	effects      []effect
	calls        []callRec
	bcasts       []bcast
	commits      []commitRec
	wal          []walRec
	pendFrom     int
	loaded       []string
	unlogged     []string // logged-before-visible violations
	storeErrs    []string
	fed          []int
	fedSet       map[int]bool
	armed        int
	strictDefers int
	sched        []types.Timeout // ScheduleTimeout actions of the current call not yet executed
	fedDesc      []string
	openErr      error
	runErr       error
	panicVal     string
	closed       bool
	lastWM       string
	lastFiles    []string
	cleanups     []cleanupRec
	posEff       []int
}

// observeDirLocked (watch mode) notes a cleanup when the prune watermark file changed.
func (r *rec) observeDirLocked(initial bool) {
	dir := walstore.DefaultWALDir(r.cfg.dir)
	var files []string
	if ents, err := os.ReadDir(dir); err == nil {
		for _, e := range ents {
			if filepath.Ext(e.Name()) == ".log" {
				files = append(files, e.Name())
			}
		}
	}
	wmBytes, _ := os.ReadFile(filepath.Join(dir, "prune-watermark"))
	wm := string(wmBytes)
	if !initial && wm != r.lastWM {
		c := cleanupRec{eff: r.n, before: r.lastFiles, after: files}
		if len(wmBytes) >= 8 {
			c.watermark = binary.BigEndian.Uint64(wmBytes[len(wmBytes)-8:])
		}
		seen := map[types.Height]bool{}
		for _, w := range r.wal {
			if w.flushed && !w.prune && uint64(w.height) > c.watermark {
				c.liveEntries++
				if !seen[w.height] {
					seen[w.height] = true
					c.liveHeights = append(c.liveHeights, w.height)
				}
			}
		}
		r.cleanups = append(r.cleanups, c)
		r.effects[len(r.effects)-1].note = fmt.Sprintf("  <- log cleanup ran: watermark %d, log files %v -> %v, flushed entries of live heights %v in them: %d",
			c.watermark, c.before, c.after, c.liveHeights, c.liveEntries)
	}
	r.lastWM, r.lastFiles = wm, files
}

func (r *rec) isCrashed() bool {
	r.mu.Lock()
	defer r.mu.Unlock()
	return r.crashed
}

// cut: the lifetime was ended by the harness at its stop point (kill or any orderly stop), so what
// it did is a prefix of what it would have done.
func (r *rec) cut() bool {
	r.mu.Lock()
	defer r.mu.Unlock()
	return r.crashed || r.stopped
}

// persistedCommits is the number of blocks the block store (owned by the harness) took.
func (r *rec) persistedCommits() int {
	n := 0
	for _, cm := range r.commits {
		if cm.persisted {
			n++
		}
	}
	return n
}

// stopLocked: an orderly shutdown is requested now. Unlike a kill the process lives on until Run has
// returned (and closed the log); everything it still does is recorded.
func (r *rec) stopLocked() {
	r.stopped = true
	r.cancel()
}

// enter numbers an effect. It returns false when the process is dead (the effect must not happen).
func (r *rec) enter(kind byte, desc string) bool {
	r.mu.Lock()
	defer r.mu.Unlock()
	if r.crashed {
		return false
	}
	r.n++
	if c := r.cfg.crash; c != nil && !c.graceful && !c.after && c.k == r.n {
		switch c.kind {
		case stopKill:
			r.crashLocked()
			return false
		case stopCancel:
			r.stopLocked()
		}
	}
	r.effects = append(r.effects, effect{kind: kind, desc: desc, call: len(r.calls) - 1, replay: r.inReplay, propBef: r.propNow, propAft: r.propNow})
	return true
}

func (r *rec) leave() {
	r.mu.Lock()
	defer r.mu.Unlock()
	if r.crashed {
		return
	}
	r.effects[len(r.effects)-1].propAft = r.propNow
	if c := r.cfg.crash; c != nil && !c.graceful && c.after && c.k == r.n {
		switch c.kind {
		case stopKill:
			r.crashLocked()
		case stopCancel:
			r.stopLocked()
		}
	}
}

// crashLocked kills the process: nothing after this point is forwarded to the store or recorded,
// the directory as it is on disk right now (completed flushes only; appended-but-unflushed records
// live in process memory and die with it) is the crash image.
func (r *rec) crashLocked() {
	r.crashed = true
	if err := copyDir(walstore.DefaultWALDir(r.cfg.dir), walstore.DefaultWALDir(r.cfg.image)); err != nil {
		stats.HarnessError("copy crash image: %v", err)
	}
	r.cancel()
}

func (r *rec) checkLoggedLocked(what string) {
	for i := r.pendFrom; i < len(r.wal); i++ {
		if !r.wal[i].prune {
			r.unlogged = append(r.unlogged, fmt.Sprintf("%s performed (effect %d) while %s is appended but not flushed", what, r.n, r.wal[i].str))
		}
	}
}

// ---- WAL proxy

type walProxy struct {
	real store
	r    *rec
}

func (p *walProxy) SetWALEntry(e starknet.WALEntry) error {
	desc := rEntry(e)
	if !p.r.enter('W', desc) {
		return errCrashed
	}
	p.r.mu.Lock()
	p.r.wal = append(p.r.wal, walRec{height: e.GetHeight(), str: desc, entry: cloneEntry(e), call: len(p.r.calls) - 1, input: p.r.curInput})
	p.r.mu.Unlock()
	err := p.real.SetWALEntry(e)
	if err != nil {
		p.r.storeErr("SetWALEntry(%s): %v", desc, err)
	}
	p.r.leave()
	return err
}

func (p *walProxy) DeleteWALEntries(h types.Height) error {
	if !p.r.enter('D', fmt.Sprintf("prune(<=h%d)", h)) {
		return errCrashed
	}
	p.r.mu.Lock()
	p.r.wal = append(p.r.wal, walRec{prune: true, height: h, str: fmt.Sprintf("prune(<=h%d)", h), call: len(p.r.calls) - 1, input: p.r.curInput})
	p.r.mu.Unlock()
	err := p.real.DeleteWALEntries(h)
	if err != nil {
		p.r.storeErr("DeleteWALEntries(%d): %v", h, err)
	}
	p.r.leave()
	return err
}

func (r *rec) markFlushedLocked() {
	for i := r.pendFrom; i < len(r.wal); i++ {
		r.wal[i].flushed = true
	}
	r.pendFrom = len(r.wal)
}

func (p *walProxy) Flush() error {
	if !p.r.enter('F', "flush") {
		return errCrashed
	}
	err := p.real.Flush()
	if err != nil {
		p.r.storeErr("Flush: %v", err)
	} else {
		p.r.mu.Lock()
		p.r.markFlushedLocked()
		if p.r.cfg.watch && !p.r.crashed {
			p.r.observeDirLocked(false)
		}
		p.r.mu.Unlock()
	}
	p.r.leave()
	return err
}

func (p *walProxy) LoadAllEntries() iter.Seq2[starknet.WALEntry, error] {
	inner := p.real.LoadAllEntries()
	return func(yield func(starknet.WALEntry, error) bool) {
		p.r.mu.Lock()
		p.r.inReplay = true
		p.r.mu.Unlock()
		defer func() {
			p.r.mu.Lock()
			p.r.inReplay = false
			p.r.mu.Unlock()
		}()
		for e, err := range inner {
			p.r.mu.Lock()
			if err != nil {
				p.r.loaded = append(p.r.loaded, "ERROR "+err.Error())
			} else {
				p.r.loaded = append(p.r.loaded, rEntry(e))
			}
			p.r.mu.Unlock()
			if !yield(e, err) {
				return
			}
		}
	}
}

// Close: an orderly shutdown flushes what is pending (walstore contract); after a kill the image
// has already been taken, so whatever the real Close still writes goes to a directory nobody reads.
func (p *walProxy) Close() error {
	err := p.real.Close()
	p.r.mu.Lock()
	defer p.r.mu.Unlock()
	p.r.closed = true
	if !p.r.crashed {
		if err != nil {
			p.r.storeErrs = append(p.r.storeErrs, fmt.Sprintf("Close: %v", err))
		} else {
			p.r.markFlushedLocked()
		}
	}
	return err
}

func (r *rec) storeErr(f string, a ...any) {
	r.mu.Lock()
	defer r.mu.Unlock()
	r.storeErrs = append(r.storeErrs, fmt.Sprintf(f, a...))
}

// ---- broadcasters, commit listener, TimeoutFn

type propB struct{ r *rec }
type prevB struct{ r *rec }
type precB struct{ r *rec }

func (b propB) Broadcast(_ context.Context, m *starknet.Proposal) {
	r := b.r
	x := bcast{kind: 'P', h: m.Height, r: m.Round, id: rVal(m.Value), vr: m.ValidRound}
	if !r.enter('P', x.String()) {
		return
	}
	r.mu.Lock()
	r.checkLoggedLocked(x.String())
	x.eff, x.replay = r.n, r.inReplay
	r.bcasts = append(r.bcasts, x)
	r.propNow = true
	r.mu.Unlock()
	if m.Value != nil {
		r.cfg.tr.mu.Lock()
		if _, ok := r.cfg.tr.seenProp[hr{m.Height, m.Round}]; !ok {
			r.cfg.tr.seenProp[hr{m.Height, m.Round}] = *m.Value
		}
		r.cfg.tr.mu.Unlock()
	}
	r.leave()
}

func (r *rec) vote(kind byte, h types.Height, rd types.Round, id *H) {
	x := bcast{kind: kind, h: h, r: rd, id: rID(id)}
	if !r.enter(kind, x.String()) {
		return
	}
	r.mu.Lock()
	r.checkLoggedLocked(x.String())
	x.eff, x.replay = r.n, r.inReplay
	r.bcasts = append(r.bcasts, x)
	r.mu.Unlock()
	r.leave()
}

func (b prevB) Broadcast(_ context.Context, m *starknet.Prevote) {
	b.r.vote('V', m.Height, m.Round, m.ID)
}
func (b precB) Broadcast(_ context.Context, m *starknet.Precommit) {
	b.r.vote('C', m.Height, m.Round, m.ID)
}

type commitL struct{ r *rec }

// OnCommit models the commit listener together with the block writer behind it (both outside the
// code under test). The return value IS the block store: true = block h persisted, the commit of h
// completed, the chain height is h from here on (also when the process is killed right after:
// "kill after effect O"); false = block h was not persisted and the chain stays at h-1.
func (c commitL) OnCommit(ctx context.Context, h types.Height, v V) bool {
	r := c.r
	desc := fmt.Sprintf("oncommit(h%d %s)", h, rVal(&v))
	if !r.enter('O', desc) {
		return false
	}
	r.mu.Lock()
	r.checkLoggedLocked(desc)
	idx, ei := len(r.commits), len(r.effects)-1
	r.commits = append(r.commits, commitRec{h: h, v: rVal(&v), eff: r.n})
	r.propNow = false
	spec := r.cfg.crash
	mine := spec != nil && !spec.graceful && spec.k == r.n
	persisted := true
	switch {
	case mine && spec.kind == stopFail:
		// the block writer reports a persist error; nobody asked the process to stop
		r.stopped = true
		persisted = false
	case mine && spec.kind == stopHold:
		// nobody takes the block; the callback waits (as driver.commitListener does) until the
		// shutdown arrives. The harness's main goroutine sees held and cancels (rec.settle).
		r.held = true
		r.mu.Unlock()
		<-ctx.Done()
		r.mu.Lock()
		r.held = false
		persisted = false
	case ctx.Err() != nil:
		// entered after the shutdown was requested: the real listener selects between ctx.Done and
		// the hand-over, both outcomes are possible; the spec says which one this history takes
		persisted = spec != nil && spec.cancelPersists
	}
	r.commits[idx].persisted = persisted
	if !persisted {
		r.effects[ei].note = "  <- returned false: block NOT persisted"
	}
	r.mu.Unlock()
	r.leave()
	return persisted
}

func (c commitL) Listen() <-chan junosync.CommittedBlock { return nil }

func (r *rec) timeoutFn(step types.Step, round types.Round) time.Duration {
	// TimeoutFn is not told the height: take it from the ScheduleTimeout action being executed
	// (the state machine may already have moved to the next height inside the same action list).
	k := timerKey{h: r.sm.Height(), step: step, r: round}
	r.mu.Lock()
	for i, tm := range r.sched {
		if tm.Step == step && tm.Round == round {
			k.h = tm.Height
			r.sched = r.sched[i+1:]
			break
		}
	}
	r.mu.Unlock()
	desc := fmt.Sprintf("arm-timer(h%d r%d %s)", k.h, k.r, k.step)
	if !r.enter('T', desc) {
		return never
	}
	d := r.cfg.env.delayOf(k)
	dur := never
	r.mu.Lock()
	if step == types.StepPropose {
		r.propNow = false
	}
	if d >= 0 {
		r.seq++
		r.armed++
		off := time.Duration(r.seq) * timerStep
		if off >= slotLen/2 {
			stats.HarnessError("too many timers in one run")
		}
		deadline := r.t0.Add(time.Duration(r.slot.Load()+int64(d))*slotLen + slotLen/2 + off)
		dur = time.Until(deadline)
		if dur <= 0 {
			stats.HarnessError("timer deadline in the past")
		}
	}
	r.mu.Unlock()
	r.leave()
	return dur
}

// ---- observing state-machine proxy (forwards everything, alters nothing)

type smProxy struct {
	real SM
	r    *rec
}

func (p *smProxy) Height() types.Height { return p.real.Height() }

func (p *smProxy) observe(c callRec, f func() []act) []act {
	c.hBefore = p.real.Height()
	p.r.mu.Lock()
	c.input, c.replay = p.r.curInput, p.r.inReplay
	dead := p.r.crashed
	p.r.mu.Unlock()
	as := f()
	c.acts, c.vis = rActions(as)
	var sched []types.Timeout
	for _, a := range as {
		if st, ok := a.(*actions.ScheduleTimeout); ok {
			sched = append(sched, types.Timeout(*st))
		}
	}
	p.r.mu.Lock()
	p.r.sched = sched
	if !dead {
		p.r.calls = append(p.r.calls, c)
	}
	p.r.mu.Unlock()
	return as
}

func (p *smProxy) ProcessStart(r types.Round) []act {
	return p.observe(callRec{kind: "start", desc: fmt.Sprintf("start(r%d)", r)}, func() []act { return p.real.ProcessStart(r) })
}

func (p *smProxy) ProcessTimeout(t types.Timeout) []act {
	return p.observe(callRec{kind: "timeout", desc: rTimeout(t), tm: t, input: -1}, func() []act { return p.real.ProcessTimeout(t) })
}

func (p *smProxy) ProcessProposal(m *starknet.Proposal) []act {
	return p.observe(callRec{kind: "proposal", desc: rEntry((*starknet.WALProposal)(m)), msg: m}, func() []act { return p.real.ProcessProposal(m) })
}

func (p *smProxy) ProcessPrevote(m *starknet.Prevote) []act {
	return p.observe(callRec{kind: "prevote", desc: rEntry((*starknet.WALPrevote)(m)), msg: m}, func() []act { return p.real.ProcessPrevote(m) })
}

func (p *smProxy) ProcessPrecommit(m *starknet.Precommit) []act {
	return p.observe(callRec{kind: "precommit", desc: rEntry((*starknet.WALPrecommit)(m)), msg: m}, func() []act { return p.real.ProcessPrecommit(m) })
}

func (p *smProxy) ProcessWAL(e starknet.WALEntry) []act {
	return p.observe(callRec{kind: "wal", desc: rEntry(e), entry: e}, func() []act { return p.real.ProcessWAL(e) })
}

func (p *smProxy) ProcessSync(m *starknet.Proposal, pcs []starknet.Precommit) []act {
	return p.observe(callRec{kind: "sync", desc: "sync"}, func() []act { return p.real.ProcessSync(m, pcs) })
}

// ---- listeners

type lst[M any] struct{ ch chan M }

func (l lst[M]) Listen() <-chan M { return l.ch }

// ---------------------------------------------------------------------------------------------
// the run

func newSM(env *caseEnv, h types.Height, inc int) (SM, *app) {
	ap := &app{env: env, inc: inc, stable: env.stable, ctr: map[types.Height]uint64{}}
	sm := tendermint.New[V, H, A](log.NewNopZapLogger(), addrOf(env.vs.me), ap, env.vs, h)
	ap.height = sm.Height
	return sm, ap
}

func (r *rec) resolveVal(ref vref) *V {
	switch ref.kind {
	case refNil:
		return nil
	case refConcrete:
		v := ref.val
		return &v
	}
	r.cfg.tr.mu.Lock()
	defer r.cfg.tr.mu.Unlock()
	if v, ok := r.cfg.tr.seenProp[ref.at]; ok {
		return &v
	}
	v := mkVal(mkTag(tagUnk, 0, uint64(ref.at.h), uint64(ref.at.r)))
	return &v
}

func (r *rec) resolve(in input) any {
	hd := starknet.MessageHeader{Height: in.h, Round: in.r, Sender: addrOf(in.from)}
	v := r.resolveVal(in.ref)
	var id *H
	if v != nil {
		x := v.Hash()
		id = &x
	}
	switch in.kind {
	case kProposal:
		return &starknet.Proposal{MessageHeader: hd, ValidRound: in.vr, Value: v}
	case kPrevote:
		return &starknet.Prevote{MessageHeader: hd, ID: id}
	}
	return &starknet.Precommit{MessageHeader: hd, ID: id}
}

func descOfMsg(msg any) string {
	switch m := msg.(type) {
	case *starknet.Proposal:
		return rEntry((*starknet.WALProposal)(m))
	case *starknet.Prevote:
		return rEntry((*starknet.WALPrevote)(m))
	case *starknet.Precommit:
		return rEntry((*starknet.WALPrecommit)(m))
	}
	return "?"
}

func pcKey(in input, id *H) string { return fmt.Sprintf("%d/%d/%s", in.h, in.r, rID(id)) }

// mustDefer: a third non-nil precommit for one (height, round, id) above the node's height makes
// the state machine ask the driver for a block sync, which needs a real p2p BlockFetcher. Such a
// message is held back until the node reaches that height (messages may be delayed arbitrarily).
func (r *rec) mustDefer(in input, msg any) bool {
	pc, ok := msg.(*starknet.Precommit)
	if !ok || pc.ID == nil || in.h <= r.sm.Height() {
		return false
	}
	tr := r.cfg.tr
	tr.mu.Lock()
	defer tr.mu.Unlock()
	s := tr.pcSeen[pcKey(in, pc.ID)]
	n := len(s)
	if !s[in.from] {
		n++
	}
	limit := r.cfg.pcLimit
	if limit == 0 {
		limit = 3
	}
	if n >= limit && n < 3 {
		r.strictDefers++
	}
	return n >= limit
}

func (r *rec) notePrecommit(in input, msg any) {
	pc, ok := msg.(*starknet.Precommit)
	if !ok || pc.ID == nil {
		return
	}
	tr := r.cfg.tr
	tr.mu.Lock()
	defer tr.mu.Unlock()
	k := pcKey(in, pc.ID)
	if tr.pcSeen[k] == nil {
		tr.pcSeen[k] = map[int]bool{}
	}
	tr.pcSeen[k][in.from] = true
}

// settle waits until every goroutine of the process is blocked. If the driver is blocked inside a
// commit callback that holds the hand-over (stopHold), this is the moment the shutdown is requested.
func (r *rec) settle() {
	synctest.Wait()
	r.mu.Lock()
	held := r.held
	if held {
		r.stopped = true
	}
	r.mu.Unlock()
	if held {
		r.cancel()
		synctest.Wait()
	}
}

func (r *rec) advance() {
	s := r.slot.Load()
	time.Sleep(time.Until(r.t0.Add(time.Duration(s+1) * slotLen)))
	r.settle()
	r.slot.Store(s + 1)
}

func runDriver(t *testing.T, cfg *runCfg) *rec {
	r := &rec{cfg: cfg, curInput: -1, fedSet: map[int]bool{}}
	synctest.Test(t, func(*testing.T) { r.body() })
	// orderly stops: the image is the directory after Run has returned and Close() has run
	if c := cfg.crash; c != nil && (c.graceful || c.kind != stopKill) && r.openErr == nil {
		if err := copyDir(walstore.DefaultWALDir(cfg.dir), walstore.DefaultWALDir(cfg.image)); err != nil {
			stats.HarnessError("copy image: %v", err)
		}
	}
	return r
}

func (r *rec) body() {
	cfg := r.cfg
	env := cfg.env
	r.t0 = time.Now()
	ctx, cancel := context.WithCancel(context.Background())
	defer cancel()
	r.cancel = cancel

	st, err := openStore(cfg.dir)
	if err != nil {
		r.openErr = err
		return
	}
	if cfg.watch {
		r.mu.Lock()
		r.observeDirLocked(true)
		r.mu.Unlock()
	}
	r.sm, r.app = newSM(env, cfg.startH, cfg.inc)

	propCh := make(chan *starknet.Proposal)
	prevCh := make(chan *starknet.Prevote)
	precCh := make(chan *starknet.Precommit)
	d := driver.New[V, H, A](
		log.NewNopZapLogger(),
		&walProxy{real: st, r: r},
		&smProxy{real: r.sm, r: r},
		commitL{r},
		p2p.Broadcasters[V, H, A]{ProposalBroadcaster: propB{r}, PrevoteBroadcaster: prevB{r}, PrecommitBroadcaster: precB{r}},
		p2p.Listeners[V, H, A]{ProposalListener: lst[*starknet.Proposal]{propCh}, PrevoteListener: lst[*starknet.Prevote]{prevCh}, PrecommitListener: lst[*starknet.Precommit]{precCh}},
		nil, nil,
		r.timeoutFn,
	)
	done := make(chan struct{})
	go func() {
		defer close(done)
		defer func() {
			if p := recover(); p != nil {
				r.mu.Lock()
				r.panicVal = fmt.Sprintf("%v\n%s", p, debug.Stack())
				r.mu.Unlock()
			}
		}()
		err := d.Run(ctx)
		r.mu.Lock()
		r.runErr = err
		r.mu.Unlock()
	}()
	exited := func() bool {
		select {
		case <-done:
			return true
		default:
			return false
		}
	}
	r.settle()
	r.advance()

	feed := func(idx int, msg any) {
		in := env.inputs[idx]
		r.mu.Lock()
		r.curInput = idx
		r.mu.Unlock()
		ok := false
		switch m := msg.(type) {
		case *starknet.Proposal:
			select {
			case propCh <- m:
				ok = true
			case <-done:
			}
		case *starknet.Prevote:
			select {
			case prevCh <- m:
				ok = true
			case <-done:
			}
		case *starknet.Precommit:
			select {
			case precCh <- m:
				ok = true
			case <-done:
			}
		}
		if ok {
			r.mu.Lock()
			r.fed = append(r.fed, idx)
			r.fedDesc = append(r.fedDesc, descOfMsg(msg))
			r.fedSet[idx] = true
			r.mu.Unlock()
			r.notePrecommit(in, msg)
		}
		r.settle()
		r.mu.Lock()
		r.curInput = -1
		r.mu.Unlock()
		r.advance()
	}
	var deferred []int
	flushDeferred := func() {
		for again := true; again; {
			again = false
			for i, idx := range deferred {
				if r.isCrashed() || exited() {
					return
				}
				msg := r.resolve(env.inputs[idx])
				if !r.mustDefer(env.inputs[idx], msg) {
					deferred = append(deferred[:i:i], deferred[i+1:]...)
					feed(idx, msg)
					again = true
					break
				}
			}
		}
	}
	stopped := false
	for pos, idx := range cfg.order {
		if r.isCrashed() || exited() {
			stopped = true
			break
		}
		r.mu.Lock()
		r.posEff = append(r.posEff, r.n) // effects performed before script position pos is reached
		r.mu.Unlock()
		if c := cfg.crash; c != nil && c.graceful && pos >= c.gracefulAt {
			stopped = true
			break
		}
		msg := r.resolve(env.inputs[idx])
		if r.mustDefer(env.inputs[idx], msg) {
			deferred = append(deferred, idx)
			continue
		}
		feed(idx, msg)
		flushDeferred()
	}
	if c := cfg.crash; c != nil && c.graceful {
		stopped = true
	}
	for i := 0; i < cfg.drain && !stopped && !r.isCrashed() && !exited(); i++ {
		r.advance()
		flushDeferred()
	}
	cancel()
	<-done
}

// walModel: what LoadAllEntries must show given the records of all completed flushes (the
// contract verified by C14): prune(h) removes every height <= h for good, everything else appears
// once, grouped by ascending height, in append order.
func durableEntries(recs []walRec) []walRec {
	var w types.Height
	hasW := false
	byH := map[types.Height][]walRec{}
	for _, x := range recs {
		if !x.flushed {
			continue
		}
		if x.prune {
			if !hasW || x.height > w {
				w, hasW = x.height, true
			}
			for h := range byH {
				if h <= w {
					delete(byH, h)
				}
			}
			continue
		}
		if hasW && x.height <= w {
			continue
		}
		byH[x.height] = append(byH[x.height], x)
	}
	hs := sortedKeys(byH, func(a, b types.Height) bool { return a < b })
	var out []walRec
	for _, h := range hs {
		out = append(out, byH[h]...)
	}
	return out
}

var _ = wal.Start(0)
