package c13

import (
	"github.com/NethermindEth/juno/consensus/types"
	"pgregory.net/rapid"
)

// genCase draws one case: the role table, the timer table, and the input script.
//
// The three other validators are arbitrary EXCEPT that, per height, they precommit a non-nil id
// only for the value proposed in one designated ("success") round. A decision needs 2f+1 = 3
// precommits for one id and the node contributes at most one, so at most one value can ever be
// decided per height, whatever the order, the timers and the crash: "the decision never conflicts
// with the uncrashed run" is then implied by the property and not an assumption about timing.
func genCase(rt *rapid.T) *caseEnv {
	me := rapid.IntRange(0, nVal-1).Draw(rt, "me")
	heights := rapid.SampledFrom([]int{1, 1, 2, 2, 2, 3}).Draw(rt, "heights")
	env := &caseEnv{
		vs:       &vset{me: me, prop: map[hr]int{}},
		startH:   1,
		heights:  heights,
		delay:    map[timerKey]int{},
		invalid:  map[V]bool{},
		concrete: map[types.Height]bool{},
	}
	var others []int
	for i := 0; i < nVal; i++ {
		if i != me {
			others = append(others, i)
		}
	}
	roles := []int{me, me, others[0], others[1], others[2]}
	for h := 1; h <= heights+1; h++ {
		for r := 0; r <= 4; r++ {
			env.vs.prop[hr{types.Height(h), types.Round(r)}] = rapid.SampledFrom(roles).Draw(rt, "proposer")
			for s := 0; s < 3; s++ {
				env.delay[timerKey{types.Height(h), types.Step(s), types.Round(r)}] =
					rapid.SampledFrom([]int{0, 0, 0, 0, 0, 1, 1, 2, 3, -1, -1}).Draw(rt, "timer")
			}
		}
	}

	pct := func(p int, label string) bool { return rapid.IntRange(0, 99).Draw(rt, label) < p }
	var perHeight [][]input
	var round0Len []int // number of leading inputs of the height that belong to round 0
	for hh := 1; hh <= heights; hh++ {
		h := types.Height(hh)
		nFail := rapid.SampledFrom([]int{0, 0, 0, 1, 1, 2}).Draw(rt, "failing-rounds")
		var hin []input
		polkaRound := types.Round(-1)
		var polkaRef vref
		r0 := 0
		for rr := 0; rr <= nFail; rr++ {
			r := types.Round(rr)
			success := rr == nFail
			p := env.vs.proposerIdx(h, r)
			var rv vref
			var rin []input
			alt := vref{kind: refConcrete, val: mkVal(mkTag(tagOther, 0, uint64(h), uint64(rr)<<8|1))}
			if p == me {
				rv = vref{kind: refProposalOf, at: hr{h, r}}
			} else {
				vr := types.Round(-1)
				if polkaRound >= 0 && pct(45, "repropose") {
					rv, vr = polkaRef, polkaRound
				} else {
					v := mkVal(mkTag(tagOther, 0, uint64(h), uint64(rr)<<8))
					rv = vref{kind: refConcrete, val: v}
					inv := 15
					if success {
						inv = 4
					}
					if pct(inv, "invalid") {
						env.invalid[v] = true
					}
				}
				present := 65
				if success {
					present = 93
				}
				if pct(present, "proposal-present") {
					rin = append(rin, input{kind: kProposal, from: p, h: h, r: r, vr: vr, ref: rv})
				}
			}
			if success && rv.kind == refConcrete {
				env.concrete[h] = true
			}
			mode := "agree"
			if !success {
				mode = rapid.SampledFrom([]string{"nil", "nil", "split", "polka"}).Draw(rt, "round-mode")
			}
			nilRef := vref{kind: refNil}
			absent := vref{kind: -1}
			var pvChoices, pcChoices []vref
			rep := func(l *[]vref, v vref, n int) {
				for i := 0; i < n; i++ {
					*l = append(*l, v)
				}
			}
			switch mode {
			case "agree":
				rep(&pvChoices, rv, 17)
				rep(&pvChoices, nilRef, 1)
				rep(&pvChoices, alt, 1)
				rep(&pvChoices, absent, 1)
				rep(&pcChoices, rv, 17)
				rep(&pcChoices, nilRef, 1)
				rep(&pcChoices, absent, 2)
			case "nil":
				rep(&pvChoices, nilRef, 7)
				rep(&pvChoices, rv, 1)
				rep(&pvChoices, absent, 2)
			case "split":
				rep(&pvChoices, rv, 4)
				rep(&pvChoices, nilRef, 4)
				rep(&pvChoices, alt, 1)
				rep(&pvChoices, absent, 1)
			case "polka":
				rep(&pvChoices, rv, 9)
				rep(&pvChoices, absent, 1)
				if polkaRound < 0 || pct(50, "newer-polka") {
					polkaRound, polkaRef = r, rv
				}
			}
			if !success {
				rep(&pcChoices, nilRef, 7)
				rep(&pcChoices, absent, 3)
			}
			var pvs, pcs []input
			for _, j := range rapid.Permutation(others).Draw(rt, "prevote-order") {
				ch := rapid.SampledFrom(pvChoices).Draw(rt, "prevote")
				if ch.kind < 0 {
					continue
				}
				pvs = append(pvs, input{kind: kPrevote, from: j, h: h, r: r, ref: ch})
				if pct(4, "equivocate") { // a second, different prevote of the same sender
					other := nilRef
					if ch.kind == refNil {
						other = alt
					}
					pvs = append(pvs, input{kind: kPrevote, from: j, h: h, r: r, ref: other})
				}
			}
			for _, j := range rapid.Permutation(others).Draw(rt, "precommit-order") {
				ch := rapid.SampledFrom(pcChoices).Draw(rt, "precommit")
				if ch.kind < 0 {
					continue
				}
				pcs = append(pcs, input{kind: kPrecommit, from: j, h: h, r: r, ref: ch})
				if ch.kind != refNil && pct(4, "equivocate") {
					pcs = append(pcs, input{kind: kPrecommit, from: j, h: h, r: r, ref: nilRef})
				}
			}
			rin = append(rin, pvs...)
			rin = append(rin, pcs...)
			// local disorder
			if len(rin) > 1 {
				for s := rapid.IntRange(0, 3).Draw(rt, "swaps"); s > 0; s-- {
					i := rapid.IntRange(0, len(rin)-2).Draw(rt, "swap-i")
					j := min(len(rin)-1, i+rapid.IntRange(1, 3).Draw(rt, "swap-d"))
					rin[i], rin[j] = rin[j], rin[i]
				}
			}
			// duplicates (gossip re-delivers)
			for i := 0; i < len(rin); i++ {
				if pct(6, "dup") {
					at := min(len(rin), i+rapid.IntRange(1, 4).Draw(rt, "dup-at"))
					rin = append(rin[:at:at], append([]input{rin[i]}, rin[at:]...)...)
					i++
				}
			}
			hin = append(hin, rin...)
			if rr == 0 {
				r0 = len(hin)
			}
		}
		// a message of a later round overtakes earlier ones (future-round messages, skip-round rule)
		if len(hin) > 4 && pct(30, "overtake") {
			i := rapid.IntRange(3, len(hin)-1).Draw(rt, "overtake-i")
			j := max(0, i-rapid.IntRange(1, 6).Draw(rt, "overtake-d"))
			m := hin[i]
			copy(hin[j+1:i+1], hin[j:i])
			hin[j] = m
			if i >= r0 && j < r0 {
				r0++
			} else if i < r0 && j < r0 {
				// still inside round 0
			}
		}
		perHeight = append(perHeight, hin)
		round0Len = append(round0Len, r0)
	}
	// messages of the next height arrive while the node is still in the previous one
	for i := 1; i < len(perHeight); i++ {
		prev, cur := perHeight[i-1], perHeight[i]
		if len(cur) == 0 {
			continue
		}
		m := 0
		switch x := rapid.IntRange(0, 99).Draw(rt, "early"); {
		case x < 12:
			m = min(len(cur), round0Len[i]) // the whole first round is early
		case x < 50:
			m = min(len(cur), rapid.IntRange(1, 5).Draw(rt, "early-n"))
		}
		if m == 0 {
			continue
		}
		early := append([]input{}, cur[:m]...)
		perHeight[i] = cur[m:]
		for _, e := range early {
			lo := max(0, len(prev)-6)
			at := rapid.IntRange(lo, len(prev)).Draw(rt, "early-at")
			prev = append(prev[:at:at], append([]input{e}, prev[at:]...)...)
		}
		perHeight[i-1] = prev
	}
	for _, l := range perHeight {
		env.inputs = append(env.inputs, l...)
	}
	return env
}
