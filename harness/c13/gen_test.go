package c13

import (
	"github.com/NethermindEth/juno/consensus/types"
	"pgregory.net/rapid"
)

// genCase draws one case: the role table, the timer table, and the input script.
//
// The three other validators are arbitrary EXCEPT that, per height, they precommit a non-nil id
// only for the value proposed in one designated ("success") round. A decision needs 2f+1 = 3
// precommits for one id and the node contributes at most one, so at most one value can ever be
// decided per height, whatever the order, the timers and the crash: "the decision never conflicts
// with the uncrashed run" is then implied by the property and not an assumption about timing.
func genCase(rt *rapid.T) *caseEnv {
	me := rapid.IntRange(0, nVal-1).Draw(rt, "me")
	heights := rapid.SampledFrom([]int{1, 1, 2, 2, 2, 3}).Draw(rt, "heights")
	env := newEnv(me, 1, heights)
	others := env.others()
	genTables(rt, env, 1, types.Height(heights+1))
	var perHeight [][]input
	var round0Len []int // number of leading inputs of the height that belong to round 0
	for hh := 1; hh <= heights; hh++ {
		hin, r0 := genHeight(rt, env, types.Height(hh), others)
		perHeight = append(perHeight, hin)
		round0Len = append(round0Len, r0)
	}
	interleaveEarly(rt, perHeight, round0Len, nil)
	for _, l := range perHeight {
		env.inputs = append(env.inputs, l...)
	}
	return env
}

func newEnv(me int, startH types.Height, heights int) *caseEnv {
	return &caseEnv{
		vs:        &vset{me: me, prop: map[hr]int{}},
		startH:    startH,
		heights:   heights,
		tableFrom: startH,
		delay:     map[timerKey]int{},
		invalid:   map[V]bool{},
		concrete:  map[types.Height]bool{},
	}
}

func (e *caseEnv) others() []int {
	var others []int
	for i := 0; i < nVal; i++ {
		if i != e.vs.me {
			others = append(others, i)
		}
	}
	return others
}

// lastH is the last height the script covers; tables are drawn for tableFrom..lastH+1.
func (e *caseEnv) lastH() types.Height { return e.startH + types.Height(e.heights) - 1 }

// genTables draws the proposer of rounds 0-4 and the timer table for the heights from..to.
func genTables(rt *rapid.T, env *caseEnv, from, to types.Height) {
	me, others := env.vs.me, env.others()
	roles := []int{me, me, others[0], others[1], others[2]}
	for h := from; h <= to; h++ {
		for r := 0; r <= 4; r++ {
			env.vs.prop[hr{h, types.Round(r)}] = rapid.SampledFrom(roles).Draw(rt, "proposer")
			for s := 0; s < 3; s++ {
				env.delay[timerKey{h, types.Step(s), types.Round(r)}] =
					rapid.SampledFrom([]int{0, 0, 0, 0, 0, 1, 1, 2, 3, -1, -1}).Draw(rt, "timer")
			}
		}
	}
}

// genHeight draws the messages the three other validators send for height h (all its rounds).
func genHeight(rt *rapid.T, env *caseEnv, h types.Height, others []int) (hin []input, r0 int) {
	me := env.vs.me
	pct := func(p int, label string) bool { return rapid.IntRange(0, 99).Draw(rt, label) < p }
	{
		nFail := rapid.SampledFrom([]int{0, 0, 0, 1, 1, 2}).Draw(rt, "failing-rounds")
		polkaRound := types.Round(-1)
		var polkaRef vref
		for rr := 0; rr <= nFail; rr++ {
			r := types.Round(rr)
			success := rr == nFail
			p := env.vs.proposerIdx(h, r)
			var rv vref
			var rin []input
			alt := vref{kind: refConcrete, val: mkVal(mkTag(tagOther, 0, uint64(h), uint64(rr)<<8|1))}
			if p == me {
				rv = vref{kind: refProposalOf, at: hr{h, r}}
			} else {
				vr := types.Round(-1)
				if polkaRound >= 0 && pct(45, "repropose") {
					rv, vr = polkaRef, polkaRound
				} else {
					v := mkVal(mkTag(tagOther, 0, uint64(h), uint64(rr)<<8))
					rv = vref{kind: refConcrete, val: v}
					inv := 15
					if success {
						inv = 4
					}
					if pct(inv, "invalid") {
						env.invalid[v] = true
					}
				}
				present := 65
				if success {
					present = 93
				}
				if pct(present, "proposal-present") {
					rin = append(rin, input{kind: kProposal, from: p, h: h, r: r, vr: vr, ref: rv})
				}
			}
			if success && rv.kind == refConcrete {
				env.concrete[h] = true
			}
			mode := "agree"
			if !success {
				mode = rapid.SampledFrom([]string{"nil", "nil", "split", "polka"}).Draw(rt, "round-mode")
			}
			nilRef := vref{kind: refNil}
			absent := vref{kind: -1}
			var pvChoices, pcChoices []vref
			rep := func(l *[]vref, v vref, n int) {
				for i := 0; i < n; i++ {
					*l = append(*l, v)
				}
			}
			switch mode {
			case "agree":
				rep(&pvChoices, rv, 17)
				rep(&pvChoices, nilRef, 1)
				rep(&pvChoices, alt, 1)
				rep(&pvChoices, absent, 1)
				rep(&pcChoices, rv, 17)
				rep(&pcChoices, nilRef, 1)
				rep(&pcChoices, absent, 2)
			case "nil":
				rep(&pvChoices, nilRef, 7)
				rep(&pvChoices, rv, 1)
				rep(&pvChoices, absent, 2)
			case "split":
				rep(&pvChoices, rv, 4)
				rep(&pvChoices, nilRef, 4)
				rep(&pvChoices, alt, 1)
				rep(&pvChoices, absent, 1)
			case "polka":
				rep(&pvChoices, rv, 9)
				rep(&pvChoices, absent, 1)
				if polkaRound < 0 || pct(50, "newer-polka") {
					polkaRound, polkaRef = r, rv
				}
			}
			if !success {
				rep(&pcChoices, nilRef, 7)
				rep(&pcChoices, absent, 3)
			}
			var pvs, pcs []input
			for _, j := range rapid.Permutation(others).Draw(rt, "prevote-order") {
				ch := rapid.SampledFrom(pvChoices).Draw(rt, "prevote")
				if ch.kind < 0 {
					continue
				}
				pvs = append(pvs, input{kind: kPrevote, from: j, h: h, r: r, ref: ch})
				if pct(4, "equivocate") { // a second, different prevote of the same sender
					other := nilRef
					if ch.kind == refNil {
						other = alt
					}
					pvs = append(pvs, input{kind: kPrevote, from: j, h: h, r: r, ref: other})
				}
			}
			for _, j := range rapid.Permutation(others).Draw(rt, "precommit-order") {
				ch := rapid.SampledFrom(pcChoices).Draw(rt, "precommit")
				if ch.kind < 0 {
					continue
				}
				pcs = append(pcs, input{kind: kPrecommit, from: j, h: h, r: r, ref: ch})
				if ch.kind != refNil && pct(4, "equivocate") {
					pcs = append(pcs, input{kind: kPrecommit, from: j, h: h, r: r, ref: nilRef})
				}
			}
			rin = append(rin, pvs...)
			rin = append(rin, pcs...)
			// local disorder
			if len(rin) > 1 {
				for s := rapid.IntRange(0, 3).Draw(rt, "swaps"); s > 0; s-- {
					i := rapid.IntRange(0, len(rin)-2).Draw(rt, "swap-i")
					j := min(len(rin)-1, i+rapid.IntRange(1, 3).Draw(rt, "swap-d"))
					rin[i], rin[j] = rin[j], rin[i]
				}
			}
			// duplicates (gossip re-delivers)
			for i := 0; i < len(rin); i++ {
				if pct(6, "dup") {
					at := min(len(rin), i+rapid.IntRange(1, 4).Draw(rt, "dup-at"))
					rin = append(rin[:at:at], append([]input{rin[i]}, rin[at:]...)...)
					i++
				}
			}
			hin = append(hin, rin...)
			if rr == 0 {
				r0 = len(hin)
			}
		}
		// a message of a later round overtakes earlier ones (future-round messages, skip-round rule)
		if len(hin) > 4 && pct(30, "overtake") {
			i := rapid.IntRange(3, len(hin)-1).Draw(rt, "overtake-i")
			j := max(0, i-rapid.IntRange(1, 6).Draw(rt, "overtake-d"))
			m := hin[i]
			copy(hin[j+1:i+1], hin[j:i])
			hin[j] = m
			if i >= r0 && j < r0 {
				r0++
			} else if i < r0 && j < r0 {
				// still inside round 0
			}
		}
	}
	return hin, r0
}

// interleaveEarly: messages of the next height arrive while the node is still in the previous one.
// notEarly (may be nil): the early part of a height ends before the first input it holds for.
func interleaveEarly(rt *rapid.T, perHeight [][]input, round0Len []int, notEarly func(input) bool) {
	for i := 1; i < len(perHeight); i++ {
		prev, cur := perHeight[i-1], perHeight[i]
		if len(cur) == 0 {
			continue
		}
		m := 0
		if notEarly == nil {
			switch x := rapid.IntRange(0, 99).Draw(rt, "early"); {
			case x < 12:
				m = min(len(cur), round0Len[i]) // the whole first round is early
			case x < 50:
				m = min(len(cur), rapid.IntRange(1, 5).Draw(rt, "early-n"))
			}
		} else {
			// long runs: same shapes, 3 heights in 4 have early messages (fair draws, see unif)
			switch x := unif(rt, 100, "early"); {
			case x < 15:
				m = min(len(cur), round0Len[i])
			case x < 75:
				m = min(len(cur), 1+unif(rt, 5, "early-n"))
			}
			for j := 0; j < m; j++ {
				if notEarly(cur[j]) {
					m = j
				}
			}
		}
		if m == 0 {
			continue
		}
		early := append([]input{}, cur[:m]...)
		perHeight[i] = cur[m:]
		for _, e := range early {
			lo := max(0, len(prev)-6)
			at := rapid.IntRange(lo, len(prev)).Draw(rt, "early-at")
			prev = append(prev[:at:at], append([]input{e}, prev[at:]...)...)
		}
		perHeight[i-1] = prev
	}
}

// ---------------------------------------------------------------------------------------------
// long runs: one process life that crosses the log store's life-time thresholds

// walCleanupInterval mirrors walstore.cleanupPruneRecordInterval (unexported): after that many
// durable prune records in ONE process life the store writes its prune watermark, rotates the log
// file and removes the log files no live height references. Nothing in the oracles depends on the
// number - the harness observes the directory to learn when a cleanup really ran - it only places
// the drawn run lengths around the threshold.
const walCleanupInterval = 256

// genLongCase draws a LONG run: the validator decides total heights in one process life, total
// drawn around the cleanup threshold (thorough: also around twice the threshold). The last 1-3
// heights are drawn by the ordinary generator (genHeight: failing rounds, timers, equivocation ...);
// the heights before them are "filler": one round, the proposal (from a drawn proposer, the node
// itself in about 1 of 5 heights), prevotes and precommits of two or three of the other validators for
// it, no timer ever fires - the cheapest history that decides a height. What is drawn per filler
// height: the proposer, who stays silent, the sender order, a local swap, and - like in the short
// cases - whether the first messages (1-5, or the whole round) of the NEXT height overtake the last
// messages of this one, so that the log file holds flushed entries of a live height next to the
// entries of the height that is being pruned. The start height is 1 or a drawn larger one.
func genLongCase(rt *rapid.T, thorough bool) *caseEnv {
	me := rapid.IntRange(0, nVal-1).Draw(rt, "me")
	total := 0
	switch x := unif(rt, 100, "long-total-class"); {
	case x < 12: // control group: a long life that stops short of the threshold
		total = walCleanupInterval - 6 + unif(rt, 6, "long-total")
	case thorough && x >= 70: // two cleanups
		total = 2*walCleanupInterval + unif(rt, 13, "long-total")
	default:
		total = walCleanupInterval + unif(rt, 15, "long-total")
	}
	tail := 1 + unif(rt, 3, "long-tail-heights")
	start := types.Height(1)
	if unif(rt, 10, "long-start-class") >= 6 {
		start = types.Height(rapid.IntRange(2, 50000).Draw(rt, "long-start"))
	}
	env := newEnv(me, start, total)
	env.long = true
	env.fillerTo = start + types.Height(total-tail) - 1
	env.tableFrom = env.fillerTo + 1
	others := env.others()
	genTables(rt, env, env.tableFrom, env.lastH()+1)
	var perHeight [][]input
	var round0Len []int
	for h := start; h <= env.fillerTo; h++ {
		hin := genFillerHeight(rt, env, h, others)
		perHeight = append(perHeight, hin)
		round0Len = append(round0Len, len(hin))
	}
	for h := env.tableFrom; h <= env.lastH(); h++ {
		hin, r0 := genHeight(rt, env, h, others)
		perHeight = append(perHeight, hin)
		round0Len = append(round0Len, r0)
	}
	// A vote for "what the node proposed in (h, 0)" cannot be sent before the node proposed: in a
	// filler height (no timer ever fires) a vote for a value nobody knows would stall the node for
	// good; the drawn tail heights keep the behaviour of the short cases.
	interleaveEarly(rt, perHeight, round0Len, func(in input) bool {
		return in.h <= env.fillerTo && in.ref.kind == refProposalOf
	})
	for _, l := range perHeight {
		env.inputs = append(env.inputs, l...)
	}
	return env
}

func genFillerHeight(rt *rapid.T, env *caseEnv, h types.Height, others []int) []input {
	me := env.vs.me
	p := rapid.SampledFrom([]int{others[0], others[1], others[2], me}).Draw(rt, "filler-proposer")
	env.vs.prop[hr{h, 0}] = p
	var hin []input
	rv := vref{kind: refProposalOf, at: hr{h, 0}}
	if p != me {
		rv = vref{kind: refConcrete, val: mkVal(mkTag(tagOther, 0, uint64(h), 0))}
		env.concrete[h] = true
		hin = append(hin, input{kind: kProposal, from: p, h: h, r: 0, vr: -1, ref: rv})
	}
	// the node's own vote + two others = quorum; index 3 = nobody stays silent (the third vote of a
	// kind then arrives late, for the precommits usually after the height was decided)
	silent := []int{0, 1, 2, 0, 1, 2, 3}
	rot := rapid.IntRange(0, 2).Draw(rt, "filler-order")
	for _, kind := range []int{kPrevote, kPrecommit} {
		skip := rapid.SampledFrom(silent).Draw(rt, "filler-silent")
		for i := 0; i < 3; i++ {
			if j := (i + rot) % 3; j != skip {
				hin = append(hin, input{kind: kind, from: others[j], h: h, r: 0, ref: rv})
			}
		}
	}
	if len(hin) > 1 && rapid.IntRange(0, 99).Draw(rt, "filler-swap") < 15 {
		i := rapid.IntRange(0, len(hin)-2).Draw(rt, "filler-swap-i")
		hin[i], hin[i+1] = hin[i+1], hin[i]
	}
	return hin
}

// unif draws a number in [0, n) from ten fair coin flips. rapid's integer generators favour small
// values by design (IntRange(0, 999) is below 30 in about half of the draws), which is wanted for
// sizes but not for "3 % of the cases".
func unif(rt *rapid.T, n int, label string) int {
	x := 0
	for i := 0; i < 10; i++ {
		x <<= 1
		if rapid.Bool().Draw(rt, label) {
			x |= 1
		}
	}
	return x * n >> 10
}
