# Driver configuration for property C13 (read by /verif/checks_config.py)
PROP = dict(
        pkg="c13", level="fault_enumeration",
        technique=("stop-point enumeration over generated input scripts: the real driver.Driver + real tendermint state machine + real "
                   "walstore run in a testing/synctest bubble (virtual time, deterministic schedule), are stopped at every effect - hard kill "
                   "(crash image), orderly shutdown (context cancelled, Run returns, Close flushes), shutdown while the commit callback holds "
                   "the hand-over, commit-listener failure - restarted on the resulting directory (and stopped again while recovering) and "
                   "compared with driver-less reference state machines and the harness's own block store"),
        level_text=("Fault enumeration: for every generated script the uncrashed run's effects (log append, flush, prune, each broadcast, timer "
                    "arming, commit callback) are numbered and the run is repeated and killed before and after EVERY effect (thorough; quick: "
                    "<= 10 drawn points per script: one inside a commit callback when the script commits, four more non-trivial ones). Besides kills "
                    "the same enumeration covers orderly stops, where the process lives on until Run has returned and Close() has flushed: the "
                    "context is cancelled while the driver is idle (before every script position) or in the middle of a call (before every effect "
                    "and after the last effect of every call; a commit callback entered with the cancelled context persists the block or not, both "
                    "variants); the commit listener holds the hand-over and the shutdown arrives while the callback is blocked (OnCommit returns "
                    "false, Run returns ctx.Err); the block writer reports a persist error (OnCommit returns false with a live context, Run returns "
                    "an error by itself). The harness owns the block store: a block is persisted, and the commit of its height completed, exactly "
                    "when OnCommit returned true. A new driver + state machine is started on the resulting directory at (persisted blocks)+1 and "
                    "fed the rest of the script, with delivered-but-not-durable inputs re-delivered or lost by draw; the recovering process is "
                    "stopped as well at a drawn effect (every experiment in the thorough tier, 30 % in quick; kill, shutdown, or inside a commit "
                    "callback of the replay) and recovered again. Oracles: no two different proposals/prevotes/"
                    "precommits per (height, round) across all process lifetimes; no appended-but-unflushed input at any broadcast or commit; the "
                    "log after restart = the flushed records; no durable prune record for a height whose commit has not completed; replay = exactly "
                    "the flushed entries of the heights whose commit has not completed, in order (independent of what the driver pruned); the commit "
                    "callback is only called for (block store height)+1; Run returns an error only where the harness caused one; decisions during "
                    "replay = decisions taken when the same entries were first processed; a state machine rebuilt from the durable log answers a "
                    "probe battery like one that processed the same inputs uncrashed; the recovered driver's broadcasts/commits and final state = "
                    "those of a driver-less reference machine; commits consecutive from the resume height and equal to the uncrashed run's; a "
                    "start record carries the started height. The stop space per script is enumerated exhaustively for the first stop; scripts "
                    "and second stops are sampled, so absence of defects is shown for the enumerated (script, point) pairs only."),
        rule=("TestPropCrashRecovery: drawn node index, proposer table, per-(height,step,round) timer table (fires 0-3 script positions after "
              "arming, or never), script for 1-3 heights of proposals/prevotes/precommits of the 3 other validators (agreeing, nil, split and "
              "polka-without-commit rounds, re-proposals with valid round, invalid values, duplicates, equivocation, overtaking future-round "
              "messages, next-height messages arriving early); application values fresh-per-call (70 %, redirected to reproducible values while "
              "c13-proposer-value-not-logged is listed) or reproducible; while c13-start-entry-aliases-height is listed the second non-nil "
              "precommit for a height the node has not reached is delayed. Stop points: kill before/after each effect; orderly shutdown while idle "
              "(per script position) or mid-call (before each effect, after the last effect of each call); per commit callback a held hand-over "
              "with the shutdown arriving meanwhile, and a persist error. Non-trivial = the kill lies between a Flush and the broadcast/commit "
              "it covers, between OnCommit and the prune flush, the stop happens while the node is proposer of its current round, a shutdown is "
              "requested with a commit callback still ahead in the same call, the stop is inside a commit callback (shutdown-inside-commit-"
              "callback, failed-commit), or the second stop hits the replay. Distinct = SHA-256 of script, tables and chosen points (stop kind "
              "included). info.crash-points counts process restarts checked; labels stop:kill / stop:graceful-idle / stop:graceful-mid-call / "
              "stop:inside-commit-callback / stop:failed-commit (and second-stop:...) count cases, info.experiments-stop:... count experiments "
              "per stop kind; stop-left-decided-block-unpersisted / unpersisted-height-committed-again-after-restart / run-returned-error show "
              "that the stops inside the commit callback leave a decided but unpersisted height that is decided again from the log. "
              "TestRaceCrashRecovery: same body under -race (thorough tier). TestKnown...: deterministic witnesses of the two listed findings."),
        assumptions=["a kill loses exactly what walstore has not flushed: records appended with SetWALEntry live in process memory; a completed Flush is durable "
                     "and atomic (C14 checks torn/corrupted tails of the log file itself)",
                     "the chain height after a restart is (last height whose OnCommit returned true): the harness's commit listener IS the block store; "
                     "OnCommit is atomic (persisted or not); a process killed right after OnCommit returned true has persisted the block",
                     "an orderly stop is: context cancelled (or the commit listener returning false), Run returns, the driver's own deferred Close() "
                     "runs to completion before the directory is reused; broadcasts the driver still hands to a broadcaster with a cancelled context "
                     "count as sent; a commit callback entered with a cancelled context may or may not persist (both generated)",
                     "the commit listener blocks only in the lifetime that is stopped inside it (a slow but eventually successful hand-over is not generated)",
                     "the other validators precommit a non-nil id only for the proposal of one designated round per height (so a height has one possible decision)",
                     "a third non-nil precommit for one (height, round, id) above the node's height is delayed until the node reaches that height "
                     "(the block-sync path needs a real p2p BlockFetcher and is out of scope)",
                     "the observing proxy in front of the state machine forwards every call unchanged; Application.Valid is a pure predicate that survives restarts",
                     "virtual time: a timer fires at the drawn script position; Go-runtime interleavings inside one bubble are those synctest produces",
                     "at most two stops per experiment"],
        runs=[dict(run="^Test(Prop|Known)"), dict(run="^TestRace", race=True, thorough_only=True)],
    )
