# Driver configuration for property C13 (read by /verif/checks_config.py)
PROP = dict(
        pkg="c13", level="fault_enumeration",
        technique=("stop-point enumeration over generated input scripts: the real driver.Driver + real tendermint state machine + real "
                   "walstore run in a testing/synctest bubble (virtual time, deterministic schedule), are stopped at every effect - hard kill "
                   "(crash image), orderly shutdown (context cancelled, Run returns, Close flushes), shutdown while the commit callback holds "
                   "the hand-over, commit-listener failure - restarted on the resulting directory (and stopped again while recovering) and "
                   "compared with driver-less reference state machines and the harness's own block store; 4 % of the cases are LONG process "
                   "lives (250-270 heights, thorough also 512-524) that cross the walstore's 256-prune cleanup with the driver in the loop and "
                   "are stopped around/after the observed cleanup"),
        level_text=("Fault enumeration: for every generated script the uncrashed run's effects (log append, flush, prune, each broadcast, timer "
                    "arming, commit callback) are numbered and the run is repeated and killed before and after EVERY effect (thorough; quick: "
                    "<= 10 drawn points per script: one inside a commit callback when the script commits, four more non-trivial ones). Besides kills "
                    "the same enumeration covers orderly stops, where the process lives on until Run has returned and Close() has flushed: the "
                    "context is cancelled while the driver is idle (before every script position) or in the middle of a call (before every effect "
                    "and after the last effect of every call; a commit callback entered with the cancelled context persists the block or not, both "
                    "variants); the commit listener holds the hand-over and the shutdown arrives while the callback is blocked (OnCommit returns "
                    "false, Run returns ctx.Err); the block writer reports a persist error (OnCommit returns false with a live context, Run returns "
                    "an error by itself). The harness owns the block store: a block is persisted, and the commit of its height completed, exactly "
                    "when OnCommit returned true. A new driver + state machine is started on the resulting directory at (persisted blocks)+1 and "
                    "fed the rest of the script, with delivered-but-not-durable inputs re-delivered or lost by draw; the recovering process is "
                    "stopped as well at a drawn effect (every experiment in the thorough tier, 30 % in quick; kill, shutdown, or inside a commit "
                    "callback of the replay) and recovered again. Oracles: no two different proposals/prevotes/"
                    "precommits per (height, round) across all process lifetimes; no appended-but-unflushed input at any broadcast or commit; the "
                    "log after restart = the flushed records; no durable prune record for a height whose commit has not completed; replay = exactly "
                    "the flushed entries of the heights whose commit has not completed, in order (independent of what the driver pruned); the commit "
                    "callback is only called for (block store height)+1; Run returns an error only where the harness caused one; decisions during "
                    "replay = decisions taken when the same entries were first processed; a state machine rebuilt from the durable log answers a "
                    "probe battery like one that processed the same inputs uncrashed; the recovered driver's broadcasts/commits and final state = "
                    "those of a driver-less reference machine; commits consecutive from the resume height and equal to the uncrashed run's; a "
                    "start record carries the started height. The stop space per script is enumerated exhaustively for the first stop; scripts "
                    "and second stops are sampled, so absence of defects is shown for the enumerated (script, point) pairs only. "
                    "Process-lifetime thresholds: in 4 % of the cases (fair-coin draw) the script is a LONG RUN - one process life that decides "
                    "250-270 heights (thorough: 30 % of the long runs 512-524 = two cleanups) from a drawn start height, built from cheap filler "
                    "heights (one round, minimal quorum, no timer fires) whose log entries interleave with early messages of the next height in 3 "
                    "of 4 heights, plus 1-3 ordinary drawn heights at the end - so the store's amortised cleanup after 256 prune records "
                    "(prune-watermark write, log rotation, obsolete-file removal driven by the per-file height reference counts) runs under the "
                    "real driver while flushed entries of the live next height sit in the file being rotated away. The harness watches the "
                    "directory after every Flush and learns from the changed watermark file when a cleanup ran (nothing is predicted from the "
                    "constant); 3 stops per long case (thorough 10) are drawn from the height before the cleanup to the end of the life, 60 % in "
                    "the stretch 'cleanup ran, next prune not durable', of every stop kind, then restart + the same oracles; in a quarter of the "
                    "long cases the first life is stopped in an early filler height and the RECOVERED process is the one that lives > 256 heights "
                    "and is stopped around its own cleanup. These stops are sampled (a long life costs ~70 ms), not enumerated."),
        rule=("TestPropCrashRecovery: 4 % LONG RUNS (label long-run; unif = fair-coin draws because rapid's integer generators favour small "
              "values): drawn node index, start height 1 (60 %) or 2..50000, total heights 256-270 (12 %: 250-255 control group below the "
              "threshold, label long-run:below-cleanup-threshold; thorough 30 %: 512-524, label long-run:two-cleanups); the last 1-3 heights come "
              "from the ordinary per-height generator with drawn proposer/timer tables, all heights before are filler heights (drawn proposer - "
              "the node itself in ~1 of 5 -, votes of two or three of the others with drawn silent validator and sender rotation, 15 % one local "
              "swap, no timer fires); in 3 of 4 heights the first 1-5 messages (15 %: the whole first round) of the next height are moved to "
              "drawn positions among the last 6 messages of the height before (votes for 'what the node proposed' are never moved before the "
              "node's proposal in filler heights: without timers that would stall the node). Labels long-run:crossed-cleanup (cleanup observed in "
              "the directory), long-run:cleanup-with-flushed-entries-of-live-height-in-older-file (at that moment the files written before the "
              "cleanup held flushed entries of a height above the watermark), long-run:cleanup-removed-log-file / cleanup-kept-referenced-log-"
              "file, long-run:stop-after-cleanup-needs-early-entries-from-older-file (a chosen stop lies after such a cleanup and before the next "
              "durable prune: the restart must read entries the cleanup had to keep; info.experiments-stop-after-cleanup-... counts experiments), "
              "long-run:second-life-long / second-life-crossed-cleanup (first life stopped in an early filler height, all not-durable inputs "
              "re-delivered, the recovered process crosses the cleanup and is stopped around it). Non-trivial additionally = stop-after-log-"
              "cleanup-before-next-prune, second-stop-around-log-cleanup-of-the-recovered-process. SHORT CASES (96 %, unchanged): drawn node index, proposer table, per-(height,step,round) timer table (fires 0-3 script positions after "
              "arming, or never), script for 1-3 heights of proposals/prevotes/precommits of the 3 other validators (agreeing, nil, split and "
              "polka-without-commit rounds, re-proposals with valid round, invalid values, duplicates, equivocation, overtaking future-round "
              "messages, next-height messages arriving early); application values fresh-per-call (70 %, redirected to reproducible values while "
              "c13-proposer-value-not-logged is listed) or reproducible; while c13-start-entry-aliases-height is listed the second non-nil "
              "precommit for a height the node has not reached is delayed. Stop points: kill before/after each effect; orderly shutdown while idle "
              "(per script position) or mid-call (before each effect, after the last effect of each call); per commit callback a held hand-over "
              "with the shutdown arriving meanwhile, and a persist error. Non-trivial = the kill lies between a Flush and the broadcast/commit "
              "it covers, between OnCommit and the prune flush, the stop happens while the node is proposer of its current round, a shutdown is "
              "requested with a commit callback still ahead in the same call, the stop is inside a commit callback (shutdown-inside-commit-"
              "callback, failed-commit), or the second stop hits the replay. Distinct = SHA-256 of script, tables and chosen points (stop kind "
              "included). info.crash-points counts process restarts checked; labels stop:kill / stop:graceful-idle / stop:graceful-mid-call / "
              "stop:inside-commit-callback / stop:failed-commit (and second-stop:...) count cases, info.experiments-stop:... count experiments "
              "per stop kind; stop-left-decided-block-unpersisted / unpersisted-height-committed-again-after-restart / run-returned-error show "
              "that the stops inside the commit callback leave a decided but unpersisted height that is decided again from the log. "
              "TestRaceCrashRecovery: same body under -race (thorough tier). TestKnown...: deterministic witnesses of the two listed findings."),
        assumptions=["a kill loses exactly what walstore has not flushed: records appended with SetWALEntry live in process memory; a completed Flush is durable "
                     "and atomic (C14 checks torn/corrupted tails of the log file itself)",
                     "the chain height after a restart is (last height whose OnCommit returned true): the harness's commit listener IS the block store; "
                     "OnCommit is atomic (persisted or not); a process killed right after OnCommit returned true has persisted the block",
                     "an orderly stop is: context cancelled (or the commit listener returning false), Run returns, the driver's own deferred Close() "
                     "runs to completion before the directory is reused; broadcasts the driver still hands to a broadcaster with a cancelled context "
                     "count as sent; a commit callback entered with a cancelled context may or may not persist (both generated)",
                     "the commit listener blocks only in the lifetime that is stopped inside it (a slow but eventually successful hand-over is not generated)",
                     "the other validators precommit a non-nil id only for the proposal of one designated round per height (so a height has one possible decision)",
                     "a third non-nil precommit for one (height, round, id) above the node's height is delayed until the node reaches that height "
                     "(the block-sync path needs a real p2p BlockFetcher and is out of scope)",
                     "the observing proxy in front of the state machine forwards every call unchanged; Application.Valid is a pure predicate that survives restarts",
                     "virtual time: a timer fires at the drawn script position; Go-runtime interleavings inside one bubble are those synctest produces",
                     "at most two stops per experiment",
                     "long runs: the stop points of a long life are sampled from its last heights (or, for the long second life, from its first "
                     "heights), not enumerated; a kill is observed between two store calls, never inside one Flush (torn cleanups - watermark written "
                     "but log not rotated, rotated but obsolete files not removed - are C14's fault points on the store alone)",
                     "walstore has no size-triggered log rotation (a log file is rotated only by the 256-prune cleanup or after a failed append), so "
                     "none is generated; the 512 KiB encoded-batch buffer cap would need ~5000 unflushed entries in one batch and is not reached"],
        runs=[dict(run="^Test(Prop|Known)"), dict(run="^TestRace", race=True, thorough_only=True)],
    )
