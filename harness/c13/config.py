# Driver configuration for property C13 (read by /verif/checks_config.py)
PROP = dict(
        pkg="c13", level="fault_enumeration",
        technique=("crash-point enumeration over generated input scripts: the real driver.Driver + real tendermint state machine + real "
                   "walstore run in a testing/synctest bubble (virtual time, deterministic schedule), are killed before/after every effect, "
                   "restarted on the crash image (and killed again while recovering) and compared with driver-less reference state machines"),
        level_text=("Fault enumeration: for every generated script the uncrashed run's effects (log append, flush, prune, each broadcast, timer "
                    "arming, commit callback) are numbered and the run is repeated and killed before and after EVERY effect (thorough; quick: "
                    "<= 10 drawn points per script, half of them non-trivial) and stopped in an orderly way before every script position; a new "
                    "driver + state machine is started on the crash image at (last completed commit)+1 and fed the rest of the script, with "
                    "delivered-but-not-durable inputs re-delivered or lost by draw; the recovering process is killed as well at a drawn effect "
                    "(every experiment in the thorough tier, 30 % in quick) and recovered again. Oracles: no two different proposals/prevotes/"
                    "precommits per (height, round) across all process lifetimes; no appended-but-unflushed input at any broadcast or commit; the "
                    "log after restart = the flushed records; replay = exactly the flushed entries of unpruned heights in order; decisions during "
                    "replay = decisions taken when the same entries were first processed; a state machine rebuilt from the durable log answers a "
                    "probe battery like one that processed the same inputs uncrashed; the recovered driver's broadcasts/commits and final state = "
                    "those of a driver-less reference machine; commits consecutive from the resume height and equal to the uncrashed run's; a "
                    "start record carries the started height. The crash space per script is enumerated exhaustively for the first kill; scripts "
                    "and second kills are sampled, so absence of defects is shown for the enumerated (script, point) pairs only."),
        rule=("TestPropCrashRecovery: drawn node index, proposer table, per-(height,step,round) timer table (fires 0-3 script positions after "
              "arming, or never), script for 1-3 heights of proposals/prevotes/precommits of the 3 other validators (agreeing, nil, split and "
              "polka-without-commit rounds, re-proposals with valid round, invalid values, duplicates, equivocation, overtaking future-round "
              "messages, next-height messages arriving early); application values fresh-per-call (70 %, redirected to reproducible values while "
              "c13-proposer-value-not-logged is listed) or reproducible; while c13-start-entry-aliases-height is listed the second non-nil "
              "precommit for a height the node has not reached is delayed. Non-trivial = the kill lies between a Flush and the broadcast/commit "
              "it covers, between OnCommit and the prune flush, while the node is proposer of its current round, or the second kill hits the "
              "replay. Distinct = SHA-256 of script, tables and chosen points. info.crash-points counts process restarts checked. "
              "TestRaceCrashRecovery: same body under -race (thorough tier). TestKnown...: deterministic witnesses of the two listed findings."),
        assumptions=["a kill loses exactly what walstore has not flushed: records appended with SetWALEntry live in process memory; a completed Flush is durable "
                     "and atomic (C14 checks torn/corrupted tails of the log file itself)",
                     "the chain height after a restart is (last height whose OnCommit returned true); OnCommit is atomic (persisted or not)",
                     "the other validators precommit a non-nil id only for the proposal of one designated round per height (so a height has one possible decision)",
                     "a third non-nil precommit for one (height, round, id) above the node's height is delayed until the node reaches that height "
                     "(the block-sync path needs a real p2p BlockFetcher and is out of scope)",
                     "the observing proxy in front of the state machine forwards every call unchanged; Application.Valid is a pure predicate that survives restarts",
                     "virtual time: a timer fires at the drawn script position; Go-runtime interleavings inside one bubble are those synctest produces",
                     "at most two kills per experiment"],
        runs=[dict(run="^Test(Prop|Known)"), dict(run="^TestRace", race=True, thorough_only=True)],
    )
