// Package c13: a validator that crashes and recovers from its write-ahead log does not contradict
// what it already sent (property C13).
//
// The REAL driver.Driver runs the REAL tendermint state machine on the REAL walstore (scratch
// directory). Everything the driver touches is a harness object that numbers the call as an EFFECT:
//
//	W SetWALEntry   F Flush   D DeleteWALEntries      (transparent proxy in front of the real store)
//	P/V/C broadcast of a proposal / prevote / precommit
//	T TimeoutFn (= a timer is being armed)             O CommitListener.OnCommit
//
// A transparent observing proxy in front of the real state machine records every Process* call and
// the actions it returned (observation only; nothing is altered). Runs execute inside a
// testing/synctest bubble: time is virtual, synctest.Wait() is the quiescence barrier, so a run is a
// deterministic function of (script, timer table, stop point) and no oracle depends on a wall clock.
//
// A process lifetime ends (crashSpec, run_test.go) by a hard kill before/after an effect (the
// directory as it is = crash image), or in an orderly way - context cancelled while idle or in the
// middle of a call, context cancelled while the commit callback holds the hand-over, commit listener
// reporting a persist error - where Run returns, the driver's deferred Close() flushes what is
// pending and only then the directory is reused. The commit listener is the harness's block store:
// OnCommit returning true = block persisted = commit of that height completed; the next lifetime
// starts at (persisted blocks)+1.
package c13

import (
	"fmt"
	"sort"
	"strings"

	"github.com/NethermindEth/juno/consensus/starknet"
	"github.com/NethermindEth/juno/consensus/tendermint"
	"github.com/NethermindEth/juno/consensus/types"
	"github.com/NethermindEth/juno/consensus/types/actions"
	"github.com/NethermindEth/juno/consensus/types/wal"
	"github.com/NethermindEth/juno/consensus/walstore"
	"github.com/NethermindEth/juno/core/felt"
)

type (
	V     = starknet.Value
	H     = starknet.Hash
	A     = starknet.Address
	SM    = tendermint.StateMachine[V, H, A]
	store = walstore.TendermintWALStore[V, H, A]
	act   = actions.Action[V, H, A]
)

const nVal = 4 // validator set size (f = 1, quorum = 3), every validator has voting power 1

func addrOf(i int) A { return felt.FromUint64[A](uint64(i + 1)) }

func idxOf(a A) int {
	for i := 0; i < nVal; i++ {
		if addrOf(i) == a {
			return i
		}
	}
	return -1
}

// ---------------------------------------------------------------------------------------------
// values: a value is felt(tag); the tag encodes who made it so that renderings are readable.

const (
	tagFresh  = 1 // application value, differs per process incarnation (real block builder)
	tagStable = 2 // application value, a function of (height, n-th request in the height) only
	tagOther  = 3 // proposed by another validator
	tagUnk    = 4 // placeholder for "the proposal of (h,r)" when the node never broadcast one
	tagProbe  = 5 // used by the state probes
)

func mkTag(class, a, b, c uint64) uint64 { return class<<40 | a<<32 | b<<16 | c }

func mkVal(tag uint64) V { return felt.FromUint64[V](tag) }

func tagName(t uint64) string {
	class, a, b, c := t>>40, (t>>32)&0xff, (t>>16)&0xffff, t&0xffff
	switch class {
	case tagFresh:
		return fmt.Sprintf("mine[inc%d h%d #%d]", a, b, c)
	case tagStable:
		return fmt.Sprintf("mine[h%d #%d]", b, c)
	case tagOther:
		return fmt.Sprintf("v[h%d r%d.%d]", b, c>>8, c&0xff)
	case tagUnk:
		return fmt.Sprintf("unknown[h%d r%d]", b, c)
	case tagProbe:
		return fmt.Sprintf("probe[%d.%d]", b, c)
	}
	return fmt.Sprintf("?%x", t)
}

func rFelt(l [4]uint64) string {
	f := felt.Felt(l)
	u := f.Uint64()
	if felt.FromUint64[felt.Felt](u) != f {
		return fmt.Sprintf("?%x", l)
	}
	return tagName(u)
}

func rVal(v *V) string {
	if v == nil {
		return "nil"
	}
	return rFelt([4]uint64(*v))
}

func rID(id *H) string {
	if id == nil {
		return "nil"
	}
	return rFelt([4]uint64(*id))
}

// ---------------------------------------------------------------------------------------------
// validator set

type hr struct {
	h types.Height
	r types.Round
}

type vset struct {
	me   int
	prop map[hr]int
}

func (v *vset) TotalVotingPower(types.Height) types.VotingPower         { return nVal }
func (v *vset) ValidatorVotingPower(types.Height, *A) types.VotingPower { return 1 }
func (v *vset) proposerIdx(h types.Height, r types.Round) int {
	if p, ok := v.prop[hr{h, r}]; ok {
		return p
	}
	return (int(h) + int(r)) % nVal
}
func (v *vset) Proposer(h types.Height, r types.Round) A { return addrOf(v.proposerIdx(h, r)) }

// ---------------------------------------------------------------------------------------------
// application

// app models the block builder behind tendermint.Application. Fresh mode: every Value() call of
// every process incarnation yields a value never seen before (consensus/proposer finishes a new
// block whose hash depends on the wall clock; the proposal store is in memory). Stable mode: the
// n-th request made while at height h always yields the same value, also after a restart.
type app struct {
	env    *caseEnv
	inc    int
	stable bool
	height func() types.Height
	ctr    map[types.Height]uint64
	nCalls int
	// probing: values requested by the state probes are numbered from 1 in every machine (what a
	// fresh-valued application returns AFTER the compared point legitimately differs between processes)
	probing bool
	nProbe  uint64
}

func (a *app) Value() V {
	if a.probing {
		a.nProbe++
		return mkVal(mkTag(tagProbe, 0, 1, a.nProbe))
	}
	h := a.height()
	a.ctr[h]++
	a.nCalls++
	if a.stable {
		return mkVal(mkTag(tagStable, 0, uint64(h), a.ctr[h]))
	}
	return mkVal(mkTag(tagFresh, uint64(a.inc), uint64(h), a.ctr[h]))
}

func (a *app) Valid(v V) bool { return !a.env.invalid[v] }

// ---------------------------------------------------------------------------------------------
// script

const (
	kProposal = iota
	kPrevote
	kPrecommit
)

const (
	refNil = iota
	refConcrete
	refProposalOf // "whatever the node under test proposed in (h, r)" - resolved when fed
)

type vref struct {
	kind int
	val  V
	at   hr
}

type input struct {
	kind int
	from int
	h    types.Height
	r    types.Round
	vr   types.Round // proposals only
	ref  vref
}

func (in input) String() string {
	k := [...]string{"proposal", "prevote", "precommit"}[in.kind]
	var v string
	switch in.ref.kind {
	case refNil:
		v = "nil"
	case refConcrete:
		v = rVal(&in.ref.val)
	default:
		v = fmt.Sprintf("myproposal(h%d r%d)", in.ref.at.h, in.ref.at.r)
	}
	if in.kind == kProposal {
		return fmt.Sprintf("%s(h%d r%d from%d vr%d %s)", k, in.h, in.r, in.from, in.vr, v)
	}
	return fmt.Sprintf("%s(h%d r%d from%d %s)", k, in.h, in.r, in.from, v)
}

type timerKey struct {
	h    types.Height
	step types.Step
	r    types.Round
}

// caseEnv is everything drawn for one generated case.
type caseEnv struct {
	vs      *vset
	startH  types.Height
	heights int
	inputs  []input
	delay   map[timerKey]int // slots until the timer fires once armed; absent / <0 = never
	invalid map[V]bool
	stable  bool
	// concrete[h]: the only value the other validators ever precommit at height h is a fixed value
	// chosen by the script (not "whatever the node proposed"), so h has one possible decision.
	concrete map[types.Height]bool
	// tableFrom: first height with a drawn proposer/timer table (= startH in the short cases)
	tableFrom types.Height
	// long runs (genLongCase): the heights startH..fillerTo are filler heights
	long     bool
	fillerTo types.Height
	// showFrom (rendering only): inputs and calls of lower heights are left out of violation reports
	showFrom types.Height
}

func (e *caseEnv) delayOf(k timerKey) int {
	if d, ok := e.delay[k]; ok {
		return d
	}
	return -1
}

// ---------------------------------------------------------------------------------------------
// renderings

func rHeader(h types.Height, r types.Round, s A) string {
	return fmt.Sprintf("h%d r%d from%d", h, r, idxOf(s))
}

func rEntry(e starknet.WALEntry) string {
	switch v := e.(type) {
	case *wal.Start:
		return fmt.Sprintf("start(h%d)", uint64(*v))
	case *starknet.WALProposal:
		return fmt.Sprintf("proposal(%s vr%d %s)", rHeader(v.Height, v.Round, v.Sender), v.ValidRound, rVal(v.Value))
	case *starknet.WALPrevote:
		return fmt.Sprintf("prevote(%s %s)", rHeader(v.Height, v.Round, v.Sender), rID(v.ID))
	case *starknet.WALPrecommit:
		return fmt.Sprintf("precommit(%s %s)", rHeader(v.Height, v.Round, v.Sender), rID(v.ID))
	case *starknet.WALTimeout:
		return fmt.Sprintf("timeout(h%d r%d %s)", v.Height, v.Round, v.Step)
	}
	return fmt.Sprintf("UNKNOWN(%T)", e)
}

// cloneEntry copies an entry at the time it is handed to the store (ProcessStart hands out a
// pointer INTO the state machine).
func cloneEntry(e starknet.WALEntry) starknet.WALEntry {
	switch v := e.(type) {
	case *wal.Start:
		c := *v
		return &c
	case *starknet.WALProposal:
		c := *v
		if v.Value != nil {
			val := *v.Value
			c.Value = &val
		}
		return &c
	case *starknet.WALPrevote:
		c := *v
		if v.ID != nil {
			id := *v.ID
			c.ID = &id
		}
		return &c
	case *starknet.WALPrecommit:
		c := *v
		if v.ID != nil {
			id := *v.ID
			c.ID = &id
		}
		return &c
	case *starknet.WALTimeout:
		c := *v
		return &c
	}
	return e
}

func rTimeout(t types.Timeout) string {
	return fmt.Sprintf("timeout(h%d r%d %s)", t.Height, t.Round, t.Step)
}

// rAction renders an action; visible reports whether peers / the chain can see it.
func rAction(a act) (s string, visible bool) {
	switch v := a.(type) {
	case *starknet.WriteWAL:
		return "wal:" + rEntry(v.Entry), false
	case *starknet.BroadcastProposal:
		return fmt.Sprintf("bcast-proposal(h%d r%d vr%d %s)", v.Height, v.Round, v.ValidRound, rVal(v.Value)), true
	case *starknet.BroadcastPrevote:
		return fmt.Sprintf("bcast-prevote(h%d r%d %s)", v.Height, v.Round, rID(v.ID)), true
	case *starknet.BroadcastPrecommit:
		return fmt.Sprintf("bcast-precommit(h%d r%d %s)", v.Height, v.Round, rID(v.ID)), true
	case *actions.ScheduleTimeout:
		return "schedule:" + rTimeout(types.Timeout(*v)), false
	case *starknet.Commit:
		return fmt.Sprintf("commit(h%d %s)", v.Height, rVal(v.Value)), true
	case *actions.TriggerSync:
		return fmt.Sprintf("trigger-sync(%d..%d)", v.Start, v.End), false
	case nil:
		return "NIL-ACTION", false
	}
	return fmt.Sprintf("UNKNOWN-ACTION(%T)", a), false
}

func rActions(as []act) (all, vis []string) {
	for _, a := range as {
		s, v := rAction(a)
		all = append(all, s)
		if v {
			vis = append(vis, s)
		}
	}
	return
}

func joinLines(prefix string, l []string) string {
	var b strings.Builder
	for i, s := range l {
		fmt.Fprintf(&b, "%s%3d %s\n", prefix, i, s)
	}
	return b.String()
}

func firstDiff(a, b []string) string {
	for i := 0; i < len(a) || i < len(b); i++ {
		var x, y string = "<end>", "<end>"
		if i < len(a) {
			x = a[i]
		}
		if i < len(b) {
			y = b[i]
		}
		if x != y {
			return fmt.Sprintf("first difference at index %d: %q vs %q", i, x, y)
		}
	}
	return "equal"
}

func sortedKeys[K comparable, T any](m map[K]T, less func(a, b K) bool) []K {
	ks := make([]K, 0, len(m))
	for k := range m {
		ks = append(ks, k)
	}
	sort.Slice(ks, func(i, j int) bool { return less(ks[i], ks[j]) })
	return ks
}
