package c09

import (
	"context"
	"encoding/json"
	"fmt"
	"strings"
	"testing"

	"github.com/NethermindEth/juno/core"
	"github.com/NethermindEth/juno/core/felt"
	"github.com/NethermindEth/juno/jsonrpc"
	"github.com/NethermindEth/juno/rpc"
	rpcv10 "github.com/NethermindEth/juno/rpc/v10"
	rpcv8 "github.com/NethermindEth/juno/rpc/v8"
	rpcv9 "github.com/NethermindEth/juno/rpc/v9"
	"github.com/NethermindEth/juno/sync"
	"github.com/NethermindEth/juno/utils/log"
	"pgregory.net/rapid"

	"verif/harness/internal/gen"
	"verif/harness/internal/node"
	"verif/harness/internal/stats"
)

type rpcEP struct {
	version string
	srv     *jsonrpc.Server
}

func rpcEndpoints(n *node.Node) []rpcEP {
	logger := log.NewNopZapLogger()
	h := rpc.New(n.BC, &sync.NoopSynchronizer{}, nil, "verif", logger, n.Net)
	mk := func(version string, methods []jsonrpc.Method, v jsonrpc.Validator) rpcEP {
		srv := jsonrpc.NewServer(1, logger).WithValidator(v)
		if err := srv.RegisterMethods(methods...); err != nil {
			stats.HarnessError("RegisterMethods %s: %v", version, err)
		}
		return rpcEP{version, srv}
	}
	m10, _ := h.MethodsV0_10()
	m9, _ := h.MethodsV0_9()
	m8, _ := h.MethodsV0_8()
	return []rpcEP{mk("v0_10", m10, rpcv10.Validator()), mk("v0_9", m9, rpcv9.Validator()), mk("v0_8", m8, rpcv8.Validator())}
}

type evResp struct {
	Result *struct {
		Events []struct {
			From   felt.Felt   `json:"from_address"`
			Keys   []felt.Felt `json:"keys"`
			Data   []felt.Felt `json:"data"`
			BlockN uint64      `json:"block_number"`
			BlockH *felt.Felt  `json:"block_hash"`
			TxHash felt.Felt   `json:"transaction_hash"`
		} `json:"events"`
		Token string `json:"continuation_token"`
	} `json:"result"`
	Error *struct {
		Code    int    `json:"code"`
		Message string `json:"message"`
	} `json:"error"`
}

// TestPropRPCGetEvents: starknet_getEvents through the real JSON-RPC stack (v0.8/v0.9/v0.10): the concatenation of the
// pages obtained by following the continuation_token strings equals the naive scan, for any chunk_size.
func TestPropRPCGetEvents(t *testing.T) {
	stats.Check(t, stats.Budget{Quick: 40, Thorough: 1000},
		"small generated chains with dense events, optional reverts (fork), served through starknet_getEvents of API v0.8/v0.9/v0.10 as JSON text: filter with from/to block ids (number, hash, latest, absent), address (absent, single, list with duplicates), key alternatives, chunk_size; pages followed through continuation_token strings and concatenated; oracle = naive scan of the model chain; non-trivial = more than one page and >= 1 matching event",
		func(rt *rapid.T, c *stats.Case) {
			u := gen.NewUniverse(rt)
			ch := gen.NewChain(u, gen.Opts{MaxTxs: 3, MaxEvents: 4, DenseEvents: true, MinVersionIdx: rapid.IntRange(0, 3).Draw(rt, "minver")})
			busyPools(rt, c, u, ch)
			nd := node.New(rapid.Bool().Draw(rt, "newState"), nil, u.Net)
			n := rapid.IntRange(1, 6).Draw(rt, "nblocks")
			for i := 0; i < n; i++ {
				if err := nd.Store(ch.Next(rt)); err != nil {
					c.Violation("valid-block-rejected", "%v", err)
				}
			}
			if n > 1 && rapid.Bool().Draw(rt, "reorg") {
				k := rapid.IntRange(1, n-1).Draw(rt, "depth")
				for i := 0; i < k; i++ {
					if err := nd.BC.RevertHead(); err != nil {
						c.Violation("revert-failed", "%v", err)
					}
				}
				ch = ch.Fork(n - k)
				for i := 0; i < k; i++ {
					if err := nd.Store(ch.Next(rt)); err != nil {
						c.Violation("valid-block-rejected", "%v", err)
					}
				}
				c.Label("reorg")
			}
			head := uint64(ch.Height() - 1)
			eps := rpcEndpoints(nd)
			var model []*core.Block
			for _, b := range ch.Blocks {
				model = append(model, b.B)
			}
			nq := rapid.IntRange(1, 4).Draw(rt, "nq")
			for q := 0; q < nq; q++ {
				f := drawFilter(rt, u)
				from := uint64(rapid.IntRange(0, int(head)).Draw(rt, "from"))
				to := uint64(rapid.IntRange(0, int(head)+2).Draw(rt, "to"))
				chunk := rapid.SampledFrom([]int{1, 2, 3, 7, 1000}).Draw(rt, "chunk")
				filter := map[string]any{"chunk_size": chunk}
				switch rapid.IntRange(0, 3).Draw(rt, "fromkind") {
				case 0:
					from = 0 // absent = from genesis
				case 1:
					filter["from_block"] = map[string]any{"block_hash": ch.Blocks[from].B.Hash.String()}
				default:
					filter["from_block"] = map[string]any{"block_number": from}
				}
				switch rapid.IntRange(0, 3).Draw(rt, "tokind") {
				case 0:
					to = head // absent = up to latest
				case 1:
					filter["to_block"] = "latest"
					to = head
				default:
					filter["to_block"] = map[string]any{"block_number": to}
				}
				if len(f.addrs) == 1 && rapid.Bool().Draw(rt, "singleAddr") {
					filter["address"] = f.addrs[0].String()
				} else if len(f.addrs) > 0 {
					var as []string
					for _, a := range f.addrs {
						as = append(as, a.String())
					}
					filter["address"] = as
				}
				if len(f.keys) > 0 {
					var ks [][]string
					for _, alts := range f.keys {
						row := []string{}
						for _, k := range alts {
							row = append(row, k.String())
						}
						ks = append(ks, row)
					}
					filter["keys"] = ks
				}
				want := scan(model, f, from, min(to, head))
				fb, _ := json.Marshal(filter)
				c.Fp("q %s", fb)
				for _, e := range eps {
					if e.version != "v0_10" {
						if _, isList := filter["address"].([]string); isList {
							continue // a list of addresses is a v0.10 feature; older versions take a single address
						}
					}
					var got []string
					token := ""
					pages := 0
					for {
						flt := map[string]any{}
						for k, v := range filter {
							flt[k] = v
						}
						if token != "" {
							flt["continuation_token"] = token
						}
						pb, _ := json.Marshal([]any{flt})
						req := fmt.Sprintf(`{"jsonrpc":"2.0","id":1,"method":"starknet_getEvents","params":%s}`, pb)
						out, _, err := e.srv.HandleReader(context.Background(), strings.NewReader(req))
						if err != nil {
							c.Violation("rpc-transport-error", "%s %s: %v", e.version, req, err)
						}
						var r evResp
						if err := json.Unmarshal(out, &r); err != nil || (r.Result == nil && r.Error == nil) {
							c.Violation("rpc-unparsable-response", "%s %s: %s", e.version, req, out)
						}
						if r.Error != nil {
							c.Violation("get-events-error", "%s starknet_getEvents(%s) failed: %d %s", e.version, pb, r.Error.Code, r.Error.Message)
						}
						if len(r.Result.Events) > chunk {
							c.Violation("page-exceeds-chunk", "%s: %d events for chunk_size %d", e.version, len(r.Result.Events), chunk)
						}
						for _, ev := range r.Result.Events {
							got = append(got, fmt.Sprintf("b%d/%s tx%s from=%s keys=%d data=%d", ev.BlockN, hashStr(ev.BlockH), ev.TxHash.String(), ev.From.String(), len(ev.Keys), len(ev.Data)))
						}
						pages++
						token = r.Result.Token
						if token == "" {
							break
						}
						if pages > 5000 {
							c.Violation("tokens-do-not-terminate", "%s: > 5000 pages", e.version)
						}
					}
					var wantS []string
					for _, w := range want {
						wantS = append(wantS, fmt.Sprintf("b%d/%s tx%s from=%s keys=%d data=%d", w.block, w.hash, w.tx, w.from.String(), len(w.keys), len(w.data)))
					}
					if strings.Join(got, "|") != strings.Join(wantS, "|") {
						c.Violation("rpc-event-set", "%s starknet_getEvents(%s): got %d events in %d pages, naive scan %d\n got %v\nwant %v", e.version, fb, len(got), pages, len(wantS), got, wantS)
					}
					if pages > 1 && len(want) > 0 {
						c.NonTrivial("multi-page-with-matches")
					}
				}
			}
		})
}
