package c09

// More completed bloom-index windows than the window cache holds (blockchain.AggregatedBloomFilterCacheSize = 16):
// queries that sweep the whole chain cycle the LRU (every window is evicted before it is needed again), queries that
// jump between windows hit and miss in drawn order, and reorgs / restarts at the head happen in between. The base chain
// (18 real windows, 147 450 blocks stored through SanityCheckNewHeight + Store) carries events at fixed heights of every
// window (first, second, a middle one, last-but-one and last block) so that every window has matches for some filters and
// none for others. Thorough tier only: building the base costs about a minute per process.

import (
	"sync"
	"testing"

	"github.com/NethermindEth/juno/blockchain"
	"github.com/NethermindEth/juno/blockchain/networks"
	"github.com/NethermindEth/juno/core"
	"github.com/NethermindEth/juno/core/felt"
	"github.com/NethermindEth/juno/db/memory"
	"pgregory.net/rapid"

	"verif/harness/internal/gen"
	"verif/harness/internal/node"
	"verif/harness/internal/stats"
)

const window = int(core.NumBlocksPerFilter)

var mwWindows = blockchain.AggregatedBloomFilterCacheSize + 2

type manyBase struct {
	mu     sync.Mutex
	chain  *gen.Chain
	dbs    map[bool]*memory.Database
	addrs  []felt.Felt   // senders of the base events
	events []*core.Block // event-bearing base blocks, ascending
}

var mwBase manyBase

func mwEventOffsets(w int) []int {
	return []int{0, 1, 2 + (w*2311)%(window-5), window - 2, window - 1}
}

// get builds the base chain once and, per backend, the stored database on first use.
func (b *manyBase) get(newState bool) (*gen.Chain, *memory.Database) {
	b.mu.Lock()
	defer b.mu.Unlock()
	if b.chain == nil {
		u := gen.NewFixedUniverse()
		b.addrs = []felt.Felt{gen.F(0xa11), gen.F(0xb22), gen.F(0xc33), gen.F(0xd44)}
		ch := gen.NewChain(u, gen.Opts{})
		n := mwWindows*window - 6 // head 6 blocks below a boundary: the generated suffix crosses it
		at := map[int]int{}
		for w := 0; w < mwWindows; w++ {
			for j, off := range mwEventOffsets(w) {
				at[w*window+off] = w*7 + j
			}
		}
		for i := 0; i < n; i++ {
			k, ok := at[i]
			if !ok {
				ch.AppendEmpty("0.13.2")
				continue
			}
			from := b.addrs[k%len(b.addrs)]
			evs := []*core.Event{{From: &from, Keys: []felt.Felt{u.EvKeys[k%len(u.EvKeys)], u.EvKeys[(k/4)%len(u.EvKeys)]}, Data: []felt.Felt{gen.F(uint64(i))}}}
			if k%3 == 0 {
				other := b.addrs[(k+1)%len(b.addrs)]
				evs = append(evs, &core.Event{From: &other, Keys: []felt.Felt{}, Data: []felt.Felt{}})
			}
			blk := ch.AppendWithEvents("0.13.2", from, evs)
			b.events = append(b.events, blk.B)
		}
		ch.Frozen = true
		b.chain = ch
		b.dbs = map[bool]*memory.Database{}
	}
	if b.dbs[newState] == nil {
		d := memory.New()
		nd := node.New(newState, d, &networks.Sepolia)
		for _, blk := range b.chain.Blocks {
			if err := nd.Store(blk); err != nil {
				stats.HarnessError("many-window base chain store %d: %v", blk.Num(), err)
			}
		}
		if err := nd.BC.WriteRunningEventFilter(); err != nil {
			stats.HarnessError("many-window base snapshot: %v", err)
		}
		b.dbs[newState] = d
	}
	return b.chain, b.dbs[newState]
}

func TestPropEventsManyWindows(t *testing.T) {
	if !stats.Thorough() {
		t.Skip("thorough tier only (the base chain of 18 real windows takes about a minute to build)")
	}
	stats.Check(t, stats.Budget{Quick: 1, Thorough: 40},
		"base chain of 18 real 8192-block windows (more than the 16-entry window cache) with events at the first/second/a middle/last-but-one/last block of every window, stored once per process and cloned per case; steps: query (address/key filter over base and suffix senders; range = whole chain, a drawn window set boundary to boundary, or arbitrary; chunk and scan limit drawn) / store / revert (the suffix crosses the boundary into window 18) / graceful and ungraceful restart; oracle = naive scan of the model's receipts; non-trivial = a query spanning more than 16 windows was followed by a later query (the cache was cycled), distinct = SHA-256 of the rendered history",
		func(rt *rapid.T, c *stats.Case) {
			newState := rapid.Bool().Draw(rt, "newState")
			bch, bdb := mwBase.get(newState)
			baseN := bch.Height()
			u := gen.NewUniverse(rt)
			ch := bch.Fork(baseN)
			ch.U = u
			ch.Opt = gen.Opts{MaxTxs: 2, MaxEvents: 3, DenseEvents: true, FixedVersion: "0.13.2"}
			m := &machine{t: rt, c: c, u: u, ch: ch, baseLen: baseN, n: node.New(newState, bdb.Copy(), u.Net), snapshotOnDisk: true}
			c.Fp("many ns%v", newState)
			busyPools(rt, c, u, ch)
			fu := *u
			fu.Addrs = append(append([]felt.Felt{}, mwBase.addrs...), u.Addrs...)
			if len(u.EvAddrs) > 0 {
				fu.EvAddrs = append(append([]felt.Felt{}, mwBase.addrs...), u.EvAddrs...)
			}
			cycled, restarts := false, 0
			query := func() {
				f := drawFilter(rt, &fu)
				head := uint64(m.ch.Height() - 1)
				var from, to uint64
				switch rapid.IntRange(0, 4).Draw(rt, "rangeKind") {
				case 0, 1:
					from, to = 0, head+uint64(rapid.IntRange(0, 2).Draw(rt, "beyond"))
				case 2: // window-aligned: boundary (±1) to boundary (±1)
					w1 := rapid.IntRange(0, mwWindows).Draw(rt, "w1")
					w2 := rapid.IntRange(w1, mwWindows).Draw(rt, "w2")
					from = uint64(max(0, w1*window+rapid.IntRange(-1, 1).Draw(rt, "d1")))
					to = uint64(max(0, w2*window+rapid.IntRange(-2, 1).Draw(rt, "d2")))
				default:
					from = uint64(rapid.IntRange(0, int(head)).Draw(rt, "from"))
					to = uint64(rapid.IntRange(0, int(head)+2).Draw(rt, "to"))
				}
				chunk := uint64(rapid.SampledFrom([]int{1000, 1000, 40, 7, 1}).Draw(rt, "chunk"))
				limit := uint(rapid.SampledFrom([]int{0, 0, 0, 1, 5, 64}).Draw(rt, "limit"))
				if limit > 0 && len(f.addrs) == 0 && len(f.keys) == 0 && to > from+20000 {
					limit = 4096 // an unfiltered scan visits every block: keep the number of pages of a whole-chain sweep in the dozens
				}
				c.Fp("q a%v k%v %d-%d c%d l%d", f.addrs, f.keys, from, to, chunk, limit)
				rt.Logf("HIST query addrs=%v keypos=%d range %d-%d chunk %d limit %d head=%d", shortF(f.addrs), len(f.keys), from, to, chunk, limit, head)
				model := append([]*core.Block{}, mwBase.events...)
				for _, b := range m.ch.Blocks[baseN:] {
					model = append(model, b.B)
				}
				want := scan(model, f, from, to)
				spans := 0
				if to >= from {
					spans = int(min(to, head))/window - int(from)/window + 1
				}
				if spans > blockchain.AggregatedBloomFilterCacheSize {
					c.Label("query-spans-more-windows-than-cache")
					if cycled {
						c.NonTrivial("query-after-cache-cycled")
					}
					cycled = true
				} else if cycled {
					c.NonTrivial("query-after-cache-cycled")
				}
				if len(want) > 0 {
					c.Label("has-matches")
				}
				m.runAndCompare(f, from, to, chunk, limit, nil, want, head)
			}
			nsteps := rapid.IntRange(4, 14).Draw(rt, "nsteps")
			for i := 0; i < nsteps; i++ {
				switch a := rapid.SampledFrom([]string{"query", "query", "query", "query", "store", "store", "revert", "graceful", "ungraceful"}).Draw(rt, "action"); {
				case a == "store" || (a == "revert" && m.ch.Height() <= baseN):
					if m.ch.Height() >= baseN+12 {
						query()
						continue
					}
					b := m.ch.Next(rt)
					c.Fp("store %d %s", b.Num(), b.B.Hash.String())
					rt.Logf("HIST store #%d events=%d", b.Num(), b.B.EventCount)
					if err := m.n.Store(b); err != nil {
						c.Violation("valid-block-rejected", "store %d: %v", b.Num(), err)
					}
					if int(b.Num())%window == window-1 {
						c.Label("window-rollover")
					}
				case a == "revert":
					c.Fp("revert %d", m.ch.Height()-1)
					rt.Logf("HIST revert #%d", m.ch.Height()-1)
					if (m.ch.Height()-1)%window == 0 {
						c.Label("revert-across-window-boundary")
					}
					if err := m.n.BC.RevertHead(); err != nil {
						c.Violation("revert-failed", "RevertHead(%d): %v", m.ch.Height()-1, err)
					}
					m.ch = m.ch.Fork(m.ch.Height() - 1)
					m.reorged = true
				case (a == "graceful" || a == "ungraceful") && restarts < 2:
					restarts++
					c.Fp("%s", a)
					rt.Logf("HIST %s restart", a)
					if a == "graceful" {
						if err := m.n.BC.WriteRunningEventFilter(); err != nil {
							c.Violation("snapshot-write", "WriteRunningEventFilter: %v", err)
						}
					}
					m.n.Reopen()
					m.restarted = true
					cycled = false // fresh cache
					c.Label(a + "-restart")
				default:
					query()
				}
			}
			query()
			c.Sample(func() any {
				return map[string]any{"base": baseN, "windows": mwWindows, "backend": m.n.Backend(), "final_height": m.ch.Height() - 1, "reorged": m.reorged, "restarted": m.restarted}
			})
		})
}
