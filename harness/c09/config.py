# Driver configuration for property C09
PROP = dict(
    pkg="c09", level="exploration",
    technique="model-based stateful PBT: naive scan of the model chain's receipts as oracle; page-concatenation metamorphic relation over chunk sizes and scan limits",
    level_text=("Exploration: store/revert/restart histories on chains that cross the REAL 8192-block bloom-index window (base chain built once per "
                "process), queries with generated filters/ranges/chunk sizes/scan limits/pre-confirmed blocks compared event by event with a naive scan."),
    rule=("see test rule; a quarter of the cases are busy chains (emitters and keys from pools of dozens of values, one block in five with 10-30 "
          "transactions of 2-5 events: events blooms with hundreds of set bits, labels block-with-more-than-256/1024-bloom-bits); "
          "distinct = SHA-256 of the rendered history incl. block hashes and query parameters"),
    assumptions=["trailing empty key positions are not generated (spec ambiguous for events with fewer keys than filter positions)",
                 "LRU eviction of the window cache (>16 windows) is reached in the thorough tier only (TestPropEventsManyWindows: 18 real windows)"],
    runs=[dict(run="^Test(Prop|Known)")],
)
