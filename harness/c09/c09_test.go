// Package c09: event queries return exactly the matching events, in order, for any paging (property C09).
package c09

import (
	"fmt"
	"sync"
	"testing"

	"github.com/NethermindEth/juno/blockchain"
	"github.com/NethermindEth/juno/blockchain/networks"
	"github.com/NethermindEth/juno/core"
	"github.com/NethermindEth/juno/core/felt"
	"github.com/NethermindEth/juno/core/pending"
	"github.com/NethermindEth/juno/db/memory"
	"iter"
	"pgregory.net/rapid"

	"verif/harness/internal/gen"
	"verif/harness/internal/node"
	"verif/harness/internal/stats"
)

func TestMain(m *testing.M) { stats.Main(m) }

const kfStaleSnapshot = "c09-stale-running-filter-snapshot-after-reorg"

// ---- base chains: built once per process, cloned per case (real 8192-block window boundaries)

type base struct {
	n     int
	chain *gen.Chain
	dbs   map[bool]*memory.Database // by state backend
	once  sync.Once
}

var bases = map[int]*base{0: {n: 0}, 8186: {n: 8186}, 16378: {n: 16378}}

func (b *base) get(newState bool) (*gen.Chain, *memory.Database) {
	b.once.Do(func() {
		u := &gen.Universe{Net: &networks.Sepolia}
		b.chain = gen.NewChain(u, gen.Opts{})
		b.dbs = map[bool]*memory.Database{}
		for i := 0; i < b.n; i++ {
			b.chain.AppendEmpty("0.13.2")
		}
		for _, ns := range []bool{false, true} {
			d := memory.New()
			n := node.New(ns, d, u.Net)
			for _, blk := range b.chain.Blocks {
				if err := n.Store(blk); err != nil {
					stats.HarnessError("base chain store %d: %v", blk.Num(), err)
				}
			}
			if b.n > 0 {
				// graceful-shutdown snapshot so that opening a clone does not rebuild the running filter from genesis
				if err := n.BC.WriteRunningEventFilter(); err != nil {
					stats.HarnessError("base snapshot: %v", err)
				}
			}
			b.dbs[ns] = d
		}
		b.chain.Frozen = true
	})
	return b.chain, b.dbs[newState]
}

// ---- the oracle: naive scan of the model chain with a 10-line matcher

type ev struct {
	block uint64
	hash  string
	tx    string
	txIdx int
	evIdx int
	from  felt.Felt
	keys  []felt.Felt
	data  []felt.Felt
}

func (e ev) String() string {
	return fmt.Sprintf("b%d/%s tx%d/%s ev%d from=%s keys=%d", e.block, e.hash, e.txIdx, e.tx, e.evIdx, e.from.ShortString(), len(e.keys))
}

type filter struct {
	addrs []felt.Felt
	keys  [][]felt.Felt
}

func (f filter) matches(e *core.Event) bool {
	if len(f.addrs) > 0 {
		ok := false
		for _, a := range f.addrs {
			ok = ok || a.Equal(e.From)
		}
		if !ok {
			return false
		}
	}
	for i, alts := range f.keys {
		if len(alts) == 0 {
			continue
		}
		if i >= len(e.Keys) {
			return false
		}
		ok := false
		for _, k := range alts {
			ok = ok || k.Equal(&e.Keys[i])
		}
		if !ok {
			return false
		}
	}
	return true
}

func scan(blocks []*core.Block, f filter, from, to uint64) []ev {
	var out []ev
	for _, b := range blocks {
		if b.Number < from || b.Number > to {
			continue
		}
		for ti, r := range b.Receipts {
			for ei, e := range r.Events {
				if f.matches(e) {
					out = append(out, ev{b.Number, hashStr(b.Hash), r.TransactionHash.String(), ti, ei, *e.From, e.Keys, e.Data})
				}
			}
		}
	}
	return out
}

func hashStr(h *felt.Felt) string {
	if h == nil {
		return "nil"
	}
	return h.String()
}

// ---- pre-confirmed chain stub

type preConf struct{ blocks []*pending.PreConfirmed }

func (p *preConf) Length() int                 { return len(p.blocks) }
func (p *preConf) Head() *pending.PreConfirmed { return p.blocks[len(p.blocks)-1] }
func (p *preConf) OldestFirst() iter.Seq[*pending.PreConfirmed] {
	return func(yield func(*pending.PreConfirmed) bool) {
		for _, b := range p.blocks {
			if !yield(b) {
				return
			}
		}
	}
}

// busyPools turns a quarter of the cases into "busy chain" cases: event emitters and keys come from pools of several
// dozen values and one block in five carries 10..30 transactions with 2..5 events each, so that a block's events bloom has
// many hundreds of set bits (the per-block bloom is 2048 bits wide; ordinary generated blocks set a few dozen).
func busyPools(t *rapid.T, c *stats.Case, u *gen.Universe, ch *gen.Chain) {
	if rapid.IntRange(0, 3).Draw(t, "busyChain") != 0 {
		return
	}
	na, nk := rapid.IntRange(20, 70).Draw(t, "busyAddrs"), rapid.IntRange(10, 60).Draw(t, "busyKeys")
	salt := rapid.Uint64Range(1, 1<<40).Draw(t, "busySalt")
	u.EvAddrs = append([]felt.Felt{}, u.Addrs...)
	for i := 0; i < na; i++ {
		u.EvAddrs = append(u.EvAddrs, gen.F(salt*1000+uint64(i)+0x1000))
	}
	for i := 0; i < nk; i++ {
		u.EvKeys = append(u.EvKeys, gen.F(salt*7919+uint64(i)*104729+5))
	}
	ch.Opt.BusyBlockOneIn = 5
	c.Label("busy-chain")
}

func drawFilter(t *rapid.T, u *gen.Universe) filter {
	var f filter
	pool := u.Addrs
	if len(u.EvAddrs) > 0 {
		pool = u.EvAddrs
	}
	na := rapid.SampledFrom([]int{0, 1, 1, 2, 3}).Draw(t, "naddr")
	for i := 0; i < na; i++ {
		f.addrs = append(f.addrs, rapid.SampledFrom(pool).Draw(t, "faddr"))
	}
	npos := rapid.SampledFrom([]int{0, 0, 1, 1, 2, 3}).Draw(t, "npos")
	for i := 0; i < npos; i++ {
		nalt := rapid.IntRange(0, 2).Draw(t, "nalt")
		if i == npos-1 && nalt == 0 {
			nalt = 1 // no trailing empty positions (spec ambiguous for events with fewer keys)
		}
		var alts []felt.Felt
		for j := 0; j < nalt; j++ {
			alts = append(alts, rapid.SampledFrom(u.EvKeys).Draw(t, "fkey"))
		}
		f.keys = append(f.keys, alts)
	}
	return f
}

type machine struct {
	t                  *rapid.T
	c                  *stats.Case
	u                  *gen.Universe
	ch                 *gen.Chain
	n                  *node.Node
	baseLen            int
	reorged            bool
	restarted          bool
	snapshotOnDisk     bool // a persisted running-filter snapshot exists
	dirtySinceSnapshot bool
}

func (m *machine) query() {
	t, c := m.t, m.c
	f := drawFilter(t, m.u)
	head := uint64(m.ch.Height() - 1)
	lo := uint64(0)
	if m.baseLen > 10 {
		lo = uint64(m.baseLen - 10)
	}
	pick := func(l string) uint64 {
		switch rapid.IntRange(0, 5).Draw(t, l+"-kind") {
		case 0:
			return 0
		case 1:
			return head + uint64(rapid.IntRange(0, 3).Draw(t, l+"-beyond"))
		default:
			return lo + uint64(rapid.IntRange(0, int(head-lo)).Draw(t, l))
		}
	}
	from, to := pick("from"), pick("to")
	if rapid.IntRange(0, 3).Draw(t, "wholeRange") == 0 {
		from, to = 0, head
	}
	// pre-confirmed blocks above the head in a fraction of the queries that reach above it
	var pc *preConf
	var pcBlocks []*core.Block
	if to > head && rapid.Bool().Draw(t, "withPreConfirmed") {
		tmp := m.ch.Fork(m.ch.Height())
		k := rapid.IntRange(1, 2).Draw(t, "npc")
		pc = &preConf{}
		for i := 0; i < k; i++ {
			b := tmp.Next(t)
			hdr := *b.B.Header
			hdr.Hash = nil // pre-confirmed blocks have no hash yet
			blk := &core.Block{Header: &hdr, Transactions: b.B.Transactions, Receipts: b.B.Receipts}
			pc.blocks = append(pc.blocks, &pending.PreConfirmed{Block: blk, StateUpdate: b.SU})
			pcBlocks = append(pcBlocks, blk)
		}
		c.Label("pre-confirmed")
	}
	chunk := uint64(rapid.SampledFrom([]int{1, 1, 2, 3, 5, 1000}).Draw(t, "chunk"))
	limit := uint(rapid.SampledFrom([]int{0, 0, 1, 2, 3, 7}).Draw(t, "limit"))
	c.Fp("q a%v k%v %d-%d c%d l%d pc%v", f.addrs, f.keys, from, to, chunk, limit, pc != nil)
	t.Logf("HIST query addrs=%v keypos=%d range %d-%d chunk %d limit %d pc=%v head=%d", shortF(f.addrs), len(f.keys), from, to, chunk, limit, pc != nil, head)

	var model []*core.Block
	for _, b := range m.ch.Blocks[min(int(lo), m.ch.Height()):] {
		model = append(model, b.B)
	}
	if from < lo {
		// base blocks below lo carry no events
	}
	model = append(model, pcBlocks...)
	want := scan(model, f, from, to)
	// non-trivial: matching events on both sides of a window boundary, or query after reorg/restart touching matching block
	if len(want) > 0 {
		c.Label("has-matches")
		var below, above bool
		for _, e := range want {
			if e.block%8192 >= 8186 {
				below = true
			}
			if e.block%8192 < 40 && e.block >= 8192 {
				above = true
			}
		}
		if below && above {
			c.NonTrivial("matches-on-both-sides-of-window-boundary")
		}
		if m.reorged || m.restarted {
			c.NonTrivial("query-after-reorg-or-restart-with-matches")
		}
	}

	m.runAndCompare(f, from, to, chunk, limit, pc, want, head)
}

// runAndCompare pages through one event query (continuation tokens travel through their string form) and compares the
// concatenation of the pages with the naive scan's answer.
func (m *machine) runAndCompare(f filter, from, to, chunk uint64, limit uint, pc *preConf, want []ev, head uint64) {
	c := m.c
	addrs := make([]felt.Address, len(f.addrs))
	for i, a := range f.addrs {
		addrs[i] = felt.Address(a)
	}
	fl, err := m.n.BC.EventFilter(addrs, f.keys, func() (blockchain.PreConfirmedReader, error) {
		if pc == nil {
			return nil, nil
		}
		return pc, nil
	})
	if err != nil {
		c.Violation("event-filter", "EventFilter: %v", err)
	}
	defer fl.Close()
	_ = fl.SetRangeEndBlockByNumber(blockchain.EventFilterFrom, from)
	_ = fl.SetRangeEndBlockByNumber(blockchain.EventFilterTo, to)
	if limit > 0 {
		fl.WithLimit(limit)
	}
	var got []blockchain.FilteredEvent
	var tok *blockchain.ContinuationToken
	pages := 0
	for {
		evs, next, err := fl.Events(tok, chunk)
		if err != nil {
			c.Violation("events-error", "Events(%v, %d) failed: %v (filter %v range %d-%d limit %d)", tok, chunk, err, f, from, to, limit)
		}
		if uint64(len(evs)) > chunk {
			c.Violation("page-exceeds-chunk", "page of %d events for chunk size %d", len(evs), chunk)
		}
		got = append(got, evs...)
		pages++
		if next.IsEmpty() {
			break
		}
		// every page makes progress: with a scan limit of l blocks per call a range of n blocks needs at most about n/l pages
		maxPages := 20000
		if limit > 0 && to > from {
			maxPages += int((min(to, head+2) - from) / uint64(limit))
		}
		if pages > maxPages {
			c.Violation("tokens-do-not-terminate", "more than %d pages for %d expected events (chunk %d, limit %d)", maxPages, len(want), chunk, limit)
		}
		// tokens travel as strings over RPC
		var nt blockchain.ContinuationToken
		if err := nt.FromString(next.String()); err != nil {
			c.Violation("token-roundtrip", "token %q does not parse: %v", next.String(), err)
		}
		tok = &nt
	}
	if pages > 1 {
		c.Label("multi-page")
	}
	if len(got) != len(want) {
		c.Violation("event-set", "filter addrs=%v keys=%v range %d-%d chunk %d limit %d (head %d, pre-confirmed %v): got %d events, naive scan %d\n got: %v\nwant: %v",
			shortF(f.addrs), f.keys, from, to, chunk, limit, head, pc != nil, len(got), len(want), renderGot(got), want)
	}
	for i := range want {
		g, w := got[i], want[i]
		if g.BlockNumber != w.block || hashStr(g.BlockHash) != w.hash || g.TransactionHash.String() != w.tx || int(g.TransactionIndex) != w.txIdx || int(g.EventIndex) != w.evIdx ||
			!g.From.Equal(&w.from) || !sameFelts(g.Keys, w.keys) || !sameFelts(g.Data, w.data) {
			c.Violation("event-order-or-tags", "event %d differs: got b%d/%s tx%d/%s ev%d, want %v", i, g.BlockNumber, hashStr(g.BlockHash), g.TransactionIndex, g.TransactionHash.String(), g.EventIndex, w)
		}
	}
}

func shortF(fs []felt.Felt) []string {
	var o []string
	for _, f := range fs {
		o = append(o, f.ShortString())
	}
	return o
}

func renderGot(g []blockchain.FilteredEvent) []string {
	var o []string
	for _, e := range g {
		o = append(o, fmt.Sprintf("b%d tx%d ev%d", e.BlockNumber, e.TransactionIndex, e.EventIndex))
	}
	return o
}

func sameFelts(a, b []felt.Felt) bool {
	if len(a) != len(b) {
		return false
	}
	for i := range a {
		if !a[i].Equal(&b[i]) {
			return false
		}
	}
	return true
}

func runCase(rt *rapid.T, c *stats.Case, baseN int) {
	newState := rapid.Bool().Draw(rt, "newState")
	bch, bdb := bases[baseN].get(newState)
	u := gen.NewUniverse(rt)
	ch := bch.Fork(bch.Height())
	ch.U = u
	ch.Opt = gen.Opts{MaxTxs: 3, MaxEvents: 4, DenseEvents: true, FixedVersion: "0.13.2"}
	busyPools(rt, c, u, ch)
	m := &machine{t: rt, c: c, u: u, ch: ch, baseLen: baseN, snapshotOnDisk: baseN > 0}
	if baseN == 0 && rapid.IntRange(0, 3).Draw(rt, "pebble") == 0 {
		// a quarter of the small-chain cases on the production store (Pebble v2); restarts re-open a Blockchain on it
		pn, cleanup, err := node.NewPebble(newState, u.Net)
		if err != nil {
			stats.HarnessError("pebble: %v", err)
		}
		defer cleanup()
		m.n = pn
		c.Label("pebble")
	} else {
		m.n = node.New(newState, bdb.Copy(), u.Net)
	}
	c.Fp("base%d ns%v", baseN, newState)
	avoidStale := stats.Known(kfStaleSnapshot)
	actions := map[string]func(*rapid.T) bool{
		"store": func(t *rapid.T) bool {
			if m.ch.Height() >= baseN+40 {
				return false
			}
			b := m.ch.Next(t)
			c.Fp("store %d %s", b.Num(), b.B.Hash.String())
			t.Logf("HIST store #%d events=%d", b.Num(), b.B.EventCount)
			if err := m.n.Store(b); err != nil {
				c.Violation("valid-block-rejected", "store %d: %v", b.Num(), err)
			}
			if bits := b.B.EventsBloom.BitSet().Count(); bits > 256 {
				c.Label("block-with-more-than-256-bloom-bits")
				if bits > 1024 {
					c.Label("block-with-more-than-1024-bloom-bits")
				}
			}
			if b.Num()%8192 == 8191 {
				c.Label("window-rollover")
			}
			m.dirtySinceSnapshot = true
			return true
		},
		"revert": func(t *rapid.T) bool {
			if m.ch.Height() <= baseN {
				return false
			}
			c.Fp("revert %d", m.ch.Height()-1)
			t.Logf("HIST revert #%d", m.ch.Height()-1)
			if (m.ch.Height()-1)%8192 == 0 {
				c.Label("revert-across-window-boundary")
			}
			if err := m.n.BC.RevertHead(); err != nil {
				c.Violation("revert-failed", "RevertHead(%d): %v", m.ch.Height()-1, err)
			}
			m.ch = m.ch.Fork(m.ch.Height() - 1)
			m.reorged = true
			m.dirtySinceSnapshot = true
			return true
		},
		"gracefulRestart": func(t *rapid.T) bool {
			c.Fp("graceful")
			t.Logf("HIST graceful restart")
			if err := m.n.BC.WriteRunningEventFilter(); err != nil {
				c.Violation("snapshot-write", "WriteRunningEventFilter: %v", err)
			}
			m.n.Reopen()
			m.restarted = true
			m.snapshotOnDisk = true
			m.dirtySinceSnapshot = false
			c.Label("graceful-restart")
			return true
		},
		"ungracefulRestart": func(t *rapid.T) bool {
			if avoidStale && m.snapshotOnDisk && m.reorged && m.dirtySinceSnapshot {
				// known finding: an older persisted snapshot is trusted after a reorg changed a block it covers
				c.Excluded(kfStaleSnapshot)
				return false
			}
			c.Fp("ungraceful")
			t.Logf("HIST ungraceful restart")
			m.n.Reopen()
			m.restarted = true
			c.Label("ungraceful-restart")
			if m.snapshotOnDisk && m.dirtySinceSnapshot {
				c.Label("ungraceful-restart-with-older-snapshot")
			}
			return true
		},
		"query": func(t *rapid.T) bool {
			if m.ch.Height() == 0 {
				return false
			}
			m.query()
			return true
		},
	}
	// explicit step loop (bounded number of expensive restarts per case)
	nsteps := rapid.IntRange(4, 24).Draw(rt, "nsteps")
	restarts := 0
	for i := 0; i < nsteps; i++ {
		a := rapid.SampledFrom([]string{"store", "store", "store", "revert", "revert", "gracefulRestart", "ungracefulRestart", "query", "query", "query"}).Draw(rt, "action")
		if a == "gracefulRestart" || a == "ungracefulRestart" {
			if restarts >= 3 {
				a = "query"
			} else {
				restarts++
			}
		}
		if !actions[a](rt) {
			actions["store"](rt)
		}
	}
	if m.ch.Height() > 0 {
		m.query()
	}
	c.Sample(func() any {
		return map[string]any{"base": baseN, "backend": m.n.Backend(), "final_height": m.ch.Height() - 1, "reorged": m.reorged, "restarted": m.restarted}
	})
}

const rule = "base chain of N real empty blocks stored once per process and cloned per case (N=0: small chains, N=8186: suffix crosses the real 8192-block index window, N=16378: two windows incl. a persisted one), then a rapid state machine store(block with dense events from few addresses/keys)/revert/graceful restart (snapshot write)/ungraceful restart (possibly with an older snapshot on disk)/query; each query draws address set, per-position key alternatives, range (incl. from>to, beyond head, pre-confirmed blocks), chunk size and scan limit, follows continuation tokens (through their string form) and compares the concatenation with a naive scan of the model chain; non-trivial = matches on both sides of a window boundary, or a query with matches after a reorg/restart"

func TestPropEventsSmallChains(t *testing.T) {
	stats.Check(t, stats.Budget{Quick: 150, Thorough: 3000}, rule, func(rt *rapid.T, c *stats.Case) { runCase(rt, c, 0) })
}

func TestPropEventsAcrossWindow(t *testing.T) {
	stats.Check(t, stats.Budget{Quick: 30, Thorough: 400}, rule, func(rt *rapid.T, c *stats.Case) { runCase(rt, c, 8186) })
}

func TestPropEventsTwoWindows(t *testing.T) {
	if !stats.Thorough() {
		t.Skip("thorough tier only")
	}
	stats.Check(t, stats.Budget{Quick: 1, Thorough: 100}, rule, func(rt *rapid.T, c *stats.Case) { runCase(rt, c, 16378) })
}

// TestPropCacheAfterBoundaryReorg biases the history to the deep state the uniform state machine rarely
// reaches: cross the window boundary (the first window gets persisted), warm the window cache with
// queries, revert back across the boundary, follow a different fork across the boundary again, query.
func TestPropCacheAfterBoundaryReorg(t *testing.T) {
	stats.Check(t, stats.Budget{Quick: 12, Thorough: 150}, "scenario skeleton on the 8186-block base: store past block 8192, queries (warm the persisted-window cache), revert to a drawn height below the boundary, optional restart, different fork past the boundary, queries per address and unfiltered; same naive-scan oracle; non-trivial = always (reorg across a window boundary with warmed cache)",
		func(rt *rapid.T, c *stats.Case) {
			newState := rapid.Bool().Draw(rt, "newState")
			bch, bdb := bases[8186].get(newState)
			u := gen.NewUniverse(rt)
			ch := bch.Fork(bch.Height())
			ch.U = u
			ch.Opt = gen.Opts{MaxTxs: 3, MaxEvents: 4, DenseEvents: true, FixedVersion: "0.13.2"}
			busyPools(rt, c, u, ch)
			m := &machine{t: rt, c: c, u: u, ch: ch, baseLen: 8186, n: node.New(newState, bdb.Copy(), u.Net), snapshotOnDisk: true}
			c.Fp("skeleton ns%v", newState)
			store := func(upTo int) {
				for m.ch.Height() <= upTo {
					b := m.ch.Next(rt)
					c.Fp("store %s", b.B.Hash.String())
					rt.Logf("HIST store #%d events=%d", b.Num(), b.B.EventCount)
					if err := m.n.Store(b); err != nil {
						c.Violation("valid-block-rejected", "store %d: %v", b.Num(), err)
					}
				}
			}
			store(8191 + rapid.IntRange(0, 3).Draw(rt, "past")) // head number 8191 (exactly the last block of window 0) .. 8194
			for i := 0; i < rapid.IntRange(1, 3).Draw(rt, "warm"); i++ {
				m.query()
			}
			target := 8186 + rapid.IntRange(0, 5).Draw(rt, "revertTo") // new height (number of blocks kept)
			for m.ch.Height() > target {
				rt.Logf("HIST revert #%d", m.ch.Height()-1)
				if err := m.n.BC.RevertHead(); err != nil {
					c.Violation("revert-failed", "RevertHead(%d): %v", m.ch.Height()-1, err)
				}
				m.ch = m.ch.Fork(m.ch.Height() - 1)
			}
			m.reorged = true
			switch rapid.IntRange(0, 3).Draw(rt, "restartKind") {
			case 1:
				rt.Logf("HIST ungraceful restart")
				m.n.Reopen()
				m.restarted = true
			case 2:
				rt.Logf("HIST graceful restart")
				if err := m.n.BC.WriteRunningEventFilter(); err != nil {
					c.Violation("snapshot-write", "%v", err)
				}
				m.n.Reopen()
				m.restarted = true
			}
			if rapid.Bool().Draw(rt, "queryInBetween") {
				m.query()
			}
			store(8191 + rapid.IntRange(0, 3).Draw(rt, "past2"))
			c.NonTrivial("boundary-reorg-with-warm-cache")
			for i := 0; i < rapid.IntRange(2, 5).Draw(rt, "nq"); i++ {
				m.query()
			}
			// and one exhaustive sweep: every address of the universe over the whole suffix
			for _, a := range u.Addrs {
				evs, err := m.n.Events([]felt.Address{felt.Address(a)}, nil, 1000)
				if err != nil {
					c.Violation("events-error", "%v", err)
				}
				var model []*core.Block
				for _, b := range m.ch.Blocks[8176:] {
					model = append(model, b.B)
				}
				want := scan(model, filter{addrs: []felt.Felt{a}}, 0, uint64(m.ch.Height()))
				if len(evs) != len(want) {
					c.Violation("event-set", "after boundary reorg: events from %s: got %d, naive scan %d", a.ShortString(), len(evs), len(want))
				}
			}
		})
}
