package ref

import (
	"bytes"
	"sort"
)

// KV is the reference model of the storage contract: a plain map with sorted iteration.
type KV struct{ M map[string][]byte }

func NewKV() *KV { return &KV{M: map[string][]byte{}} }

func (k *KV) Clone() *KV {
	c := NewKV()
	for a, b := range k.M {
		c.M[a] = append([]byte{}, b...)
	}
	return c
}
func (k *KV) Put(key, val []byte) { k.M[string(key)] = append([]byte{}, val...) }
func (k *KV) Delete(key []byte)   { delete(k.M, string(key)) }
func (k *KV) DeleteRange(a, b []byte) {
	for s := range k.M {
		if bytes.Compare([]byte(s), a) >= 0 && bytes.Compare([]byte(s), b) < 0 {
			delete(k.M, s)
		}
	}
}
func (k *KV) Get(key []byte) ([]byte, bool) { v, ok := k.M[string(key)]; return v, ok }

// Keys returns the sorted keys k with k >= lower and (prefixOnly ⇒ HasPrefix(k, lower)).
func (k *KV) Keys(lower []byte, prefixOnly bool) [][]byte {
	var out [][]byte
	for s := range k.M {
		b := []byte(s)
		if bytes.Compare(b, lower) < 0 {
			continue
		}
		if prefixOnly && !bytes.HasPrefix(b, lower) {
			continue
		}
		out = append(out, b)
	}
	sort.Slice(out, func(i, j int) bool { return bytes.Compare(out[i], out[j]) < 0 })
	return out
}

// Op is one write of a batch.
type Op struct {
	Kind byte // 'p' put, 'd' delete, 'r' delete range
	A, B []byte
}

func (k *KV) Apply(ops []Op) {
	for _, o := range ops {
		switch o.Kind {
		case 'p':
			k.Put(o.A, o.B)
		case 'd':
			k.Delete(o.A)
		case 'r':
			k.DeleteRange(o.A, o.B)
		}
	}
}
