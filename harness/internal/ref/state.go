package ref

import (
	"fmt"
	"sort"

	"github.com/Masterminds/semver/v3"
	"github.com/NethermindEth/juno/core"
	"github.com/NethermindEth/juno/core/crypto"
	"github.com/NethermindEth/juno/core/felt"
)

// Contract is the abstract state of one deployed contract.
type Contract struct {
	ClassHash  felt.Felt
	Nonce      felt.Felt
	Storage    map[felt.Felt]felt.Felt // absent == zero
	DeployedAt uint64
	System     bool // protocol system contract (0x1, 0x2): no class, exists while it has storage
}

// Class is the abstract state of one declared class.
type Class struct {
	DeclaredAt uint64
	Sierra     bool
	CasmV1     *felt.Felt // nil when declared with the blake2s (V2) hash
	CasmV2     felt.Felt
	MigratedAt uint64 // 0 = not migrated
	Def        core.ClassDefinition
}

// CurrentCasm is the compiled class hash committed in the class trie.
func (c *Class) CurrentCasm() felt.Felt {
	if c.CasmV1 == nil || c.MigratedAt > 0 {
		return c.CasmV2
	}
	return *c.CasmV1
}

// State is the abstract Starknet state: the reference model for C01/C03/C04/C08/C16/C20.
type State struct {
	Contracts map[felt.Felt]*Contract
	Classes   map[felt.Felt]*Class
}

func NewState() *State {
	return &State{Contracts: map[felt.Felt]*Contract{}, Classes: map[felt.Felt]*Class{}}
}

func (s *State) Clone() *State {
	c := NewState()
	for a, ct := range s.Contracts {
		n := *ct
		n.Storage = make(map[felt.Felt]felt.Felt, len(ct.Storage))
		for k, v := range ct.Storage {
			n.Storage[k] = v
		}
		c.Contracts[a] = &n
	}
	for h, cl := range s.Classes {
		n := *cl
		c.Classes[h] = &n
	}
	return c
}

func IsSystem(a *felt.Felt) bool {
	var one, two felt.Felt
	one.SetUint64(1)
	two.SetUint64(2)
	return a.Equal(&one) || a.Equal(&two)
}

var ver0141 = semver.MustParse("0.14.1")
var ver0140 = semver.MustParse("0.14.0")

func parseVer(v string) *semver.Version {
	sv, err := core.ParseBlockVersion(v)
	if err != nil {
		panic(err)
	}
	return sv
}

// Apply applies a state diff declared at block `num` of protocol `version`. casmV2Of gives, for a
// Sierra class declared before 0.14.1, the blake2s compiled class hash the sequencer will later
// migrate it to (needed to model CompiledClassHashV2 reads).
func (s *State) Apply(num uint64, version string, d *core.StateDiff, defs map[felt.Felt]core.ClassDefinition, casmV2Of func(h felt.Felt) felt.Felt) error {
	v2 := !parseVer(version).LessThan(ver0141)
	for _, h := range d.DeclaredV0Classes {
		if _, ok := s.Classes[*h]; ok {
			continue // re-declaration of a Cairo-0 class is a no-op
		}
		s.Classes[*h] = &Class{DeclaredAt: num, Def: defs[*h]}
	}
	for h, casm := range d.DeclaredV1Classes {
		if _, ok := s.Classes[h]; ok {
			return fmt.Errorf("model: class %s declared twice", h.String())
		}
		c := &Class{DeclaredAt: num, Sierra: true, Def: defs[h]}
		if v2 {
			c.CasmV2 = *casm
		} else {
			v1 := *casm
			c.CasmV1 = &v1
			c.CasmV2 = casmV2Of(h)
		}
		s.Classes[h] = c
	}
	for h, casm := range d.MigratedClasses {
		c, ok := s.Classes[felt.Felt(h)]
		if !ok || c.CasmV1 == nil || c.MigratedAt > 0 {
			return fmt.Errorf("model: bad migration of %s", (*felt.Felt)(&h).String())
		}
		c.MigratedAt = num
		c.CasmV2 = felt.Felt(casm)
	}
	for a, ch := range d.DeployedContracts {
		if _, ok := s.Contracts[a]; ok {
			return fmt.Errorf("model: contract %s deployed twice", a.String())
		}
		s.Contracts[a] = &Contract{ClassHash: *ch, Storage: map[felt.Felt]felt.Felt{}, DeployedAt: num}
	}
	for a, ch := range d.ReplacedClasses {
		c, ok := s.Contracts[a]
		if !ok {
			return fmt.Errorf("model: replace class of missing contract %s", a.String())
		}
		c.ClassHash = *ch
	}
	for a, n := range d.Nonces {
		c, ok := s.Contracts[a]
		if !ok {
			return fmt.Errorf("model: nonce of missing contract %s", a.String())
		}
		c.Nonce = *n
	}
	for a, kvs := range d.StorageDiffs {
		c, ok := s.Contracts[a]
		if !ok {
			if !IsSystem(&a) {
				return fmt.Errorf("model: storage of missing contract %s", a.String())
			}
			c = &Contract{Storage: map[felt.Felt]felt.Felt{}, DeployedAt: num, System: true}
			s.Contracts[a] = c
		}
		for k, v := range kvs {
			if v.IsZero() {
				delete(c.Storage, k)
			} else {
				c.Storage[k] = *v
			}
		}
	}
	return nil
}

func (c *Contract) StorageRoot() felt.Felt { return MPT(251, Pedersen, c.Storage) }

// Leaf is the contract's value in the global contracts trie: H(H(H(class, storage_root), nonce), 0).
func (c *Contract) Leaf() felt.Felt {
	sr := c.StorageRoot()
	a := crypto.Pedersen(&c.ClassHash, &sr)
	b := crypto.Pedersen(&a, &c.Nonce)
	return crypto.Pedersen(&b, &felt.Zero)
}

func (s *State) ContractsRoot() felt.Felt {
	leaves := map[felt.Felt]felt.Felt{}
	for a, c := range s.Contracts {
		leaves[a] = c.Leaf()
	}
	return MPT(251, Pedersen, leaves)
}

var classLeafVersion = new(felt.Felt).SetBytes([]byte("CONTRACT_CLASS_LEAF_V0"))
var stateVersion = new(felt.Felt).SetBytes([]byte("STARKNET_STATE_V0"))

func (s *State) ClassesRoot() felt.Felt {
	leaves := map[felt.Felt]felt.Felt{}
	for h, c := range s.Classes {
		if !c.Sierra {
			continue
		}
		casm := c.CurrentCasm()
		leaves[h] = crypto.Poseidon(classLeafVersion, &casm)
	}
	return MPT(251, Poseidon, leaves)
}

// Commitment is the global state commitment under the formula of the given protocol version.
func (s *State) Commitment(version string) felt.Felt {
	cr, kr := s.ContractsRoot(), s.ClassesRoot()
	if cr.IsZero() && kr.IsZero() {
		return felt.Zero
	}
	if kr.IsZero() && parseVer(version).LessThan(ver0140) {
		return cr
	}
	return crypto.PoseidonElems(stateVersion, &cr, &kr)
}

// SortedContracts returns addresses in ascending order (deterministic iteration for oracles).
func (s *State) SortedContracts() []felt.Felt {
	out := make([]felt.Felt, 0, len(s.Contracts))
	for a := range s.Contracts {
		out = append(out, a)
	}
	sort.Slice(out, func(i, j int) bool { return out[i].Cmp(&out[j]) < 0 })
	return out
}

func (s *State) SortedClasses() []felt.Felt {
	out := make([]felt.Felt, 0, len(s.Classes))
	for a := range s.Classes {
		out = append(out, a)
	}
	sort.Slice(out, func(i, j int) bool { return out[i].Cmp(&out[j]) < 0 })
	return out
}
