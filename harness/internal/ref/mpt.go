package ref

import (
	"math/big"
	"sort"

	"github.com/NethermindEth/juno/core/crypto"
	"github.com/NethermindEth/juno/core/felt"
)

// HashFn is the two-to-one hash of a trie (Pedersen or Poseidon). The primitives are trusted.
type HashFn func(a, b *felt.Felt) felt.Felt

func Pedersen(a, b *felt.Felt) felt.Felt { return crypto.Pedersen(a, b) }
func Poseidon(a, b *felt.Felt) felt.Felt { return crypto.Poseidon(a, b) }

type mptEntry struct {
	key *big.Int // the low `height` bits of the key
	val felt.Felt
}

// MPT is the Starknet Merkle-Patricia commitment of a key/value set, computed by plain recursion
// on the sorted key set (no node store, no incremental updates):
//
//	empty set            -> 0
//	remaining length 0   -> the value (leaf)
//	common prefix l > 0  -> H(child, prefixBits) + l          (edge node)
//	otherwise            -> H(left subtree, right subtree)    (binary node)
//
// Zero values are absent. Keys are `height`-bit strings (most significant bit first).
func MPT(height int, h HashFn, kv map[felt.Felt]felt.Felt) felt.Felt {
	es := make([]mptEntry, 0, len(kv))
	mask := new(big.Int).Sub(new(big.Int).Lsh(big.NewInt(1), uint(height)), big.NewInt(1))
	for k, v := range kv {
		if v.IsZero() {
			continue
		}
		b := k.BigInt(new(big.Int))
		b.And(b, mask)
		es = append(es, mptEntry{key: b, val: v})
	}
	sort.Slice(es, func(i, j int) bool { return es[i].key.Cmp(es[j].key) < 0 })
	return mptNode(es, height, h)
}

// mptNode: es sorted, all keys agree on the bits above position `length` (already consumed).
func mptNode(es []mptEntry, length int, h HashFn) felt.Felt {
	if len(es) == 0 {
		return felt.Zero
	}
	if length == 0 {
		return es[0].val
	}
	// longest common prefix of the remaining `length` bits = that of the first and last key
	first, last := es[0].key, es[len(es)-1].key
	l := 0
	for l < length && first.Bit(length-1-l) == last.Bit(length-1-l) {
		l++
	}
	if l > 0 {
		// path = the l prefix bits as an integer
		path := new(big.Int).Rsh(first, uint(length-l))
		path.And(path, new(big.Int).Sub(new(big.Int).Lsh(big.NewInt(1), uint(l)), big.NewInt(1)))
		child := mptNode(es, length-l, h)
		pf := new(felt.Felt).SetBigInt(path)
		hv := h(&child, pf)
		lf := new(felt.Felt).SetUint64(uint64(l))
		return *new(felt.Felt).Add(&hv, lf)
	}
	// split on the next bit
	i := sort.Search(len(es), func(i int) bool { return es[i].key.Bit(length-1) == 1 })
	left := mptNode(es[:i], length-1, h)
	right := mptNode(es[i:], length-1, h)
	return h(&left, &right)
}
