// Package fault wraps a db.KeyValueStore so that every COMMITTED WRITE (direct Put/Delete/DeleteRange and
// every Batch.Write, including the batches behind the Update/Write helpers) is counted, and so that the
// k-th commit can (i) be followed by a process crash: a copy of the store is frozen and every later
// write is dropped, or (ii) fail with an injected error without being applied.
package fault

import (
	"errors"
	"sync"

	"github.com/NethermindEth/juno/db"
	"github.com/NethermindEth/juno/db/memory"
)

var ErrInjected = errors.New("injected commit failure")
var ErrCrashed = errors.New("process crashed (fault injection)")

type Store struct {
	db.KeyValueStore // the inner store; reads pass through
	mu               sync.Mutex
	Commits          int
	CrashAfter       int // freeze an image after this commit (0 = never)
	FailAt           int // this commit returns ErrInjected and is not applied (0 = never)
	Crashed          bool
	Image            *memory.Database
	Failed           bool
	// single writes INTO a batch (Put / Delete / DeleteRange, also behind Update / Write) are counted as well; the
	// FailWriteAt-th of them returns ErrInjected and stages nothing
	Writes      int
	FailWriteAt int
	FailedWrite bool
}

func New(inner db.KeyValueStore) *Store { return &Store{KeyValueStore: inner} }

func (s *Store) commit(apply func() error) error {
	s.mu.Lock()
	defer s.mu.Unlock()
	if s.Crashed {
		return ErrCrashed
	}
	s.Commits++
	if s.FailAt == s.Commits {
		s.Failed = true
		return ErrInjected
	}
	if err := apply(); err != nil {
		return err
	}
	if s.CrashAfter == s.Commits {
		if m, ok := s.KeyValueStore.(*memory.Database); ok {
			s.Image = m.Copy()
		}
		s.Crashed = true
	}
	return nil
}

func (s *Store) Put(k, v []byte) error { return s.commit(func() error { return s.KeyValueStore.Put(k, v) }) }
func (s *Store) Delete(k []byte) error { return s.commit(func() error { return s.KeyValueStore.Delete(k) }) }
func (s *Store) DeleteRange(a, b []byte) error {
	return s.commit(func() error { return s.KeyValueStore.DeleteRange(a, b) })
}

type batch struct {
	db.IndexedBatch
	s *Store
}

func (b *batch) write() bool {
	b.s.mu.Lock()
	defer b.s.mu.Unlock()
	b.s.Writes++
	if b.s.FailWriteAt == b.s.Writes {
		b.s.FailedWrite = true
		return true
	}
	return false
}

func (b *batch) Put(k, v []byte) error {
	if b.write() {
		return ErrInjected
	}
	return b.IndexedBatch.Put(k, v)
}

func (b *batch) Delete(k []byte) error {
	if b.write() {
		return ErrInjected
	}
	return b.IndexedBatch.Delete(k)
}

func (b *batch) DeleteRange(a, z []byte) error {
	if b.write() {
		return ErrInjected
	}
	return b.IndexedBatch.DeleteRange(a, z)
}

func (b *batch) Write() error {
	err := b.s.commit(func() error { return b.IndexedBatch.Write() })
	if err != nil {
		_ = b.IndexedBatch.Close()
	}
	return err
}

func (s *Store) NewBatch() db.Batch                       { return &batch{s.KeyValueStore.NewIndexedBatch(), s} }
func (s *Store) NewBatchWithSize(n int) db.Batch          { return &batch{s.KeyValueStore.NewIndexedBatchWithSize(n), s} }
func (s *Store) NewIndexedBatch() db.IndexedBatch         { return &batch{s.KeyValueStore.NewIndexedBatch(), s} }
func (s *Store) NewIndexedBatchWithSize(n int) db.IndexedBatch {
	return &batch{s.KeyValueStore.NewIndexedBatchWithSize(n), s}
}

func (s *Store) Update(fn func(db.IndexedBatch) error) error {
	b := s.NewIndexedBatch()
	if err := fn(b); err != nil {
		_ = b.Close()
		return err
	}
	return b.Write()
}

func (s *Store) Write(fn func(db.Batch) error) error {
	b := s.NewBatch()
	if err := fn(b); err != nil {
		_ = b.Close()
		return err
	}
	return b.Write()
}

func (s *Store) WithListener(l db.EventListener) db.KeyValueStore { return s }
