// Package stats is the bookkeeping shared by every property package of the harness:
// per-case labels, fingerprints of non-trivial cases, samples, known-finding handling,
// tier budgets, and the per-process JSON file the driver (/verif/check) merges into
// /verif/evidence/<ID>.json.
package stats

import (
	"crypto/sha256"
	"encoding/hex"
	"encoding/json"
	"flag"
	"fmt"
	"os"
	"sort"
	"strconv"
	"strings"
	"sync"
	"testing"

	"pgregory.net/rapid"
)

// Budget is a number of rapid cases per shard (process) for each tier.
type Budget struct {
	Quick    int
	Thorough int
}

type testStats struct {
	Rule      string            `json:"rule"`
	Requested int               `json:"requested"`
	Valid     int               `json:"valid"`
	Labels    map[string]int    `json:"labels"`
	Fps       []string          `json:"nontrivial_fps"`
	Samples   []json.RawMessage `json:"samples"`
	Excluded  map[string]int    `json:"excluded_by_known_finding"`
	KnownHits map[string]int    `json:"known_finding_hits"`
	Info      map[string]int    `json:"info"`
	fpSet     map[string]struct{}
}

var (
	mu     sync.Mutex
	all    = map[string]*testStats{}
	known  map[string]knownEntry
	kfOnce sync.Once
)

type knownEntry struct {
	Property string `json:"property"`
	Key      string `json:"key"`
	Status   string `json:"status"`
	What     string `json:"what"`
}

func loadKnown() {
	known = map[string]knownEntry{}
	p := os.Getenv("VERIF_KNOWN")
	if p == "" {
		p = "/verif/known_findings.json"
	}
	b, err := os.ReadFile(p)
	if err != nil {
		return
	}
	var f struct {
		Findings []knownEntry `json:"findings"`
	}
	if err := json.Unmarshal(b, &f); err != nil {
		HarnessError("known_findings.json unreadable: %v", err)
	}
	for _, e := range f.Findings {
		known[e.Key] = e
	}
}

// Known reports whether key is listed with status "known" in /verif/known_findings.json.
// Generators use it to exclude a confirmed defect's input class by construction (and must then
// call Case.Excluded so the exclusion is counted). Entries with status "fixed" return false.
func Known(key string) bool {
	kfOnce.Do(loadKnown)
	e, ok := known[key]
	return ok && e.Status == "known"
}

// Tier returns "quick" or "thorough" (env VERIF_TIER, default quick).
func Tier() string {
	if os.Getenv("VERIF_TIER") == "thorough" {
		return "thorough"
	}
	return "quick"
}

func Thorough() bool { return Tier() == "thorough" }

// Pick returns q in the quick tier and th in the thorough tier.
func Pick(q, th int) int {
	if Thorough() {
		return th
	}
	return q
}

// HarnessError reports a failure of the verification machinery itself (never a verdict about
// juno): the process exits with status 3, which the driver maps to exit 2.
func HarnessError(format string, args ...any) {
	fmt.Fprintf(os.Stderr, "HARNESS-ERROR: "+format+"\n", args...)
	flush()
	os.Exit(3)
}

// Case is the per-generated-case recorder.
type Case struct {
	ts         *testStats
	labels     map[string]struct{}
	nontrivial bool
	h          strings.Builder
	sample     func() any
	excluded   map[string]int
	info       map[string]int
	t          *rapid.T
}

func (c *Case) Label(l string)  { c.labels[l] = struct{}{} }
func (c *Case) Labelf(f string, a ...any) { c.labels[fmt.Sprintf(f, a...)] = struct{}{} }

// NonTrivial marks the case non-trivial for the reason given (also recorded as a label "nt:reason").
func (c *Case) NonTrivial(reason string) {
	c.nontrivial = true
	c.labels["nt:"+reason] = struct{}{}
}

// Fp adds to the canonical rendering of the case that is hashed into its fingerprint.
func (c *Case) Fp(f string, a ...any) {
	fmt.Fprintf(&c.h, f, a...)
	c.h.WriteByte(';')
}

// Sample registers a lazily evaluated rendering of the case for the evidence file.
func (c *Case) Sample(f func() any) { c.sample = f }

// Excluded counts a draw that was redirected away from a known finding's input class.
func (c *Case) Excluded(key string) { c.excluded[key]++ }

// Info counts an informational observation (not an oracle).
func (c *Case) Info(key string) { c.info[key]++ }

// Violation fails the case. key names the oracle that failed.
func (c *Case) Violation(key, format string, args ...any) {
	c.t.Helper()
	c.t.Fatalf("ORACLE[%s] %s", key, fmt.Sprintf(format, args...))
}

func (c *Case) done() {
	mu.Lock()
	defer mu.Unlock()
	ts := c.ts
	ts.Valid++
	for l := range c.labels {
		ts.Labels[l]++
	}
	for k, n := range c.excluded {
		ts.Excluded[k] += n
	}
	for k, n := range c.info {
		ts.Info[k] += n
	}
	if c.nontrivial {
		sum := sha256.Sum256([]byte(c.h.String()))
		fp := hex.EncodeToString(sum[:6])
		if _, ok := ts.fpSet[fp]; !ok {
			ts.fpSet[fp] = struct{}{}
			if c.sample != nil && len(ts.Samples) < 3 {
				b, err := json.Marshal(c.sample())
				if err == nil {
					if len(b) > 6000 {
						b, _ = json.Marshal(string(b[:6000]) + "…(truncated)")
					}
					ts.Samples = append(ts.Samples, b)
				}
			}
		}
	}
}

func get(name, rule string) *testStats {
	mu.Lock()
	defer mu.Unlock()
	ts, ok := all[name]
	if !ok {
		ts = &testStats{Rule: rule, Labels: map[string]int{}, Excluded: map[string]int{},
			KnownHits: map[string]int{}, Info: map[string]int{}, fpSet: map[string]struct{}{}}
		all[name] = ts
	}
	return ts
}

func scale() float64 {
	if s := os.Getenv("VERIF_SCALE"); s != "" {
		if f, err := strconv.ParseFloat(s, 64); err == nil && f > 0 {
			return f
		}
	}
	return 1
}

// Check runs prop as a rapid property with the tier's budget and records statistics under the
// test's name. rule states how cases are generated and what makes one non-trivial.
func Check(t *testing.T, b Budget, rule string, prop func(rt *rapid.T, c *Case)) {
	t.Helper()
	n := b.Quick
	if Thorough() {
		n = b.Thorough
	}
	n = int(float64(n) * scale())
	if n < 1 {
		n = 1
	}
	if os.Getenv("VERIF_REPLAY") == "" {
		if err := flag.Set("rapid.checks", strconv.Itoa(n)); err != nil {
			HarnessError("flag.Set: %v", err)
		}
	}
	ts := get(t.Name(), rule)
	ts.Requested += n
	rapid.Check(t, func(rt *rapid.T) {
		c := &Case{ts: ts, labels: map[string]struct{}{}, excluded: map[string]int{}, info: map[string]int{}, t: rt}
		prop(rt, c)
		c.done() // only reached for valid, passing cases
	})
}

// Once records a deterministic (non-generated) sub-check as one evaluation with the given labels.
func Once(t *testing.T, rule string, f func(c *Case)) {
	ts := get(t.Name(), rule)
	ts.Requested++
	c := &Case{ts: ts, labels: map[string]struct{}{}, excluded: map[string]int{}, info: map[string]int{}}
	f(c)
	c.done()
}

// KnownFindingWitness records that the deterministic witness of a known finding still reproduces.
// The driver prints one "KNOWN-FINDING: property=… key …" line per key with a non-zero count.
func KnownFindingWitness(t *testing.T, key string, reproduced bool) {
	ts := get(t.Name(), "deterministic witness of a listed known finding")
	if reproduced {
		mu.Lock()
		ts.KnownHits[key]++
		mu.Unlock()
	}
}

func flush() {
	p := os.Getenv("VERIF_STATS")
	if p == "" {
		return
	}
	mu.Lock()
	defer mu.Unlock()
	for _, ts := range all {
		ts.Fps = ts.Fps[:0]
		for fp := range ts.fpSet {
			ts.Fps = append(ts.Fps, fp)
		}
		sort.Strings(ts.Fps)
	}
	b, err := json.Marshal(map[string]any{"tests": all})
	if err != nil {
		fmt.Fprintf(os.Stderr, "HARNESS-ERROR: stats marshal: %v\n", err)
		os.Exit(3)
	}
	if err := os.WriteFile(p, b, 0o644); err != nil {
		fmt.Fprintf(os.Stderr, "HARNESS-ERROR: stats write: %v\n", err)
		os.Exit(3)
	}
}

// Main is called from every property package's TestMain.
func Main(m *testing.M) {
	code := m.Run()
	flush()
	os.Exit(code)
}
