// Package gen is the synthetic-chain generator shared by the chain-based properties.
//
// It draws (with rapid) a universe of contracts/slots/classes and sequences of blocks whose
// state diffs are consistent with an abstract state (ref.State), respecting the guarantees
// juno documents about the sequencer (no double deploy, no deploy+replace of one address in a
// diff, classes declared once, migrated classes were declared with a Poseidon CASM hash, ...).
// Blocks are sealed with the state root of the REFERENCE model and juno's block-hash function.
package gen

import (
	"encoding/json"
	"fmt"
	"math/big"
	"sort"

	"github.com/NethermindEth/juno/blockchain/networks"
	"github.com/NethermindEth/juno/core"
	"github.com/NethermindEth/juno/core/crypto"
	"github.com/NethermindEth/juno/core/felt"
	"github.com/NethermindEth/juno/l1/eth"
	"github.com/NethermindEth/juno/utils/compression"
	"pgregory.net/rapid"

	"verif/harness/internal/ref"
)

var Versions = []string{"0.13.2", "0.13.4", "0.14.0", "0.14.1"}

func F(u uint64) felt.Felt   { var f felt.Felt; f.SetUint64(u); return f }
func FP(u uint64) *felt.Felt { f := F(u); return &f }

func hexFelt(s string) felt.Felt {
	f, err := new(felt.Felt).SetString(s)
	if err != nil {
		panic(err)
	}
	return *f
}

var feltPool = []felt.Felt{
	F(0), F(1), F(2), F(3), F(255), F(256), F(65535), F(1 << 32),
	hexFelt("0xffffffffffffffffffffffffffffffff"),                                // 2^128-1
	hexFelt("0x100000000000000000000000000000000"),                               // 2^128
	hexFelt("0x100000000000000000000000000000001"),                               // 2^128+1
	hexFelt("0x800000000000011000000000000000000000000000000000000000000000000"), // P-1
	hexFelt("0x7ffffffffffffffffffffffffffffffffffffffffffffffffffffffffffffff"), // 2^251-1
}

// Felt draws from a biased pool: special constants and random values.
func Felt() *rapid.Generator[felt.Felt] {
	return rapid.Custom(func(t *rapid.T) felt.Felt {
		switch rapid.IntRange(0, 3).Draw(t, "feltkind") {
		case 0:
			return rapid.SampledFrom(feltPool).Draw(t, "feltconst")
		case 1:
			return F(uint64(rapid.IntRange(0, 1000).Draw(t, "feltsmall")))
		default:
			b := rapid.SliceOfN(rapid.Byte(), 32, 32).Draw(t, "feltbytes")
			b[0] &= 0x07
			var f felt.Felt
			f.SetBytes(b)
			return f
		}
	})
}

func NonZeroFelt() *rapid.Generator[felt.Felt] {
	return rapid.Custom(func(t *rapid.T) felt.Felt {
		f := Felt().Draw(t, "nz")
		if f.IsZero() {
			return F(7)
		}
		return f
	})
}

func Felts(max int) *rapid.Generator[[]felt.Felt] {
	return rapid.Custom(func(t *rapid.T) []felt.Felt {
		n := rapid.IntRange(0, max).Draw(t, "nfelts")
		if rapid.IntRange(0, 49).Draw(t, "wideFelts") == 0 {
			// element counts around the widths of a CBOR array header (and of RLP/proto length prefixes)
			n = rapid.SampledFrom([]int{23, 24, 25, 255, 256, 257}).Draw(t, "nfeltsWide")
		}
		out := make([]felt.Felt, n)
		for i := range out {
			out[i] = Felt().Draw(t, "f")
		}
		return out
	})
}

// SierraInfo is a synthetic Sierra class with a valid class hash and both CASM hashes.
type SierraInfo struct {
	Hash   felt.Felt
	Def    *core.SierraClass
	CasmV1 felt.Felt
	CasmV2 felt.Felt
}

type Cairo0Info struct {
	Hash felt.Felt
	Def  *core.DeprecatedCairoClass
}

// Universe is the finite set of identifiers a case is built from.
type Universe struct {
	Net    *networks.Network
	Addrs  []felt.Felt // ordinary contract addresses
	System []felt.Felt // 0x1, 0x2
	Keys   []felt.Felt // storage keys (share long prefixes)
	Sierra []*SierraInfo
	Cairo0 []*Cairo0Info
	EvKeys []felt.Felt
	// EvAddrs, when non-empty, is the pool event emitters are drawn from instead of Addrs (large pools for busy blocks:
	// the emitters need not be deployed contracts as far as block storage is concerned).
	EvAddrs []felt.Felt
}

// MakeSierra builds a small Sierra class whose hashes are computed by juno's (trusted) class hashing.
func MakeSierra(seed uint64) *SierraInfo {
	prog := []felt.Felt{F(1), F(6), F(0), F(seed), F(seed * 31), F(42)}
	abi := fmt.Sprintf(`[{"type":"function","name":"f%d"}]`, seed)
	abiHash := crypto.StarknetKeccak([]byte(abi))
	progHash := crypto.PoseidonArray(prog)
	sel := crypto.StarknetKeccak([]byte(fmt.Sprintf("sel%d", seed)))
	def := &core.SierraClass{
		Abi:     abi,
		AbiHash: &abiHash,
		EntryPoints: core.SierraEntryPointsByType{
			Constructor: []core.SierraEntryPoint{},
			External:    []core.SierraEntryPoint{{Index: seed % 5, Selector: &sel}},
			L1Handler:   []core.SierraEntryPoint{},
		},
		Program:         prog,
		ProgramHash:     &progHash,
		SemanticVersion: "0.1.0",
		Compiled: &core.CasmClass{
			Bytecode:        []felt.Felt{F(seed), F(seed + 1), F(0x208b7fff7fff7ffe)},
			PythonicHints:   json.RawMessage(`[]`),
			CompilerVersion: "2.1.0",
			Hints:           json.RawMessage(`[]`),
			Prime:           new(big.Int).Add(new(big.Int).Lsh(big.NewInt(1), 251), new(big.Int).Add(new(big.Int).Lsh(big.NewInt(17), 192), big.NewInt(1))),
			External:        []core.CasmEntryPoint{{Offset: seed % 3, Builtins: []string{"range_check"}, Selector: &sel}},
			L1Handler:       []core.CasmEntryPoint{},
			Constructor:     []core.CasmEntryPoint{},
		},
	}
	h, err := def.Hash()
	if err != nil {
		panic(err)
	}
	return &SierraInfo{Hash: h, Def: def, CasmV1: def.Compiled.Hash(core.HashVersionV1), CasmV2: def.Compiled.Hash(core.HashVersionV2)}
}

func MakeCairo0(seed uint64) *Cairo0Info {
	program := fmt.Sprintf(`{"attributes":[],"builtins":["pedersen"],"compiler_version":"0.10.%d","data":["0x%x","0x208b7fff7fff7ffe"],"debug_info":null,"hints":{},"identifiers":{},"main_scope":"__main__","prime":"0x800000000000011000000000000000000000000000000000000000000000001","reference_manager":{"references":[]}}`, seed, seed)
	enc, err := compression.Gzip64Encode([]byte(program))
	if err != nil {
		panic(err)
	}
	sel := crypto.StarknetKeccak([]byte(fmt.Sprintf("c0sel%d", seed)))
	def := &core.DeprecatedCairoClass{
		Abi:          json.RawMessage(`[]`),
		Externals:    []core.DeprecatedEntryPoint{{Selector: &sel, Offset: FP(seed)}},
		L1Handlers:   []core.DeprecatedEntryPoint{},
		Constructors: []core.DeprecatedEntryPoint{},
		Program:      enc,
	}
	h, err := def.Hash()
	if err != nil {
		// the hash of Cairo-0 classes is not verified by juno; fall back to a synthetic identifier
		h = crypto.StarknetKeccak([]byte(fmt.Sprintf("cairo0-%d", seed)))
	}
	return &Cairo0Info{Hash: h, Def: def}
}

var (
	sierraPool []*SierraInfo
	cairo0Pool []*Cairo0Info
)

func init() {
	for i := uint64(1); i <= 6; i++ {
		sierraPool = append(sierraPool, MakeSierra(i))
	}
	for i := uint64(1); i <= 3; i++ {
		cairo0Pool = append(cairo0Pool, MakeCairo0(i))
	}
}

// stemKeys builds n 251-bit keys from a few random stems with low/high bit flips so that
// many keys share long prefixes (edge splits) and some differ in the top bits.
func stemKeys(t *rapid.T, n int, label string) []felt.Felt {
	special := []felt.Felt{F(0), F(1), F(2), feltPool[len(feltPool)-1]}
	out := make([]felt.Felt, 0, n)
	seen := map[felt.Felt]bool{}
	nstems := rapid.IntRange(1, 3).Draw(t, label+"-nstems")
	stems := make([]*big.Int, nstems)
	for i := range stems {
		b := rapid.SliceOfN(rapid.Byte(), 32, 32).Draw(t, label+"-stem")
		b[0] &= 0x07
		stems[i] = new(big.Int).SetBytes(b)
	}
	for len(out) < n {
		var f felt.Felt
		switch rapid.IntRange(0, 5).Draw(t, label+"-kind") {
		case 0:
			f = rapid.SampledFrom(special).Draw(t, label+"-special")
		default:
			s := new(big.Int).Set(stems[rapid.IntRange(0, nstems-1).Draw(t, label+"-si")])
			nflip := rapid.IntRange(0, 2).Draw(t, label+"-nflip")
			for j := 0; j < nflip; j++ {
				// bias flips to the lowest and highest bit positions
				var bit int
				switch rapid.IntRange(0, 2).Draw(t, label+"-region") {
				case 0:
					bit = rapid.IntRange(0, 7).Draw(t, label+"-lowbit")
				case 1:
					bit = rapid.IntRange(240, 250).Draw(t, label+"-highbit")
				default:
					bit = rapid.IntRange(0, 250).Draw(t, label+"-bit")
				}
				s.SetBit(s, bit, s.Bit(bit)^1)
			}
			f.SetBigInt(s)
		}
		if !seen[f] {
			seen[f] = true
			out = append(out, f)
		}
	}
	return out
}

func NewUniverse(t *rapid.T) *Universe {
	u := &Universe{Net: &networks.Sepolia, System: []felt.Felt{F(1), F(2)}, Sierra: sierraPool, Cairo0: cairo0Pool}
	for _, a := range stemKeys(t, rapid.IntRange(3, 6).Draw(t, "naddrs"), "addr") {
		if !ref.IsSystem(&a) && !a.IsZero() {
			u.Addrs = append(u.Addrs, a)
		}
	}
	if len(u.Addrs) == 0 {
		u.Addrs = []felt.Felt{F(0x1234)}
	}
	u.Keys = stemKeys(t, rapid.IntRange(3, 7).Draw(t, "nkeys"), "key")
	u.EvKeys = []felt.Felt{F(0), F(1), F(0xabc), hexFelt("0x99cd8bde557814842a3121e8ddfd433a539b8c9f14bf31ebf108d12e6196e9")}
	return u
}

// AllAddrs = ordinary + system addresses.
func (u *Universe) AllAddrs() []felt.Felt {
	return append(append([]felt.Felt{}, u.Addrs...), u.System...)
}

func (u *Universe) SierraByHash(h felt.Felt) *SierraInfo {
	for _, s := range u.Sierra {
		if s.Hash.Equal(&h) {
			return s
		}
	}
	return nil
}

func (u *Universe) CasmV2Of(h felt.Felt) felt.Felt {
	if s := u.SierraByHash(h); s != nil {
		return s.CasmV2
	}
	return felt.Zero
}

// Block is one generated, sealed block with everything a node needs to store it.
type Block struct {
	B       *core.Block
	SU      *core.StateUpdate
	Classes map[felt.Felt]core.ClassDefinition
	Pre     *ref.State // abstract state before the block
	Post    *ref.State // abstract state after the block
	Tags    map[string]bool
}

func (b *Block) Num() uint64 { return b.B.Number }

// Opts biases generation.
type Opts struct {
	MaxTxs         int
	MaxEvents      int
	NoZeroToAbsent bool // exclude "zero write to a never-written slot" (known finding class)
	FixedVersion   string
	MinVersionIdx  int
	DenseEvents    bool
	// BusyBlockOneIn > 0: one block in that many is busy (10..30 transactions with 2..5 events each), so that with large
	// EvAddrs/EvKeys pools the block's events bloom has many hundreds of set bits.
	BusyBlockOneIn int
	// ReincludeOrphans: a fork re-includes transactions of the blocks it abandons (the mempool puts them into the replacing
	// blocks: same transaction, same hash, another block / index / neighbours; its receipt is drawn anew). Each orphan is used
	// at most once per chain.
	ReincludeOrphans bool
}

// Chain is a generated chain with its model snapshots. Blocks[i].Num() == i.
type Chain struct {
	U      *Universe
	Blocks []*Block
	verIdx int
	ts     uint64
	nonce  uint64
	Opt    Opts
	forks  *uint64 // shared by all forks of one root chain: gives every fork its own nonce space
	Frozen bool    // a per-process base chain shared between cases: forks of it start their own family
	busy   bool    // the block being drawn is a busy block (see Opts.BusyBlockOneIn)
	orphans []core.Transaction // transactions of abandoned blocks not yet re-included (Opts.ReincludeOrphans)
}

func NewChain(u *Universe, o Opts) *Chain {
	if o.MaxTxs == 0 {
		o.MaxTxs = 4
	}
	if o.MaxEvents == 0 {
		o.MaxEvents = 3
	}
	return &Chain{U: u, Opt: o, ts: 1_700_000_000, verIdx: o.MinVersionIdx}
}

// Fork returns a chain sharing blocks [0,n) with c (n = number of blocks kept).
func (c *Chain) Fork(n int) *Chain {
	forks := c.forks
	if c.Frozen {
		forks = new(uint64) // keep cases independent of each other (and of their order)
	} else if forks == nil {
		c.forks = new(uint64)
		forks = c.forks
	}
	*forks++
	// distinct nonce space per fork: transactions whose hash is given rather than derived (Declare v0, Deploy)
	// must not collide between forks
	f := &Chain{U: c.U, Opt: c.Opt, ts: c.ts + 1000, nonce: (*forks) * 1_000_000_000, verIdx: c.Opt.MinVersionIdx, forks: forks}
	f.Blocks = append(f.Blocks, c.Blocks[:n]...)
	if c.Opt.ReincludeOrphans {
		f.orphans = append(f.orphans, c.orphans...)
		for _, b := range c.Blocks[n:] {
			for _, tx := range b.B.Transactions {
				f.orphans = append(f.orphans, CloneTx(tx))
			}
		}
	}
	if n > 0 {
		for i, v := range Versions {
			if v == c.Blocks[n-1].B.ProtocolVersion {
				f.verIdx = i
			}
		}
		f.ts = c.Blocks[n-1].B.Timestamp + 500
	}
	return f
}

func (c *Chain) TipState() *ref.State {
	if len(c.Blocks) == 0 {
		return ref.NewState()
	}
	return c.Blocks[len(c.Blocks)-1].Post
}

func (c *Chain) Height() int { return len(c.Blocks) }

// Next draws, seals and appends the next block.
func (c *Chain) Next(t *rapid.T) *Block {
	b := c.Draw(t)
	c.Blocks = append(c.Blocks, b)
	return b
}

// Draw draws and seals the next block without appending it.
func (c *Chain) Draw(t *rapid.T) *Block {
	u := c.U
	pre := c.TipState()
	num := uint64(len(c.Blocks))
	// protocol version: non-decreasing along a chain
	if c.Opt.FixedVersion != "" {
		for i, v := range Versions {
			if v == c.Opt.FixedVersion {
				c.verIdx = i
			}
		}
	} else if c.verIdx < len(Versions)-1 && rapid.IntRange(0, 3).Draw(t, "bumpver") == 0 {
		c.verIdx += rapid.IntRange(1, len(Versions)-1-c.verIdx).Draw(t, "verstep")
	}
	version := Versions[c.verIdx]
	tags := map[string]bool{}

	diff, classes := c.drawDiff(t, pre, num, version, tags)
	post := pre.Clone()
	if err := post.Apply(num, version, diff, classes, u.CasmV2Of); err != nil {
		panic(fmt.Sprintf("generator produced an inconsistent diff: %v", err))
	}

	txs, receipts := c.drawTxs(t, version, diff, tags)

	c.ts += uint64(rapid.IntRange(1, 600).Draw(t, "dt"))
	parent := felt.Zero
	if num > 0 {
		parent = *c.Blocks[num-1].B.Hash
	}
	evCount := uint64(0)
	for _, r := range receipts {
		evCount += uint64(len(r.Events))
	}
	seq := Felt().Draw(t, "sequencer")
	h := &core.Header{
		ParentHash:       &parent,
		Number:           num,
		SequencerAddress: &seq,
		TransactionCount: uint64(len(txs)),
		EventCount:       evCount,
		Timestamp:        c.ts,
		ProtocolVersion:  version,
		EventsBloom:      core.EventsBloom(receipts),
		L1GasPriceETH:    ptr(NonZeroFelt().Draw(t, "gp1")),
		L1GasPriceSTRK:   ptr(NonZeroFelt().Draw(t, "gp2")),
		L1DAMode:         core.L1DAMode(rapid.IntRange(0, 1).Draw(t, "damode")),
		L1DataGasPrice:   &core.GasPrice{PriceInWei: ptr(NonZeroFelt().Draw(t, "gp3")), PriceInFri: ptr(NonZeroFelt().Draw(t, "gp4"))},
		L2GasPrice:       &core.GasPrice{PriceInWei: ptr(NonZeroFelt().Draw(t, "gp5")), PriceInFri: ptr(NonZeroFelt().Draw(t, "gp6"))},
	}
	blk := &Block{
		B:       &core.Block{Header: h, Transactions: txs, Receipts: receipts},
		SU:      &core.StateUpdate{StateDiff: diff},
		Classes: classes, Pre: pre, Post: post, Tags: tags,
	}
	Seal(blk, u.Net)
	return blk
}

func ptr[T any](v T) *T { return &v }

// Seal sets old/new root from the reference model and the block hash from juno's hash function.
func Seal(b *Block, net *networks.Network) {
	v := b.B.ProtocolVersion
	or, nr := b.Pre.Commitment(v), b.Post.Commitment(v)
	b.SU.OldRoot, b.SU.NewRoot = &or, &nr
	b.B.GlobalStateRoot = &nr
	Rehash(b, net)
}

// Rehash recomputes the block hash (after a deliberate modification of committed content).
func Rehash(b *Block, net *networks.Network) {
	h, _, err := core.BlockHash(b.B, b.SU.StateDiff, net, nil, core.TrieBackend)
	if err != nil {
		panic(err)
	}
	b.B.Hash = &h
	b.SU.BlockHash = &h
}

func (c *Chain) drawDiff(t *rapid.T, pre *ref.State, num uint64, version string, tags map[string]bool) (*core.StateDiff, map[felt.Felt]core.ClassDefinition) {
	u := c.U
	d := core.EmptyStateDiff()
	classes := map[felt.Felt]core.ClassDefinition{}
	v2 := version == "0.14.1"

	// --- declarations
	var declared []felt.Felt // declared so far incl. this block (usable by deploys)
	for h := range pre.Classes {
		declared = append(declared, h)
	}
	sortFelts(declared)
	for _, s := range u.Sierra {
		if _, ok := pre.Classes[s.Hash]; ok {
			continue
		}
		if rapid.IntRange(0, 3).Draw(t, "declSierra") == 0 {
			casm := s.CasmV1
			if v2 {
				casm = s.CasmV2
			}
			d.DeclaredV1Classes[s.Hash] = &casm
			classes[s.Hash] = s.Def
			declared = append(declared, s.Hash)
			tags["declare"] = true
		}
	}
	for _, s := range u.Cairo0 {
		if _, ok := pre.Classes[s.Hash]; ok {
			continue
		}
		if rapid.IntRange(0, 5).Draw(t, "declCairo0") == 0 {
			h := s.Hash
			d.DeclaredV0Classes = append(d.DeclaredV0Classes, &h)
			classes[s.Hash] = s.Def
			declared = append(declared, s.Hash)
			tags["declare0"] = true
		}
	}
	// --- CASM migrations (0.14.1 only): classes declared earlier with a Poseidon hash
	if v2 {
		for _, h := range pre.SortedClasses() {
			cl := pre.Classes[h]
			if cl.Sierra && cl.CasmV1 != nil && cl.MigratedAt == 0 && cl.DeclaredAt < num &&
				rapid.IntRange(0, 2).Draw(t, "migrate") == 0 {
				d.MigratedClasses[felt.SierraClassHash(h)] = felt.CasmClassHash(u.CasmV2Of(h))
				tags["migrate"] = true
			}
		}
	}
	// --- deploys
	newly := map[felt.Felt]bool{}
	if len(declared) > 0 {
		for _, a := range u.Addrs {
			if _, ok := pre.Contracts[a]; ok {
				continue
			}
			if rapid.IntRange(0, 2).Draw(t, "deploy") == 0 {
				ch := rapid.SampledFrom(declared).Draw(t, "deployClass")
				d.DeployedContracts[a] = &ch
				newly[a] = true
				tags["deploy"] = true
			}
		}
	}
	// --- replaced classes (only contracts deployed before this block)
	if len(declared) > 1 {
		for _, a := range pre.SortedContracts() {
			ct := pre.Contracts[a]
			if ct.System {
				continue
			}
			if rapid.IntRange(0, 5).Draw(t, "replace") == 0 {
				ch := rapid.SampledFrom(declared).Draw(t, "replaceClass")
				d.ReplacedClasses[a] = &ch
				tags["replace"] = true
			}
		}
	}
	// (a contract is never deployed and class-replaced in the same diff: core.StateDiff.Hash documents this as a sequencer
	// guarantee, and a diff listing both is ambiguous for the hash; probing it was a generator false alarm, DESIGN 10.4)
	// --- nonces and storage for existing + newly deployed contracts
	var live []felt.Felt
	for _, a := range u.Addrs {
		if _, ok := pre.Contracts[a]; ok || newly[a] {
			live = append(live, a)
		}
	}
	for _, a := range live {
		if rapid.IntRange(0, 2).Draw(t, "nonce") == 0 {
			var n felt.Felt
			if ct, ok := pre.Contracts[a]; ok && rapid.IntRange(0, 3).Draw(t, "nonceInc") > 0 {
				n.Add(&ct.Nonce, FP(1))
			} else {
				n = Felt().Draw(t, "nonceVal")
			}
			d.Nonces[a] = &n
		}
	}
	storageTargets := append(append([]felt.Felt{}, live...), u.System...)
	for _, a := range storageTargets {
		sys := ref.IsSystem(&a)
		p := 1
		if sys {
			p = 3
		}
		if rapid.IntRange(0, p).Draw(t, "touchStorage") != 0 {
			continue
		}
		nw := rapid.IntRange(1, 4).Draw(t, "nwrites")
		if !sys && rapid.IntRange(0, 11).Draw(t, "emptySlotMap") == 0 {
			// a contract listed in storage_diffs without any slot (the feeder format allows it, sn2core keeps the entry,
			// and the state-diff hash counts it)
			nw = 0
			tags["empty-slot-map"] = true
		}
		var cur map[felt.Felt]felt.Felt
		if ct, ok := pre.Contracts[a]; ok {
			cur = ct.Storage
		}
		m := map[felt.Felt]*felt.Felt{}
		for i := 0; i < nw; i++ {
			k := rapid.SampledFrom(u.Keys).Draw(t, "skey")
			old, present := cur[k]
			var v felt.Felt
			kind := rapid.IntRange(0, 5).Draw(t, "wkind")
			switch {
			case kind == 0 && !sys: // write zero
				if !present {
					if c.Opt.NoZeroToAbsent {
						v = NonZeroFelt().Draw(t, "sval")
						tags["excluded-zero-to-absent"] = true
						break
					}
					tags["zero-to-absent"] = true
				} else {
					tags["zero-to-present"] = true
				}
				v = felt.Zero
			case kind == 1 && present: // rewrite the same value
				v = old
				tags["same-value"] = true
			default:
				v = NonZeroFelt().Draw(t, "sval")
			}
			m[k] = &v
		}
		d.StorageDiffs[a] = m
		if sys {
			tags["system-storage"] = true
		}
		if newly[a] {
			tags["deploy+touch"] = true
		}
	}
	return &d, classes
}

func sortFelts(fs []felt.Felt) {
	for i := 1; i < len(fs); i++ {
		for j := i; j > 0 && fs[j].Cmp(&fs[j-1]) < 0; j-- {
			fs[j], fs[j-1] = fs[j-1], fs[j]
		}
	}
}

func txVersion(v uint64) *core.TransactionVersion { return new(core.TransactionVersion).SetUint64(v) }

func (c *Chain) resourceBounds(t *rapid.T, version string) map[core.Resource]core.ResourceBounds {
	rb := map[core.Resource]core.ResourceBounds{
		core.ResourceL1Gas: {MaxAmount: uint64(rapid.IntRange(0, 1<<20).Draw(t, "rb1a")), MaxPricePerUnit: ptr(Felt128().Draw(t, "rb1p"))},
		core.ResourceL2Gas: {MaxAmount: uint64(rapid.IntRange(0, 1<<20).Draw(t, "rb2a")), MaxPricePerUnit: ptr(Felt128().Draw(t, "rb2p"))},
	}
	if version != "0.13.2" && rapid.Bool().Draw(t, "hasL1Data") {
		rb[core.ResourceL1DataGas] = core.ResourceBounds{MaxAmount: uint64(rapid.IntRange(0, 1<<20).Draw(t, "rb3a")), MaxPricePerUnit: ptr(Felt128().Draw(t, "rb3p"))}
	}
	return rb
}

// Felt128 draws a value below 2^128 (resource prices are uint128).
func Felt128() *rapid.Generator[felt.Felt] {
	return rapid.Custom(func(t *rapid.T) felt.Felt {
		b := rapid.SliceOfN(rapid.Byte(), 16, 16).Draw(t, "u128")
		var f felt.Felt
		f.SetBytes(b)
		return f
	})
}

func daMode(t *rapid.T, l string) core.DataAvailabilityMode {
	return core.DataAvailabilityMode(rapid.IntRange(0, 1).Draw(t, l))
}

// DrawTx draws one transaction of a drawn kind/version with a correct hash.
func (c *Chain) DrawTx(t *rapid.T, version string) core.Transaction {
	u := c.U
	c.nonce++
	nonce := F(c.nonce) // distinct nonces ⇒ distinct hashes
	addr := rapid.SampledFrom(u.Addrs).Draw(t, "txaddr")
	sig := Felts(3).Draw(t, "sig")
	var tx core.Transaction
	kind := rapid.SampledFrom([]string{"invoke0", "invoke1", "invoke3", "invoke3", "declare1", "declare2", "declare3", "declare0", "deployacc1", "deployacc3", "l1handler", "l1handler", "deploy"}).Draw(t, "txkind")
	switch kind {
	case "invoke0":
		tx = &core.InvokeTransaction{Version: txVersion(0), ContractAddress: &addr, EntryPointSelector: ptr(Felt().Draw(t, "sel")),
			CallData: append(Felts(3).Draw(t, "cd"), nonce), MaxFee: ptr(Felt().Draw(t, "maxfee")), TransactionSignature: sig}
	case "invoke1":
		tx = &core.InvokeTransaction{Version: txVersion(1), SenderAddress: &addr, CallData: Felts(4).Draw(t, "cd"),
			MaxFee: ptr(Felt().Draw(t, "maxfee")), Nonce: &nonce, TransactionSignature: sig}
	case "invoke3":
		itx := &core.InvokeTransaction{Version: txVersion(3), SenderAddress: &addr, CallData: Felts(4).Draw(t, "cd"), Nonce: &nonce,
			TransactionSignature: sig, ResourceBounds: c.resourceBounds(t, version), Tip: uint64(rapid.IntRange(0, 1000).Draw(t, "tip")),
			PaymasterData: Felts(2).Draw(t, "pm"), AccountDeploymentData: Felts(2).Draw(t, "add"),
			NonceDAMode: daMode(t, "nda"), FeeDAMode: daMode(t, "fda")}
		if version == "0.14.1" && rapid.IntRange(0, 2).Draw(t, "proof") == 0 {
			itx.ProofFacts = append(Felts(2).Draw(t, "pf"), F(9))
		}
		tx = itx
	case "declare0":
		tx = &core.DeclareTransaction{Version: txVersion(0), ClassHash: ptr(Felt().Draw(t, "ch")), SenderAddress: &addr,
			MaxFee: ptr(Felt().Draw(t, "maxfee")), TransactionSignature: sig, Nonce: &nonce,
			TransactionHash: ptr(crypto.PoseidonElems(FP(0xdec0), &nonce))}
	case "declare1":
		tx = &core.DeclareTransaction{Version: txVersion(1), ClassHash: ptr(Felt().Draw(t, "ch")), SenderAddress: &addr,
			MaxFee: ptr(Felt().Draw(t, "maxfee")), TransactionSignature: sig, Nonce: &nonce}
	case "declare2":
		tx = &core.DeclareTransaction{Version: txVersion(2), ClassHash: ptr(Felt().Draw(t, "ch")), SenderAddress: &addr,
			MaxFee: ptr(Felt().Draw(t, "maxfee")), TransactionSignature: sig, Nonce: &nonce, CompiledClassHash: ptr(Felt().Draw(t, "cch"))}
	case "declare3":
		tx = &core.DeclareTransaction{Version: txVersion(3), ClassHash: ptr(Felt().Draw(t, "ch")), SenderAddress: &addr,
			TransactionSignature: sig, Nonce: &nonce, CompiledClassHash: ptr(Felt().Draw(t, "cch")),
			ResourceBounds: c.resourceBounds(t, version), Tip: uint64(rapid.IntRange(0, 1000).Draw(t, "tip")),
			PaymasterData: Felts(2).Draw(t, "pm"), AccountDeploymentData: Felts(2).Draw(t, "add"),
			NonceDAMode: daMode(t, "nda"), FeeDAMode: daMode(t, "fda")}
	case "deployacc1", "deployacc3":
		ch := Felt().Draw(t, "ch")
		salt := nonce
		cd := Felts(3).Draw(t, "ccd")
		ca := core.ContractAddress(&felt.Zero, &ch, &salt, cd)
		dtx := &core.DeployAccountTransaction{
			DeployTransaction:    core.DeployTransaction{ContractAddressSalt: &salt, ContractAddress: &ca, ClassHash: &ch, ConstructorCallData: cd, Version: txVersion(1)},
			TransactionSignature: sig, Nonce: ptr(Felt().Draw(t, "danonce")),
		}
		if kind == "deployacc1" {
			dtx.MaxFee = ptr(Felt().Draw(t, "maxfee"))
		} else {
			dtx.Version = txVersion(3)
			dtx.ResourceBounds = c.resourceBounds(t, version)
			dtx.Tip = uint64(rapid.IntRange(0, 1000).Draw(t, "tip"))
			dtx.PaymasterData = Felts(2).Draw(t, "pm")
			dtx.NonceDAMode, dtx.FeeDAMode = daMode(t, "nda"), daMode(t, "fda")
		}
		tx = dtx
	case "l1handler":
		from := Felt128().Draw(t, "l1from")
		l1 := &core.L1HandlerTransaction{Version: txVersion(0), ContractAddress: &addr, EntryPointSelector: ptr(Felt().Draw(t, "sel")),
			Nonce: &nonce, CallData: append([]felt.Felt{from}, Felts(3).Draw(t, "cd")...)}
		if rapid.IntRange(0, 4).Draw(t, "legacyL1Handler") == 0 {
			// the L1 handlers of the first Starknet versions carry no nonce; their hash is not re-derivable (given)
			l1.Nonce = nil
			l1.TransactionHash = ptr(crypto.PoseidonElems(FP(0x11a), &nonce))
		}
		tx = l1
	case "deploy":
		ch := Felt().Draw(t, "ch")
		salt := nonce
		cd := Felts(2).Draw(t, "ccd")
		ca := core.ContractAddress(&felt.Zero, &ch, &salt, cd)
		tx = &core.DeployTransaction{ContractAddressSalt: &salt, ContractAddress: &ca, ClassHash: &ch, ConstructorCallData: cd, Version: txVersion(0),
			TransactionHash: ptr(crypto.PoseidonElems(FP(0xdeb1), &nonce))}
	}
	SetTxHash(tx, u.Net)
	return tx
}

// SetTxHash (re)computes the transaction hash field with juno's hash function.
func SetTxHash(tx core.Transaction, net *networks.Network) {
	switch x := tx.(type) {
	case *core.DeployTransaction:
		return // not re-derivable (given)
	case *core.DeclareTransaction:
		if x.Version.Is(0) {
			return
		}
		h, err := core.TransactionHash(tx, net)
		if err != nil {
			panic(err)
		}
		x.TransactionHash = &h
	case *core.InvokeTransaction:
		h, err := core.TransactionHash(tx, net)
		if err != nil {
			panic(err)
		}
		x.TransactionHash = &h
	case *core.DeployAccountTransaction:
		h, err := core.TransactionHash(tx, net)
		if err != nil {
			panic(err)
		}
		x.TransactionHash = &h
	case *core.L1HandlerTransaction:
		h, err := core.TransactionHash(tx, net)
		if err != nil {
			panic(err)
		}
		x.TransactionHash = &h
	}
}

func (c *Chain) DrawEvent(t *rapid.T) *core.Event {
	u := c.U
	pool := u.Addrs
	if len(u.EvAddrs) > 0 {
		pool = u.EvAddrs
	}
	from := rapid.SampledFrom(pool).Draw(t, "evfrom")
	nk := rapid.IntRange(0, 3).Draw(t, "nevkeys")
	keys := make([]felt.Felt, nk)
	for i := range keys {
		keys[i] = rapid.SampledFrom(u.EvKeys).Draw(t, "evkey")
	}
	return &core.Event{From: &from, Keys: keys, Data: Felts(3).Draw(t, "evdata")}
}

func (c *Chain) DrawReceipt(t *rapid.T, tx core.Transaction) *core.TransactionReceipt {
	u := c.U
	nev := rapid.IntRange(0, c.Opt.MaxEvents).Draw(t, "nev")
	if c.Opt.DenseEvents && nev == 0 {
		nev = 1
	}
	if c.busy {
		nev = rapid.IntRange(2, 5).Draw(t, "nevBusy")
	}
	evs := make([]*core.Event, nev)
	for i := range evs {
		evs[i] = c.DrawEvent(t)
	}
	nmsg := rapid.IntRange(0, 2).Draw(t, "nmsg")
	msgs := make([]*core.L2ToL1Message, nmsg)
	for i := range msgs {
		to := rapid.SliceOfN(rapid.Byte(), 20, 20).Draw(t, "msgto")
		msgs[i] = &core.L2ToL1Message{From: ptr(rapid.SampledFrom(u.Addrs).Draw(t, "msgfrom")), Payload: Felts(3).Draw(t, "msgpl"), To: eth.Address(to)}
	}
	r := &core.TransactionReceipt{
		Fee:             ptr(Felt().Draw(t, "fee")),
		Events:          evs,
		L2ToL1Message:   msgs,
		TransactionHash: tx.Hash(),
		ExecutionResources: &core.ExecutionResources{
			BuiltinInstanceCounter: core.BuiltinInstanceCounter{Pedersen: uint64(rapid.IntRange(0, 9).Draw(t, "bped")), RangeCheck: uint64(rapid.IntRange(0, 9).Draw(t, "brc"))},
			MemoryHoles:            uint64(rapid.IntRange(0, 50).Draw(t, "holes")),
			Steps:                  uint64(rapid.IntRange(0, 5000).Draw(t, "steps")),
			DataAvailability:       &core.DataAvailability{L1Gas: uint64(rapid.IntRange(0, 99).Draw(t, "dal1")), L1DataGas: uint64(rapid.IntRange(0, 99).Draw(t, "dal1d"))},
			TotalGasConsumed:       &core.GasConsumed{L1Gas: uint64(rapid.IntRange(0, 999).Draw(t, "gl1")), L1DataGas: uint64(rapid.IntRange(0, 999).Draw(t, "gl1d")), L2Gas: uint64(rapid.IntRange(0, 999).Draw(t, "gl2"))},
		},
	}
	if tx.TxVersion().Is(3) {
		r.FeeUnit = core.STRK
	}
	if rapid.IntRange(0, 4).Draw(t, "reverted") == 0 {
		r.Reverted = true
		r.RevertReason = rapid.SampledFrom([]string{"", "out of gas", "Error in the called contract (0x1): Entry point not found", "x"}).Draw(t, "reason")
	}
	if l1, ok := tx.(*core.L1HandlerTransaction); ok {
		var from eth.Address
		fb := l1.CallData[0].Bytes()
		copy(from[:], fb[12:])
		r.L1ToL2Message = &core.L1ToL2Message{From: from, Nonce: l1.Nonce, Payload: l1.CallData[1:], Selector: l1.EntryPointSelector, To: l1.ContractAddress}
	}
	return r
}

func (c *Chain) drawTxs(t *rapid.T, version string, d *core.StateDiff, tags map[string]bool) ([]core.Transaction, []*core.TransactionReceipt) {
	n := rapid.IntRange(0, c.Opt.MaxTxs).Draw(t, "ntx")
	c.busy = c.Opt.BusyBlockOneIn > 0 && rapid.IntRange(0, c.Opt.BusyBlockOneIn-1).Draw(t, "busyBlock") == 0
	if c.busy {
		n = rapid.IntRange(10, 30).Draw(t, "ntxBusy")
		tags["busy-block"] = true
		defer func() { c.busy = false }()
	}
	txs := make([]core.Transaction, n)
	rs := make([]*core.TransactionReceipt, n)
	// a quarter of the blocks carry transactions but no event at all (event count 0 with receipts present)
	eventless := !c.Opt.DenseEvents && n > 0 && rapid.IntRange(0, 3).Draw(t, "eventlessBlock") == 0
	if eventless {
		tags["eventless-block-with-txs"] = true
	}
	for i := range txs {
		if len(c.orphans) > 0 && rapid.IntRange(0, 2).Draw(t, "reinclude") == 0 {
			k := rapid.IntRange(0, len(c.orphans)-1).Draw(t, "orphan")
			txs[i] = c.orphans[k]
			c.orphans = append(append([]core.Transaction{}, c.orphans[:k]...), c.orphans[k+1:]...)
			tags["reincluded-orphan"] = true
		} else {
			txs[i] = c.DrawTx(t, version)
		}
		rs[i] = c.DrawReceipt(t, txs[i])
		if eventless {
			rs[i].Events = []*core.Event{}
		}
		if _, ok := txs[i].(*core.L1HandlerTransaction); ok {
			tags["l1handler"] = true
		}
	}
	if n == 0 {
		tags["empty-block"] = true
	}
	return txs, rs
}

// DiffString renders a state diff canonically (sorted), for fingerprints and failure messages.
func DiffString(d *core.StateDiff) string {
	s := ""
	addrs := make([]felt.Felt, 0)
	for a := range d.StorageDiffs {
		addrs = append(addrs, a)
	}
	sort.Slice(addrs, func(i, j int) bool { return addrs[i].Cmp(&addrs[j]) < 0 })
	for _, a := range addrs {
		ks := make([]felt.Felt, 0)
		for k := range d.StorageDiffs[a] {
			ks = append(ks, k)
		}
		sort.Slice(ks, func(i, j int) bool { return ks[i].Cmp(&ks[j]) < 0 })
		s += "S[" + a.ShortString() + ":"
		for _, k := range ks {
			s += k.ShortString() + "=" + d.StorageDiffs[a][k].ShortString() + ","
		}
		s += "]"
	}
	s += fmt.Sprintf(" N%d D%d R%d C0:%d C1:%d M%d", len(d.Nonces), len(d.DeployedContracts), len(d.ReplacedClasses), len(d.DeclaredV0Classes), len(d.DeclaredV1Classes), len(d.MigratedClasses))
	for _, m := range []map[felt.Felt]*felt.Felt{d.Nonces, d.DeployedContracts, d.ReplacedClasses, d.DeclaredV1Classes} {
		ks := make([]felt.Felt, 0)
		for k := range m {
			ks = append(ks, k)
		}
		sort.Slice(ks, func(i, j int) bool { return ks[i].Cmp(&ks[j]) < 0 })
		s += "{"
		for _, k := range ks {
			s += k.ShortString() + ":" + m[k].ShortString() + ","
		}
		s += "}"
	}
	return s
}

func cloneFelts(f []felt.Felt) []felt.Felt {
	if f == nil {
		return nil
	}
	return append([]felt.Felt{}, f...)
}

func cloneFP(f *felt.Felt) *felt.Felt {
	if f == nil {
		return nil
	}
	c := *f
	return &c
}

func cloneRB(m map[core.Resource]core.ResourceBounds) map[core.Resource]core.ResourceBounds {
	if m == nil {
		return nil
	}
	o := map[core.Resource]core.ResourceBounds{}
	for k, v := range m {
		v.MaxPricePerUnit = cloneFP(v.MaxPricePerUnit)
		o[k] = v
	}
	return o
}

func cloneVer(v *core.TransactionVersion) *core.TransactionVersion {
	if v == nil {
		return nil
	}
	c := *v
	return &c
}

// CloneTx deep-copies a transaction.
func CloneTx(tx core.Transaction) core.Transaction {
	switch x := tx.(type) {
	case *core.InvokeTransaction:
		c := *x
		c.TransactionHash, c.MaxFee, c.ContractAddress, c.EntryPointSelector, c.Nonce, c.SenderAddress = cloneFP(x.TransactionHash), cloneFP(x.MaxFee), cloneFP(x.ContractAddress), cloneFP(x.EntryPointSelector), cloneFP(x.Nonce), cloneFP(x.SenderAddress)
		c.CallData, c.TransactionSignature, c.PaymasterData, c.AccountDeploymentData, c.ProofFacts = cloneFelts(x.CallData), cloneFelts(x.TransactionSignature), cloneFelts(x.PaymasterData), cloneFelts(x.AccountDeploymentData), cloneFelts(x.ProofFacts)
		c.ResourceBounds, c.Version = cloneRB(x.ResourceBounds), cloneVer(x.Version)
		return &c
	case *core.DeclareTransaction:
		c := *x
		c.TransactionHash, c.ClassHash, c.SenderAddress, c.MaxFee, c.Nonce, c.CompiledClassHash = cloneFP(x.TransactionHash), cloneFP(x.ClassHash), cloneFP(x.SenderAddress), cloneFP(x.MaxFee), cloneFP(x.Nonce), cloneFP(x.CompiledClassHash)
		c.TransactionSignature, c.PaymasterData, c.AccountDeploymentData = cloneFelts(x.TransactionSignature), cloneFelts(x.PaymasterData), cloneFelts(x.AccountDeploymentData)
		c.ResourceBounds, c.Version = cloneRB(x.ResourceBounds), cloneVer(x.Version)
		return &c
	case *core.DeployAccountTransaction:
		c := *x
		c.TransactionHash, c.ContractAddressSalt, c.ContractAddress, c.ClassHash = cloneFP(x.TransactionHash), cloneFP(x.ContractAddressSalt), cloneFP(x.ContractAddress), cloneFP(x.ClassHash)
		c.ConstructorCallData, c.TransactionSignature, c.PaymasterData = cloneFelts(x.ConstructorCallData), cloneFelts(x.TransactionSignature), cloneFelts(x.PaymasterData)
		c.MaxFee, c.Nonce = cloneFP(x.MaxFee), cloneFP(x.Nonce)
		c.ResourceBounds, c.Version = cloneRB(x.ResourceBounds), cloneVer(x.Version)
		return &c
	case *core.L1HandlerTransaction:
		c := *x
		c.TransactionHash, c.ContractAddress, c.EntryPointSelector, c.Nonce = cloneFP(x.TransactionHash), cloneFP(x.ContractAddress), cloneFP(x.EntryPointSelector), cloneFP(x.Nonce)
		c.CallData, c.Version = cloneFelts(x.CallData), cloneVer(x.Version)
		return &c
	case *core.DeployTransaction:
		c := *x
		c.TransactionHash, c.ContractAddressSalt, c.ContractAddress, c.ClassHash = cloneFP(x.TransactionHash), cloneFP(x.ContractAddressSalt), cloneFP(x.ContractAddress), cloneFP(x.ClassHash)
		c.ConstructorCallData, c.Version = cloneFelts(x.ConstructorCallData), cloneVer(x.Version)
		return &c
	}
	panic("unknown tx type")
}

func CloneReceipt(r *core.TransactionReceipt) *core.TransactionReceipt {
	c := *r
	c.Fee, c.TransactionHash = cloneFP(r.Fee), cloneFP(r.TransactionHash)
	c.Events = make([]*core.Event, len(r.Events))
	for i, e := range r.Events {
		c.Events[i] = &core.Event{From: cloneFP(e.From), Keys: cloneFelts(e.Keys), Data: cloneFelts(e.Data)}
	}
	c.L2ToL1Message = make([]*core.L2ToL1Message, len(r.L2ToL1Message))
	for i, m := range r.L2ToL1Message {
		c.L2ToL1Message[i] = &core.L2ToL1Message{From: cloneFP(m.From), Payload: cloneFelts(m.Payload), To: m.To}
	}
	if r.ExecutionResources != nil {
		er := *r.ExecutionResources
		if er.DataAvailability != nil {
			da := *er.DataAvailability
			er.DataAvailability = &da
		}
		if er.TotalGasConsumed != nil {
			g := *er.TotalGasConsumed
			er.TotalGasConsumed = &g
		}
		c.ExecutionResources = &er
	}
	if r.L1ToL2Message != nil {
		m := *r.L1ToL2Message
		m.Nonce, m.Selector, m.To, m.Payload = cloneFP(m.Nonce), cloneFP(m.Selector), cloneFP(m.To), cloneFelts(m.Payload)
		c.L1ToL2Message = &m
	}
	return &c
}

func cloneFeltMap(m map[felt.Felt]*felt.Felt) map[felt.Felt]*felt.Felt {
	o := make(map[felt.Felt]*felt.Felt, len(m))
	for k, v := range m {
		o[k] = cloneFP(v)
	}
	return o
}

func CloneDiff(d *core.StateDiff) *core.StateDiff {
	o := core.EmptyStateDiff()
	for a, kv := range d.StorageDiffs {
		o.StorageDiffs[a] = cloneFeltMap(kv)
	}
	o.Nonces, o.DeployedContracts, o.DeclaredV1Classes, o.ReplacedClasses = cloneFeltMap(d.Nonces), cloneFeltMap(d.DeployedContracts), cloneFeltMap(d.DeclaredV1Classes), cloneFeltMap(d.ReplacedClasses)
	for _, h := range d.DeclaredV0Classes {
		o.DeclaredV0Classes = append(o.DeclaredV0Classes, cloneFP(h))
	}
	for k, v := range d.MigratedClasses {
		o.MigratedClasses[k] = v
	}
	return &o
}

// CloneBlock deep-copies everything a node may read from a generated block (class definitions are shared, they are immutable here
// unless a caller replaces the map entry).
func CloneBlock(b *Block) *Block {
	h := *b.B.Header
	h.Hash, h.ParentHash, h.GlobalStateRoot, h.SequencerAddress = cloneFP(h.Hash), cloneFP(h.ParentHash), cloneFP(h.GlobalStateRoot), cloneFP(h.SequencerAddress)
	h.L1GasPriceETH, h.L1GasPriceSTRK = cloneFP(h.L1GasPriceETH), cloneFP(h.L1GasPriceSTRK)
	if h.L1DataGasPrice != nil {
		h.L1DataGasPrice = &core.GasPrice{PriceInWei: cloneFP(h.L1DataGasPrice.PriceInWei), PriceInFri: cloneFP(h.L1DataGasPrice.PriceInFri)}
	}
	if h.L2GasPrice != nil {
		h.L2GasPrice = &core.GasPrice{PriceInWei: cloneFP(h.L2GasPrice.PriceInWei), PriceInFri: cloneFP(h.L2GasPrice.PriceInFri)}
	}
	if h.EventsBloom != nil {
		h.EventsBloom = h.EventsBloom.Copy()
	}
	nb := &Block{B: &core.Block{Header: &h}, Pre: b.Pre, Post: b.Post, Tags: b.Tags, Classes: map[felt.Felt]core.ClassDefinition{}}
	for _, tx := range b.B.Transactions {
		nb.B.Transactions = append(nb.B.Transactions, CloneTx(tx))
	}
	for _, r := range b.B.Receipts {
		nb.B.Receipts = append(nb.B.Receipts, CloneReceipt(r))
	}
	if nb.B.Transactions == nil {
		nb.B.Transactions = []core.Transaction{}
		nb.B.Receipts = []*core.TransactionReceipt{}
	}
	for k, v := range b.Classes {
		nb.Classes[k] = v
	}
	nb.SU = &core.StateUpdate{BlockHash: cloneFP(b.SU.BlockHash), NewRoot: cloneFP(b.SU.NewRoot), OldRoot: cloneFP(b.SU.OldRoot), StateDiff: CloneDiff(b.SU.StateDiff)}
	return nb
}

// Uniform draws an index in [0,n) with a (nearly) uniform distribution. rapid's IntRange/SampledFrom
// are deliberately biased towards small values (×4 for the first entries of a 20-element list, far
// more for long lists), which starves the tail of long tables; the multiplicative mix keeps
// shrinking meaningful (all-zero bytes → index 0).
func Uniform(t *rapid.T, n int, label string) int {
	x := uint32(rapid.Byte().Draw(t, label+"-b0")) | uint32(rapid.Byte().Draw(t, label+"-b1"))<<8 | uint32(rapid.Byte().Draw(t, label+"-b2"))<<16
	return int((x * 2654435761 >> 8) % uint32(n))
}

// AppendEmpty appends a deterministic empty block (no transactions, empty state diff) without any
// rapid draw; used to build long base chains once per process.
func (c *Chain) AppendEmpty(version string) *Block {
	pre := c.TipState()
	num := uint64(len(c.Blocks))
	c.ts += 30
	parent := felt.Zero
	if num > 0 {
		parent = *c.Blocks[num-1].B.Hash
	}
	d := core.EmptyStateDiff()
	h := &core.Header{
		ParentHash: &parent, Number: num, SequencerAddress: FP(0x5e9), Timestamp: c.ts, ProtocolVersion: version,
		EventsBloom: core.EventsBloom(nil), L1GasPriceETH: FP(1), L1GasPriceSTRK: FP(1),
		L1DataGasPrice: &core.GasPrice{PriceInWei: FP(1), PriceInFri: FP(1)}, L2GasPrice: &core.GasPrice{PriceInWei: FP(1), PriceInFri: FP(1)},
	}
	b := &Block{B: &core.Block{Header: h, Transactions: []core.Transaction{}, Receipts: []*core.TransactionReceipt{}},
		SU: &core.StateUpdate{StateDiff: &d}, Classes: map[felt.Felt]core.ClassDefinition{}, Pre: pre, Post: pre, Tags: map[string]bool{"empty-block": true}}
	Seal(b, c.U.Net)
	c.Blocks = append(c.Blocks, b)
	for i, v := range Versions {
		if v == version && i > c.verIdx {
			c.verIdx = i
		}
	}
	return b
}
