package gen

import (
	"github.com/NethermindEth/juno/blockchain/networks"
	"github.com/NethermindEth/juno/core"
	"github.com/NethermindEth/juno/core/felt"
)

// AppendWithEvents appends a deterministic block (no rapid draw) holding one invoke v1 transaction
// from sender whose receipt carries the given events; the state diff is empty. Used to place
// event-bearing blocks at chosen heights of long per-process base chains.
func (c *Chain) AppendWithEvents(version string, sender felt.Felt, events []*core.Event) *Block {
	pre := c.TipState()
	num := uint64(len(c.Blocks))
	c.ts += 30
	c.nonce++
	nonce := F(c.nonce)
	parent := felt.Zero
	if num > 0 {
		parent = *c.Blocks[num-1].B.Hash
	}
	tx := &core.InvokeTransaction{Version: txVersion(1), SenderAddress: &sender, CallData: []felt.Felt{F(num)},
		MaxFee: FP(7), Nonce: &nonce, TransactionSignature: []felt.Felt{}}
	SetTxHash(tx, c.U.Net)
	r := &core.TransactionReceipt{
		Fee: FP(3), Events: events, L2ToL1Message: []*core.L2ToL1Message{}, TransactionHash: tx.Hash(),
		ExecutionResources: &core.ExecutionResources{
			DataAvailability: &core.DataAvailability{},
			TotalGasConsumed: &core.GasConsumed{},
		},
	}
	receipts := []*core.TransactionReceipt{r}
	d := core.EmptyStateDiff()
	h := &core.Header{
		ParentHash: &parent, Number: num, SequencerAddress: FP(0x5e9), Timestamp: c.ts, ProtocolVersion: version,
		TransactionCount: 1, EventCount: uint64(len(events)),
		EventsBloom: core.EventsBloom(receipts), L1GasPriceETH: FP(1), L1GasPriceSTRK: FP(1),
		L1DataGasPrice: &core.GasPrice{PriceInWei: FP(1), PriceInFri: FP(1)}, L2GasPrice: &core.GasPrice{PriceInWei: FP(1), PriceInFri: FP(1)},
	}
	b := &Block{B: &core.Block{Header: h, Transactions: []core.Transaction{tx}, Receipts: receipts},
		SU: &core.StateUpdate{StateDiff: &d}, Classes: map[felt.Felt]core.ClassDefinition{}, Pre: pre, Post: pre, Tags: map[string]bool{"base-events": true}}
	Seal(b, c.U.Net)
	c.Blocks = append(c.Blocks, b)
	for i, v := range Versions {
		if v == version && i > c.verIdx {
			c.verIdx = i
		}
	}
	return b
}

// NewFixedUniverse is a universe without any rapid draw (no ordinary addresses or storage keys): the
// network, system contracts, class pools and event keys every drawn universe shares.
func NewFixedUniverse() *Universe {
	return &Universe{Net: &networks.Sepolia, System: []felt.Felt{F(1), F(2)}, Sierra: sierraPool, Cairo0: cairo0Pool,
		EvKeys: []felt.Felt{F(0), F(1), F(0xabc), hexFelt("0x99cd8bde557814842a3121e8ddfd433a539b8c9f14bf31ebf108d12e6196e9")}}
}
