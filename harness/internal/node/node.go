// Package node builds real juno nodes (blockchain.Blockchain over a chosen state backend and
// database) for the chain-based properties and renders everything observable through the
// blockchain.Reader API into a canonical map, so that two nodes can be compared observationally.
package node

import (
	"encoding/json"
	"errors"
	"fmt"
	"sort"
	"sync"

	"github.com/NethermindEth/juno/blockchain"
	"github.com/NethermindEth/juno/blockchain/networks"
	"github.com/NethermindEth/juno/core"
	"github.com/NethermindEth/juno/core/felt"
	"github.com/NethermindEth/juno/db"
	"github.com/NethermindEth/juno/db/memory"
	_ "github.com/NethermindEth/juno/encoder/registry"
	"github.com/NethermindEth/juno/l1/eth"

	"verif/harness/internal/gen"
)

type Node struct {
	BC       *blockchain.Blockchain
	DB       db.KeyValueStore
	NewState bool
	Net      *networks.Network
	Opts     []blockchain.Option
}

func New(newState bool, database db.KeyValueStore, net *networks.Network, opts ...blockchain.Option) *Node {
	if database == nil {
		database = memory.New()
	}
	n := &Node{DB: database, NewState: newState, Net: net, Opts: opts}
	n.Reopen()
	return n
}

// Reopen creates a fresh Blockchain object on the same database (process restart without
// the graceful-shutdown snapshot write).
func (n *Node) Reopen() {
	o := append([]blockchain.Option{blockchain.WithNewState(n.NewState)}, n.Opts...)
	n.BC = blockchain.New(n.DB, n.Net, o...)
}

func (n *Node) Backend() string {
	if n.NewState {
		return "trie2"
	}
	return "legacy"
}

// Store offers a block the way the synchroniser does: sanity check, then store.
func (n *Node) Store(b *gen.Block) error {
	c, err := n.BC.SanityCheckNewHeight(b.B, b.SU, b.Classes)
	if err != nil {
		return fmt.Errorf("sanity: %w", err)
	}
	if err := n.BC.Store(b.B, c, b.SU, b.Classes); err != nil {
		return fmt.Errorf("store: %w", err)
	}
	return nil
}

// Ids is the finite universe of identifiers an observation ranges over.
type Ids struct {
	MinNumber   uint64 // number sweeps cover [MinNumber, MaxNumber]
	MaxNumber   uint64
	BlockHashes []felt.Felt
	TxHashes    []felt.Felt
	Addrs       []felt.Felt
	Keys        []felt.Felt
	Classes     []felt.Felt
	MsgHashes   [][]byte
	NoState     bool // skip state queries
}

// AddBlock registers the identifiers of a generated block.
func (ids *Ids) AddBlock(b *gen.Block) {
	ids.BlockHashes = append(ids.BlockHashes, *b.B.Hash)
	for _, tx := range b.B.Transactions {
		ids.TxHashes = append(ids.TxHashes, *tx.Hash())
		if l1, ok := tx.(*core.L1HandlerTransaction); ok {
			ids.MsgHashes = append(ids.MsgHashes, l1.MessageHash())
		}
	}
	if b.B.Number+2 > ids.MaxNumber {
		ids.MaxNumber = b.B.Number + 2
	}
}

func errStr(err error) string {
	switch {
	case err == nil:
		return ""
	case errors.Is(err, db.ErrKeyNotFound):
		return "!notfound"
	default:
		return "!err:" + err.Error()
	}
}

func render(v any, err error) string {
	if err != nil {
		return errStr(err)
	}
	b, jerr := json.Marshal(v)
	if jerr != nil {
		return "!json:" + jerr.Error()
	}
	return string(b)
}

// Obs is a canonical observation: query → rendered answer.
type Obs map[string]string

// Diff returns up to max human-readable differences between two observations.
func Diff(a, b Obs, max int) []string {
	keys := map[string]bool{}
	for k := range a {
		keys[k] = true
	}
	for k := range b {
		keys[k] = true
	}
	ks := make([]string, 0, len(keys))
	for k := range keys {
		ks = append(ks, k)
	}
	sort.Strings(ks)
	var out []string
	for _, k := range ks {
		if a[k] != b[k] {
			x, y := a[k], b[k]
			if len(x) > 300 {
				x = x[:300] + "…"
			}
			if len(y) > 300 {
				y = y[:300] + "…"
			}
			out = append(out, fmt.Sprintf("%s: %s  VS  %s", k, x, y))
			if len(out) >= max {
				break
			}
		}
	}
	return out
}

type stateView struct {
	r   core.StateReader
	err error
}

func (n *Node) readState(o Obs, tag string, r core.StateReader, ids *Ids) {
	for _, a := range ids.Addrs {
		a := a
		ch, err := r.ContractClassHash(&a)
		o[tag+"/classhash/"+a.String()] = render(ch.String(), err)
		nn, err := r.ContractNonce(&a)
		o[tag+"/nonce/"+a.String()] = render(nn.String(), err)
		for _, k := range ids.Keys {
			k := k
			v, err := r.ContractStorage(&a, &k)
			o[tag+"/storage/"+a.String()+"/"+k.String()] = render(v.String(), err)
		}
	}
	for _, c := range ids.Classes {
		c := c
		d, err := r.Class(&c)
		if err != nil {
			o[tag+"/class/"+c.String()] = errStr(err)
		} else {
			o[tag+"/class/"+c.String()] = render(map[string]any{"at": d.At, "def": d.Class}, nil)
		}
		sh := felt.SierraClassHash(c)
		h1, err := r.CompiledClassHash(&sh)
		o[tag+"/casm/"+c.String()] = render((*felt.Felt)(&h1).String(), err)
		h2, err := r.CompiledClassHashV2(&sh)
		o[tag+"/casm2/"+c.String()] = render((*felt.Felt)(&h2).String(), err)
	}
}

// Observe evaluates the whole Reader API over ids.
func (n *Node) Observe(ids *Ids) Obs {
	bc := n.BC
	o := Obs{}
	h, err := bc.Height()
	o["height"] = render(h, err)
	head, err := bc.Head()
	o["head"] = render(head, err)
	hh, err := bc.HeadsHeader()
	o["headsheader"] = render(hh, err)
	l1, err := bc.L1Head()
	o["l1head"] = render(l1, err)
	for i := ids.MinNumber; i <= ids.MaxNumber; i++ {
		p := fmt.Sprintf("n%d/", i)
		b, err := bc.BlockByNumber(i)
		o[p+"block"] = render(b, err)
		hd, err := bc.BlockHeaderByNumber(i)
		o[p+"header"] = render(hd, err)
		bh, err := bc.BlockHeaderHashByNumber(i)
		o[p+"hash"] = render(bh, err)
		cnt, err := bc.BlockTransactionCountByNumber(i)
		o[p+"txcount"] = render(cnt, err)
		txs, err := bc.TransactionsByBlockNumber(i)
		o[p+"txs"] = render(txs, err)
		t2, r2, err := bc.TransactionsAndReceiptsByBlockNumber(i)
		o[p+"txs+receipts"] = render([]any{t2, r2}, err)
		ths, err := bc.TransactionHashesByBlockNumber(i)
		o[p+"txhashes"] = render(ths, err)
		su, err := bc.StateUpdateByNumber(i)
		o[p+"stateupdate"] = render(su, err)
		cm, err := bc.BlockCommitmentsByNumber(i)
		o[p+"commitments"] = render(cm, err)
		ntx := uint64(len(txs))
		for j := uint64(0); j <= ntx; j++ {
			tx, err := bc.TransactionByBlockNumberAndIndex(i, j)
			o[fmt.Sprintf("%stx%d", p, j)] = render(tx, err)
			tx2, rc, bh2, err := bc.TransactionAndReceiptByBlockNumberAndIndex(i, j)
			o[fmt.Sprintf("%stx+receipt%d", p, j)] = render([]any{tx2, rc, bh2}, err)
			st, err := bc.TransactionExecutionStatusByBlockNumberAndIndex(i, j)
			o[fmt.Sprintf("%sstatus%d", p, j)] = render(st, err)
		}
		if !ids.NoState {
			sr, closer, err := bc.StateAtBlockNumber(i)
			if err != nil {
				o[p+"state"] = errStr(err)
			} else {
				n.readState(o, p+"state", sr, ids)
				_ = closer()
			}
		}
	}
	for _, bh := range ids.BlockHashes {
		bh := bh
		p := "h" + bh.String() + "/"
		b, err := bc.BlockByHash(&bh)
		o[p+"block"] = render(b, err)
		hd, err := bc.BlockHeaderByHash(&bh)
		o[p+"header"] = render(hd, err)
		num, err := bc.BlockNumberByHash(&bh)
		o[p+"number"] = render(num, err)
		su, err := bc.StateUpdateByHash(&bh)
		o[p+"stateupdate"] = render(su, err)
		if !ids.NoState {
			sr, closer, err := bc.StateAtBlockHash(&bh)
			if err != nil {
				o[p+"state"] = errStr(err)
			} else {
				n.readState(o, p+"state", sr, ids)
				_ = closer()
			}
		}
	}
	for _, th := range ids.TxHashes {
		th := th
		p := "t" + th.String() + "/"
		tx, err := bc.TransactionByHash(&th)
		o[p+"tx"] = render(tx, err)
		rc, bh, bn, err := bc.Receipt(&th)
		o[p+"receipt"] = render([]any{rc, bh, bn}, err)
		bn2, idx, err := bc.BlockNumberAndIndexByTxHash((*felt.TransactionHash)(&th))
		o[p+"loc"] = render([]uint64{bn2, idx}, err)
	}
	for _, mh := range ids.MsgHashes {
		var eh eth.Hash
		eh.SetBytes(mh)
		th, err := bc.L1HandlerTxnHash(&eh)
		o[fmt.Sprintf("m%x", mh)] = render(th.String(), err)
	}
	if !ids.NoState {
		sr, closer, err := bc.HeadState()
		if err != nil {
			o["headstate"] = errStr(err)
		} else {
			n.readState(o, "headstate", sr, ids)
			_ = closer()
		}
	}
	return o
}

// Dump is the sorted raw key/value image of the database (information / crash images).
func Dump(d db.KeyValueStore) map[string]string {
	out := map[string]string{}
	it, err := d.NewIterator(nil, false)
	if err != nil {
		return out
	}
	defer it.Close()
	for ok := it.First(); ok; ok = it.Next() {
		v, _ := it.Value()
		out[string(it.Key())] = string(v)
	}
	return out
}

// Events pages through an event query (chunk size chunk) over the whole canonical chain and
// returns the events rendered one per entry.
func (n *Node) Events(addrs []felt.Address, keys [][]felt.Felt, chunk uint64) ([]string, error) {
	f, err := n.BC.EventFilter(addrs, keys, nil)
	if err != nil {
		if errors.Is(err, db.ErrKeyNotFound) {
			return nil, nil // empty chain
		}
		return nil, err
	}
	defer f.Close()
	var out []string
	var tok *blockchain.ContinuationToken
	for guard := 0; guard < 100000; guard++ {
		evs, next, err := f.Events(tok, chunk)
		if err != nil {
			return out, err
		}
		for _, e := range evs {
			out = append(out, fmt.Sprintf("b%d/%s tx%d/%s ev%d from=%s keys=%v data=%v", e.BlockNumber, e.BlockHash.String(), e.TransactionIndex,
				e.TransactionHash.String(), e.EventIndex, e.From.String(), feltStrs(e.Keys), feltStrs(e.Data)))
		}
		if next.IsEmpty() {
			return out, nil
		}
		nt := next
		tok = &nt
	}
	return out, errors.New("continuation tokens do not terminate")
}

func feltStrs(fs []felt.Felt) []string {
	out := make([]string, len(fs))
	for i := range fs {
		out[i] = fs[i].String()
	}
	return out
}

// ObserveEvents adds event-query answers (unfiltered and per address) to an observation.
func (n *Node) ObserveEvents(o Obs, ids *Ids) {
	evs, err := n.Events(nil, nil, 1000)
	o["events/all"] = render(evs, err)
	for _, a := range ids.Addrs {
		evs, err := n.Events([]felt.Address{felt.Address(a)}, nil, 1000)
		o["events/from/"+a.String()] = render(evs, err)
	}
}

// Base is a chain of n real empty blocks stored once per process on both state backends; cases clone the
// database (memory Copy) so that generated suffixes cross the real 8192-block event-index window.
type Base struct {
	N     int
	Chain *gen.Chain
	dbs   map[bool]*memory.Database
	once  sync.Once
}

var bases sync.Map

// GetBase returns the shared base chain of n blocks and a private copy of its database.
func GetBase(n int, newState bool, net *networks.Network) (*gen.Chain, *memory.Database) {
	v, _ := bases.LoadOrStore(n, &Base{N: n})
	b := v.(*Base)
	b.once.Do(func() {
		u := &gen.Universe{Net: net}
		b.Chain = gen.NewChain(u, gen.Opts{})
		b.dbs = map[bool]*memory.Database{}
		for i := 0; i < b.N; i++ {
			b.Chain.AppendEmpty("0.13.2")
		}
		for _, ns := range []bool{false, true} {
			d := memory.New()
			nd := New(ns, d, net)
			for _, blk := range b.Chain.Blocks {
				if err := nd.Store(blk); err != nil {
					panic(fmt.Sprintf("base chain store %d: %v", blk.Num(), err))
				}
			}
			if b.N > 0 {
				if err := nd.BC.WriteRunningEventFilter(); err != nil {
					panic(err)
				}
			}
			b.dbs[ns] = d
		}
		b.Chain.Frozen = true
	})
	return b.Chain, b.dbs[newState].Copy()
}
