package node

import (
	"os"
	"path/filepath"

	"github.com/NethermindEth/juno/blockchain"
	"github.com/NethermindEth/juno/blockchain/networks"
	"github.com/NethermindEth/juno/db/pebblev2"
)

// NewPebble creates a node on a fresh Pebble v2 store (the production store) in a scratch directory (under /dev/shm when
// available: the checks that use it are about juno's use of the store, not about fsync). cleanup closes the store and
// removes the directory.
func NewPebble(newState bool, net *networks.Network, opts ...blockchain.Option) (n *Node, cleanup func(), err error) {
	base := ""
	if st, e := os.Stat("/dev/shm"); e == nil && st.IsDir() {
		base = "/dev/shm"
	}
	d, err := os.MkdirTemp(base, "verif-node-")
	if err != nil {
		return nil, nil, err
	}
	pdb, err := pebblev2.New(filepath.Join(d, "db"))
	if err != nil {
		os.RemoveAll(d)
		return nil, nil, err
	}
	return New(newState, pdb, net, opts...), func() { _ = pdb.Close(); os.RemoveAll(d) }, nil
}
