package c12

import (
	"testing"

	"github.com/NethermindEth/juno/consensus/starknet"
	"github.com/NethermindEth/juno/consensus/types"
	"github.com/NethermindEth/juno/consensus/votecounter"
	"pgregory.net/rapid"

	"verif/harness/internal/stats"
)

// The thresholds of the real vote counter, observed only through its public API, against the inequalities derived in
// model_test.go from the paper's safety argument:
//
//	quorum answer true  =>  power >= ceil(2N/3)      (two quorums share a validator outside every admissible faulty set)
//	f+1 answer true     =>  3*power >= N             (the senders cannot all be faulty)
//	power >= N - maxFaulty(N)  =>  both answers true (the correct validators alone reach the thresholds; the paper's
//	                                                  2f+1 and f+1 out of n = 3f+1)
//
// For N = 1,2 (mod 3) the first and third line pin the quorum threshold to one number; for N = 0 (mod 3) both 2N/3 and
// 2N/3+1 are admissible.

type fixedVals struct {
	addrs  []A
	powers map[A]types.VotingPower
	total  types.VotingPower
}

func newFixedVals(powers []uint64) *fixedVals {
	f := &fixedVals{powers: map[A]types.VotingPower{}}
	for i, p := range powers {
		a := mkAddr(uint64(500 + i))
		f.addrs = append(f.addrs, a)
		f.powers[a] = types.VotingPower(p)
		f.total += types.VotingPower(p)
	}
	return f
}

func (f *fixedVals) TotalVotingPower(types.Height) types.VotingPower { return f.total }
func (f *fixedVals) ValidatorVotingPower(_ types.Height, a *A) types.VotingPower {
	return f.powers[*a]
}
func (f *fixedVals) Proposer(types.Height, types.Round) A { return f.addrs[0] }

type thresholdAnswers struct {
	quorumVote, quorumAny, quorumNil, quorumVotePC, quorumAnyPC, skip bool
}

// ask feeds the votes of the validators in mask (prevote AND precommit for id, or nil) for round 1 at height 5 to a fresh
// real vote counter and returns what it answers.
func ask(f *fixedVals, mask uint64, nilVote bool) thresholdAnswers {
	const h, r = types.Height(5), types.Round(1)
	vc := votecounter.New[V](f, h)
	id := mkVal(77).Hash()
	var idp *H
	if !nilVote {
		idp = &id
	}
	for i, a := range f.addrs {
		if mask&(1<<uint(i)) == 0 {
			continue
		}
		hd := starknet.MessageHeader{Height: h, Round: r, Sender: a}
		vc.AddPrevote(&starknet.Prevote{MessageHeader: hd, ID: idp})
		vc.AddPrecommit(&starknet.Precommit{MessageHeader: hd, ID: idp})
	}
	return thresholdAnswers{
		quorumVote:   vc.HasQuorumForVote(r, votecounter.Prevote, idp),
		quorumAny:    vc.HasQuorumForAny(r, votecounter.Prevote),
		quorumVotePC: vc.HasQuorumForVote(r, votecounter.Precommit, idp),
		quorumAnyPC:  vc.HasQuorumForAny(r, votecounter.Precommit),
		skip:         vc.HasNonFaultyFutureMessage(r),
	}
}

type violFn func(key, format string, a ...any)

func checkThresholds(viol violFn, powers []uint64, mask uint64, nilVote bool) (isQuorum, isSkip bool) {
	f := newFixedVals(powers)
	n := uint64(f.total)
	var p uint64
	for i, x := range powers {
		if mask&(1<<uint(i)) != 0 {
			p += x
		}
	}
	ans := ask(f, mask, nilVote)
	qs := []struct {
		name string
		got  bool
	}{{"HasQuorumForVote(prevote)", ans.quorumVote}, {"HasQuorumForAny(prevote)", ans.quorumAny},
		{"HasQuorumForVote(precommit)", ans.quorumVotePC}, {"HasQuorumForAny(precommit)", ans.quorumAnyPC}}
	for _, q := range qs {
		if q.got && p < minSafeQuorum(n) {
			viol("quorum-too-small", "%s is true for power %d of N=%d (powers %v, voters %b): two such sets can overlap in only %d <= maxFaulty=%d; needs >= %d",
				q.name, p, n, powers, mask, int64(2*p)-int64(n), maxFaulty(n), minSafeQuorum(n))
		}
		if !q.got && p >= n-maxFaulty(n) {
			viol("quorum-unreachable", "%s is false for power %d of N=%d (powers %v): all correct validators together (N - maxFaulty = %d) must form a quorum",
				q.name, p, n, powers, n-maxFaulty(n))
		}
		if q.got != ans.quorumVote {
			viol("quorum-inconsistent", "%s = %v but HasQuorumForVote(prevote) = %v for the same power %d of %d", q.name, q.got, ans.quorumVote, p, n)
		}
	}
	if ans.skip && !containsCorrect(p, n) {
		viol("skip-threshold-too-small", "HasNonFaultyFutureMessage is true for power %d of N=%d (powers %v, senders %b): that set may be entirely faulty (maxFaulty=%d)",
			p, n, powers, mask, maxFaulty(n))
	}
	if !ans.skip && p >= maxFaulty(n)+1 {
		viol("skip-threshold-too-large", "HasNonFaultyFutureMessage is false for power %d of N=%d (powers %v): the paper's f+1 = %d", p, n, powers, maxFaulty(n)+1)
	}
	return ans.quorumVote, ans.skip
}

// TestPropThresholdsSmallExhaustive: every total power N <= 45 with unit validators and every number of voters; every split
// of N <= 30 over two and three validators with every subset voting.
func TestPropThresholdsSmallExhaustive(t *testing.T) {
	stats.Once(t, "exhaustive: N unit-power validators for N=1..45 x 0..N voters; all power vectors (a,b) and (a,b,c) with total <= 30 x all voter subsets; "+
		"real VoteCounter answers vs thresholds derived from the safety argument", func(c *stats.Case) {
		viol := func(key, f string, a ...any) { t.Fatalf("ORACLE["+key+"] "+f, a...) }
		cnt := 0
		for n := 1; n <= 45; n++ {
			pw := make([]uint64, n)
			for i := range pw {
				pw[i] = 1
			}
			for k := 0; k <= n; k++ {
				checkThresholds(viol, pw, (uint64(1)<<uint(k))-1, k%2 == 0)
				cnt++
			}
		}
		for a := uint64(1); a <= 29; a++ {
			for b := uint64(1); a+b <= 30; b++ {
				for m := uint64(0); m < 4; m++ {
					checkThresholds(viol, []uint64{a, b}, m, false)
					cnt++
				}
				for cc := uint64(1); a+b+cc <= 30; cc++ {
					for m := uint64(0); m < 8; m++ {
						checkThresholds(viol, []uint64{a, b, cc}, m, m%2 == 1)
						cnt++
					}
				}
			}
		}
		c.Labelf("exhaustive-evaluations=%d", cnt)
		c.NonTrivial("exhaustive-small-N")
		c.Fp("exhaustive")
	})
}

// TestPropThresholdsRandom: random power vectors (small and up to 2^60); all pairs of subsets the counter calls quorums
// must intersect outside every admissible faulty set; the complement of every admissible faulty set must be a quorum.
func TestPropThresholdsRandom(t *testing.T) {
	stats.Check(t, stats.Budget{Quick: 3000, Thorough: 30000},
		"n in 1..7 validators, powers from {1..4, 1..30, near 2^k up to 2^60, total forced to each residue mod 3}; all 2^n voter subsets fed to real vote counters; "+
			"oracles: pairwise quorum intersection not admissible as faulty set, f+1 sets not admissible, complement of every admissible faulty set is a quorum; "+
			"non-trivial = some subset has power within 1 of a threshold",
		func(rt *rapid.T, c *stats.Case) {
			n := rapid.IntRange(1, 7).Draw(rt, "n")
			mode := rapid.SampledFrom([]string{"tiny", "small", "small", "large", "huge"}).Draw(rt, "mode")
			pw := make([]uint64, n)
			for i := range pw {
				switch mode {
				case "tiny":
					pw[i] = rapid.Uint64Range(1, 4).Draw(rt, "p")
				case "small":
					pw[i] = rapid.Uint64Range(1, 30).Draw(rt, "p")
				case "large":
					pw[i] = rapid.Uint64Range(1, 1<<32).Draw(rt, "p")
				default:
					e := rapid.IntRange(3, 57).Draw(rt, "exp")
					pw[i] = uint64(1)<<uint(e) + uint64(rapid.IntRange(-3, 3).Draw(rt, "delta"))
				}
			}
			// force the residue of the total
			want := uint64(rapid.IntRange(0, 2).Draw(rt, "residue"))
			var tot uint64
			for _, x := range pw {
				tot += x
			}
			for tot%3 != want {
				pw[0]++
				tot++
			}
			c.Labelf("Nmod3=%d", tot%3)
			c.Label("mode:" + mode)
			c.Fp("%v", pw)
			viol := func(key, f string, a ...any) { c.Violation(key, f, a...) }
			nsub := uint64(1) << uint(n)
			isQ := make([]bool, nsub)
			power := make([]uint64, nsub)
			for m := uint64(0); m < nsub; m++ {
				for i, x := range pw {
					if m&(1<<uint(i)) != 0 {
						power[m] += x
					}
				}
				isQ[m], _ = checkThresholds(viol, pw, m, m%3 == 0)
				q := minSafeQuorum(tot)
				if d := int64(power[m]) - int64(q); d >= -1 && d <= 1 {
					c.NonTrivial("power-within-1-of-quorum")
				}
				if d := int64(power[m]) - int64(maxFaulty(tot)); d >= 0 && d <= 1 {
					c.NonTrivial("power-within-1-of-f")
				}
			}
			for a := uint64(0); a < nsub; a++ {
				// complement of an admissible faulty set must be a quorum
				if 3*power[a] < tot && !isQ[(nsub-1)&^a] {
					viol("quorum-unreachable", "powers %v: faulty set %b is admissible (power %d of %d) but the remaining validators are not a quorum", pw, a, power[a], tot)
				}
				if !isQ[a] {
					continue
				}
				for b := a; b < nsub; b++ {
					if isQ[b] && 3*power[a&b] < tot {
						viol("quorum-intersection", "powers %v (N=%d): the vote counter accepts voter sets %b and %b as quorums; they share only %b with power %d, which may be entirely faulty",
							pw, tot, a, b, a&b, power[a&b])
					}
				}
			}
		})
}
