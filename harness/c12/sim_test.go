package c12

import (
	"fmt"
	"os"

	"github.com/NethermindEth/juno/consensus/starknet"
	"github.com/NethermindEth/juno/consensus/tendermint"
	"github.com/NethermindEth/juno/consensus/types"
	"github.com/NethermindEth/juno/consensus/types/actions"
	"pgregory.net/rapid"

	"verif/harness/internal/stats"
)

type SM = tendermint.StateMachine[V, H, A]

// app is the harness Application (see model_test.go): a fresh value per Value() call, built for the height the
// validator is deciding on top of the value it committed at the previous height; Valid is either a drawn
// height-independent predicate or the chain rule. The application is deterministic and the same on every validator
// (a function of the validator's decided prefix and the value).
type app struct {
	s      *sim
	nd     *node
	ctr    uint64
	issued map[V]struct{}
}

func (a *app) Value() V {
	a.ctr++
	s, p := a.s, a.nd
	v := mkVal(uint64(1000*(p.i+1)) + a.ctr)
	a.issued[v] = struct{}{}
	s.valid[v] = true
	s.meta[v] = vmeta{h: p.height, parent: s.tip(p)}
	if s.chain {
		s.names[v] = fmt.Sprintf("c%d.%d@h%d^%s", p.i, a.ctr, p.height, s.vname(s.tip(p)))
	} else {
		s.names[v] = fmt.Sprintf("c%d.%d@h%d", p.i, a.ctr, p.height)
	}
	return v
}

func (a *app) Valid(v V) bool {
	s, p := a.s, a.nd
	ok := s.validFor(p, v)
	if m, known := s.meta[v]; !ok && known && !m.bad && m.h != p.height {
		if m.h < p.height {
			s.askedOld = true
		} else {
			s.askedFuture = true
		}
	}
	return ok
}

// tip: the value the validator's chain ends with while it decides p.height.
func (s *sim) tip(p *node) V {
	if p.height == s.vs.h0 {
		return genesis
	}
	return p.dec[p.height-1]
}

// validFor is the application model's judgement of v for validator p NOW (p's current height and decided prefix).
// Unknown values are invalid.
func (s *sim) validFor(p *node, v V) bool {
	if !s.chain {
		return s.valid[v]
	}
	m, ok := s.meta[v]
	return ok && !m.bad && m.h == p.height && m.parent == s.tip(p)
}

func (s *sim) whyInvalid(p *node, v V) string {
	if !s.chain {
		return "the application's (height-independent) predicate rejects it"
	}
	m, ok := s.meta[v]
	switch {
	case !ok:
		return "the application does not know it"
	case m.bad:
		return "its content is bad"
	case m.h != p.height:
		return fmt.Sprintf("it was built for height %d and the validator is deciding height %d", m.h, p.height)
	default:
		return fmt.Sprintf("it extends %s but the validator's chain ends with %s", s.vname(m.parent), s.vname(s.tip(p)))
	}
}

type node struct {
	i      int
	addr   A
	byz    bool
	sm     SM
	app    *app
	height types.Height
	recs   map[types.Height]*hrec
	dec    map[types.Height]V // the values this validator committed

	finished bool
}

func (n *node) rec(h types.Height) *hrec {
	r, ok := n.recs[h]
	if !ok {
		r = newHrec()
		n.recs[h] = r
	}
	return r
}

type flight struct {
	m  msg
	to int
}

type ptm struct {
	tm types.Timeout
	to int
}

type decision struct {
	v     V
	by    int
	round types.Round
}

type hr struct {
	h types.Height
	r types.Round
}

type eqKey struct {
	from int
	kind byte
	h    types.Height
	r    types.Round
}

type eqRec struct {
	contents map[string]struct{}
	recips   uint64
}

// cause is the input that produced an action list (needed to judge round changes).
type cause struct {
	start    bool
	tm       *types.Timeout
	m        *msg
	consumed bool // the timeout justification was used for one round entry already
}

type sim struct {
	rt *rapid.T
	c  *stats.Case

	n       int
	vs      *vset
	nodes   []*node
	correct []int
	byz     []int
	hEnd    types.Height
	nh      int // heights of the run

	names    map[V]string
	chain    bool // application kind: chain rule (true) or height-independent predicate
	valid    map[V]bool
	meta     map[V]vmeta
	byzVals  map[bkey][2]V
	byzCtr   uint64
	observed map[types.Height][]V // values proposed by correct validators
	seen     map[types.Height][]V // values named (non-nil) in any proposal/vote of that height, correct or faulty sender
	seenSet  map[hv]struct{}
	first    map[V]types.Height // lowest height at which a value was named
	byzProps map[hr]map[H]struct{}

	inflight   []flight
	tms        []ptm
	history    []msg // every message a correct validator broadcast
	byzHistory []msg // every message a faulty validator sent
	replayTo   map[hv]uint64

	decided map[types.Height]decision
	eq      map[eqKey]*eqRec

	prof    profile
	step    int
	maxStep int
	trace   []string

	// label bookkeeping
	commits      int
	maxRound     types.Round
	locks        int
	lockCarried  bool
	equivSpread  bool
	skipEntries  int
	unlocks      int
	byzCommitted bool
	syncs        int
	splitLocks   bool

	replaySpread     bool // a value of an earlier height named by a faulty validator at a later height reached >= 2 correct validators
	replayDecided    bool // ... and it was the value decided at an earlier height
	replayProposal   bool // ... as a proposal from the legitimate proposer of that round
	futureValue      bool // a value built for a later height was delivered in a message of an earlier height
	oldHeightMsg     bool // a message of height < recipient's height was delivered
	transposed       bool // a faulty validator re-sent an old message with only the height rewritten
	staleTm          bool // a timeout scheduled at height h fired after its validator had moved to a later height
	staleTmSameRound bool // ... while the validator was in the round of the stale timeout
	askedOld         bool // the machine asked the application about a well-formed value of an earlier height
	askedFuture      bool
}

type bkey struct {
	h      types.Height
	parent V
}

type hv struct {
	h types.Height
	v V
}

func (s *sim) noteSeen(h types.Height, v V) {
	if _, ok := s.seenSet[hv{h, v}]; ok {
		return
	}
	s.seenSet[hv{h, v}] = struct{}{}
	s.seen[h] = append(s.seen[h], v)
	if f, ok := s.first[v]; !ok || h < f {
		s.first[v] = h
	}
}

// endToEndOnly (env VERIF_C12_E2E_ONLY=1, used only for sensitivity experiments) silences every oracle except the
// end-to-end ones of the property statement: agreement, validity, double vote/proposal.
var endToEndOnly = os.Getenv("VERIF_C12_E2E_ONLY") == "1"

func (s *sim) fail(key, f string, a ...any) {
	s.rt.Helper()
	if endToEndOnly {
		switch key {
		case "agreement", "validity", "double-vote", "double-proposal":
		default:
			s.c.Info("suppressed:" + key)
			return
		}
	}
	s.c.Violation(key, "%s\n---- configuration and schedule ----\n%s", fmt.Sprintf(f, a...), s.dump())
}

// ---------------------------------------------------------------------------------------------------------
// Conversions to juno's message types (fresh structs for every delivery: the vote counter keeps pointers)
// ---------------------------------------------------------------------------------------------------------

func (s *sim) addrOf(i int) A {
	if i < 0 || i >= s.n {
		return mkAddr(999_999)
	}
	return s.vs.addrs[i]
}

func (s *sim) header4(m msg) starknet.MessageHeader {
	return starknet.MessageHeader{Height: m.h, Round: m.r, Sender: s.addrOf(m.from)}
}

func (s *sim) feed(p *node, m msg) []starknet.Action {
	switch m.kind {
	case 'P':
		v := m.val()
		return p.sm.ProcessProposal(&starknet.Proposal{MessageHeader: s.header4(m), ValidRound: m.vr, Value: &v})
	case 'v':
		var id *H
		if !m.id.isNil {
			id = new(m.id.h)
		}
		return p.sm.ProcessPrevote(&starknet.Prevote{MessageHeader: s.header4(m), ID: id})
	default:
		var id *H
		if !m.id.isNil {
			id = new(m.id.h)
		}
		return p.sm.ProcessPrecommit(&starknet.Precommit{MessageHeader: s.header4(m), ID: id})
	}
}

func (s *sim) senderIdx(a A) int {
	if i, ok := s.vs.idx[a]; ok {
		return i
	}
	return -1
}

// ---------------------------------------------------------------------------------------------------------
// Inputs
// ---------------------------------------------------------------------------------------------------------

func (s *sim) startHeight(p *node) {
	acts := p.sm.ProcessStart(0) // what driver.listen does at the top of every height
	s.handle(p, acts, &cause{start: true})
}

// finish: the run covers heights h0..hEnd. A validator that decided hEnd leaves the simulation: the real driver would
// call ProcessStart for the next height at once and never hands an input to a machine whose height is not started, so
// the harness must not either (a machine left un-started reacts to stale timeouts; unreachable through the driver).
func (s *sim) finish(p *node) {
	p.finished = true
	kept := s.inflight[:0]
	for _, f := range s.inflight {
		if f.to != p.i {
			kept = append(kept, f)
		}
	}
	s.inflight = kept
	kt := s.tms[:0]
	for _, t := range s.tms {
		if t.to != p.i {
			kt = append(kt, t)
		}
	}
	s.tms = kt
	s.tracef("      validator %d: decided the last height of the run and leaves the simulation", p.i)
}

func (s *sim) deliver(to int, m msg) {
	p := s.nodes[to]
	if p.finished {
		return
	}
	p.rec(m.h).note(m)
	if m.h < p.height {
		s.oldHeightMsg = true
	}
	if !m.id.isNil && (m.from < 0 || m.from >= s.n || s.nodes[m.from].byz) {
		v := m.val()
		if f, ok := s.first[v]; ok && f < m.h && m.h == p.height {
			k := hv{m.h, v}
			s.replayTo[k] |= 1 << uint(to)
			if popcount(s.replayTo[k]) >= 2 {
				s.replaySpread = true
				for hh := s.vs.h0; hh < m.h; hh++ {
					if d, ok := s.decided[hh]; ok && d.v == v {
						s.replayDecided = true
					}
				}
				if m.kind == 'P' && m.from == s.vs.propIdx(m.h, m.r) {
					s.replayProposal = true
				}
			}
		}
		if mm, ok := s.meta[v]; ok && mm.h > m.h {
			s.futureValue = true
		}
	}
	if m.from >= 0 && m.from < s.n && s.nodes[m.from].byz {
		k := eqKey{m.from, m.kind, m.h, m.r}
		e := s.eq[k]
		if e == nil {
			e = &eqRec{contents: map[string]struct{}{}}
			s.eq[k] = e
		}
		e.contents[m.content()] = struct{}{}
		e.recips |= 1 << uint(to)
		if len(e.contents) >= 2 && popcount(e.recips) >= 2 {
			s.equivSpread = true
		}
	}
	acts := s.feed(p, m)
	s.handle(p, acts, &cause{m: &m})
}

func (s *sim) fire(j int) {
	t := s.tms[j]
	s.tms = append(s.tms[:j], s.tms[j+1:]...)
	p := s.nodes[t.to]
	s.tracef("#%d timeout %s(h%d r%d) fires at validator %d", s.step, t.tm.Step, t.tm.Height, t.tm.Round, t.to)
	s.c.Fp("t%d.%d.%d.%d", t.to, t.tm.Step, t.tm.Height, t.tm.Round)
	if t.tm.Height < p.height {
		s.staleTm = true
		if t.tm.Round == p.rec(p.height).round {
			s.staleTmSameRound = true
		}
	}
	acts := p.sm.ProcessTimeout(t.tm)
	s.handle(p, acts, &cause{tm: &t.tm})
}

// broadcast puts one copy per other validator in flight (faulty validators see everything anyway).
func (s *sim) broadcast(p *node, m msg) {
	s.history = append(s.history, m)
	for _, j := range s.correct {
		if j != p.i && !s.nodes[j].finished {
			s.inflight = append(s.inflight, flight{m, j})
		}
	}
}

// ---------------------------------------------------------------------------------------------------------
// Actions and oracles
// ---------------------------------------------------------------------------------------------------------

func (s *sim) handle(p *node, acts []starknet.Action, cz *cause) {
	sawWAL := false
	for ai, a := range acts {
		switch a := a.(type) {
		case *starknet.WriteWAL:
			sawWAL = true
		case *starknet.BroadcastProposal:
			if !sawWAL {
				s.fail("wal-before-broadcast", "validator %d broadcasts a proposal in an action list without a preceding WriteWAL", p.i)
			}
			s.onProposal(p, a, cz)
		case *starknet.BroadcastPrevote:
			if !sawWAL {
				s.fail("wal-before-broadcast", "validator %d broadcasts a prevote in an action list without a preceding WriteWAL", p.i)
			}
			s.onVote(p, 'v', a.Height, a.Round, a.Sender, a.ID)
		case *starknet.BroadcastPrecommit:
			if !sawWAL {
				s.fail("wal-before-broadcast", "validator %d broadcasts a precommit in an action list without a preceding WriteWAL", p.i)
			}
			s.onVote(p, 'c', a.Height, a.Round, a.Sender, a.ID)
		case *actions.ScheduleTimeout:
			s.onSchedule(p, types.Timeout(*a), cz)
		case *starknet.Commit:
			s.onCommit(p, a)
			if ai != len(acts)-1 {
				s.c.Info("actions-after-commit") // the driver ignores them
			}
			if got := p.sm.Height(); got != p.height {
				s.fail("height", "validator %d reports height %d after committing, expected %d", p.i, got, p.height)
			}
			if p.height <= s.hEnd {
				s.startHeight(p)
			} else {
				s.finish(p)
			}
			return
		case *actions.TriggerSync:
			s.syncs++
			s.tracef("      validator %d: TriggerSync{%d..%d} (sync service not modelled)", p.i, a.Start, a.End)
		default:
			stats.HarnessError("unexpected action type %T", a)
		}
	}
}

func (s *sim) checkOwn(p *node, what string, h types.Height, sender A) {
	if h != p.height {
		s.fail("own-height", "validator %d (at height %d) emits %s for height %d", p.i, p.height, what, h)
	}
	if sender != p.addr {
		s.fail("own-sender", "validator %d emits %s with another sender", p.i, what)
	}
}

// enterRound judges a round change announced by the machine (paper: StartRound is called from line 11 start,
// line 54 after a decision, line 56 upon f+1 messages of a higher round, line 67 OnTimeoutPrecommit).
func (s *sim) enterRound(p *node, r types.Round, cz *cause) {
	rec := p.rec(p.height)
	prev := rec.round
	switch {
	case cz.start:
		if r != 0 || prev != -1 {
			s.fail("round-entry", "validator %d starts height %d in round %d (previous round %d)", p.i, p.height, r, prev)
		}
		cz.start = false
	default:
		if r <= prev {
			s.fail("round-entry", "validator %d moves from round %d to round %d at height %d", p.i, prev, r, p.height)
		}
		byTimeout := !cz.consumed && cz.tm != nil && cz.tm.Step == types.StepPrecommit &&
			cz.tm.Height == p.height && cz.tm.Round == prev && r == prev+1
		if byTimeout {
			cz.consumed = true
		} else {
			mask := rec.senders[r] &^ (1 << uint(p.i))
			pw := s.maskPower(p.height, mask)
			if !containsCorrect(pw, s.vs.total(p.height)) {
				s.fail("round-skip", "validator %d jumps from round %d to round %d at height %d although the messages of round %d it has "+
					"received come from validators %b holding power %d of %d: that set can be entirely faulty (needs f+1)",
					p.i, prev, r, p.height, r, mask, pw, s.vs.total(p.height))
			}
			s.skipEntries++
		}
	}
	rec.round = r
	if r > s.maxRound {
		s.maxRound = r
	}
	if rec.lockR >= 0 && r > rec.lockR {
		s.lockCarried = true
	}
	s.tracef("      validator %d: enters h%d r%d", p.i, p.height, r)
}

func (s *sim) onSchedule(p *node, tm types.Timeout, cz *cause) {
	if tm.Height != p.height {
		s.fail("own-height", "validator %d (height %d) schedules a timeout for height %d", p.i, p.height, tm.Height)
	}
	if tm.Step == types.StepPropose {
		s.enterRound(p, tm.Round, cz)
	} else if tm.Round != p.rec(p.height).round {
		s.fail("own-round", "validator %d in round %d schedules %s timeout for round %d", p.i, p.rec(p.height).round, tm.Step, tm.Round)
	}
	s.tracef("      validator %d: schedules timeout %s(h%d r%d)", p.i, tm.Step, tm.Height, tm.Round)
	s.tms = append(s.tms, ptm{tm, p.i})
}

func (s *sim) onProposal(p *node, a *starknet.BroadcastProposal, cz *cause) {
	s.checkOwn(p, "a proposal", a.Height, a.Sender)
	s.enterRound(p, a.Round, cz)
	rec := p.rec(p.height)
	if s.vs.propIdx(a.Height, a.Round) != p.i {
		s.fail("proposal-by-non-proposer", "validator %d proposes at h%d r%d but the proposer is validator %d", p.i, a.Height, a.Round, s.vs.propIdx(a.Height, a.Round))
	}
	if a.Value == nil {
		s.fail("proposal-nil", "validator %d proposes a nil value", p.i)
	}
	m := msg{kind: 'P', h: a.Height, r: a.Round, from: p.i, id: idk{h: (*a.Value).Hash()}, vr: a.ValidRound}
	s.tracef("      validator %d: broadcasts %s", p.i, s.mstr(m))
	if old, ok := rec.sentProp[a.Round]; ok {
		if old != m {
			s.fail("double-proposal", "validator %d proposes twice at h%d r%d: %s then %s", p.i, a.Height, a.Round, s.mstr(old), s.mstr(m))
		}
		s.c.Info("same-proposal-twice")
	}
	// paper lines 14-19: the proposal is validValue (with validRound) if set, else a fresh application value.
	if a.ValidRound == -1 {
		if _, ok := p.app.issued[*a.Value]; !ok {
			s.fail("proposal-source", "validator %d proposes %s with validRound -1, which its application never produced", p.i, s.mstr(m))
		}
	} else {
		ok := a.ValidRound >= 0 && a.ValidRound < a.Round && s.hasProposal(rec, a.Height, a.ValidRound, m.id) &&
			s.votePower(rec, a.Height, 'v', a.ValidRound, m.id) >= minSafeQuorum(s.vs.total(a.Height))
		if !ok {
			s.fail("proposal-source", "validator %d re-proposes %s but has not seen that proposal together with a quorum of prevotes in round %d", p.i, s.mstr(m), a.ValidRound)
		}
		s.c.Label("reproposal-of-valid-value")
	}
	rec.sentProp[a.Round] = m
	rec.note(m)
	s.observed[a.Height] = append(s.observed[a.Height], *a.Value)
	s.noteSeen(a.Height, *a.Value)
	s.broadcast(p, m)
}

// hasProposal: the log holds a proposal for (h, r) with this value id sent by the proposer of (h, r).
func (s *sim) hasProposal(rec *hrec, h types.Height, r types.Round, id idk) bool {
	for _, pm := range rec.props[r] {
		if pm.id == id && pm.from == s.vs.propIdx(h, r) {
			return true
		}
	}
	return false
}

func (s *sim) onVote(p *node, kind byte, h types.Height, r types.Round, sender A, idp *H) {
	what := "a prevote"
	if kind == 'c' {
		what = "a precommit"
	}
	s.checkOwn(p, what, h, sender)
	rec := p.rec(p.height)
	id := idOf(idp)
	m := msg{kind: kind, h: h, r: r, from: p.i, id: id}
	s.tracef("      validator %d: broadcasts %s", p.i, s.mstr(m))
	if r != rec.round {
		s.fail("own-round", "validator %d is in round %d of height %d but emits %s", p.i, rec.round, h, s.mstr(m))
	}
	if old, ok := rec.sentVote[kindIdx(kind)][r]; ok {
		if old != id {
			s.fail("double-vote", "validator %d emits two different votes of one kind for h%d r%d: %s and %s", p.i, h, r, s.idname(old), s.idname(id))
		}
		s.c.Info("same-vote-twice")
	}
	q := minSafeQuorum(s.vs.total(h))
	if !id.isNil {
		v := V(id.h)
		if kind == 'v' {
			// paper lines 22-30. The value must come from the round's proposer, be valid, and the lock must allow it.
			okSome := false
			lockBlocked := false
			for _, pm := range rec.props[r] {
				if pm.id != id || pm.from != s.vs.propIdx(h, r) {
					continue
				}
				var base, lockOK bool
				if pm.vr == -1 {
					base = true
					lockOK = rec.lockR == -1 || rec.lockID == id.h
				} else {
					base = pm.vr >= 0 && pm.vr < r && s.votePower(rec, h, 'v', pm.vr, id) >= q
					lockOK = rec.lockR <= pm.vr || rec.lockID == id.h
				}
				if base && lockOK {
					okSome = true
				} else if base {
					lockBlocked = true
				}
			}
			if !okSome && lockBlocked {
				s.fail("lock-rule", "validator %d is locked on %s since round %d (its latest non-nil precommit) but prevotes %s in round %d of height %d; "+
					"its log has no proposal for round %d carrying a validRound vr in [%d,%d) with a quorum (>= %d of %d) of prevotes for that value in vr",
					p.i, s.vname(V(rec.lockID)), rec.lockR, s.vname(v), r, h, r, rec.lockR, r, q, s.vs.total(h))
			}
			if !okSome {
				s.fail("prevote-unjustified", "validator %d prevotes %s at h%d r%d without a matching proposal from the proposer (with validRound -1, or validRound vr<r and a quorum of prevotes at vr) in its log",
					p.i, s.vname(v), h, r)
			}
			if !s.validFor(p, v) {
				s.fail("prevote-invalid", "validator %d prevotes %s at h%d r%d, a value its application judges invalid at that height: %s",
					p.i, s.vname(v), h, r, s.whyInvalid(p, v))
			}
			if rec.lockR >= 0 && rec.lockID != id.h {
				s.unlocks++
			}
		} else {
			// paper line 36: proposal + quorum of prevotes for it in the current round, value valid.
			if !s.hasProposal(rec, h, r, id) || s.votePower(rec, h, 'v', r, id) < q {
				s.fail("precommit-unjustified", "validator %d precommits %s at h%d r%d; its log has proposal=%v and prevote power %d for it, quorum is %d of %d",
					p.i, s.vname(v), h, r, s.hasProposal(rec, h, r, id), s.votePower(rec, h, 'v', r, id), q, s.vs.total(h))
			}
			if !s.validFor(p, v) {
				s.fail("precommit-invalid", "validator %d precommits %s at h%d r%d, a value its application judges invalid at that height: %s",
					p.i, s.vname(v), h, r, s.whyInvalid(p, v))
			}
			rec.lockR, rec.lockID = r, id.h
			s.locks++
			for _, j := range s.correct {
				if o, ok := s.nodes[j].recs[h]; ok && j != p.i && o.lockR >= 0 && o.lockID != id.h {
					s.splitLocks = true
				}
			}
		}
	}
	rec.sentVote[kindIdx(kind)][r] = id
	rec.note(m)
	s.broadcast(p, m)
}

func (s *sim) onCommit(p *node, a *starknet.Commit) {
	h := a.Height
	if h != p.height {
		s.fail("own-height", "validator %d at height %d commits height %d", p.i, p.height, h)
	}
	if a.Value == nil {
		s.fail("validity", "validator %d commits a nil value at height %d", p.i, h)
	}
	v := *a.Value
	id := idk{h: v.Hash()}
	rec := p.rec(h)
	s.tracef("      validator %d: COMMITS h%d value %s (round %d, proposer validator %d)", p.i, h, s.vname(v), a.Round, s.senderIdx(a.Sender))
	// agreement
	if d, ok := s.decided[h]; ok {
		if d.v != v {
			s.fail("agreement", "height %d: validator %d committed %s (round %d), validator %d commits %s (round %d)",
				h, d.by, s.vname(d.v), d.round, p.i, s.vname(v), a.Round)
		}
	} else {
		s.decided[h] = decision{v, p.i, a.Round}
	}
	// validity
	pi := s.vs.propIdx(h, a.Round)
	if s.senderIdx(a.Sender) != pi {
		s.fail("validity", "validator %d commits at h%d a proposal of round %d sent by validator %d; the proposer is %d", p.i, h, a.Round, s.senderIdx(a.Sender), pi)
	}
	// judged by the committing validator's application at the height and chain state of the commit (p.height is still h)
	if !s.validFor(p, v) {
		s.fail("validity", "validator %d commits %s at height %d, which its application judges invalid at that height: %s", p.i, s.vname(v), h, s.whyInvalid(p, v))
	}
	if s.nodes[pi].byz {
		if _, ok := s.byzProps[hr{h, a.Round}][id.h]; !ok {
			s.fail("validity", "validator %d commits %s at h%d r%d; the (faulty) proposer never proposed it in that round", p.i, s.vname(v), h, a.Round)
		}
		s.byzCommitted = true
	} else {
		sp, ok := s.nodes[pi].rec(h).sentProp[a.Round]
		if !ok || sp.id != id {
			s.fail("validity", "validator %d commits %s at h%d r%d; proposer %d proposed %v there", p.i, s.vname(v), h, a.Round, pi, sp)
		}
	}
	// paper line 49: proposal and a quorum of precommits for it in that round
	q := minSafeQuorum(s.vs.total(h))
	if pw := s.votePower(rec, h, 'c', a.Round, id); pw < q || !s.hasProposal(rec, h, a.Round, id) {
		s.fail("commit-unjustified", "validator %d commits %s at h%d r%d with precommit power %d in its log (quorum %d of %d), proposal in log: %v",
			p.i, s.vname(v), h, a.Round, pw, q, s.vs.total(h), s.hasProposal(rec, h, a.Round, id))
	}
	s.commits++
	p.dec[h] = v // the driver applies the block, then starts the next height
	p.height++
}
