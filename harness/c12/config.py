# Driver configuration for property C12 (read by /verif/checks_config.py)
PROP = dict(
        pkg="c12", level="exploration",
        technique=("property-based simulation (rapid): n real tendermint state machines + real vote counters behind a generator-owned "
                   "adversarial network with Byzantine validators, several heights, an application whose validity judgement depends on the "
                   "validator's height and decided prefix (chain), Byzantine replay of values/messages of other heights; safety oracles from the "
                   "Tendermint paper evaluated on every action (validity asked of the application model at prevote, precommit and commit time); "
                   "exhaustive + random arithmetic check of the quorum and f+1 thresholds"),
        level_text=("Exploration: sampled schedules (tens of thousands per run, <= 400-700 steps each, 1-4 heights, >= 2 heights decided in 40-50% "
                    "of the cases) over delivery order, duplication, loss, late re-delivery (also of messages of heights already left), timeout firing "
                    "(also timeouts scheduled at an earlier height firing in the new one) and Byzantine messages whose values come from this height, "
                    "from earlier heights (decided there, or proposed and not decided), from later heights or from forks; adversarial skeletons "
                    "(split-brain proposer, lock-then-starve, laggard/round skip, partitions; placed at a drawn height so that later heights are "
                    "entered with the leftovers of earlier ones) bias the search to deep states. Not exhaustive even for n=4,f=1: the state machine cannot "
                    "be cloned for DFS. The threshold arithmetic IS exhaustive for unit validators N<=45 and all 2-/3-validator splits of N<=30."),
        rule=("A case = validator set (n=4,f=1 with unit powers, or n in 1..7 (a fifth of those cases: 8, 10, 13 or 16 validators with a step budget scaled by n^2) with drawn powers, Byzantine power < N/3, often at the limit, powers "
              "may change per height), application kind (75% chain: a value is built for one height on one parent and is valid only for a validator "
              "deciding that height whose decided chain ends with that parent, content drawn good/bad; 25% height-independent drawn predicate), "
              "1-4 heights, a profile (skeleton height drawn) and up to 300+100*heights rapid-drawn steps (deliver / duplicate / "
              "drop / fire timeout, stale ones of earlier heights with a drawn weight / Byzantine injection from {proposal,prevote,precommit} x "
              "{own values for this height, values proposed at this height, values decided at earlier heights, values proposed but not decided at "
              "earlier heights, values built for later heights, forks on a non-decided parent, nil} x round x validRound "
              "to a drawn subset, optional second face to the rest; a faulty validator re-sending anybody's message of an earlier height with only the "
              "height rewritten / late re-gossip of correct and faulty messages, a drawn share from heights the recipient has left). Non-trivial = "
              "(a correct validator entered a later round while locked, or conflicting messages of one faulty validator for one (kind,height,round) "
              "reached >= 2 correct validators, or a value of an earlier height named again by a faulty validator at a later height reached >= 2 correct "
              "validators) and >= 1 commit; arithmetic cases: some voter subset within 1 of a threshold. Distinct = SHA-256 of the executed schedule."),
        assumptions=["messages are authenticated: a faulty validator cannot use a correct validator's address as sender (p2p layer's job per consensus/types/messages.go)",
                     "every proposal carries a non-nil value (the p2p proposal stream builds it)",
                     "the application's Valid judgement is a deterministic function of (the validator's height and decided prefix, the value), identical on all validators and constant while a validator stays at one height; Value() of a correct validator is valid at the height it was asked for",
                     "the driver applies a committed value to the application before it starts the next height (the harness application's chain advances when the Commit action is handled)",
                     "the driver calls ProcessStart(0) immediately after a Commit and before any other input (driver.listen); a validator that decided the last height of the run leaves the simulation",
                     "the sync service (TriggerSync/ProcessSync) is not modelled; TriggerSync is a no-op",
                     "liveness is not checked"],
        runs=[dict(run="^Test(Prop|Known)")],
    )
