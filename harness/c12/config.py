# Driver configuration for property C12 (read by /verif/checks_config.py)
PROP = dict(
        pkg="c12", level="exploration",
        technique=("property-based simulation (rapid): n real tendermint state machines + real vote counters behind a generator-owned "
                   "adversarial network with Byzantine validators; safety oracles from the Tendermint paper evaluated on every action; "
                   "exhaustive + random arithmetic check of the quorum and f+1 thresholds"),
        level_text=("Exploration: sampled schedules (tens of thousands per run, <= 400 steps each) over delivery order, duplication, loss, "
                    "late re-delivery, timeout firing and Byzantine messages; adversarial skeletons (split-brain proposer, lock-then-starve, "
                    "laggard/round skip, partitions) bias the search to deep states. Not exhaustive even for n=4,f=1: the state machine cannot "
                    "be cloned for DFS. The threshold arithmetic IS exhaustive for unit validators N<=45 and all 2-/3-validator splits of N<=30."),
        rule=("A case = validator set (n=4,f=1 with unit powers, or n in 1..7 with drawn powers, Byzantine power < N/3, often at the limit, powers "
              "may change per height), application validity predicate, 1-3 heights, a profile and up to 400 rapid-drawn steps (deliver / duplicate / "
              "drop / fire timeout / Byzantine injection from {proposal,prevote,precommit} x {b1,b2,values proposed so far,nil} x round x validRound "
              "to a drawn subset, optional second face to the rest / late re-gossip). Non-trivial = (a correct validator entered a later round "
              "while locked, or conflicting messages of one faulty validator for one (kind,height,round) reached >= 2 correct validators) and >= 1 "
              "commit; arithmetic cases: some voter subset within 1 of a threshold. Distinct = SHA-256 of the executed schedule."),
        assumptions=["messages are authenticated: a faulty validator cannot use a correct validator's address as sender (p2p layer's job per consensus/types/messages.go)",
                     "every proposal carries a non-nil value (the p2p proposal stream builds it)",
                     "the application's Valid predicate is deterministic and identical on all validators; Value() of a correct validator is valid",
                     "the driver calls ProcessStart(0) immediately after a Commit and before any other input (driver.listen); a validator that decided the last height of the run leaves the simulation",
                     "the sync service (TriggerSync/ProcessSync) is not modelled; TriggerSync is a no-op",
                     "liveness is not checked"],
        runs=[dict(run="^Test(Prop|Known)")],
    )
