package c12

import (
	"fmt"

	"github.com/NethermindEth/juno/consensus/tendermint"
	"github.com/NethermindEth/juno/consensus/types"
	"github.com/NethermindEth/juno/utils/log"
	"pgregory.net/rapid"

	"verif/harness/internal/stats"
)

// profile = how the generator biases the schedule. Every profile still draws every step with rapid; a profile only
// changes weights, holds some (message, recipient) pairs back for a while, and scripts a few Byzantine injections.
type profile struct {
	name string

	wDeliver, wDup, wDrop, wTimeout, wByz, wRegossip int

	holdUntil      int  // holds are lifted at this step ...
	dropAtLift     bool // ... or the held pairs are lost
	h0             types.Height
	r0             types.Round
	noProp         uint64 // lockstarve: validators that do not get the (h0,r0) proposal while held
	victims        uint64 // lockstarve: only these see non-nil prevotes of (h0,r0) while held
	laggard        int    // laggard: receives nothing while held (-1 none)
	cut            [][]bool
	recut          int // partition: redraw the cut every recut steps
	tmBoost        int
	scriptDone     bool
	holdPrecommits bool // lockstarve: non-nil precommits of rounds r0, r0+1 are held too (rounds fail although values get locked)
	splitAtProp    bool // byzantine proposer proposes different values to two halves whenever it is its turn

	replayBias int // weight multiplier of values of other heights (decided earlier / proposed earlier / built for later heights / forks) in the faulty alphabet
	wStale     int // weight of a pending timeout that was scheduled at an earlier height than its validator's current one
	oldGossip  int // of 4: share of re-gossip steps that pick a message of a height below the recipient's
}

var profileNames = []string{"uniform", "uniform", "splitbrain", "splitbrain", "lockstarve", "lockstarve", "laggard", "partition"}

func bit(i int) uint64 { return 1 << uint(i) }

func (s *sim) held(f *flight) bool {
	return s.step < s.prof.holdUntil && s.matchHold(f)
}

func (s *sim) matchHold(f *flight) bool {
	pr := &s.prof
	m := &f.m
	switch pr.name {
	case "lockstarve":
		if m.h == pr.h0 && m.r == pr.r0 {
			if m.kind == 'P' && pr.noProp&bit(f.to) != 0 {
				return true
			}
			if m.kind == 'v' && !m.id.isNil && pr.victims&bit(f.to) == 0 {
				return true
			}
		}
		if pr.holdPrecommits && m.kind == 'c' && !m.id.isNil && m.h == pr.h0 && m.r <= pr.r0+1 {
			return true
		}
	case "laggard":
		return f.to == pr.laggard
	case "partition":
		if m.from >= 0 && pr.cut != nil {
			return pr.cut[m.from][f.to]
		}
	}
	return false
}

func (s *sim) flightWeight(f *flight) int {
	if s.held(f) {
		return 0
	}
	if f.m.h == s.nodes[f.to].height {
		return 6
	}
	return 1
}

func (s *sim) tmWeight(t *ptm) int {
	p := s.nodes[t.to]
	if t.tm.Height == p.height && t.tm.Round == p.rec(p.height).round {
		return 3 * s.prof.tmBoost
	}
	if t.tm.Height < p.height {
		return s.prof.wStale // scheduled at an earlier height, fires in the new one
	}
	return 1 // stale: the real driver fires those too (timers are never cancelled)
}

func (s *sim) pick(label string, w []int) int {
	tot := 0
	for _, x := range w {
		tot += x
	}
	if tot == 0 {
		return -1
	}
	k := rapid.IntRange(0, tot-1).Draw(s.rt, label)
	for i, x := range w {
		if k < x {
			return i
		}
		k -= x
	}
	return -1
}

// ---------------------------------------------------------------------------------------------------------
// Setup
// ---------------------------------------------------------------------------------------------------------

func newSim(rt *rapid.T, c *stats.Case, bulk bool) *sim {
	s := &sim{
		rt: rt, c: c,
		names: map[V]string{genesis: "genesis", junk: "foreign"}, valid: map[V]bool{}, meta: map[V]vmeta{}, byzVals: map[bkey][2]V{},
		observed: map[types.Height][]V{}, seen: map[types.Height][]V{}, seenSet: map[hv]struct{}{}, first: map[V]types.Height{},
		byzProps: map[hr]map[H]struct{}{}, replayTo: map[hv]uint64{},
		decided: map[types.Height]decision{}, eq: map[eqKey]*eqRec{},
	}
	h0 := types.Height(rapid.SampledFrom([]uint{1, 1, 0, 7}).Draw(rt, "h0"))
	nh := rapid.SampledFrom([]int{1, 2, 2, 2, 3, 3, 4}).Draw(rt, "heights")
	s.hEnd = h0 + types.Height(nh-1)
	s.nh = nh
	// application kind: a chain (validity depends on the validator's height and decided prefix) or the height-independent predicate
	s.chain = rapid.IntRange(0, 3).Draw(rt, "appChain") > 0
	if s.chain {
		c.Label("app:chain(validity-depends-on-height-and-decided-prefix)")
	} else {
		c.Label("app:height-independent-predicate")
	}

	var isByz []bool
	var powers [][]types.VotingPower
	if bulk {
		s.n = 4
		isByz = make([]bool, 4)
		isByz[rapid.IntRange(0, 3).Draw(rt, "byzidx")] = true
		powers = [][]types.VotingPower{{1, 1, 1, 1}}
		c.Label("cfg:n4f1")
	} else {
		n := rapid.SampledFrom([]int{1, 2, 3, 3, 4, 4, 5, 5, 6, 6, 7, 7, 4, 5, 6, 7, 8, 10, 13, 16}).Draw(rt, "n") // a fifth of the weighted cases: committees above 7 (the step budget grows with n)
		k := rapid.SampledFrom([]int{0, 1, 1, 1, 2, 2, 3}).Draw(rt, "nbyz")
		if k > n-1 {
			k = n - 1
		}
		nc := n - k
		maxp := rapid.SampledFrom([]int{1, 3, 3, 5, 30}).Draw(rt, "maxpower")
		nvec := 1
		if rapid.IntRange(0, 3).Draw(rt, "perheight") == 0 {
			nvec = nh
		}
		// correct powers first; the faulty validators then share at most (Nc-1)/2 (<=> 3*b < b+Nc). If the budget does
		// not allow k faulty validators of power >= 1, the surplus ones become correct.
		cp := make([][]int, nvec)
		for hi := range cp {
			for i := 0; i < nc; i++ {
				cp[hi] = append(cp[hi], rapid.IntRange(1, maxp).Draw(rt, "cpower"))
			}
		}
		budgetOf := func() int {
			minBudget := 1 << 30
			for hi := range cp {
				sum := 0
				for _, x := range cp[hi] {
					sum += x
				}
				if b := (sum - 1) / 2; b < minBudget {
					minBudget = b
				}
			}
			return minBudget
		}
		for k > budgetOf() {
			k--
			nc++
			for hi := range cp {
				cp[hi] = append(cp[hi], rapid.IntRange(1, maxp).Draw(rt, "cpower"))
			}
		}
		s.n = nc + k
		// which indexes are faulty
		isByz = make([]bool, s.n)
		perm := rapid.Permutation(seq(s.n)).Draw(rt, "perm")
		for _, i := range perm[:k] {
			isByz[i] = true
		}
		atLimit := rapid.IntRange(0, 9).Draw(rt, "byzAtLimit") < 6
		powers = make([][]types.VotingPower, nvec)
		for hi := range powers {
			powers[hi] = make([]types.VotingPower, s.n)
			sum := 0
			for _, x := range cp[hi] {
				sum += x
			}
			budget := (sum-1)/2 - k // extra power above 1 each
			bp := make([]int, k)
			for i := range bp {
				bp[i] = 1
			}
			if k > 0 && budget > 0 {
				extra := budget
				if !atLimit {
					extra = rapid.IntRange(0, budget).Draw(rt, "byzextra")
				}
				for extra > 0 {
					j := rapid.IntRange(0, k-1).Draw(rt, "byzwho")
					give := rapid.IntRange(1, extra).Draw(rt, "byzgive")
					bp[j] += give
					extra -= give
				}
			}
			ci, bi := 0, 0
			for i := 0; i < s.n; i++ {
				if isByz[i] {
					powers[hi][i] = types.VotingPower(bp[bi])
					bi++
				} else {
					powers[hi][i] = types.VotingPower(cp[hi][ci])
					ci++
				}
			}
		}
		c.Label("cfg:weighted")
		c.Labelf("cfg:n=%d", s.n)
		c.Labelf("cfg:nbyz=%d", k)
		if nvec > 1 {
			c.Label("cfg:powers-change-per-height")
		}
	}

	s.vs = &vset{n: s.n, idx: map[A]int{}, h0: h0, powers: powers, off: rapid.IntRange(0, s.n-1).Draw(rt, "propoff")}
	for i := 0; i < s.n; i++ {
		a := mkAddr(uint64(100 + i))
		s.vs.addrs = append(s.vs.addrs, a)
		s.vs.idx[a] = i
	}
	for hi := range powers {
		h := h0 + types.Height(hi)
		N := s.vs.total(h)
		var b uint64
		for i := 0; i < s.n; i++ {
			if isByz[i] {
				b += s.vs.pw(h, i)
			}
		}
		if 3*b >= N {
			stats.HarnessError("generator produced faulty power %d of %d", b, N)
		}
		if !bulk {
			c.Labelf("cfg:Nmod3=%d", N%3)
			if b == maxFaulty(N) && b > 0 {
				c.Label("cfg:faulty-power-at-limit")
			}
		}
	}

	// (the values the faulty validators use besides the ones proposed by correct validators are made on demand: byzFor)
	for i := 0; i < s.n; i++ {
		nd := &node{i: i, addr: s.vs.addrs[i], byz: isByz[i], height: h0, recs: map[types.Height]*hrec{}, dec: map[types.Height]V{}}
		if isByz[i] {
			s.byz = append(s.byz, i)
		} else {
			s.correct = append(s.correct, i)
			nd.app = &app{s: s, nd: nd, issued: map[V]struct{}{}}
			nd.sm = tendermint.New[V, H, A](log.NewNopZapLogger(), nd.addr, nd.app, s.vs, h0)
		}
		s.nodes = append(s.nodes, nd)
	}
	s.drawProfile()
	return s
}

func seq(n int) []int {
	x := make([]int, n)
	for i := range x {
		x[i] = i
	}
	return x
}

func (s *sim) correctMask() uint64 {
	var m uint64
	for _, i := range s.correct {
		m |= bit(i)
	}
	return m
}

// subset of the correct validators as a bitmask (may be empty)
func (s *sim) drawSubset(label string) uint64 {
	x := rapid.Uint64Range(0, (1<<uint(len(s.correct)))-1).Draw(s.rt, label)
	var m uint64
	for k, i := range s.correct {
		if x&bit(k) != 0 {
			m |= bit(i)
		}
	}
	return m
}

func (s *sim) drawProfile() {
	rt := s.rt
	name := rapid.SampledFrom(profileNames).Draw(rt, "profile")
	if len(s.byz) == 0 && name == "splitbrain" {
		name = "uniform"
	}
	if len(s.correct) < 2 && (name == "lockstarve" || name == "laggard" || name == "partition") {
		name = "uniform"
	}
	pr := profile{name: name, laggard: -1, tmBoost: 1, h0: s.vs.h0, r0: 0, holdUntil: 0}
	pr.replayBias = rapid.SampledFrom([]int{0, 1, 1, 2, 4}).Draw(rt, "replayBias")
	pr.wStale = rapid.SampledFrom([]int{1, 1, 2, 6}).Draw(rt, "wStale")
	pr.oldGossip = rapid.SampledFrom([]int{0, 1, 2}).Draw(rt, "oldGossip")
	// the skeletons start at a drawn height of the run: later heights are entered with the leftovers of the earlier ones
	// (locks, valid values, vote sets, pending timeouts, buffered messages)
	laterH := 0
	if s.nh > 1 && rapid.IntRange(0, 2).Draw(rt, "skeletonAtLaterHeight") > 0 {
		laterH = rapid.IntRange(1, s.nh-1).Draw(rt, "skeletonHeight")
		pr.h0 += types.Height(laterH)
	}
	pr.wDeliver = rapid.SampledFrom([]int{40, 60, 80}).Draw(rt, "wDeliver")
	pr.wDup = rapid.SampledFrom([]int{0, 2, 6}).Draw(rt, "wDup")
	pr.wDrop = rapid.SampledFrom([]int{0, 0, 2, 8}).Draw(rt, "wDrop")
	pr.wTimeout = rapid.SampledFrom([]int{2, 6, 12, 25}).Draw(rt, "wTimeout")
	pr.wByz = rapid.SampledFrom([]int{0, 4, 10, 20}).Draw(rt, "wByz")
	pr.wRegossip = rapid.SampledFrom([]int{0, 2, 5}).Draw(rt, "wRegossip")
	if len(s.byz) == 0 {
		pr.wByz = 0
	}
	switch name {
	case "splitbrain":
		// make a faulty validator the proposer of round 0 of the skeleton's height
		b := s.byz[rapid.IntRange(0, len(s.byz)-1).Draw(rt, "sbwho")]
		for s.vs.propIdx(pr.h0, 0) != b {
			s.vs.off = (s.vs.off + 1) % s.n
		}
		pr.splitAtProp = true
		if pr.wByz < 10 {
			pr.wByz = 10
		}
	case "lockstarve":
		pr.holdUntil = rapid.IntRange(30, 200).Draw(rt, "holdUntil") + 70*laterH
		pr.dropAtLift = rapid.Bool().Draw(rt, "dropAtLift")
		pr.holdPrecommits = rapid.Bool().Draw(rt, "holdPrecommits")
		pr.tmBoost = 3
		// proposer of (h0,0) preferably correct
		if rapid.IntRange(0, 3).Draw(rt, "lsCorrectProposer") > 0 {
			for k := 0; k < s.n && s.nodes[s.vs.propIdx(pr.h0, 0)].byz; k++ {
				s.vs.off = (s.vs.off + 1) % s.n
			}
		}
		v := s.correct[rapid.IntRange(0, len(s.correct)-1).Draw(rt, "victim")]
		pr.victims = bit(v)
		if rapid.IntRange(0, 3).Draw(rt, "twoVictims") == 0 {
			pr.victims |= bit(s.correct[rapid.IntRange(0, len(s.correct)-1).Draw(rt, "victim2")])
		}
		prop := s.vs.propIdx(pr.h0, 0)
		var cand []int
		for _, i := range s.correct {
			if pr.victims&bit(i) == 0 && i != prop {
				cand = append(cand, i)
			}
		}
		if len(cand) > 0 {
			pr.noProp = bit(cand[rapid.IntRange(0, len(cand)-1).Draw(rt, "noProp")])
			if len(cand) > 1 && rapid.Bool().Draw(rt, "noProp2") {
				pr.noProp |= bit(cand[rapid.IntRange(0, len(cand)-1).Draw(rt, "noProp2i")])
			}
		}
		if pr.wByz < 4 && len(s.byz) > 0 {
			pr.wByz = 4
		}
	case "laggard":
		pr.holdUntil = rapid.IntRange(30, 200).Draw(rt, "holdUntil")
		pr.dropAtLift = rapid.IntRange(0, 3).Draw(rt, "dropAtLift") == 0
		pr.laggard = s.correct[rapid.IntRange(0, len(s.correct)-1).Draw(rt, "laggard")]
		pr.tmBoost = 2
		if pr.wTimeout < 12 {
			pr.wTimeout = 12
		}
	case "partition":
		pr.holdUntil = rapid.IntRange(40, 300).Draw(rt, "holdUntil")
		pr.recut = rapid.IntRange(10, 60).Draw(rt, "recut")
		if pr.wTimeout < 6 {
			pr.wTimeout = 6
		}
	}
	s.prof = pr
	s.c.Label("prof:" + name)
	if laterH > 0 && (name == "splitbrain" || name == "lockstarve") {
		s.c.Label("prof:skeleton-at-later-height")
	}
}

func (s *sim) redrawCut() {
	cut := make([][]bool, s.n)
	side := make([]bool, s.n)
	for i := range side {
		side[i] = rapid.Bool().Draw(s.rt, "side")
	}
	for i := range cut {
		cut[i] = make([]bool, s.n)
		for j := range cut[i] {
			cut[i][j] = side[i] != side[j]
		}
	}
	s.prof.cut = cut
}

// ---------------------------------------------------------------------------------------------------------
// Byzantine behaviour
// ---------------------------------------------------------------------------------------------------------

// inject delivers m (from a faulty validator) immediately to every correct validator in mask: a faulty sender chooses
// when and to whom it sends, so immediate delivery loses no generality.
func (s *sim) inject(m msg, mask uint64, why string) {
	if m.kind == 'P' && m.from >= 0 && s.vs.propIdx(m.h, m.r) == m.from {
		k := hr{m.h, m.r}
		if s.byzProps[k] == nil {
			s.byzProps[k] = map[H]struct{}{}
		}
		s.byzProps[k][m.id.h] = struct{}{}
	}
	if !m.id.isNil {
		s.noteSeen(m.h, m.val())
	}
	if len(s.byzHistory) < 400 {
		s.byzHistory = append(s.byzHistory, m)
	}
	for _, i := range s.correct {
		if mask&bit(i) == 0 || s.nodes[i].finished {
			continue
		}
		s.tracef("#%d faulty validator sends %s -> validator %d  [%s]", s.step, s.mstr(m), i, why)
		s.c.Fp("b%c%d.%d.%d.%s.%d", m.kind, m.h, m.r, m.from, m.content(), i)
		s.deliver(i, m)
	}
}

// byzFor: the faulty validators' own two values built for height h on the given parent (made on first use; whether the
// content is acceptable is drawn). With the height-independent application the parent plays no role.
func (s *sim) byzFor(h types.Height, parent V) [2]V {
	if !s.chain {
		parent = genesis
	}
	k := bkey{h, parent}
	if bv, ok := s.byzVals[k]; ok {
		return bv
	}
	var bv [2]V
	for i := 0; i < 2; i++ {
		s.byzCtr++
		v := mkVal(900_000 + s.byzCtr)
		ok := rapid.IntRange(0, 9).Draw(s.rt, "validB") < 8-2*i
		s.valid[v] = ok
		s.meta[v] = vmeta{h: h, parent: parent, bad: !ok}
		if s.chain {
			s.names[v] = fmt.Sprintf("b%d@h%d^%s", i+1, h, s.vname(parent))
		} else {
			s.names[v] = fmt.Sprintf("b%d@h%d", i+1, h)
		}
		bv[i] = v
	}
	s.byzVals[k] = bv
	return bv
}

func lastN(x []V, n int) []V {
	if len(x) > n {
		return x[len(x)-n:]
	}
	return x
}

// tipGuess: the parent a faulty validator builds a value for height h on: the value decided at h-1 when some correct
// validator decided it, else one of the values named at h-1 (it may or may not become the decided one).
func (s *sim) tipGuess(h types.Height) V {
	if !s.chain || h <= s.vs.h0 {
		return genesis
	}
	if d, ok := s.decided[h-1]; ok {
		return d.v
	}
	c := lastN(s.seen[h-1], 6)
	if len(c) == 0 {
		return junk
	}
	return c[rapid.IntRange(0, len(c)-1).Draw(s.rt, "parentGuess")]
}

// drawVal: a value a faulty validator names in a message of height h. The alphabet:
//
//	own      its own values built for h on the decided chain (content drawn good/bad)
//	current  values correct proposers proposed at h
//	decided  values decided at EARLIER heights (the latest one preferred)
//	stale    values named at earlier heights and not decided there (proposals of failed rounds, faulty values)
//	future   values built for LATER heights (own ones, or proposals of correct validators that are already ahead)
//	fork     own values built for h on a parent that is not the decided value of h-1 (chain application only)
func (s *sim) drawVal(h types.Height, label string) V {
	rt := s.rt
	obs := lastN(s.observed[h], 4)
	var dec, stale, fut []V
	for hh := s.vs.h0; hh < h; hh++ {
		d, ok := s.decided[hh]
		if ok {
			dec = append(dec, d.v)
		}
		for _, v := range s.seen[hh] {
			if !ok || v != d.v {
				stale = append(stale, v)
			}
		}
	}
	stale = lastN(stale, 6)
	for hh := h + 1; hh <= s.hEnd+1; hh++ {
		fut = append(fut, s.seen[hh]...)
	}
	fut = lastN(fut, 4)
	rb := s.prof.replayBias
	w := []int{4, 0, 0, 0, rb, 0}
	if len(obs) > 0 {
		w[1] = 3
	}
	if len(dec) > 0 {
		w[2] = 3 * rb
	}
	if len(stale) > 0 {
		w[3] = 2 * rb
	}
	if s.chain && h > s.vs.h0 {
		w[5] = rb
	}
	pickOf := func(x []V) V { return x[rapid.IntRange(0, len(x)-1).Draw(rt, label+"I")] }
	switch s.pick(label+"Cat", w) {
	case 1:
		return pickOf(obs)
	case 2:
		if rapid.IntRange(0, 2).Draw(rt, label+"Latest") > 0 {
			return dec[len(dec)-1]
		}
		return pickOf(dec)
	case 3:
		return pickOf(stale)
	case 4:
		if len(fut) > 0 && rapid.Bool().Draw(rt, label+"Seen") {
			return pickOf(fut)
		}
		bv := s.byzFor(h+1, s.tipGuess(h+1))
		return bv[rapid.IntRange(0, 1).Draw(rt, label+"I")]
	case 5:
		parent := junk
		var c []V
		for _, v := range lastN(s.seen[h-1], 6) {
			if d, ok := s.decided[h-1]; !ok || d.v != v {
				c = append(c, v)
			}
		}
		if len(c) > 0 && rapid.Bool().Draw(rt, label+"ForkSeen") {
			parent = pickOf(c)
		}
		bv := s.byzFor(h, parent)
		return bv[rapid.IntRange(0, 1).Draw(rt, label+"I")]
	}
	bv := s.byzFor(h, s.tipGuess(h))
	return bv[rapid.IntRange(0, 1).Draw(rt, label+"I")]
}

func (s *sim) drawID(h types.Height, label string, allowNil bool) idk {
	if allowNil && rapid.IntRange(0, 5).Draw(s.rt, label+"Nil") == 0 {
		return idk{isNil: true}
	}
	return idk{h: s.drawVal(h, label).Hash()}
}

// transposeOld: a faulty validator takes a message of an earlier height (anybody's proposal or vote, any round) and
// sends it again under its own name with only the height rewritten to h: same round, same value, same validRound.
func (s *sim) transposeOld(b int, tgt *node) bool {
	rt := s.rt
	h := tgt.height
	var idx []int
	nh := len(s.history)
	for i := range s.history {
		if s.history[i].h < h {
			idx = append(idx, i)
		}
	}
	for i := range s.byzHistory {
		if s.byzHistory[i].h < h {
			idx = append(idx, nh+i)
		}
	}
	if len(idx) == 0 {
		return false
	}
	k := idx[rapid.IntRange(0, len(idx)-1).Draw(rt, "transposeWhich")]
	var m msg
	if k < nh {
		m = s.history[k]
	} else {
		m = s.byzHistory[k-nh]
	}
	m.h, m.from = h, b
	if m.kind == 'P' && s.vs.propIdx(h, m.r) != b && rapid.IntRange(0, 3).Draw(rt, "transposeToOwnRound") > 0 {
		// move it to the next round (from the target's current one) that this faulty validator is the proposer of
		cur := tgt.rec(h).round
		if cur < 0 {
			cur = 0
		}
		for d := 0; d < s.n; d++ {
			if s.vs.propIdx(h, cur+types.Round(d)) == b {
				m.r = cur + types.Round(d)
				break
			}
		}
	}
	mask := s.drawSubset("transposeTo")
	if mask == 0 {
		mask = bit(tgt.i)
	}
	s.transposed = true
	s.inject(m, mask, "old message, height rewritten")
	return true
}

func (s *sim) byzStep() {
	rt := s.rt
	b := s.byz[rapid.IntRange(0, len(s.byz)-1).Draw(rt, "byz")]
	live := s.live()
	tgt := s.nodes[live[rapid.IntRange(0, len(live)-1).Draw(rt, "byzTarget")]]
	h := tgt.height
	cur := tgt.rec(h).round
	if cur < 0 {
		cur = 0
	}
	if h > s.vs.h0 && s.prof.replayBias > 0 && rapid.IntRange(0, 7).Draw(rt, "byzTranspose") == 0 && s.transposeOld(b, tgt) {
		return
	}
	if rapid.IntRange(0, 11).Draw(rt, "byzFutureH") == 0 {
		h++
		cur = 0
	}
	r := cur + types.Round(rapid.SampledFrom([]int{0, 0, 0, 0, 0, -1, 1, 1, 2, 3}).Draw(rt, "byzDr"))
	if r < 0 && rapid.IntRange(0, 3).Draw(rt, "byzNegRound") > 0 {
		r = 0
	}
	kind := rapid.SampledFrom([]byte{'P', 'v', 'v', 'v', 'c', 'c'}).Draw(rt, "byzKind")
	isProposer := s.vs.propIdx(h, r) == b
	if isProposer && rapid.Bool().Draw(rt, "byzPreferProposal") {
		kind = 'P'
	}
	if kind == 'P' && !isProposer && rapid.IntRange(0, 9).Draw(rt, "byzBogusProposal") > 0 {
		kind = 'v'
	}
	from := b
	if rapid.IntRange(0, 39).Draw(rt, "byzOutsider") == 0 {
		from = -1
	}
	m := msg{kind: kind, h: h, r: r, from: from, vr: -1}
	m.id = s.drawID(h, "byzVal", kind != 'P')
	if kind == 'P' {
		switch rapid.IntRange(0, 5).Draw(rt, "byzVR") {
		case 0:
			m.vr = types.Round(rapid.IntRange(-2, int(r)+1).Draw(rt, "byzVRv")) // anything, also malformed
		case 1, 2:
			if r >= 1 {
				m.vr = types.Round(rapid.IntRange(0, int(r)-1).Draw(rt, "byzVRv")) // a well-formed re-proposal
			}
		}
	}
	mask := s.drawSubset("byzTo")
	if mask == 0 {
		mask = bit(tgt.i)
	}
	s.inject(m, mask, "random")
	// second face to (a subset of) the others
	if rest := s.correctMask() &^ mask; rest != 0 && rapid.IntRange(0, 9).Draw(rt, "byzTwoFace") < 6 {
		m2 := m
		m2.id = s.drawID(h, "byzVal2", kind != 'P')
		if kind == 'P' && rapid.IntRange(0, 3).Draw(rt, "byzVR2") == 0 {
			m2.vr = types.Round(rapid.IntRange(-1, int(r)).Draw(rt, "byzVRv2"))
		}
		s.inject(m2, rest, "second face")
	}
}

// splitBrain: the faulty proposer of (h, r) proposes different values to two halves and backs each with its votes.
func (s *sim) splitBrain(b int, h types.Height, r types.Round) {
	rt := s.rt
	half := s.drawSubset("sbHalf")
	rest := s.correctMask() &^ half
	va := idk{h: s.drawVal(h, "sbA").Hash()}
	vb := idk{h: s.drawVal(h, "sbB").Hash()}
	s.inject(msg{kind: 'P', h: h, r: r, from: b, id: va, vr: -1}, half, "split-brain A")
	s.inject(msg{kind: 'P', h: h, r: r, from: b, id: vb, vr: -1}, rest, "split-brain B")
	if rapid.IntRange(0, 3).Draw(rt, "sbVotes") > 0 {
		s.inject(msg{kind: 'v', h: h, r: r, from: b, id: va}, half, "split-brain A")
		s.inject(msg{kind: 'v', h: h, r: r, from: b, id: vb}, rest, "split-brain B")
		s.inject(msg{kind: 'c', h: h, r: r, from: b, id: va}, half, "split-brain A")
		s.inject(msg{kind: 'c', h: h, r: r, from: b, id: vb}, rest, "split-brain B")
	}
}

// script runs the scripted part of a skeleton when its trigger holds.
func (s *sim) script() {
	pr := &s.prof
	switch pr.name {
	case "splitbrain":
		// whenever a correct validator is in a round whose proposer is faulty and that proposer has not proposed yet
		for _, i := range s.live() {
			p := s.nodes[i]
			r := p.rec(p.height).round
			if r < 0 {
				continue
			}
			b := s.vs.propIdx(p.height, r)
			if s.nodes[b].byz && s.byzProps[hr{p.height, r}] == nil {
				s.splitBrain(b, p.height, r)
				return
			}
		}
	case "laggard":
		// future-round flooding: every 8th step each faulty validator sends nil votes for the two rounds above the highest
		// round any correct validator has reached, to everybody. Faulty power alone must never make anybody skip.
		if len(s.byz) == 0 || s.step%8 != 0 {
			return
		}
		for _, i := range s.live() {
			p := s.nodes[i]
			top := types.Round(0)
			for _, j := range s.correct {
				if q := s.nodes[j]; q.height == p.height && q.rec(q.height).round > top {
					top = q.rec(q.height).round
				}
			}
			for _, b := range s.byz {
				kind := byte('v')
				if s.step%16 == 0 {
					kind = 'c'
				}
				s.inject(msg{kind: kind, h: p.height, r: top + 1, from: b, id: idk{isNil: true}}, bit(i), "future-round flood")
				s.inject(msg{kind: kind, h: p.height, r: top + 2, from: b, id: idk{isNil: true}}, bit(i), "future-round flood")
			}
		}
	case "lockstarve":
		if pr.scriptDone || len(s.byz) == 0 || s.step >= pr.holdUntil {
			return
		}
		// once the value of (h0,r0) is known: prevote it towards the victims, nil towards everybody else
		var id *idk
		prop := s.vs.propIdx(pr.h0, pr.r0)
		if s.nodes[prop].byz {
			// mostly the faulty proposer's own first value (usually valid, so that victims lock on it), else anything of its alphabet
			if rapid.IntRange(0, 3).Draw(s.rt, "lsOwn") > 0 {
				id = &idk{h: s.byzFor(pr.h0, s.tipGuess(pr.h0))[0].Hash()}
			} else {
				id = &idk{h: s.drawVal(pr.h0, "lsVal").Hash()}
			}
			s.inject(msg{kind: 'P', h: pr.h0, r: pr.r0, from: prop, id: *id, vr: -1}, s.correctMask()&^pr.noProp, "lock-then-starve")
		} else if sp, ok := s.nodes[prop].rec(pr.h0).sentProp[pr.r0]; ok {
			id = &sp.id
		}
		if id == nil {
			return
		}
		pr.scriptDone = true
		for _, b := range s.byz {
			s.inject(msg{kind: 'v', h: pr.h0, r: pr.r0, from: b, id: *id}, pr.victims, "lock-then-starve")
			s.inject(msg{kind: 'v', h: pr.h0, r: pr.r0, from: b, id: idk{isNil: true}}, s.correctMask()&^pr.victims, "lock-then-starve")
			s.inject(msg{kind: 'c', h: pr.h0, r: pr.r0, from: b, id: idk{isNil: true}}, s.correctMask(), "lock-then-starve")
		}
	}
}

// ---------------------------------------------------------------------------------------------------------
// Main loop
// ---------------------------------------------------------------------------------------------------------

func (s *sim) live() []int {
	var l []int
	for _, i := range s.correct {
		if !s.nodes[i].finished {
			l = append(l, i)
		}
	}
	return l
}

func (s *sim) done() bool {
	for _, i := range s.correct {
		if s.nodes[i].height <= s.hEnd {
			return false
		}
	}
	return true
}

func (s *sim) run() {
	s.maxStep = rapid.IntRange(60*s.nh, 300+100*s.nh).Draw(s.rt, "steps")
	if s.n > 7 {
		s.maxStep = s.maxStep * s.n * s.n / 49 // messages per vote phase grow with n^2
	}
	for _, i := range s.correct {
		s.tracef("#start validator %d", i)
		s.startHeight(s.nodes[i])
	}
	for s.step = 0; s.step < s.maxStep && !s.done(); s.step++ {
		pr := &s.prof
		if pr.name == "partition" && s.step < pr.holdUntil && s.step%pr.recut == 0 {
			s.redrawCut()
		}
		if s.step == pr.holdUntil && pr.dropAtLift && pr.holdUntil > 0 {
			kept := s.inflight[:0]
			for i := range s.inflight {
				if !s.matchHold(&s.inflight[i]) {
					kept = append(kept, s.inflight[i])
				}
			}
			s.tracef("#%d hold ends: %d held (message, recipient) pairs are lost", s.step, len(s.inflight)-len(kept))
			s.inflight = kept
		}
		s.script()
		if !s.stepOnce() {
			break
		}
	}
}

func (s *sim) stepOnce() bool {
	if s.done() {
		return false
	}
	fw := make([]int, len(s.inflight))
	fsum := 0
	for i := range s.inflight {
		fw[i] = s.flightWeight(&s.inflight[i])
		fsum += fw[i]
	}
	tw := make([]int, len(s.tms))
	tsum := 0
	for i := range s.tms {
		tw[i] = s.tmWeight(&s.tms[i])
		tsum += tw[i]
	}
	pr := &s.prof
	ops := []int{0, 0, 0, 0, 0, 0}
	if fsum > 0 {
		ops[0], ops[1], ops[2] = pr.wDeliver, pr.wDup, pr.wDrop
	}
	if tsum > 0 {
		ops[3] = pr.wTimeout
	}
	if len(s.byz) > 0 {
		ops[4] = pr.wByz
	}
	if len(s.history)+len(s.byzHistory) > 0 {
		ops[5] = pr.wRegossip
	}
	op := s.pick("op", ops)
	if op < 0 {
		if s.step < pr.holdUntil { // everything is held and nothing else can happen: lift the holds
			s.tracef("#%d nothing deliverable: holds lifted early", s.step)
			pr.holdUntil = s.step
			return true
		}
		return false
	}
	switch op {
	case 0, 1, 2:
		i := s.pick("flight", fw)
		f := s.inflight[i]
		switch op {
		case 0:
			s.inflight = append(s.inflight[:i], s.inflight[i+1:]...)
			s.tracef("#%d deliver %s -> validator %d", s.step, s.mstr(f.m), f.to)
			s.c.Fp("d%c%d.%d.%d.%s.%d", f.m.kind, f.m.h, f.m.r, f.m.from, f.m.content(), f.to)
			s.deliver(f.to, f.m)
		case 1:
			s.tracef("#%d deliver a duplicate of %s -> validator %d (original stays in flight)", s.step, s.mstr(f.m), f.to)
			s.c.Fp("u%c%d.%d.%d.%s.%d", f.m.kind, f.m.h, f.m.r, f.m.from, f.m.content(), f.to)
			s.c.Label("op:duplicate")
			s.deliver(f.to, f.m)
		case 2:
			s.inflight = append(s.inflight[:i], s.inflight[i+1:]...)
			s.tracef("#%d drop %s -> validator %d", s.step, s.mstr(f.m), f.to)
			s.c.Fp("x%c%d.%d.%d.%s.%d", f.m.kind, f.m.h, f.m.r, f.m.from, f.m.content(), f.to)
			s.c.Label("op:drop")
		}
	case 3:
		s.fire(s.pick("timeout", tw))
	case 4:
		s.byzStep()
	case 5:
		// late re-delivery of anything a correct validator ever broadcast, to any correct validator (gossip re-send)
		// ... or a faulty validator ever sent. A share of these steps picks a message of a height the recipient has left.
		live := s.live()
		to := live[rapid.IntRange(0, len(live)-1).Draw(s.rt, "regossipTo")]
		pool := s.history
		if len(s.byzHistory) > 0 && (len(pool) == 0 || rapid.IntRange(0, 3).Draw(s.rt, "regossipFaulty") == 0) {
			pool = s.byzHistory
		}
		m := pool[rapid.IntRange(0, len(pool)-1).Draw(s.rt, "regossip")]
		if rapid.IntRange(0, 3).Draw(s.rt, "regossipOld") < pr.oldGossip {
			var old []int
			for i := range pool {
				if pool[i].h < s.nodes[to].height {
					old = append(old, i)
				}
			}
			if len(old) > 0 {
				m = pool[old[rapid.IntRange(0, len(old)-1).Draw(s.rt, "regossipOldI")]]
			}
		}
		s.tracef("#%d re-gossip %s -> validator %d", s.step, s.mstr(m), to)
		s.c.Fp("g%c%d.%d.%d.%s.%d", m.kind, m.h, m.r, m.from, m.content(), to)
		s.deliver(to, m)
	}
	return true
}
