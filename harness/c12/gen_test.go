package c12

import (
	"fmt"

	"github.com/NethermindEth/juno/consensus/tendermint"
	"github.com/NethermindEth/juno/consensus/types"
	"github.com/NethermindEth/juno/utils/log"
	"pgregory.net/rapid"

	"verif/harness/internal/stats"
)

// profile = how the generator biases the schedule. Every profile still draws every step with rapid; a profile only
// changes weights, holds some (message, recipient) pairs back for a while, and scripts a few Byzantine injections.
type profile struct {
	name string

	wDeliver, wDup, wDrop, wTimeout, wByz, wRegossip int

	holdUntil   int  // holds are lifted at this step ...
	dropAtLift  bool // ... or the held pairs are lost
	h0          types.Height
	r0          types.Round
	noProp      uint64 // lockstarve: validators that do not get the (h0,r0) proposal while held
	victims     uint64 // lockstarve: only these see non-nil prevotes of (h0,r0) while held
	laggard     int    // laggard: receives nothing while held (-1 none)
	cut         [][]bool
	recut       int // partition: redraw the cut every recut steps
	tmBoost     int
	scriptDone  bool
	holdPrecommits bool // lockstarve: non-nil precommits of rounds r0, r0+1 are held too (rounds fail although values get locked)
	splitAtProp bool // byzantine proposer proposes different values to two halves whenever it is its turn
}

var profileNames = []string{"uniform", "uniform", "splitbrain", "splitbrain", "lockstarve", "lockstarve", "laggard", "partition"}

func bit(i int) uint64 { return 1 << uint(i) }

func (s *sim) held(f *flight) bool {
	return s.step < s.prof.holdUntil && s.matchHold(f)
}

func (s *sim) matchHold(f *flight) bool {
	pr := &s.prof
	m := &f.m
	switch pr.name {
	case "lockstarve":
		if m.h == pr.h0 && m.r == pr.r0 {
			if m.kind == 'P' && pr.noProp&bit(f.to) != 0 {
				return true
			}
			if m.kind == 'v' && !m.id.isNil && pr.victims&bit(f.to) == 0 {
				return true
			}
		}
		if pr.holdPrecommits && m.kind == 'c' && !m.id.isNil && m.h == pr.h0 && m.r <= pr.r0+1 {
			return true
		}
	case "laggard":
		return f.to == pr.laggard
	case "partition":
		if m.from >= 0 && pr.cut != nil {
			return pr.cut[m.from][f.to]
		}
	}
	return false
}

func (s *sim) flightWeight(f *flight) int {
	if s.held(f) {
		return 0
	}
	if f.m.h == s.nodes[f.to].height {
		return 6
	}
	return 1
}

func (s *sim) tmWeight(t *ptm) int {
	p := s.nodes[t.to]
	if t.tm.Height == p.height && t.tm.Round == p.rec(p.height).round {
		return 3 * s.prof.tmBoost
	}
	return 1 // stale: the real driver fires those too (timers are never cancelled)
}

func (s *sim) pick(label string, w []int) int {
	tot := 0
	for _, x := range w {
		tot += x
	}
	if tot == 0 {
		return -1
	}
	k := rapid.IntRange(0, tot-1).Draw(s.rt, label)
	for i, x := range w {
		if k < x {
			return i
		}
		k -= x
	}
	return -1
}

// ---------------------------------------------------------------------------------------------------------
// Setup
// ---------------------------------------------------------------------------------------------------------

func newSim(rt *rapid.T, c *stats.Case, bulk bool) *sim {
	s := &sim{
		rt: rt, c: c,
		names: map[V]string{}, valid: map[V]bool{}, byzVals: map[types.Height][2]V{},
		observed: map[types.Height][]V{}, byzProps: map[hr]map[H]struct{}{},
		decided: map[types.Height]decision{}, eq: map[eqKey]*eqRec{},
	}
	h0 := types.Height(rapid.SampledFrom([]uint{1, 1, 0, 7}).Draw(rt, "h0"))
	nh := rapid.IntRange(1, 3).Draw(rt, "heights")
	s.hEnd = h0 + types.Height(nh-1)

	var isByz []bool
	var powers [][]types.VotingPower
	if bulk {
		s.n = 4
		isByz = make([]bool, 4)
		isByz[rapid.IntRange(0, 3).Draw(rt, "byzidx")] = true
		powers = [][]types.VotingPower{{1, 1, 1, 1}}
		c.Label("cfg:n4f1")
	} else {
		n := rapid.SampledFrom([]int{1, 2, 3, 3, 4, 4, 5, 5, 6, 6, 7, 7}).Draw(rt, "n")
		k := rapid.SampledFrom([]int{0, 1, 1, 1, 2, 2, 3}).Draw(rt, "nbyz")
		if k > n-1 {
			k = n - 1
		}
		nc := n - k
		maxp := rapid.SampledFrom([]int{1, 3, 3, 5, 30}).Draw(rt, "maxpower")
		nvec := 1
		if rapid.IntRange(0, 3).Draw(rt, "perheight") == 0 {
			nvec = nh
		}
		// correct powers first; the faulty validators then share at most (Nc-1)/2 (<=> 3*b < b+Nc). If the budget does
		// not allow k faulty validators of power >= 1, the surplus ones become correct.
		cp := make([][]int, nvec)
		for hi := range cp {
			for i := 0; i < nc; i++ {
				cp[hi] = append(cp[hi], rapid.IntRange(1, maxp).Draw(rt, "cpower"))
			}
		}
		budgetOf := func() int {
			minBudget := 1 << 30
			for hi := range cp {
				sum := 0
				for _, x := range cp[hi] {
					sum += x
				}
				if b := (sum - 1) / 2; b < minBudget {
					minBudget = b
				}
			}
			return minBudget
		}
		for k > budgetOf() {
			k--
			nc++
			for hi := range cp {
				cp[hi] = append(cp[hi], rapid.IntRange(1, maxp).Draw(rt, "cpower"))
			}
		}
		s.n = nc + k
		// which indexes are faulty
		isByz = make([]bool, s.n)
		perm := rapid.Permutation(seq(s.n)).Draw(rt, "perm")
		for _, i := range perm[:k] {
			isByz[i] = true
		}
		atLimit := rapid.IntRange(0, 9).Draw(rt, "byzAtLimit") < 6
		powers = make([][]types.VotingPower, nvec)
		for hi := range powers {
			powers[hi] = make([]types.VotingPower, s.n)
			sum := 0
			for _, x := range cp[hi] {
				sum += x
			}
			budget := (sum-1)/2 - k // extra power above 1 each
			bp := make([]int, k)
			for i := range bp {
				bp[i] = 1
			}
			if k > 0 && budget > 0 {
				extra := budget
				if !atLimit {
					extra = rapid.IntRange(0, budget).Draw(rt, "byzextra")
				}
				for extra > 0 {
					j := rapid.IntRange(0, k-1).Draw(rt, "byzwho")
					give := rapid.IntRange(1, extra).Draw(rt, "byzgive")
					bp[j] += give
					extra -= give
				}
			}
			ci, bi := 0, 0
			for i := 0; i < s.n; i++ {
				if isByz[i] {
					powers[hi][i] = types.VotingPower(bp[bi])
					bi++
				} else {
					powers[hi][i] = types.VotingPower(cp[hi][ci])
					ci++
				}
			}
		}
		c.Label("cfg:weighted")
		c.Labelf("cfg:n=%d", s.n)
		c.Labelf("cfg:nbyz=%d", k)
		if nvec > 1 {
			c.Label("cfg:powers-change-per-height")
		}
	}

	s.vs = &vset{n: s.n, idx: map[A]int{}, h0: h0, powers: powers, off: rapid.IntRange(0, s.n-1).Draw(rt, "propoff")}
	for i := 0; i < s.n; i++ {
		a := mkAddr(uint64(100 + i))
		s.vs.addrs = append(s.vs.addrs, a)
		s.vs.idx[a] = i
	}
	for hi := range powers {
		h := h0 + types.Height(hi)
		N := s.vs.total(h)
		var b uint64
		for i := 0; i < s.n; i++ {
			if isByz[i] {
				b += s.vs.pw(h, i)
			}
		}
		if 3*b >= N {
			stats.HarnessError("generator produced faulty power %d of %d", b, N)
		}
		if !bulk {
			c.Labelf("cfg:Nmod3=%d", N%3)
			if b == maxFaulty(N) && b > 0 {
				c.Label("cfg:faulty-power-at-limit")
			}
		}
	}

	// values the faulty validators may use besides the ones proposed by correct validators
	for hh := h0; hh <= s.hEnd+1; hh++ {
		var bv [2]V
		for k := 0; k < 2; k++ {
			bv[k] = mkVal(900_000 + uint64(hh)*10 + uint64(k))
			s.names[bv[k]] = fmt.Sprintf("b%d@h%d", k+1, hh)
		}
		s.valid[bv[0]] = rapid.IntRange(0, 9).Draw(rt, "validB1") < 8
		s.valid[bv[1]] = rapid.IntRange(0, 9).Draw(rt, "validB2") < 6
		s.byzVals[hh] = bv
	}

	for i := 0; i < s.n; i++ {
		nd := &node{i: i, addr: s.vs.addrs[i], byz: isByz[i], height: h0, recs: map[types.Height]*hrec{}}
		if isByz[i] {
			s.byz = append(s.byz, i)
		} else {
			s.correct = append(s.correct, i)
			nd.app = &app{s: s, me: i, issued: map[V]struct{}{}}
			nd.sm = tendermint.New[V, H, A](log.NewNopZapLogger(), nd.addr, nd.app, s.vs, h0)
		}
		s.nodes = append(s.nodes, nd)
	}
	s.drawProfile()
	return s
}

func seq(n int) []int {
	x := make([]int, n)
	for i := range x {
		x[i] = i
	}
	return x
}

func (s *sim) correctMask() uint64 {
	var m uint64
	for _, i := range s.correct {
		m |= bit(i)
	}
	return m
}

// subset of the correct validators as a bitmask (may be empty)
func (s *sim) drawSubset(label string) uint64 {
	x := rapid.Uint64Range(0, (1<<uint(len(s.correct)))-1).Draw(s.rt, label)
	var m uint64
	for k, i := range s.correct {
		if x&bit(k) != 0 {
			m |= bit(i)
		}
	}
	return m
}

func (s *sim) drawProfile() {
	rt := s.rt
	name := rapid.SampledFrom(profileNames).Draw(rt, "profile")
	if len(s.byz) == 0 && name == "splitbrain" {
		name = "uniform"
	}
	if len(s.correct) < 2 && (name == "lockstarve" || name == "laggard" || name == "partition") {
		name = "uniform"
	}
	pr := profile{name: name, laggard: -1, tmBoost: 1, h0: s.vs.h0, r0: 0, holdUntil: 0}
	pr.wDeliver = rapid.SampledFrom([]int{40, 60, 80}).Draw(rt, "wDeliver")
	pr.wDup = rapid.SampledFrom([]int{0, 2, 6}).Draw(rt, "wDup")
	pr.wDrop = rapid.SampledFrom([]int{0, 0, 2, 8}).Draw(rt, "wDrop")
	pr.wTimeout = rapid.SampledFrom([]int{2, 6, 12, 25}).Draw(rt, "wTimeout")
	pr.wByz = rapid.SampledFrom([]int{0, 4, 10, 20}).Draw(rt, "wByz")
	pr.wRegossip = rapid.SampledFrom([]int{0, 2, 5}).Draw(rt, "wRegossip")
	if len(s.byz) == 0 {
		pr.wByz = 0
	}
	switch name {
	case "splitbrain":
		// make a faulty validator the proposer of (h0, 0)
		b := s.byz[rapid.IntRange(0, len(s.byz)-1).Draw(rt, "sbwho")]
		for s.vs.propIdx(pr.h0, 0) != b {
			s.vs.off = (s.vs.off + 1) % s.n
		}
		pr.splitAtProp = true
		if pr.wByz < 10 {
			pr.wByz = 10
		}
	case "lockstarve":
		pr.holdUntil = rapid.IntRange(30, 200).Draw(rt, "holdUntil")
		pr.dropAtLift = rapid.Bool().Draw(rt, "dropAtLift")
		pr.holdPrecommits = rapid.Bool().Draw(rt, "holdPrecommits")
		pr.tmBoost = 3
		// proposer of (h0,0) preferably correct
		if rapid.IntRange(0, 3).Draw(rt, "lsCorrectProposer") > 0 {
			for k := 0; k < s.n && s.nodes[s.vs.propIdx(pr.h0, 0)].byz; k++ {
				s.vs.off = (s.vs.off + 1) % s.n
			}
		}
		v := s.correct[rapid.IntRange(0, len(s.correct)-1).Draw(rt, "victim")]
		pr.victims = bit(v)
		if rapid.IntRange(0, 3).Draw(rt, "twoVictims") == 0 {
			pr.victims |= bit(s.correct[rapid.IntRange(0, len(s.correct)-1).Draw(rt, "victim2")])
		}
		prop := s.vs.propIdx(pr.h0, 0)
		var cand []int
		for _, i := range s.correct {
			if pr.victims&bit(i) == 0 && i != prop {
				cand = append(cand, i)
			}
		}
		if len(cand) > 0 {
			pr.noProp = bit(cand[rapid.IntRange(0, len(cand)-1).Draw(rt, "noProp")])
			if len(cand) > 1 && rapid.Bool().Draw(rt, "noProp2") {
				pr.noProp |= bit(cand[rapid.IntRange(0, len(cand)-1).Draw(rt, "noProp2i")])
			}
		}
		if pr.wByz < 4 && len(s.byz) > 0 {
			pr.wByz = 4
		}
	case "laggard":
		pr.holdUntil = rapid.IntRange(30, 200).Draw(rt, "holdUntil")
		pr.dropAtLift = rapid.IntRange(0, 3).Draw(rt, "dropAtLift") == 0
		pr.laggard = s.correct[rapid.IntRange(0, len(s.correct)-1).Draw(rt, "laggard")]
		pr.tmBoost = 2
		if pr.wTimeout < 12 {
			pr.wTimeout = 12
		}
	case "partition":
		pr.holdUntil = rapid.IntRange(40, 300).Draw(rt, "holdUntil")
		pr.recut = rapid.IntRange(10, 60).Draw(rt, "recut")
		if pr.wTimeout < 6 {
			pr.wTimeout = 6
		}
	}
	s.prof = pr
	s.c.Label("prof:" + name)
}

func (s *sim) redrawCut() {
	cut := make([][]bool, s.n)
	side := make([]bool, s.n)
	for i := range side {
		side[i] = rapid.Bool().Draw(s.rt, "side")
	}
	for i := range cut {
		cut[i] = make([]bool, s.n)
		for j := range cut[i] {
			cut[i][j] = side[i] != side[j]
		}
	}
	s.prof.cut = cut
}

// ---------------------------------------------------------------------------------------------------------
// Byzantine behaviour
// ---------------------------------------------------------------------------------------------------------

// inject delivers m (from a faulty validator) immediately to every correct validator in mask: a faulty sender chooses
// when and to whom it sends, so immediate delivery loses no generality.
func (s *sim) inject(m msg, mask uint64, why string) {
	if m.kind == 'P' && m.from >= 0 && s.vs.propIdx(m.h, m.r) == m.from {
		k := hr{m.h, m.r}
		if s.byzProps[k] == nil {
			s.byzProps[k] = map[H]struct{}{}
		}
		s.byzProps[k][m.id.h] = struct{}{}
	}
	for _, i := range s.correct {
		if mask&bit(i) == 0 || s.nodes[i].finished {
			continue
		}
		s.tracef("#%d faulty validator sends %s -> validator %d  [%s]", s.step, s.mstr(m), i, why)
		s.c.Fp("b%c%d.%d.%d.%s.%d", m.kind, m.h, m.r, m.from, m.content(), i)
		s.deliver(i, m)
	}
}

// byzAlphabet: values a faulty validator may name at height h: its own two, and everything correct proposers proposed.
func (s *sim) byzAlphabet(h types.Height) []V {
	var out []V
	if bv, ok := s.byzVals[h]; ok {
		out = append(out, bv[0], bv[1])
	} else {
		bv := s.byzVals[s.hEnd+1]
		out = append(out, bv[0], bv[1])
	}
	obs := s.observed[h]
	if len(obs) > 4 {
		obs = obs[len(obs)-4:]
	}
	return append(out, obs...)
}

func (s *sim) drawID(h types.Height, label string, allowNil bool) idk {
	al := s.byzAlphabet(h)
	lo := 0
	if allowNil {
		lo = -1
	}
	k := rapid.IntRange(lo, len(al)-1).Draw(s.rt, label)
	if k < 0 {
		return idk{isNil: true}
	}
	return idk{h: al[k].Hash()}
}

func (s *sim) byzStep() {
	rt := s.rt
	b := s.byz[rapid.IntRange(0, len(s.byz)-1).Draw(rt, "byz")]
	live := s.live()
	tgt := s.nodes[live[rapid.IntRange(0, len(live)-1).Draw(rt, "byzTarget")]]
	h := tgt.height
	cur := tgt.rec(h).round
	if cur < 0 {
		cur = 0
	}
	if rapid.IntRange(0, 11).Draw(rt, "byzFutureH") == 0 {
		h++
		cur = 0
	}
	r := cur + types.Round(rapid.SampledFrom([]int{0, 0, 0, 0, 0, -1, 1, 1, 2, 3}).Draw(rt, "byzDr"))
	if r < 0 && rapid.IntRange(0, 3).Draw(rt, "byzNegRound") > 0 {
		r = 0
	}
	kind := rapid.SampledFrom([]byte{'P', 'v', 'v', 'v', 'c', 'c'}).Draw(rt, "byzKind")
	isProposer := s.vs.propIdx(h, r) == b
	if isProposer && rapid.Bool().Draw(rt, "byzPreferProposal") {
		kind = 'P'
	}
	if kind == 'P' && !isProposer && rapid.IntRange(0, 9).Draw(rt, "byzBogusProposal") > 0 {
		kind = 'v'
	}
	from := b
	if rapid.IntRange(0, 39).Draw(rt, "byzOutsider") == 0 {
		from = -1
	}
	m := msg{kind: kind, h: h, r: r, from: from, vr: -1}
	m.id = s.drawID(h, "byzVal", kind != 'P')
	if kind == 'P' {
		switch rapid.IntRange(0, 5).Draw(rt, "byzVR") {
		case 0:
			m.vr = types.Round(rapid.IntRange(-2, int(r)+1).Draw(rt, "byzVRv")) // anything, also malformed
		case 1, 2:
			if r >= 1 {
				m.vr = types.Round(rapid.IntRange(0, int(r)-1).Draw(rt, "byzVRv")) // a well-formed re-proposal
			}
		}
	}
	mask := s.drawSubset("byzTo")
	if mask == 0 {
		mask = bit(tgt.i)
	}
	s.inject(m, mask, "random")
	// second face to (a subset of) the others
	if rest := s.correctMask() &^ mask; rest != 0 && rapid.IntRange(0, 9).Draw(rt, "byzTwoFace") < 6 {
		m2 := m
		m2.id = s.drawID(h, "byzVal2", kind != 'P')
		if kind == 'P' && rapid.IntRange(0, 3).Draw(rt, "byzVR2") == 0 {
			m2.vr = types.Round(rapid.IntRange(-1, int(r)).Draw(rt, "byzVRv2"))
		}
		s.inject(m2, rest, "second face")
	}
}

// splitBrain: the faulty proposer of (h, r) proposes different values to two halves and backs each with its votes.
func (s *sim) splitBrain(b int, h types.Height, r types.Round) {
	rt := s.rt
	half := s.drawSubset("sbHalf")
	rest := s.correctMask() &^ half
	al := s.byzAlphabet(h)
	va := idk{h: al[rapid.IntRange(0, len(al)-1).Draw(rt, "sbA")].Hash()}
	vb := idk{h: al[rapid.IntRange(0, len(al)-1).Draw(rt, "sbB")].Hash()}
	s.inject(msg{kind: 'P', h: h, r: r, from: b, id: va, vr: -1}, half, "split-brain A")
	s.inject(msg{kind: 'P', h: h, r: r, from: b, id: vb, vr: -1}, rest, "split-brain B")
	if rapid.IntRange(0, 3).Draw(rt, "sbVotes") > 0 {
		s.inject(msg{kind: 'v', h: h, r: r, from: b, id: va}, half, "split-brain A")
		s.inject(msg{kind: 'v', h: h, r: r, from: b, id: vb}, rest, "split-brain B")
		s.inject(msg{kind: 'c', h: h, r: r, from: b, id: va}, half, "split-brain A")
		s.inject(msg{kind: 'c', h: h, r: r, from: b, id: vb}, rest, "split-brain B")
	}
}

// script runs the scripted part of a skeleton when its trigger holds.
func (s *sim) script() {
	pr := &s.prof
	switch pr.name {
	case "splitbrain":
		// whenever a correct validator is in a round whose proposer is faulty and that proposer has not proposed yet
		for _, i := range s.live() {
			p := s.nodes[i]
			r := p.rec(p.height).round
			if r < 0 {
				continue
			}
			b := s.vs.propIdx(p.height, r)
			if s.nodes[b].byz && s.byzProps[hr{p.height, r}] == nil {
				s.splitBrain(b, p.height, r)
				return
			}
		}
	case "laggard":
		// future-round flooding: every 8th step each faulty validator sends nil votes for the two rounds above the highest
		// round any correct validator has reached, to everybody. Faulty power alone must never make anybody skip.
		if len(s.byz) == 0 || s.step%8 != 0 {
			return
		}
		for _, i := range s.live() {
			p := s.nodes[i]
			top := types.Round(0)
			for _, j := range s.correct {
				if q := s.nodes[j]; q.height == p.height && q.rec(q.height).round > top {
					top = q.rec(q.height).round
				}
			}
			for _, b := range s.byz {
				kind := byte('v')
				if s.step%16 == 0 {
					kind = 'c'
				}
				s.inject(msg{kind: kind, h: p.height, r: top + 1, from: b, id: idk{isNil: true}}, bit(i), "future-round flood")
				s.inject(msg{kind: kind, h: p.height, r: top + 2, from: b, id: idk{isNil: true}}, bit(i), "future-round flood")
			}
		}
	case "lockstarve":
		if pr.scriptDone || len(s.byz) == 0 || s.step >= pr.holdUntil {
			return
		}
		// once the value of (h0,r0) is known: prevote it towards the victims, nil towards everybody else
		var id *idk
		prop := s.vs.propIdx(pr.h0, pr.r0)
		if s.nodes[prop].byz {
			bv := s.byzVals[pr.h0][0]
			id = &idk{h: bv.Hash()}
			s.inject(msg{kind: 'P', h: pr.h0, r: pr.r0, from: prop, id: *id, vr: -1}, s.correctMask()&^pr.noProp, "lock-then-starve")
		} else if sp, ok := s.nodes[prop].rec(pr.h0).sentProp[pr.r0]; ok {
			id = &sp.id
		}
		if id == nil {
			return
		}
		pr.scriptDone = true
		for _, b := range s.byz {
			s.inject(msg{kind: 'v', h: pr.h0, r: pr.r0, from: b, id: *id}, pr.victims, "lock-then-starve")
			s.inject(msg{kind: 'v', h: pr.h0, r: pr.r0, from: b, id: idk{isNil: true}}, s.correctMask()&^pr.victims, "lock-then-starve")
			s.inject(msg{kind: 'c', h: pr.h0, r: pr.r0, from: b, id: idk{isNil: true}}, s.correctMask(), "lock-then-starve")
		}
	}
}

// ---------------------------------------------------------------------------------------------------------
// Main loop
// ---------------------------------------------------------------------------------------------------------

func (s *sim) live() []int {
	var l []int
	for _, i := range s.correct {
		if !s.nodes[i].finished {
			l = append(l, i)
		}
	}
	return l
}

func (s *sim) done() bool {
	for _, i := range s.correct {
		if s.nodes[i].height <= s.hEnd {
			return false
		}
	}
	return true
}

func (s *sim) run() {
	s.maxStep = rapid.IntRange(60, 400).Draw(s.rt, "steps")
	for _, i := range s.correct {
		s.tracef("#start validator %d", i)
		s.startHeight(s.nodes[i])
	}
	for s.step = 0; s.step < s.maxStep && !s.done(); s.step++ {
		pr := &s.prof
		if pr.name == "partition" && s.step < pr.holdUntil && s.step%pr.recut == 0 {
			s.redrawCut()
		}
		if s.step == pr.holdUntil && pr.dropAtLift && pr.holdUntil > 0 {
			kept := s.inflight[:0]
			for i := range s.inflight {
				if !s.matchHold(&s.inflight[i]) {
					kept = append(kept, s.inflight[i])
				}
			}
			s.tracef("#%d hold ends: %d held (message, recipient) pairs are lost", s.step, len(s.inflight)-len(kept))
			s.inflight = kept
		}
		s.script()
		if !s.stepOnce() {
			break
		}
	}
}

func (s *sim) stepOnce() bool {
	if s.done() {
		return false
	}
	fw := make([]int, len(s.inflight))
	fsum := 0
	for i := range s.inflight {
		fw[i] = s.flightWeight(&s.inflight[i])
		fsum += fw[i]
	}
	tw := make([]int, len(s.tms))
	tsum := 0
	for i := range s.tms {
		tw[i] = s.tmWeight(&s.tms[i])
		tsum += tw[i]
	}
	pr := &s.prof
	ops := []int{0, 0, 0, 0, 0, 0}
	if fsum > 0 {
		ops[0], ops[1], ops[2] = pr.wDeliver, pr.wDup, pr.wDrop
	}
	if tsum > 0 {
		ops[3] = pr.wTimeout
	}
	if len(s.byz) > 0 {
		ops[4] = pr.wByz
	}
	if len(s.history) > 0 {
		ops[5] = pr.wRegossip
	}
	op := s.pick("op", ops)
	if op < 0 {
		if s.step < pr.holdUntil { // everything is held and nothing else can happen: lift the holds
			s.tracef("#%d nothing deliverable: holds lifted early", s.step)
			pr.holdUntil = s.step
			return true
		}
		return false
	}
	switch op {
	case 0, 1, 2:
		i := s.pick("flight", fw)
		f := s.inflight[i]
		switch op {
		case 0:
			s.inflight = append(s.inflight[:i], s.inflight[i+1:]...)
			s.tracef("#%d deliver %s -> validator %d", s.step, s.mstr(f.m), f.to)
			s.c.Fp("d%c%d.%d.%d.%s.%d", f.m.kind, f.m.h, f.m.r, f.m.from, f.m.content(), f.to)
			s.deliver(f.to, f.m)
		case 1:
			s.tracef("#%d deliver a duplicate of %s -> validator %d (original stays in flight)", s.step, s.mstr(f.m), f.to)
			s.c.Fp("u%c%d.%d.%d.%s.%d", f.m.kind, f.m.h, f.m.r, f.m.from, f.m.content(), f.to)
			s.c.Label("op:duplicate")
			s.deliver(f.to, f.m)
		case 2:
			s.inflight = append(s.inflight[:i], s.inflight[i+1:]...)
			s.tracef("#%d drop %s -> validator %d", s.step, s.mstr(f.m), f.to)
			s.c.Fp("x%c%d.%d.%d.%s.%d", f.m.kind, f.m.h, f.m.r, f.m.from, f.m.content(), f.to)
			s.c.Label("op:drop")
		}
	case 3:
		s.fire(s.pick("timeout", tw))
	case 4:
		s.byzStep()
	case 5:
		// late re-delivery of anything a correct validator ever broadcast, to any correct validator (gossip re-send)
		m := s.history[rapid.IntRange(0, len(s.history)-1).Draw(s.rt, "regossip")]
		live := s.live()
		to := live[rapid.IntRange(0, len(live)-1).Draw(s.rt, "regossipTo")]
		s.tracef("#%d re-gossip %s -> validator %d", s.step, s.mstr(m), to)
		s.c.Fp("g%c%d.%d.%d.%s.%d", m.kind, m.h, m.r, m.from, m.content(), to)
		s.deliver(to, m)
	}
	return true
}
