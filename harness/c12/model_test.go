// Package c12: Tendermint safety under an adversarial network and Byzantine validators (property C12).
//
// n real tendermint state machines (tendermint.New with the real vote counter) are wired through a simulated
// network that the rapid generator owns. Everything the oracles know they learn from the actions the machines
// return and from the messages the harness itself delivered; nothing is read from juno's internal state.
package c12

import (
	"fmt"
	"math/bits"
	"sort"
	"strings"

	"github.com/NethermindEth/juno/consensus/starknet"
	"github.com/NethermindEth/juno/consensus/types"
	"github.com/NethermindEth/juno/core/felt"
	_ "github.com/NethermindEth/juno/encoder/registry"
)

type (
	V = starknet.Value
	H = starknet.Hash
	A = starknet.Address
)

func mkVal(u uint64) V  { return felt.FromUint64[V](u) }
func mkAddr(u uint64) A { return felt.FromUint64[A](u) }

// ---------------------------------------------------------------------------------------------------------
// The application model. Two kinds of application are drawn per case:
//
//   - height-independent: Valid(v) is a fixed drawn predicate over values (the application of juno's unit tests);
//   - chain: a value is a block. It records the height it was built for and the value it extends (its parent) and may
//     have bad content. A validator's application accepts v iff v was built for the height the validator is deciding,
//     extends the value that validator committed at the previous height (genesis for the first height of the run) and
//     its content is not bad. The judgement therefore depends on the validator's decided prefix: the block decided at
//     height h is NOT valid at height h+1, and a block built for h+1 is not valid at h.
//
// The property's validity clause ("every committed value was ... judged valid by the application") is evaluated with
// the validator's height and decided prefix at the moment it prevotes / precommits / commits. Within one height the
// judgement of a given validator about a given value never changes, so the lock / valid-value rules (which let a
// validator prevote a value it validated earlier in the same height) cannot make the prevote-time oracle unsound.
// ---------------------------------------------------------------------------------------------------------

type vmeta struct {
	h      types.Height // height the value was built for
	parent V            // the value it extends
	bad    bool         // content the application rejects whatever the height
}

var (
	genesis = mkVal(1) // parent of the values of the first height of a run
	junk    = mkVal(7) // a parent that is never decided (a block of a foreign fork)
)

// ---------------------------------------------------------------------------------------------------------
// Thresholds, derived from the safety argument of the Tendermint paper (arXiv 1807.04938), not from the code.
//
// Let N be the total voting power and B any set of faulty validators; the hypothesis is 3*power(B) < N.
//  * A set S "contains a correct validator whatever B is" iff S itself is not an admissible faulty set,
//    i.e. iff 3*power(S) >= N. This is what "f+1" stands for in the paper (rule line 55).
//  * Two quorums S,T must intersect in a set containing a correct validator (Lemma 1 of the paper:
//    "any two sets of 2f+1 have a correct process in common"). power(S∩T) >= power(S)+power(T)-N, and the
//    bound is tight when the counter only knows powers, so a power threshold q is safe iff 3*(2q-N) >= N,
//    i.e. q >= 2N/3, i.e. q >= ceil(2N/3).
//  * The correct validators alone must be able to form a quorum and an f+1 set (the paper's 2f+1 out of
//    n=3f+1): any threshold larger than N - maxFaulty(N) could never be met without faulty help.
// ---------------------------------------------------------------------------------------------------------

// minSafeQuorum is the smallest power q such that two sets of power >= q always share a correct validator.
func minSafeQuorum(n uint64) uint64 { return (2*n + 2) / 3 }

// containsCorrect: a set of this power cannot consist of faulty validators only.
func containsCorrect(power, n uint64) bool { return 3*power >= n }

// maxFaulty is the largest power the faulty validators may hold (3f < N).
func maxFaulty(n uint64) uint64 {
	if n == 0 {
		return 0
	}
	return (n - 1) / 3
}

// ---------------------------------------------------------------------------------------------------------
// Validators
// ---------------------------------------------------------------------------------------------------------

type vset struct {
	n      int
	addrs  []A
	idx    map[A]int
	h0     types.Height
	powers [][]types.VotingPower // [height - h0 (clamped)][validator]
	off    int
}

func (v *vset) hi(h types.Height) int {
	if h <= v.h0 {
		return 0
	}
	i := int(h - v.h0)
	if i >= len(v.powers) {
		i = len(v.powers) - 1
	}
	return i
}

func (v *vset) TotalVotingPower(h types.Height) types.VotingPower {
	var s types.VotingPower
	for _, p := range v.powers[v.hi(h)] {
		s += p
	}
	return s
}

func (v *vset) ValidatorVotingPower(h types.Height, a *A) types.VotingPower {
	if a == nil {
		return 0
	}
	i, ok := v.idx[*a]
	if !ok {
		return 0
	}
	return v.powers[v.hi(h)][i]
}

func (v *vset) propIdx(h types.Height, r types.Round) int {
	x := (int(h%1000) + int(r) + v.off) % v.n
	if x < 0 {
		x += v.n
	}
	return x
}

func (v *vset) Proposer(h types.Height, r types.Round) A { return v.addrs[v.propIdx(h, r)] }

func (v *vset) total(h types.Height) uint64 { return uint64(v.TotalVotingPower(h)) }
func (v *vset) pw(h types.Height, i int) uint64 {
	if i < 0 || i >= v.n {
		return 0
	}
	return uint64(v.powers[v.hi(h)][i])
}

// ---------------------------------------------------------------------------------------------------------
// Messages
// ---------------------------------------------------------------------------------------------------------

type idk struct {
	isNil bool
	h     H
}

func idOf(p *H) idk {
	if p == nil {
		return idk{isNil: true}
	}
	return idk{h: *p}
}

type msg struct {
	kind byte // 'P' proposal, 'v' prevote, 'c' precommit
	h    types.Height
	r    types.Round
	from int // validator index, -1 = address outside the validator set
	id   idk // vote id, or id(value) of a proposal
	vr   types.Round
}

func (m msg) val() V { return V(m.id.h) }

func (m msg) content() string {
	if m.kind == 'P' {
		return fmt.Sprintf("%x/%d", m.id.h, m.vr)
	}
	if m.id.isNil {
		return "nil"
	}
	return fmt.Sprintf("%x", m.id.h)
}

type vkey struct {
	kind byte
	r    types.Round
	from int
	id   idk
}

// hrec is what the harness knows about one correct validator at one height.
type hrec struct {
	votes    map[vkey]struct{}      // delivered (and own) prevotes/precommits
	props    map[types.Round][]msg  // delivered (and own) proposals
	senders  map[types.Round]uint64 // bitmask of validators from which any message of the round is in the log
	sentVote [2]map[types.Round]idk // own prevotes / precommits
	sentProp map[types.Round]msg
	lockR    types.Round // latest non-nil precommit (= the paper's lockedRound/lockedValue)
	lockID   H
	round    types.Round // current round as announced by the machine's actions (-1: height not started)
}

func newHrec() *hrec {
	return &hrec{
		votes: map[vkey]struct{}{}, props: map[types.Round][]msg{}, senders: map[types.Round]uint64{},
		sentVote: [2]map[types.Round]idk{{}, {}}, sentProp: map[types.Round]msg{},
		lockR: -1, round: -1,
	}
}

func kindIdx(k byte) int {
	if k == 'c' {
		return 1
	}
	return 0
}

func (r *hrec) note(m msg) {
	if m.from >= 0 {
		r.senders[m.r] |= 1 << uint(m.from)
	}
	if m.kind == 'P' {
		for _, p := range r.props[m.r] {
			if p == m {
				return
			}
		}
		r.props[m.r] = append(r.props[m.r], m)
		return
	}
	r.votes[vkey{m.kind, m.r, m.from, m.id}] = struct{}{}
}

// votePower: total power of distinct validators whose vote (kind, round, id) is in the log.
func (s *sim) votePower(rec *hrec, h types.Height, kind byte, r types.Round, id idk) uint64 {
	var p uint64
	for i := 0; i < s.n; i++ {
		if _, ok := rec.votes[vkey{kind, r, i, id}]; ok {
			p += s.vs.pw(h, i)
		}
	}
	return p
}

func (s *sim) maskPower(h types.Height, mask uint64) uint64 {
	var p uint64
	for i := 0; i < s.n; i++ {
		if mask&(1<<uint(i)) != 0 {
			p += s.vs.pw(h, i)
		}
	}
	return p
}

func popcount(x uint64) int { return bits.OnesCount64(x) }

// ---------------------------------------------------------------------------------------------------------
// Rendering
// ---------------------------------------------------------------------------------------------------------

func (s *sim) vname(v V) string {
	if n, ok := s.names[v]; ok {
		return n
	}
	return fmt.Sprintf("?%x", [4]uint64(v))
}

func (s *sim) idname(id idk) string {
	if id.isNil {
		return "nil"
	}
	return s.vname(V(id.h))
}

func (s *sim) mstr(m msg) string {
	switch m.kind {
	case 'P':
		return fmt.Sprintf("PROPOSAL{h%d r%d from%d v=%s vr=%d}", m.h, m.r, m.from, s.idname(m.id), m.vr)
	case 'v':
		return fmt.Sprintf("PREVOTE{h%d r%d from%d %s}", m.h, m.r, m.from, s.idname(m.id))
	default:
		return fmt.Sprintf("PRECOMMIT{h%d r%d from%d %s}", m.h, m.r, m.from, s.idname(m.id))
	}
}

func (s *sim) tracef(f string, a ...any) {
	s.trace = append(s.trace, fmt.Sprintf(f, a...))
}

func (s *sim) header() string {
	var b strings.Builder
	fmt.Fprintf(&b, "profile=%s n=%d h0=%d hEnd=%d proposer(h,r)=validator (h+r+%d) mod n\n", s.prof.name, s.n, s.vs.h0, s.hEnd, s.vs.off)
	for i, nd := range s.nodes {
		role := "correct"
		if nd.byz {
			role = "BYZANTINE"
		}
		fmt.Fprintf(&b, "  validator %d %s powers(per height)=", i, role)
		for hi := range s.vs.powers {
			fmt.Fprintf(&b, "%d ", s.vs.powers[hi][i])
		}
		b.WriteByte('\n')
	}
	var inv []string
	for v, ok := range s.valid {
		if !ok {
			inv = append(inv, s.vname(v))
		}
	}
	sort.Strings(inv)
	if s.chain {
		fmt.Fprintf(&b, "  application: chain (a value named x@hK^p was built for height K on parent p; a validator accepts it iff it is deciding "+
			"height K, committed p at height K-1 (genesis for the first height) and the content is not bad); bad content: %s\n", strings.Join(inv, " "))
	} else {
		fmt.Fprintf(&b, "  application: height-independent predicate; values it judges invalid: %s\n", strings.Join(inv, " "))
	}
	return b.String()
}

func (s *sim) dump() string {
	return s.header() + strings.Join(s.trace, "\n")
}
