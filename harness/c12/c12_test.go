package c12

import (
	"fmt"
	"testing"

	"pgregory.net/rapid"

	"verif/harness/internal/stats"
)

func TestMain(m *testing.M) { stats.Main(m) }

const simRule = "n real tendermint state machines + real vote counters behind a generator-owned network (deliver / duplicate / drop / " +
	"fire timeout / Byzantine injection to a subset / late re-gossip; profiles uniform, splitbrain, lockstarve, laggard, partition); " +
	"oracles after every action: agreement, validity, no double vote/proposal, lock rule and justification of every non-nil prevote/precommit/commit " +
	"from the validator's own delivered log, f+1 round skip. Non-trivial = (some correct validator entered a later round while locked, or a faulty " +
	"validator's conflicting messages of one (kind,height,round) reached >= 2 correct validators) and >= 1 commit; distinct = SHA-256 of the executed schedule"

func runSim(rt *rapid.T, c *stats.Case, bulk bool) {
	s := newSim(rt, c, bulk)
	s.run()
	s.classify()
	c.Sample(func() any {
		tr := s.trace
		if len(tr) > 70 {
			tr = append(append([]string{}, tr[:70]...), fmt.Sprintf("... %d more lines", len(s.trace)-70))
		}
		return map[string]any{"config": s.header(), "schedule": tr}
	})
}

func (s *sim) classify() {
	c := s.c
	mr := int(s.maxRound)
	if mr > 4 {
		mr = 4
	}
	c.Labelf("maxround=%d%s", mr, map[bool]string{true: "+", false: ""}[s.maxRound > 4])
	cm := s.commits
	switch {
	case cm == 0:
		c.Label("commits=0")
	case cm < len(s.correct):
		c.Label("commits:some-validators")
	default:
		c.Label("commits:every-validator-at-least-one-height")
	}
	c.Labelf("heights-decided=%d", len(s.decided))
	if s.locks > 0 {
		c.Label("lock:some")
	}
	if s.lockCarried {
		c.Label("lock:carried-into-later-round")
	}
	if s.splitLocks {
		c.Label("lock:two-correct-validators-locked-on-different-values")
		c.Label("lock:split/" + s.prof.name)
	}
	if s.unlocks > 0 {
		c.Label("lock:prevoted-other-value-after-unlock-condition")
		c.Label("lock:unlock/" + s.prof.name)
	}
	if s.equivSpread {
		c.Label("byz:equivocation-reached>=2")
	}
	if s.byzCommitted {
		c.Label("byz:faulty-proposers-value-committed")
	}
	if s.skipEntries > 0 {
		c.Label("round-skip(f+1)")
	}
	if s.syncs > 0 {
		c.Label("trigger-sync-seen")
	}
	hs := map[uint]struct{}{}
	for _, i := range s.correct {
		hs[uint(s.nodes[i].height)] = struct{}{}
	}
	if len(hs) > 1 {
		c.Label("end:validators-at-different-heights")
	}
	if cm > 0 && s.lockCarried {
		c.NonTrivial("locked-in-later-round+commit")
	}
	if cm > 0 && s.equivSpread {
		c.NonTrivial("equivocation+commit")
	}
}

// TestPropAgreementN4F1: the bulk configuration, four validators of power 1, one of them Byzantine.
func TestPropAgreementN4F1(t *testing.T) {
	stats.Check(t, stats.Budget{Quick: 22000, Thorough: 320000}, "n=4, one Byzantine validator, powers 1; "+simRule,
		func(rt *rapid.T, c *stats.Case) { runSim(rt, c, true) })
}

// TestPropAgreementWeighted: 1..7 validators, drawn voting powers (total = 0,1,2 mod 3), any set of Byzantine
// validators holding less than a third of the power (possibly a majority by head count), powers may change per height.
func TestPropAgreementWeighted(t *testing.T) {
	stats.Check(t, stats.Budget{Quick: 19000, Thorough: 250000}, "n in 1..7, drawn powers, Byzantine power < N/3 (often at the limit); "+simRule,
		func(rt *rapid.T, c *stats.Case) { runSim(rt, c, false) })
}
