package c12

import (
	"fmt"
	"testing"

	"pgregory.net/rapid"

	"verif/harness/internal/stats"
)

func TestMain(m *testing.M) { stats.Main(m) }

const simRule = "n real tendermint state machines + real vote counters behind a generator-owned network (deliver / duplicate / drop / " +
	"fire timeout incl. timeouts of heights already left / Byzantine injection to a subset / late re-gossip incl. messages of earlier heights; profiles uniform, " +
	"splitbrain, lockstarve, laggard, partition, the skeletons placed at a drawn height of the run); 1-4 heights; application = chain (75%: a value is valid " +
	"for one height on one parent, judged against the validator's own decided prefix) or height-independent predicate; faulty alphabet = own values, " +
	"values proposed at this height, values decided / proposed-but-not-decided at EARLIER heights, values built for LATER heights, forks, old messages with " +
	"the height rewritten; oracles after every action: agreement, validity (application asked for the committing validator's height and chain at commit, " +
	"precommit and prevote time), no double vote/proposal, lock rule and justification of every non-nil prevote/precommit/commit " +
	"from the validator's own delivered log, f+1 round skip. Non-trivial = (some correct validator entered a later round while locked, or a faulty " +
	"validator's conflicting messages of one (kind,height,round) reached >= 2 correct validators, or a value of an earlier height named again by a faulty validator " +
	"at a later height reached >= 2 correct validators) and >= 1 commit; distinct = SHA-256 of the executed schedule"

func runSim(rt *rapid.T, c *stats.Case, bulk bool) {
	s := newSim(rt, c, bulk)
	s.run()
	s.classify()
	c.Sample(func() any {
		tr := s.trace
		if len(tr) > 70 {
			tr = append(append([]string{}, tr[:70]...), fmt.Sprintf("... %d more lines", len(s.trace)-70))
		}
		return map[string]any{"config": s.header(), "schedule": tr}
	})
}

func (s *sim) classify() {
	c := s.c
	mr := int(s.maxRound)
	if mr > 4 {
		mr = 4
	}
	c.Labelf("maxround=%d%s", mr, map[bool]string{true: "+", false: ""}[s.maxRound > 4])
	cm := s.commits
	switch {
	case cm == 0:
		c.Label("commits=0")
	case cm < len(s.correct):
		c.Label("commits:some-validators")
	default:
		c.Label("commits:every-validator-at-least-one-height")
	}
	c.Labelf("heights-decided=%d", len(s.decided))
	if s.locks > 0 {
		c.Label("lock:some")
	}
	if s.lockCarried {
		c.Label("lock:carried-into-later-round")
	}
	if s.splitLocks {
		c.Label("lock:two-correct-validators-locked-on-different-values")
		c.Label("lock:split/" + s.prof.name)
	}
	if s.unlocks > 0 {
		c.Label("lock:prevoted-other-value-after-unlock-condition")
		c.Label("lock:unlock/" + s.prof.name)
	}
	if s.equivSpread {
		c.Label("byz:equivocation-reached>=2")
	}
	if s.byzCommitted {
		c.Label("byz:faulty-proposers-value-committed")
	}
	if s.skipEntries > 0 {
		c.Label("round-skip(f+1)")
	}
	if s.syncs > 0 {
		c.Label("trigger-sync-seen")
	}
	if len(s.decided) >= 2 {
		c.Label("heights-decided>=2")
	}
	if s.replaySpread {
		c.Label("replay:value-of-earlier-height-reached>=2-correct")
	}
	if s.replayDecided {
		c.Label("replay:value-DECIDED-at-earlier-height-reached>=2-correct")
	}
	if s.replayProposal {
		c.Label("replay:value-of-earlier-height-proposed-by-legitimate-faulty-proposer-to>=2")
	}
	if s.futureValue {
		c.Label("replay:value-built-for-later-height-delivered")
	}
	if s.oldHeightMsg {
		c.Label("replay:verbatim-message-of-a-height-the-recipient-left")
	}
	if s.transposed {
		c.Label("replay:old-message-resent-with-height-rewritten")
	}
	if s.staleTm {
		c.Label("stale-timeout:fired-after-height-change")
	}
	if s.staleTmSameRound {
		c.Label("stale-timeout:fired-after-height-change-in-same-round-number")
	}
	if s.askedOld {
		c.Label("app:asked-about-well-formed-value-of-earlier-height")
	}
	if s.askedFuture {
		c.Label("app:asked-about-well-formed-value-of-later-height")
	}
	hs := map[uint]struct{}{}
	for _, i := range s.correct {
		hs[uint(s.nodes[i].height)] = struct{}{}
	}
	if len(hs) > 1 {
		c.Label("end:validators-at-different-heights")
	}
	if cm > 0 && s.lockCarried {
		c.NonTrivial("locked-in-later-round+commit")
	}
	if cm > 0 && s.equivSpread {
		c.NonTrivial("equivocation+commit")
	}
	if cm > 0 && s.replaySpread {
		c.NonTrivial("earlier-height-value-replayed+commit")
	}
}

// TestPropAgreementN4F1: the bulk configuration, four validators of power 1, one of them Byzantine.
func TestPropAgreementN4F1(t *testing.T) {
	stats.Check(t, stats.Budget{Quick: 20000, Thorough: 320000}, "n=4, one Byzantine validator, powers 1; "+simRule,
		func(rt *rapid.T, c *stats.Case) { runSim(rt, c, true) })
}

// TestPropAgreementWeighted: 1..7 validators, drawn voting powers (total = 0,1,2 mod 3), any set of Byzantine
// validators holding less than a third of the power (possibly a majority by head count), powers may change per height.
func TestPropAgreementWeighted(t *testing.T) {
	stats.Check(t, stats.Budget{Quick: 17000, Thorough: 250000}, "n in 1..7 (a fifth: 8, 10, 13, 16), drawn powers, Byzantine power < N/3 (often at the limit); "+simRule,
		func(rt *rapid.T, c *stats.Case) { runSim(rt, c, false) })
}
