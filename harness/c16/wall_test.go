package c16

import "syscall"

// wall returns real milliseconds (time.Now is virtual inside a bubble).
func wall() int64 {
	var tv syscall.Timeval
	_ = syscall.Gettimeofday(&tv)
	return tv.Sec*1000 + int64(tv.Usec)/1000
}
