package c16

import (
	"errors"
	"sync"

	"github.com/NethermindEth/juno/db"
	"github.com/NethermindEth/juno/db/memory"
)

// fdb is a db.KeyValueStore over an in-memory database (imageDB: juno's memory.Database, or the ordered tree
// store of treedb_test.go for the long base chains) through which every COMMIT passes: direct
// Put/Delete/DeleteRange on the store and every Batch.Write (including the batches the Update/Write
// helpers create). After each commit the optional hook runs (in the committing goroutine) with the
// 1-based number of the commit since the last arm(); the harness uses it to
//   - freeze a crash image (a copy of the database) after the k-th commit, and
//   - cancel the pruner's context at the k-th commit.
type fdb struct {
	inner imageDB

	mu      sync.Mutex
	commits int
	hook    func(k int)
}

var _ db.KeyValueStore = (*fdb)(nil)

func newFdb(inner *memory.Database) *fdb { return &fdb{inner: memImg{inner}} }

// newFdbOn wraps any image (a copy of a crash image, a clone of a base chain).
func newFdbOn(inner imageDB) *fdb { return &fdb{inner: inner} }

// arm resets the commit counter and installs the hook (nil = only count).
func (f *fdb) arm(hook func(k int)) {
	f.mu.Lock()
	f.commits, f.hook = 0, hook
	f.mu.Unlock()
}

func (f *fdb) count() int {
	f.mu.Lock()
	defer f.mu.Unlock()
	return f.commits
}

func (f *fdb) commit(apply func() error) error {
	if err := apply(); err != nil {
		return err
	}
	f.mu.Lock()
	f.commits++
	k, h := f.commits, f.hook
	f.mu.Unlock()
	if h != nil {
		h(k)
	}
	return nil
}

// ---- reads
func (f *fdb) Has(key []byte) (bool, error)                { return f.inner.Has(key) }
func (f *fdb) Get(key []byte, cb func([]byte) error) error { return f.inner.Get(key, cb) }
func (f *fdb) NewIterator(prefix []byte, withUpperBound bool) (db.Iterator, error) {
	return f.inner.NewIterator(prefix, withUpperBound)
}
func (f *fdb) NewSnapshot() db.Snapshot { return f.inner.NewSnapshot() }

// ---- direct writes: one commit each
func (f *fdb) Put(key, value []byte) error {
	return f.commit(func() error { return f.inner.Put(key, value) })
}
func (f *fdb) Delete(key []byte) error {
	return f.commit(func() error { return f.inner.Delete(key) })
}
func (f *fdb) DeleteRange(start, end []byte) error {
	return f.commit(func() error { return f.inner.DeleteRange(start, end) })
}

// ---- batches
//
// fbatch defers the creation of the underlying memory batch until the first write. A memory batch answers
// reads from its own writes first and from the live database otherwise, so a batch without writes is
// equivalent to reading the database directly; memory's batch iterator however deep-copies the whole
// database on every NewIterator, which the legacy state backend calls for every historical read (it opens
// an indexed batch per state view and never writes to it). Reading through is what makes the state oracles
// affordable; the semantics are unchanged.
type fbatch struct {
	f      *fdb
	real   db.IndexedBatch
	closed bool
}

var errBatchClosed = errors.New("c16: batch closed")

func (b *fbatch) ensure() db.IndexedBatch {
	if b.real == nil {
		b.real = b.f.inner.NewIndexedBatch()
	}
	return b.real
}

func (b *fbatch) Put(k, v []byte) error {
	if b.closed {
		return errBatchClosed
	}
	return b.ensure().Put(k, v)
}

func (b *fbatch) Delete(k []byte) error {
	if b.closed {
		return errBatchClosed
	}
	return b.ensure().Delete(k)
}

func (b *fbatch) DeleteRange(s, e []byte) error {
	if b.closed {
		return errBatchClosed
	}
	return b.ensure().DeleteRange(s, e)
}

func (b *fbatch) Get(k []byte, cb func([]byte) error) error {
	if b.closed {
		return errBatchClosed
	}
	if b.real == nil {
		return b.f.inner.Get(k, cb)
	}
	return b.real.Get(k, cb)
}

func (b *fbatch) Has(k []byte) (bool, error) {
	if b.closed {
		return false, errBatchClosed
	}
	if b.real == nil {
		return b.f.inner.Has(k)
	}
	return b.real.Has(k)
}

func (b *fbatch) NewIterator(prefix []byte, withUpperBound bool) (db.Iterator, error) {
	if b.closed {
		return nil, errBatchClosed
	}
	if b.real == nil {
		return b.f.inner.NewIterator(prefix, withUpperBound)
	}
	return b.real.NewIterator(prefix, withUpperBound)
}

func (b *fbatch) Size() int {
	if b.real == nil {
		return 0
	}
	return b.real.Size()
}

// Write is one commit (an empty batch commits nothing but still is a point where the process can die).
func (b *fbatch) Write() error {
	if b.closed {
		return errBatchClosed
	}
	b.closed = true
	return b.f.commit(func() error {
		if b.real == nil {
			return nil
		}
		return b.real.Write()
	})
}

func (b *fbatch) Close() error {
	if b.closed {
		return errBatchClosed
	}
	b.closed = true
	if b.real != nil {
		return b.real.Close()
	}
	return nil
}

func (f *fdb) NewBatch() db.Batch                          { return &fbatch{f: f} }
func (f *fdb) NewBatchWithSize(int) db.Batch               { return &fbatch{f: f} }
func (f *fdb) NewIndexedBatch() db.IndexedBatch            { return &fbatch{f: f} }
func (f *fdb) NewIndexedBatchWithSize(int) db.IndexedBatch { return &fbatch{f: f} }

// ---- helpers
func (f *fdb) Update(fn func(db.IndexedBatch) error) error {
	b := f.NewIndexedBatch()
	if err := fn(b); err != nil {
		_ = b.Close()
		return err
	}
	return b.Write()
}

func (f *fdb) Write(fn func(db.Batch) error) error {
	b := f.NewBatch()
	if err := fn(b); err != nil {
		_ = b.Close()
		return err
	}
	return b.Write()
}

func (f *fdb) Impl() any                                      { return f.inner.Impl() }
func (f *fdb) Path() string                                   { return "" }
func (f *fdb) WithListener(db.EventListener) db.KeyValueStore { return f }
func (f *fdb) Close() error                                   { return f.inner.Close() }
