package c16

import (
	"sync"

	"github.com/NethermindEth/juno/db"
	"github.com/NethermindEth/juno/db/memory"
)

// fdb is a db.KeyValueStore over memory.Database through which every COMMIT passes: direct
// Put/Delete/DeleteRange on the store and every Batch.Write (including the batches the Update/Write
// helpers create). After each commit the optional hook runs (in the committing goroutine) with the
// 1-based number of the commit since the last arm(); the harness uses it to
//   - freeze a crash image (memory.Database.Copy) after the k-th commit, and
//   - cancel the pruner's context at the k-th commit.
type fdb struct {
	inner *memory.Database

	mu      sync.Mutex
	commits int
	hook    func(k int)
}

var _ db.KeyValueStore = (*fdb)(nil)

func newFdb(inner *memory.Database) *fdb { return &fdb{inner: inner} }

// arm resets the commit counter and installs the hook (nil = only count).
func (f *fdb) arm(hook func(k int)) {
	f.mu.Lock()
	f.commits, f.hook = 0, hook
	f.mu.Unlock()
}

func (f *fdb) count() int {
	f.mu.Lock()
	defer f.mu.Unlock()
	return f.commits
}

func (f *fdb) commit(apply func() error) error {
	if err := apply(); err != nil {
		return err
	}
	f.mu.Lock()
	f.commits++
	k, h := f.commits, f.hook
	f.mu.Unlock()
	if h != nil {
		h(k)
	}
	return nil
}

// ---- reads
func (f *fdb) Has(key []byte) (bool, error)                { return f.inner.Has(key) }
func (f *fdb) Get(key []byte, cb func([]byte) error) error { return f.inner.Get(key, cb) }
func (f *fdb) NewIterator(prefix []byte, withUpperBound bool) (db.Iterator, error) {
	return f.inner.NewIterator(prefix, withUpperBound)
}
func (f *fdb) NewSnapshot() db.Snapshot { return f.inner.NewSnapshot() }

// ---- direct writes: one commit each
func (f *fdb) Put(key, value []byte) error {
	return f.commit(func() error { return f.inner.Put(key, value) })
}
func (f *fdb) Delete(key []byte) error {
	return f.commit(func() error { return f.inner.Delete(key) })
}
func (f *fdb) DeleteRange(start, end []byte) error {
	return f.commit(func() error { return f.inner.DeleteRange(start, end) })
}

// ---- batches
type fbatch struct {
	db.IndexedBatch // memory batches are indexed batches
	f               *fdb
}

func (b *fbatch) Write() error { return b.f.commit(b.IndexedBatch.Write) }

func (f *fdb) NewBatch() db.Batch               { return &fbatch{f.inner.NewIndexedBatch(), f} }
func (f *fdb) NewBatchWithSize(int) db.Batch    { return &fbatch{f.inner.NewIndexedBatch(), f} }
func (f *fdb) NewIndexedBatch() db.IndexedBatch { return &fbatch{f.inner.NewIndexedBatch(), f} }
func (f *fdb) NewIndexedBatchWithSize(int) db.IndexedBatch {
	return &fbatch{f.inner.NewIndexedBatch(), f}
}

// ---- helpers
func (f *fdb) Update(fn func(db.IndexedBatch) error) error {
	b := f.NewIndexedBatch()
	if err := fn(b); err != nil {
		_ = b.Close()
		return err
	}
	return b.Write()
}

func (f *fdb) Write(fn func(db.Batch) error) error {
	b := f.NewBatch()
	if err := fn(b); err != nil {
		_ = b.Close()
		return err
	}
	return b.Write()
}

func (f *fdb) Impl() any                                    { return f.inner.Impl() }
func (f *fdb) Path() string                                 { return "" }
func (f *fdb) WithListener(db.EventListener) db.KeyValueStore { return f }
func (f *fdb) Close() error                                 { return f.inner.Close() }
