package c16

import (
	"fmt"
	"testing"

	"github.com/NethermindEth/juno/db"
	"github.com/NethermindEth/juno/db/memory"
	"pgregory.net/rapid"
)

// TestSelfTreeDB is a self-test of the harness (not a property of juno): the ordered tree store used for the
// long base chains behaves exactly like juno's memory.Database on random operation sequences (direct writes,
// batches with reads of their own writes and range deletions, iterators with every cursor movement,
// snapshots, copies).
func TestSelfTreeDB(t *testing.T) {
	rapid.Check(t, func(rt *rapid.T) {
		var a imageDB = memImg{memory.New()}
		var b imageDB = newTdb()
		key := rapid.Custom(func(t *rapid.T) []byte {
			n := rapid.IntRange(0, 3).Draw(t, "klen")
			k := make([]byte, n)
			for i := range k {
				k[i] = rapid.SampledFrom([]byte{0, 1, 2, 0x7f, 0xfe, 0xff}).Draw(t, "kb")
			}
			return k
		})
		val := rapid.SliceOfN(rapid.Byte(), 0, 3)
		rd := func(r db.KeyValueReader, k []byte) string {
			h, errH := r.Has(k)
			var got []byte
			err := r.Get(k, func(v []byte) error { got = append([]byte{}, v...); return nil })
			return fmt.Sprintf("has=%v/%v get=%x/%v", h, errH, got, err)
		}
		walk := func(r db.KeyValueReader, t *rapid.T) string {
			p := key.Draw(t, "prefix")
			ub := rapid.Bool().Draw(t, "ub")
			it, err := r.NewIterator(p, ub)
			if err != nil {
				return "err:" + err.Error()
			}
			defer it.Close()
			out := ""
			n := rapid.IntRange(0, 12).Draw(t, "moves")
			pastEnd := false
			for i := 0; i < n; i++ {
				mv := rapid.SampledFrom([]string{"first", "next", "next", "next", "prev", "seek", "valid"}).Draw(t, "mv")
				if mv == "next" && pastEnd {
					// memory's cursor index keeps growing when Next is called past the end (Prev then reports
					// true on an invalid position); no caller does that, and the tree store does not copy it
					mv = "valid"
				}
				var ok bool
				switch mv {
				case "first":
					ok = it.First()
				case "next":
					ok = it.Next()
				case "prev":
					ok = it.Prev()
				case "seek":
					ok = it.Seek(key.Draw(t, "seekKey"))
				case "valid":
					ok = it.Valid()
				}
				if mv != "valid" && mv != "prev" {
					pastEnd = !ok
				} else if mv == "prev" {
					pastEnd = false
				}
				v, verr := it.Value()
				// a move "succeeded" when it landed on a key (memory reports true for some moves on an empty iterator)
				out += fmt.Sprintf("%s=%v k=%x v=%x/%v valid=%v;", mv, ok && it.Valid(), it.Key(), v, verr != nil, it.Valid())
			}
			return out
		}
		same := func(what, x, y string) {
			if x != y {
				rt.Fatalf("%s differs:\n memory: %s\n tree:   %s", what, x, y)
			}
		}
		steps := rapid.IntRange(1, 40).Draw(rt, "steps")
		for s := 0; s < steps; s++ {
			switch rapid.SampledFrom([]string{"put", "put", "del", "delrange", "get", "iter", "batch", "snapshot", "copy"}).Draw(rt, "op") {
			case "put":
				k, v := key.Draw(rt, "k"), val.Draw(rt, "v")
				same("put", fmt.Sprint(a.Put(k, v)), fmt.Sprint(b.Put(k, v)))
			case "del":
				k := key.Draw(rt, "k")
				same("del", fmt.Sprint(a.Delete(k)), fmt.Sprint(b.Delete(k)))
			case "delrange":
				x, y := key.Draw(rt, "from"), key.Draw(rt, "to")
				same("delrange", fmt.Sprint(a.DeleteRange(x, y)), fmt.Sprint(b.DeleteRange(x, y)))
			case "get":
				k := key.Draw(rt, "k")
				same("get", rd(a, k), rd(b, k))
			case "iter":
				// the same draws must be replayed on both: draw once into a recorded script
				seed := rapid.Uint64().Draw(rt, "iterSeed")
				ga := rapid.Custom(func(t *rapid.T) string { return walk(a, t) }).Example(int(seed % 1_000_000))
				gb := rapid.Custom(func(t *rapid.T) string { return walk(b, t) }).Example(int(seed % 1_000_000))
				same("iterator", ga, gb)
			case "batch":
				ba, bb := a.NewIndexedBatch(), b.NewIndexedBatch()
				n := rapid.IntRange(0, 8).Draw(rt, "bops")
				for i := 0; i < n; i++ {
					switch rapid.SampledFrom([]string{"put", "put", "del", "delrange", "get", "iter"}).Draw(rt, "bop") {
					case "put":
						k, v := key.Draw(rt, "k"), val.Draw(rt, "v")
						same("bput", fmt.Sprint(ba.Put(k, v)), fmt.Sprint(bb.Put(k, v)))
					case "del":
						k := key.Draw(rt, "k")
						same("bdel", fmt.Sprint(ba.Delete(k)), fmt.Sprint(bb.Delete(k)))
					case "delrange":
						x, y := key.Draw(rt, "from"), key.Draw(rt, "to")
						same("bdelrange", fmt.Sprint(ba.DeleteRange(x, y)), fmt.Sprint(bb.DeleteRange(x, y)))
					case "get":
						k := key.Draw(rt, "k")
						same("bget", rd(ba, k), rd(bb, k))
					case "iter":
						seed := rapid.Uint64().Draw(rt, "iterSeed")
						ga := rapid.Custom(func(t *rapid.T) string { return walk(ba, t) }).Example(int(seed % 1_000_000))
						gb := rapid.Custom(func(t *rapid.T) string { return walk(bb, t) }).Example(int(seed % 1_000_000))
						same("batch iterator", ga, gb)
					}
					same("bsize", fmt.Sprint(ba.Size()), fmt.Sprint(bb.Size()))
				}
				if rapid.Bool().Draw(rt, "commit") {
					same("bwrite", fmt.Sprint(ba.Write()), fmt.Sprint(bb.Write()))
				} else {
					same("bclose", fmt.Sprint(ba.Close()), fmt.Sprint(bb.Close()))
				}
			case "snapshot":
				sa, sb := a.NewSnapshot(), b.NewSnapshot()
				k, v := key.Draw(rt, "k"), val.Draw(rt, "v")
				_ = a.Put(k, v)
				_ = b.Put(k, v)
				same("snapshot read", rd(sa, k), rd(sb, k))
				seed := rapid.Uint64().Draw(rt, "iterSeed")
				ga := rapid.Custom(func(t *rapid.T) string { return walk(sa, t) }).Example(int(seed % 1_000_000))
				gb := rapid.Custom(func(t *rapid.T) string { return walk(sb, t) }).Example(int(seed % 1_000_000))
				same("snapshot iterator", ga, gb)
				_ = sa.Close()
				_ = sb.Close()
			case "copy":
				// continue on the copies; the originals must stay untouched by what follows
				oa, ob := a, b
				a, b = a.Image(), b.Image()
				k, v := key.Draw(rt, "k"), val.Draw(rt, "v")
				_ = a.Put(k, v)
				_ = b.Put(k, v)
				same("original after copy", rd(oa, k), rd(ob, k))
			}
		}
		// final dump
		dump := func(r db.KeyValueReader) string {
			it, _ := r.NewIterator(nil, false)
			defer it.Close()
			out := ""
			for ok := it.First(); ok; ok = it.Next() {
				v, _ := it.Value()
				out += fmt.Sprintf("%x=%x;", it.Key(), v)
			}
			return out
		}
		same("final dump", dump(a), dump(b))
	})
}
