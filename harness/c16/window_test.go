package c16

// Pruning across real event-index windows (core.NumBlocksPerFilter = 8192 blocks).
//
// The ordinary cases run on chains of 15-60 blocks, which never complete an aggregated event-bloom window:
// nothing the pruner does to PERSISTED windows (pruneAggregatedBloomFiltersUpto), the interplay of the
// retention floor with window boundaries, the pruning-aware initialisation of the running filter after a
// restart (pruner.InitializeRunningEventFilter: snapshot / same-window gap / rebuild bounded by the floor) and
// reverts across a boundary below / at / above the floor is reachable there.
//
// The cases of this file run on a base chain built once per process (8186 or 16378 blocks: the head sits 7
// blocks below the first / second window boundary), cloned per case for the pruned node and for the unpruned
// twin (the ordered tree store of treedb_test.go makes the clones O(1)). Blocks near the boundaries carry
// generated transactions, state diffs and dense events from a few addresses; the rest is empty.

import (
	"fmt"
	"os"
	"sort"
	"strings"
	"sync"
	"testing"
	"time"

	"github.com/NethermindEth/juno/blockchain/networks"
	"github.com/NethermindEth/juno/core"
	"github.com/NethermindEth/juno/core/felt"
	"github.com/NethermindEth/juno/db"
	"pgregory.net/rapid"

	"verif/harness/internal/gen"
	"verif/harness/internal/node"
	"verif/harness/internal/stats"
)

const (
	winSize   = core.NumBlocksPerFilter
	winShort  = 6                       // the base chains end this many blocks before a window is complete
	winLen1   = int(winSize) - winShort // 8186 blocks, head 8185
	winLen2   = 2*int(winSize) - winShort
	winBaseTs = chainEpoch
	winBaseDt = 30 // seconds between base blocks
	winVer    = "0.13.2"
)

// winDense: base blocks that carry generated content (transactions, state diffs, 1-3 events per receipt from
// the few addresses of the base universe): the first blocks (contracts get deployed), ~130 blocks below and
// ~40 above each window boundary, and a sparse sprinkle in between so that every part of a window has bits.
func winDense(n int) bool {
	off := n % int(winSize)
	return n < 12 || off >= int(winSize)-130 || (n >= int(winSize) && off < 40) || n%700 == 350
}

type winImgKey struct {
	region   int
	newState bool
}

type winBaseT struct {
	mu     sync.Mutex
	u      *gen.Universe
	chain  *gen.Chain // frozen, winLen2 blocks
	pairs  []pair     // storage slots written by base blocks, in order of first write
	pairAt []int      // block of the first write
	comms  []*core.BlockCommitments
	imgs   map[winImgKey]*tdb
}

var winBase = &winBaseT{imgs: map[winImgKey]*tdb{}}

func (wb *winBaseT) buildChain() {
	// a fixed universe (the same in every process): at least three ordinary addresses
	for seed := 1; ; seed++ {
		wb.u = rapid.Custom(gen.NewUniverse).Example(seed)
		if len(wb.u.Addrs) >= 3 && len(wb.u.Addrs) <= 4 {
			break
		}
	}
	ch := gen.NewChain(wb.u, gen.Opts{MaxTxs: 2, MaxEvents: 3, DenseEvents: true, FixedVersion: winVer})
	seen := map[pair]bool{}
	for n := 0; n < winLen2; n++ {
		ts := uint64(winBaseTs + winBaseDt*(n+1))
		if !winDense(n) {
			wb.comms = append(wb.comms, winAppendEmpty(ch, ts))
			continue
		}
		b := rapid.Custom(func(t *rapid.T) *gen.Block { return ch.Draw(t) }).Example(n + 1)
		b.B.Timestamp = ts
		wb.comms = append(wb.comms, winSeal(b, wb.u.Net))
		ch.Blocks = append(ch.Blocks, b)
		for _, p := range diffPairs(b) {
			if !seen[p] {
				seen[p] = true
				wb.pairs, wb.pairAt = append(wb.pairs, p), append(wb.pairAt, n)
			}
		}
	}
	ch.Frozen = true
	wb.chain = ch
}

// winAppendEmpty appends an empty block without recomputing the state commitment (unchanged by an empty diff;
// gen.Chain.AppendEmpty rebuilds it twice per block, which costs milliseconds once the state is not empty).
func winAppendEmpty(c *gen.Chain, ts uint64) *core.BlockCommitments {
	pre := c.TipState()
	num := uint64(len(c.Blocks))
	parent, root := felt.Zero, felt.Zero
	if num > 0 {
		parent, root = *c.Blocks[num-1].B.Hash, *c.Blocks[num-1].B.GlobalStateRoot
	} else {
		root = pre.Commitment(winVer)
	}
	d := core.EmptyStateDiff()
	h := &core.Header{
		ParentHash: &parent, Number: num, SequencerAddress: gen.FP(0x5e9), Timestamp: ts, ProtocolVersion: winVer,
		EventsBloom: core.EventsBloom(nil), L1GasPriceETH: gen.FP(1), L1GasPriceSTRK: gen.FP(1),
		L1DataGasPrice: &core.GasPrice{PriceInWei: gen.FP(1), PriceInFri: gen.FP(1)}, L2GasPrice: &core.GasPrice{PriceInWei: gen.FP(1), PriceInFri: gen.FP(1)},
		GlobalStateRoot: &root,
	}
	or, nr := root, root
	b := &gen.Block{B: &core.Block{Header: h, Transactions: []core.Transaction{}, Receipts: []*core.TransactionReceipt{}},
		SU: &core.StateUpdate{StateDiff: &d, OldRoot: &or, NewRoot: &nr}, Classes: map[felt.Felt]core.ClassDefinition{}, Pre: pre, Post: pre, Tags: map[string]bool{"empty-block": true}}
	cm := winSeal(b, c.U.Net)
	c.Blocks = append(c.Blocks, b)
	return cm
}

// winSeal sets the block hash (like gen.Rehash) and returns the commitments computed along with it: what
// SanityCheckNewHeight hands to Store.
func winSeal(b *gen.Block, net *networks.Network) *core.BlockCommitments {
	h, cm, err := core.BlockHash(b.B, b.SU.StateDiff, net, nil, core.TrieBackend)
	if err != nil {
		stats.HarnessError("base chain: block hash %d: %v", b.Num(), err)
	}
	b.B.Hash, b.SU.BlockHash = &h, &h
	return cm
}

// image returns the database image of the base chain of the region (1: 8186 blocks, 2: 16378 blocks) on the
// backend; both images of a backend are produced by one pass that stores every block through a real
// Blockchain. Each image carries the graceful-shutdown snapshot of the running event filter.
func (wb *winBaseT) image(region int, newState bool) *tdb {
	wb.mu.Lock()
	defer wb.mu.Unlock()
	if wb.chain == nil {
		wb.buildChain()
	}
	if img, ok := wb.imgs[winImgKey{region, newState}]; ok {
		return img
	}
	d := newTdb()
	n := node.New(newState, d, wb.u.Net)
	snap := func(region int) {
		if err := n.BC.WriteRunningEventFilter(); err != nil {
			stats.HarnessError("base chain: WriteRunningEventFilter: %v", err)
		}
		wb.imgs[winImgKey{region, newState}] = d.image()
	}
	for i, blk := range wb.chain.Blocks {
		if i == winLen1 {
			snap(1)
		}
		if i < 12 || i%1000 == 0 {
			// the synchroniser's path (sanity check, then store) for a sample; the rest skips the re-verification
			if err := n.Store(blk); err != nil {
				stats.HarnessError("base chain: store %d: %v", blk.Num(), err)
			}
			continue
		}
		if err := n.BC.Store(blk.B, wb.comms[i], blk.SU, blk.Classes); err != nil {
			stats.HarnessError("base chain: store %d: %v", blk.Num(), err)
		}
	}
	snap(2)
	return wb.imgs[winImgKey{region, newState}]
}

// ---------------------------------------------------------------------------------------------------------
// per-case state

type winCase struct {
	region   int
	boundary uint64 // first block of the window the base head is about to enter
	baseLen  int
	baseKept uint64 // base blocks [0, baseKept) are still on the chain (deep reverts lower it)
	evAddrs  []felt.Felt
	reverted bool // a revert across a window boundary happened
}

func (w *winCase) boundaries() []uint64 {
	bs := []uint64{winSize}
	if w.region == 2 {
		bs = append(bs, 2*winSize)
	}
	return bs
}

// noteReverted: the reverted base block stays observed (as a non-canonical identifier) through m.ids.
func (w *winCase) noteReverted(m *machine, h uint64) {
	if h < w.baseKept {
		m.ids.AddBlock(m.ch.Blocks[h])
		w.baseKept = h
	}
	if h%winSize == 0 {
		m.c.Label("revert-across-window-boundary")
		w.reverted = true
	}
}

// register makes the identifiers of a canonical base block known to the observation classifier.
func (m *machine) register(b *gen.Block) {
	m.numOfHash[*b.B.Hash] = b.Num()
	for _, tx := range b.B.Transactions {
		m.numOfTx[*tx.Hash()] = b.Num()
		if l1, ok := tx.(*core.L1HandlerTransaction); ok {
			m.numOfMsg[fmt.Sprintf("%x", l1.MessageHash())] = b.Num()
		}
	}
}

// obsRanges: the block-number windows a base-chain case observes through the whole Reader API: around the floor
// (the BlockHashLag header carve-out below it, the first retained blocks), around every window boundary and the
// tip. Blocks in between are covered by the drawn state views and by the event queries.
func (m *machine) obsRanges(f uint64) [][2]uint64 {
	head := m.head()
	top := head + 2
	sub := func(a, b uint64) uint64 {
		if a < b {
			return 0
		}
		return a - b
	}
	var rs [][2]uint64
	add := func(lo, hi uint64) {
		if hi > top {
			hi = top
		}
		if lo <= hi {
			rs = append(rs, [2]uint64{lo, hi})
		}
	}
	add(sub(f, core.BlockHashLag+3), f+3)
	for _, b := range m.win.boundaries() {
		add(b-3, b+2)
	}
	add(sub(head, 14), top)
	sort.Slice(rs, func(i, j int) bool { return rs[i][0] < rs[j][0] })
	out := rs[:1]
	for _, r := range rs[1:] {
		last := &out[len(out)-1]
		if r[0] <= last[1]+1 {
			if r[1] > last[1] {
				last[1] = r[1]
			}
			continue
		}
		out = append(out, r)
	}
	return out
}

func (m *machine) observeWindows(n *node.Node, f uint64) node.Obs {
	rs := m.obsRanges(f)
	// hash-keyed lookups: everything generated in this case (incl. reverted blocks) plus the canonical base
	// blocks inside the windows
	hashed := &node.Ids{NoState: true, MinNumber: 1, MaxNumber: 0}
	hashed.BlockHashes = append(hashed.BlockHashes, m.ids.BlockHashes...)
	hashed.TxHashes = append(hashed.TxHashes, m.ids.TxHashes...)
	hashed.MsgHashes = append(hashed.MsgHashes, m.ids.MsgHashes...)
	for _, r := range rs {
		for k := r[0]; k <= r[1] && k < m.win.baseKept && int(k) < m.ch.Height(); k++ {
			b := m.ch.Blocks[k]
			m.register(b)
			hashed.BlockHashes = append(hashed.BlockHashes, *b.B.Hash)
			for _, tx := range b.B.Transactions {
				hashed.TxHashes = append(hashed.TxHashes, *tx.Hash())
				if l1, ok := tx.(*core.L1HandlerTransaction); ok {
					hashed.MsgHashes = append(hashed.MsgHashes, l1.MessageHash())
				}
			}
		}
	}
	out := n.Observe(hashed)
	for _, r := range rs {
		for k, v := range n.Observe(&node.Ids{NoState: true, MinNumber: r[0], MaxNumber: r[1]}) {
			out[k] = v
		}
	}
	return out
}

// extendAfterRevert: when the revert went below a window boundary, the new fork is (most of the time) long
// enough to cross it again: the window is completed and persisted a second time.
func (w *winCase) extendAfterRevert(m *machine, n int) int {
	h := uint64(m.ch.Height()) // number of the next block
	for _, b := range w.boundaries() {
		if h <= b && b-h < 12 && rapid.IntRange(0, 3).Draw(m.rt, "forkCrossesBoundary") > 0 {
			if k := int(b-h) + 1 + rapid.IntRange(0, 2).Draw(m.rt, "forkBeyondBoundary"); k > n {
				n = k
			}
			m.c.Label("fork-stored-across-window-boundary")
		}
	}
	return n
}

// floorClass names the position of floor f relative to the event-index windows, given the head.
func winFloorClass(f, head uint64) string {
	if f == 0 {
		return "at-0"
	}
	w, off := f/winSize, f%winSize
	completed := head >= (w+1)*winSize // the window that contains the floor has been persisted
	switch {
	case off == winSize-1:
		return fmt.Sprintf("at-%d(last-of-window-%d)", f, w+1)
	case off == 0:
		return fmt.Sprintf("at-%d(first-of-window-%d)", f, w+1)
	case off == 1:
		return fmt.Sprintf("at-%d(second-of-window-%d)", f, w+1)
	case completed:
		return fmt.Sprintf("inside-completed-window-%d", w+1)
	default:
		return fmt.Sprintf("inside-running-window-%d", w+1)
	}
}

// noteFloor labels where the floor of the pruned node currently is (once per distinct class and case) and
// which completed windows still have their persisted filter.
func (w *winCase) noteFloor(m *machine, when string) {
	f, head := m.F(), m.head()
	cls := winFloorClass(f, head)
	m.c.Label("floor-" + cls)
	if when != "" {
		m.c.Label(when + "-floor-" + cls)
	}
	for k := uint64(0); (k+1)*winSize <= head+1; k++ {
		has, err := m.s.db.Has(db.AggregatedBloomFilterKey(k*winSize, (k+1)*winSize-1))
		if err != nil {
			stats.HarnessError("Has(aggregated filter key): %v", err)
		}
		switch {
		case has && f >= (k+1)*winSize:
			m.c.Info(fmt.Sprintf("window-%d-filter-kept-below-floor", k+1))
		case has:
			m.c.Info(fmt.Sprintf("window-%d-filter-persisted", k+1))
		case f >= (k+1)*winSize:
			m.c.Label(fmt.Sprintf("window-%d-filter-pruned", k+1))
		default:
			m.c.Info(fmt.Sprintf("window-%d-filter-absent-with-retained-blocks", k+1))
		}
	}
}

// eventChecks: the event queries of checkNode for base-chain cases. Every answer is compared with the unpruned
// twin's. Ranges start below, at and above the floor and at the window boundaries; filters by address (the few
// emitting addresses of the base universe and one that never emits) and by per-position key alternatives.
func (w *winCase) eventChecks(m *machine, where string, s *session, f uint64, light bool) {
	rt := m.rt
	head := m.head()
	addr := func(label string) *felt.Felt {
		i := rapid.IntRange(0, len(w.evAddrs)).Draw(rt, label)
		if i == len(w.evAddrs) {
			return nil
		}
		a := w.evAddrs[i]
		return &a
	}
	keys := func() [][]felt.Felt {
		var ks [][]felt.Felt
		for p, n := 0, rapid.IntRange(0, 2).Draw(rt, "evKeyPositions"); p < n; p++ {
			alts := []felt.Felt{}
			for a, k := 0, rapid.IntRange(0, 2).Draw(rt, "evKeyAlts"); a < k; a++ {
				alts = append(alts, rapid.SampledFrom(m.u.EvKeys).Draw(rt, "evKey"))
			}
			ks = append(ks, alts)
		}
		return ks
	}
	if head >= f {
		// unfiltered: every block of the range is a candidate; bounded to the last few hundred blocks on deep floors
		lo := f
		if head-f > 300 && (light || rapid.IntRange(0, 3).Draw(rt, "evAllFromFloor") > 0) {
			lo = head - 300
		}
		m.compareEvents(where, s, lo, head, nil, true, f)
		// by address from the floor itself: bloom-assisted over every retained window, persisted ones included
		a := addr("evAddr")
		if a == nil {
			a = &w.evAddrs[0]
		}
		m.compareEventsK(where, s, f, head+uint64(rapid.IntRange(0, 2).Draw(rt, "evBeyond")), a, nil, true, f)
		if !light {
			// drawn range inside the retained part: ends at / next to the floor and the window boundaries
			pts := []uint64{f, f + 1, head}
			for _, b := range w.boundaries() {
				pts = append(pts, b-1, b, b+1)
			}
			pts = append(pts, f+uint64(gen.Uniform(rt, int(head-f+1), "evPoint")), f+uint64(gen.Uniform(rt, int(head-f+1), "evPoint2")))
			var ok []uint64
			for _, p := range pts {
				if p >= f && p <= head {
					ok = append(ok, p)
				}
			}
			x, y := rapid.SampledFrom(ok).Draw(rt, "evLo"), rapid.SampledFrom(ok).Draw(rt, "evHi")
			if x > y && rapid.IntRange(0, 4).Draw(rt, "evEmptyRange") > 0 {
				x, y = y, x
			}
			m.compareEventsK(where, s, x, y, addr("evAddr2"), keys(), true, f)
		}
	}
	if f > 0 {
		// ranges that start below the floor: refused, or exactly the twin's answer
		pts := []uint64{f - 1, uint64(gen.Uniform(rt, int(f), "evFromPruned"))}
		if f > 12 {
			pts = append(pts, f-2-uint64(rapid.IntRange(0, 10).Draw(rt, "evJustBelow")))
		}
		for _, b := range w.boundaries() {
			if b < f {
				pts = append(pts, b-1, b)
			}
		}
		lo := rapid.SampledFrom(pts).Draw(rt, "evLoPruned")
		m.compareEventsK(where, s, lo, head, addr("evAddr3"), nil, false, f)
	}
}

// ---------------------------------------------------------------------------------------------------------
// the case

// winPlan: where the generator aims the first floor, and by which of the pruner's mechanisms.
type winPlan struct {
	target uint64
	class  string // generator-side name of the aimed position
	mech   string // l1 | catchup | minage-restart | minage-tick | none
	late   bool   // the node starts without --prune-mode; the history-prune migration makes the first cut
}

func winRetainedBucket(r uint64) string {
	switch {
	case r <= 2:
		return fmt.Sprint(r)
	case r <= 5:
		return "3-5"
	case r <= 64:
		return "6-64"
	case r <= 1000:
		return "65-1000"
	case r <= winSize:
		return "1001-8192"
	default:
		return ">8192"
	}
}

func newWinMachine(t *testing.T, rt *rapid.T, c *stats.Case, cf cfg, region int, gap time.Duration, twinImg *tdb) *machine {
	wb := winBase
	baseLen := winLen1
	if region == 2 {
		baseLen = winLen2
	}
	ch := wb.chain.Fork(baseLen)
	ch.Opt = gen.Opts{MaxTxs: 2, MaxEvents: 2, DenseEvents: true}
	m := &machine{t: t, rt: rt, c: c, cf: cf, u: wb.u, ch: ch,
		ids:        &node.Ids{NoState: true},
		writtenSet: map[pair]bool{}, numOfHash: map[felt.Felt]uint64{}, numOfTx: map[felt.Felt]uint64{}, numOfMsg: map[string]uint64{},
		win: &winCase{region: region, boundary: uint64(region) * winSize, baseLen: baseLen, baseKept: uint64(baseLen)},
	}
	m.win.evAddrs = append(append([]felt.Felt{}, wb.u.Addrs...), gen.F(0xdead0002))
	for i, p := range wb.pairs {
		if wb.pairAt[i] < baseLen {
			m.written, m.writtenSet[p] = append(m.written, p), true
		}
	}
	c.Fp("window region %d %s gap %s", region, cf, gap)
	c.Labelf("base-%d-blocks", baseLen)
	c.Labelf("backend-%s", map[bool]string{false: "legacy", true: "trie2"}[cf.newState])
	c.Labelf("retained-%s", winRetainedBucket(cf.retained))
	c.Labelf("l2HeadsPerPrune-%d", cf.l2Per)
	c.Labelf("batch-%d", cf.batch)
	c.Labelf("minAge-%s", cf.minAge)
	if gap < 2*time.Minute {
		c.Label("clock-gap-<2m")
	} else {
		c.Labelf("clock-gap-%s", gap)
	}
	// the virtual clock: the base head arrived `gap` ago
	start := time.Unix(int64(ch.Blocks[baseLen-1].B.Timestamp), 0).Add(gap)
	time.Sleep(start.Sub(time.Now()))
	m.logf("base chain of %d blocks (head %d); config %s; the head block is %s old", baseLen, baseLen-1, cf, gap)
	m.twin = node.New(cf.newState, newFdbOn(twinImg), wb.u.Net)
	return m
}

const ruleWindows = "per case (synctest bubble, virtual clock) a pruned node and its unpruned twin start on clones of a base chain built once per process: 8186 blocks (head 7 below the first 8192-block event-index window boundary) or 16378 blocks (second boundary; first window persisted), ~130 blocks below and ~40 above each boundary with generated transactions, state diffs and dense events from 3-4 addresses; the running-filter snapshot of the image is kept or dropped; 0-15 generated blocks are stored first (head 8185..8200 / 16377..16392: window not yet completed, just completed, a few blocks into the next); then the FIRST FLOOR is aimed at a drawn position class {0, deep inside / just below the end of a window, around the base head (window still running), exactly last-of-window / first-of-window / second-of-window at each boundary, above the boundary} through a drawn mechanism of the pruner {L1 head = target + retained below the local head; catch-up: L1 head ahead, floor = new head - retained; min-age sample taken at restart or at a tick with the virtual clock placed at target's timestamp + min-age; a fifth of the cases enable pruning late, the history-prune migration makes the first cut} with retained, l2HeadsPerPrune, batch size {1 byte, 4 kB, default}, min-age {0, 6h .. 300h}, clock gap drawn; then 4-15 steps over query / restart (graceful or not: new Blockchain + floor + pruner on the same DB) / store / L1 head moved so that the floor lands on or crosses a boundary / generic L1 head / reorg above the L1 head / idle / one revert down toward the floor across the boundary (to the floor itself when it is near) with optional restart, attempt below the floor, and another fork stored back across the boundary; prunes of up to 600 blocks are fault-probed (crash image / cancellation at commit k, as in TestPropPruning). Oracles as in TestPropPruning (unpruned twin + abstract state; floor bound; min-age bound; refusal or exact answers below the floor); the Reader API is observed over windows around the floor, every boundary and the tip; event queries (unfiltered, by address incl. a never-emitting one, by key alternatives) over ranges that start below / at / above the floor and at the boundaries. Non-trivial = a prune deleted >= 1 block and a query, revert or restart followed."

func TestPropPruningAcrossWindows(t *testing.T) {
	stats.Check(t, stats.Budget{Quick: 24, Thorough: 260}, ruleWindows, func(rt *rapid.T, c *stats.Case) {
		// drawn outside the bubble: the base images are built (once per process) by real Blockchains that
		// must not belong to a bubble
		region := rapid.SampledFrom([]int{1, 1, 2, 2, 2}).Draw(rt, "region")
		newState := rapid.IntRange(0, 2).Draw(rt, "backend") == 2
		img := winBase.image(region, newState)
		t0 := wall()
		bubble(t, func() { runWindowCase(t, rt, c, region, newState, img) })
		prof("windowcase", t0)
	})
	if os.Getenv("C16_PROF") != "" {
		fmt.Println("PROF(ms):", profT)
	}
}

func runWindowCase(t *testing.T, rt *rapid.T, c *stats.Case, region int, newState bool, img *tdb) {
	B := uint64(region) * winSize
	baseHead := B - winShort - 1
	// ---- the plan: position class of the first floor, then how far the chain grows before it is placed
	type cand struct {
		class string
		v     uint64
		// inWindow: the class is "inside a window" (wants that window completed, i.e. the head beyond its end, most of the time)
		inWindow bool
	}
	var cands []cand
	add := func(class string, v uint64, weight int, inWindow bool) {
		for i := 0; i < weight; i++ {
			cands = append(cands, cand{class, v, inWindow})
		}
	}
	if region == 1 {
		add("at-0", 0, 2, false)
		add("deep-in-window-1", 1+uint64(gen.Uniform(rt, 8000, "deep1")), 3, true)
		add("just-below-boundary-1", winSize-2-uint64(gen.Uniform(rt, 140, "near1")), 4, true)
		add("last-of-window-1", winSize-1, 2, false)
		add("first-of-window-2", winSize, 2, false)
		add("second-of-window-2", winSize+1, 2, false)
		add("above-boundary-1", winSize+2+uint64(gen.Uniform(rt, 6, "above1")), 2, false)
	} else {
		add("at-0", 0, 1, false)
		add("deep-in-window-1", 1+uint64(gen.Uniform(rt, 8000, "deep1")), 1, false)
		add("just-below-boundary-1", winSize-2-uint64(gen.Uniform(rt, 140, "near1")), 1, false)
		add("last-of-window-1", winSize-1, 1, false)
		add("first-of-window-2", winSize, 1, false)
		add("second-of-window-2", winSize+1, 1, false)
		add("deep-in-window-2", winSize+2+uint64(gen.Uniform(rt, 8000, "deep2")), 5, true)
		add("just-below-boundary-2", 2*winSize-2-uint64(gen.Uniform(rt, 140, "near2")), 6, true)
		add("last-of-window-2", 2*winSize-1, 2, false)
		add("first-of-window-3", 2*winSize, 2, false)
		add("second-of-window-3", 2*winSize+1, 2, false)
		add("above-boundary-2", 2*winSize+2+uint64(gen.Uniform(rt, 6, "above2")), 1, false)
	}
	// around the base head itself: the window is still running for small extensions, the floor may lie above the
	// block the image's running-filter snapshot ends at
	add("around-base-head", B-10+uint64(gen.Uniform(rt, 8, "nearHead")), 2, false)
	pick := cands[gen.Uniform(rt, len(cands), "target")]
	var exts []int
	for _, e := range []int{0, 3, 5, 6, 6, 7, 7, 8, 8, 9, 10, 12, 15} {
		if baseHead+uint64(e) < pick.v {
			continue // the floor cannot be above the head
		}
		if pick.inWindow && e < winShort && gen.Uniform(rt, 3, "windowStillRunning") > 0 {
			continue // keep the heads that complete the window
		}
		exts = append(exts, e)
	}
	extend := exts[gen.Uniform(rt, len(exts), "extend")]
	head0 := baseHead + uint64(extend) // head when the floor is placed
	plan := winPlan{target: pick.v, class: pick.class}
	plan.late = rapid.IntRange(0, 4).Draw(rt, "lateEnable") == 0
	mechs := []string{"l1", "l1", "l1", "catchup", "catchup", "minage-restart", "minage-restart", "minage-tick"}
	if plan.late {
		mechs = []string{"l1", "l1", "minage-restart"}
	}
	plan.mech = rapid.SampledFrom(mechs).Draw(rt, "mechanism")

	cf := cfg{
		newState: newState,
		l2Per:    rapid.SampledFrom([]uint64{1, 3}).Draw(rt, "l2HeadsPerPrune"),
		batch:    rapid.SampledFrom([]int{1, 1, 4096, 0}).Draw(rt, "batch"),
	}
	gap := rapid.SampledFrom([]time.Duration{0, 0, 45 * time.Minute, 3 * time.Hour, 20 * time.Hour, 3 * 365 * 24 * time.Hour}).Draw(rt, "clockGap")
	// retained blocks: what the mechanism needs to land the floor on the target
	small := []uint64{0, 0, 1, 1, 2, 5, 5, 50, 300, 1000, winSize + 100}
	var l1Target uint64
	var feasible []uint64
	for _, r := range small {
		if plan.target+r < head0 {
			feasible = append(feasible, r)
		}
	}
	if plan.mech == "l1" && plan.target > 0 && len(feasible) == 0 {
		plan.mech = "catchup" // the target is the head itself: an L1 head below the head cannot put the floor there
	}
	switch plan.mech {
	case "l1":
		// floor = L1 head - retained, L1 head below the local head
		if plan.target == 0 {
			// nothing may be pruned: more blocks retained than min(L1 head, head) has
			cf.retained = head0 + 1 + uint64(rapid.IntRange(0, 3000).Draw(rt, "retainedBeyondChain"))
			l1Target = head0 - uint64(rapid.IntRange(0, 3).Draw(rt, "l1lag"))
		} else {
			cf.retained = rapid.SampledFrom(feasible).Draw(rt, "retained")
			l1Target = plan.target + cf.retained
		}
	case "catchup":
		// L1 head ahead of the local head: floor = stored head - retained on every l2Per-th block
		n := head0 + cf.l2Per + uint64(rapid.IntRange(0, 2).Draw(rt, "catchupBlocks"))*cf.l2Per
		cf.retained = n - plan.target
		l1Target = n + uint64(rapid.IntRange(1, 20).Draw(rt, "l1ahead"))
	default:
		// min-age: the sample (first block younger than min-age) is what bounds the floor; the standard floor is higher
		cf.retained = rapid.SampledFrom([]uint64{0, 1, 2, 5}).Draw(rt, "retained")
		gap = time.Duration(rapid.IntRange(0, 90).Draw(rt, "smallGap")) * time.Second
		// the extension moves the clock by at most ~3 h; min-age must reach back from then to the target's timestamp
		need := time.Duration(int64(head0-min(plan.target, baseHead))*winBaseDt)*time.Second + 4*time.Hour
		var ok []time.Duration
		for _, d := range []time.Duration{6 * time.Hour, 30 * time.Hour, 80 * time.Hour, 300 * time.Hour} {
			if d >= need {
				ok = append(ok, d)
			}
		}
		cf.minAge = rapid.SampledFrom(ok).Draw(rt, "minAge")
		cf.tick = rapid.SampledFrom([]time.Duration{0, time.Minute}).Draw(rt, "tick")
	}
	if plan.mech == "l1" || plan.mech == "catchup" {
		if rapid.IntRange(0, 2).Draw(rt, "minAgeOn") == 0 {
			cf.minAge = rapid.SampledFrom([]time.Duration{time.Hour, 6 * time.Hour}).Draw(rt, "minAge")
			cf.tick = rapid.SampledFrom([]time.Duration{0, 0, time.Minute}).Draw(rt, "tick")
			if gap < 20*time.Hour && rapid.IntRange(0, 2).Draw(rt, "minAgeNotBinding") > 0 {
				// the base chain is older than min-age: the sample does not hold the floor below the target
				gap = rapid.SampledFrom([]time.Duration{20 * time.Hour, 3 * 365 * 24 * time.Hour}).Draw(rt, "oldChainGap")
			}
		}
	}

	m := newWinMachine(t, rt, c, cf, region, gap, img.image())
	defer m.stopAll()
	w := m.win
	c.Labelf("aim-%s", plan.class)
	c.Labelf("mechanism-%s", plan.mech)
	m.logf("plan: first floor at %d (%s) by %s, late=%v", plan.target, plan.class, plan.mech, plan.late)

	d := newFdbOn(img.image())
	if rapid.IntRange(0, 2).Draw(rt, "dropSnapshot") == 0 {
		// the previous process died without the graceful-shutdown write of the running filter
		if err := core.DeleteRunningEventFilter(d.inner); err != nil {
			stats.HarnessError("DeleteRunningEventFilter: %v", err)
		}
		c.Label("image-without-filter-snapshot")
	}
	var s *session
	var err error
	if plan.late {
		c.Label("starts-without-pruning")
		c.Fp("late")
		m.logf("node starts without --prune-mode")
		s, err = m.startPlain(d, cf)
	} else {
		m.pruning = true
		s, err = m.startSession(d, cf)
	}
	if err != nil {
		m.violation("restart-failed", "start on the base chain image failed: %v", err)
	}
	m.s = s

	// ---- phase A: the chain grows up to / across the boundary
	for i := 0; i < extend; i++ {
		m.store(false)
	}
	switch {
	case m.head() < B-1:
		c.Label("head-before-window-completes")
	case m.head() == B-1:
		c.Label("head-completes-window")
	default:
		c.Label("head-in-next-window")
	}
	if rapid.IntRange(0, 2).Draw(rt, "queryBeforePrune") == 0 {
		// warms the cache of persisted windows of the Blockchain object that will see the prune
		m.query()
		c.Label("query-before-first-prune")
	}

	// ---- phase B: the first floor
	switch plan.mech {
	case "l1":
		m.applyL1(l1Target, false)
	case "catchup":
		m.applyL1(l1Target, false)
		for guard := 0; guard < 12 && m.head() < plan.target+cf.retained; guard++ {
			m.store(false)
		}
	default:
		// place the virtual clock: cutoff = now - min-age falls in (ts(target-1), ts(target)]
		if int(plan.target) < m.ch.Height() {
			ts := m.ch.Blocks[plan.target].B.Timestamp
			slack := uint64(0)
			if plan.target > 0 {
				slack = ts - m.ch.Blocks[plan.target-1].B.Timestamp
			}
			at := ts - uint64(gen.Uniform(rt, max(int(slack), 1), "cutoffSlack")) + uint64(cf.minAge/time.Second)
			m.logf("clock -> %d: blocks before %d are older than min-age %s", at, plan.target, cf.minAge)
			m.clockTo(at)
		}
		if plan.mech == "minage-tick" {
			// the next tick of the running pruner takes the sample (a little later than aimed: ticks have their own phase)
			tick := cf.tick
			if tick == 0 {
				tick = 15 * time.Minute
			}
			m.logf("idle %s (one min-age tick)", tick+time.Second)
			m.sleep(tick + time.Second)
			if errs := m.s.takeErrs(); len(errs) > 0 {
				m.violation("prune-error", "pruner tick failed: %v", errs)
			}
		} else if !plan.late {
			m.restart()
		}
		lag := uint64(rapid.IntRange(1, 4).Draw(rt, "l1lag"))
		l1 := m.head() - min(lag, m.head())
		if l1 < plan.target+cf.retained {
			l1 = min(plan.target+cf.retained, m.head()-1)
		}
		m.applyL1(l1, false)
	}
	if plan.late {
		if m.l1 == nil {
			m.applyL1(m.head()-1, false)
		}
		m.forceEnable = true
		m.restart()
	}
	w.noteFloor(m, "first")
	if m.F() == plan.target {
		c.Label("first-floor-on-target")
	} else {
		c.Label("first-floor-off-target")
		c.Labelf("off-target-%s-late=%v", plan.mech, plan.late)
		m.logf("first floor %d is not the aimed %d", m.F(), plan.target)
		if os.Getenv("C16_DEBUG") != "" {
			fmt.Println("OFF-TARGET", plan, "\n  "+strings.Join(m.hist, "\n  "))
		}
	}
	m.query()

	// ---- phase C: the script
	nsteps := 4 + gen.Uniform(rt, 12, "nsteps")
	restarts, stores := 0, 0
	revertDone := false
	probeOK := func() bool {
		return m.probes < stats.Pick(1, 2) && rapid.IntRange(0, 3).Draw(rt, "probe") == 0
	}
	revertAcross := func() {
		revertDone = true
		f, head := m.F(), m.head()
		if head <= f {
			return
		}
		// stop: the floor itself when it is near; otherwise a few blocks below the highest boundary above the floor
		stop := f
		if head-f > 24 {
			stop = head - 1 - uint64(rapid.IntRange(0, 8).Draw(rt, "revertDepth"))
			for _, b := range w.boundaries() {
				if b > f && b <= head && head-b < 24 {
					stop = b - 1 - min(uint64(rapid.IntRange(0, 5).Draw(rt, "belowBoundary")), b-1-f)
				}
			}
			if stop < f {
				stop = f
			}
		}
		m.deepRevertTo(stop)
		w.noteFloor(m, "")
	}
	for i := 0; i < nsteps; i++ {
		a := rapid.SampledFrom([]string{"query", "query", "restart", "restart", "store", "store", "store", "l1cross", "l1cross", "l1", "reorg", "idle", "revert"}).Draw(rt, "action")
		switch a {
		case "query":
			m.query()
		case "restart":
			if restarts >= 3 {
				m.query()
				continue
			}
			restarts++
			m.restart()
			m.query()
		case "store":
			if stores >= 24 {
				m.query()
				continue
			}
			stores++
			m.store(probeOK())
		case "l1cross":
			// the floor moves onto / over the next boundary above it (when the local head allows)
			f := m.F()
			var next uint64
			for _, b := range w.boundaries() {
				if next == 0 && f < b+1 {
					next = b
				}
			}
			if next == 0 || m.cf.retained > winSize {
				m.setL1(probeOK())
				continue
			}
			tgt := next - 1 + uint64(rapid.IntRange(0, 3).Draw(rt, "crossTo"))
			if tgt <= f {
				tgt = f + 1
			}
			if tgt+m.cf.retained >= m.head() {
				// not enough blocks above yet
				m.store(false)
				stores++
				continue
			}
			m.applyL1(tgt+m.cf.retained, probeOK())
			c.Label("l1-aimed-at-boundary")
		case "l1":
			m.setL1(probeOK())
		case "reorg":
			if !m.reorg() {
				m.store(false)
				stores++
			}
		case "idle":
			m.idle()
		case "revert":
			if revertDone {
				m.query()
				continue
			}
			revertAcross()
		}
		w.noteFloor(m, "")
	}
	m.query()
	if !revertDone && rapid.IntRange(0, 3).Draw(rt, "finalRevert") > 0 {
		revertAcross()
		m.query()
	}
	w.noteFloor(m, "final")
	if w.reverted {
		c.Label("case-reverted-across-boundary")
	}
	m.finish()
}
