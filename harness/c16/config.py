# Driver configuration for property C16 (read by /verif/checks_config.py)
PROP = dict(
        pkg="c16", level="exploration",
        technique=("stateful PBT (rapid) of the real pruner.Pruner service (pruner.New + Run) wired to a real Blockchain as "
                   "node.New does, and of the history-prune migration, differential against an unpruned twin node and the "
                   "abstract state; virtual clock and event barrier via testing/synctest; crash-image / cancellation fault "
                   "points at every commit of a prune; reader between the commits of a prune"),
        level_text=("Exploration with fault points: generated chains, L1-head sequences, configurations and scripts "
                    "(about a thousand per quick run, tens of thousands per thorough run), every Reader/state/event answer "
                    "compared with an unpruned twin; per probed prune the interruption index k is enumerated (quick: first, "
                    "last, last-1 and one drawn commit; thorough: every commit up to 48). Samples the space; does not prove "
                    "absence."),
        rule=("TestPropPruning: per case, inside a synctest bubble with a virtual clock: config drawn from backend {legacy, "
              "trie2} x retained {0,1,2,5,1000} x l2HeadsPerPrune {1,3} x target batch size {1 byte, default} x min-age {0, "
              "1h (tick default|1m)} x clock offset {0,45m,3h,20h,3y}; a fifth of the cases enable pruning late through the "
              "history-prune migration; 11-22 warm-up blocks then 8-77 steps over store / L1 head (lagging, equal, ahead; "
              "event before or after the write) / idle (ticks) / restart (graceful or not) / reorg above the L1 head / query; "
              "a third of the store/L1 steps are fault probes (crash image after, or cancellation at, commit k of the prune, "
              "on copies; restart, check, resume, compare with the uninterrupted copy); a reader runs between the commits of "
              "every prune; optional final revert down to the floor, attempt below it, re-extension. "
              "TestPropMinAgeAroundReorg: skeleton placing a reorg and fresh replacement blocks next to a just-sampled "
              "min-age floor. Non-trivial = a prune deleted >= 1 block and a query, revert or restart followed; distinct = "
              "distinct SHA-256 of config + rendered script (block hashes, L1 numbers, fault points)."),
        assumptions=["the unpruned twin (same backend) and ref.State are the oracles for retained data (C03/C07 check them independently)",
                     "memory DB + the harness' commit-counting wrapper (read-through for batches without writes) stand in for Pebble (contract equivalence is C15); a crash image is the DB after a whole batch commit (batch atomicity trusted)",
                     "testing/synctest: the pruner's goroutine is quiescent when synctest.Wait returns; time.Now/tickers are virtual inside the bubble",
                     "L1 heads recorded are monotone (finalised); reorgs in the script body only undo blocks above the L1 head; readers concurrent with a prune are modelled at commit boundaries only"],
        runs=[dict(run="^Test(Prop|Known)")],
    )
