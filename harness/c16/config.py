# Driver configuration for property C16 (read by /verif/checks_config.py)
PROP = dict(
        pkg="c16", level="exploration",
        technique=("stateful PBT (rapid) of the real pruner.Pruner service (pruner.New + Run) wired to a real Blockchain as "
                   "node.New does, and of the history-prune migration, differential against an unpruned twin node and the "
                   "abstract state; virtual clock and event barrier via testing/synctest; crash-image / cancellation fault "
                   "points at every commit of a prune; reader between the commits of a prune; pre-built base chains around "
                   "real 8192-block event-index window boundaries"),
        level_text=("Exploration with fault points: generated chains, L1-head sequences, configurations and scripts "
                    "(about a thousand per quick run, tens of thousands per thorough run), every Reader/state/event answer "
                    "compared with an unpruned twin; per probed prune the interruption index k is enumerated (quick: first, "
                    "last, last-1 and one drawn commit; thorough: every commit up to 48). About 190 quick / 4 000 thorough "
                    "cases run on chains of 8 200 / 16 400 blocks, where persisted event-index windows exist and the floor is "
                    "placed inside, at the edges of and across them. Samples the space; does not prove absence."),
        rule=("TestPropPruning: per case, inside a synctest bubble with a virtual clock: config drawn from backend {legacy, "
              "trie2} x retained {0,1,2,5,1000} x l2HeadsPerPrune {1,3} x target batch size {1 byte, default} x min-age {0, "
              "1h (tick default|1m)} x clock offset {0,45m,3h,20h,3y}; a fifth of the cases enable pruning late through the "
              "history-prune migration; 11-22 warm-up blocks then 8-77 steps over store / L1 head (lagging, equal, ahead; "
              "event before or after the write) / idle (ticks) / restart (graceful or not) / reorg above the L1 head / query; "
              "a third of the store/L1 steps are fault probes (crash image after, or cancellation at, commit k of the prune, "
              "on copies; restart, check, resume, compare with the uninterrupted copy); a reader runs between the commits of "
              "every prune; optional final revert down to the floor, attempt below it, re-extension. "
              "TestPropMinAgeAroundReorg: skeleton placing a reorg and fresh replacement blocks next to a just-sampled "
              "min-age floor. "
              "TestPropPruningAcrossWindows (a sixth of the quick cases): the pruned node and its twin start on clones of a "
              "base chain built once per process, 8186 or 16378 blocks (head 7 below the first / second 8192-block "
              "event-index window boundary; ~130 blocks below and ~40 above each boundary carry generated transactions, "
              "state diffs and dense events from 3 addresses), running-filter snapshot of the image kept or dropped; 0-15 "
              "more blocks (window not yet / just / already completed); the first floor is aimed at a drawn position class "
              "(0; deep inside or just below the end of window 1 / window 2; around the base head; exactly the last, first or second block of a "
              "window at either boundary; above the boundary) through a drawn mechanism (L1 head = target + retained; "
              "catch-up with the L1 head ahead; min-age sample taken at a restart or at a tick with the virtual clock "
              "placed at the target's timestamp + min-age; a fifth enable pruning late so that the history-prune migration "
              "makes the cut), retained / l2HeadsPerPrune / batch size {1 byte, 4 kB, default} / min-age {0, 1h .. 300h} / "
              "clock gap drawn; then 4-15 steps over query / restart (graceful or not) / store / L1 head that puts the floor "
              "on or across the next boundary / generic L1 head / reorg / idle / one revert down toward the floor across the "
              "boundary (to the floor when near; optional restart; attempt below the floor) followed by another fork stored "
              "back across the boundary; prunes of <= 600 blocks are fault-probed as above. The Reader API is observed over "
              "windows around the floor, each boundary and the tip; event queries unfiltered, by address (incl. a "
              "never-emitting one) and by key alternatives over ranges starting below / at / above the floor and at the "
              "boundaries, all against the unpruned twin. "
              "Non-trivial = a prune deleted >= 1 block and a query, revert or restart followed; distinct = "
              "distinct SHA-256 of config + rendered script (block hashes, L1 numbers, fault points)."),
        assumptions=["the unpruned twin (same backend) and ref.State are the oracles for retained data (C03/C07 check them independently)",
                     "memory DB + the harness' commit-counting wrapper (read-through for batches without writes) stand in for Pebble (contract equivalence is C15); a crash image is the DB after a whole batch commit (batch atomicity trusted)",
                     "base-chain cases use the harness' ordered in-memory store (copy-on-write B-tree, treedb_test.go) instead of memory.Database, whose iterators and range deletes scan all ~85 000 keys of a 16 000-block image; TestSelfTreeDB checks it operation by operation against memory.Database on random sequences; base chains are stored once per process through a real Blockchain (re-verification of the block hash skipped for all but a sample of blocks)",
                     "testing/synctest: the pruner's goroutine is quiescent when synctest.Wait returns; time.Now/tickers are virtual inside the bubble",
                     "L1 heads recorded are monotone (finalised); reorgs in the script body only undo blocks above the L1 head; readers concurrent with a prune are modelled at commit boundaries only"],
        runs=[dict(run="^Test(Prop|Known)")],
    )
