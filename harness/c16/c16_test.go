// Package c16: pruning never damages retained blocks, the head state, or L1-unconfirmed history (property C16).
//
// A real pruner.Pruner service (pruner.New + Run, wired to a real blockchain.Blockchain with the options the
// node uses: WithRetentionFloor + WithRunningEventFilterInitializer(pruner.InitializeRunningEventFilter),
// floor seeded from the database after construction) runs on a PRUNED node; an UNPRUNED TWIN receives the
// same blocks, L1 heads and reverts. Every rapid case runs inside a testing/synctest bubble:
//   - synctest.Wait() is the completion barrier for every event sent on the (lossy, size-1) trigger feeds, so
//     the real Run loop / onNewBlock / onNewL1Head / sampleHeight arithmetic is driven step by step through the
//     exported API only (no hook needed);
//   - time.Now() and the pruner's min-age ticker use the bubble's virtual clock, which the script moves with
//     time.Sleep: block arrival times, idle periods and tick refreshes are exact and deterministic, so the
//     min-age oracle is decided to the second without depending on the wall clock.
//
// TestPropPruning / TestPropMinAgeAroundReorg (this file) run on chains of 15-60 blocks; TestPropPruningAcrossWindows
// (window_test.go) runs the same machine and oracles on pre-built base chains of 8186 / 16378 blocks, where persisted
// 8192-block event-index windows exist (ordered tree store: treedb_test.go).
package c16

import (
	"context"
	"errors"
	"fmt"
	"hash/fnv"
	"os"
	"runtime/debug"
	"sort"
	"strings"
	"sync"
	"testing"
	"testing/synctest"
	"time"

	"github.com/NethermindEth/juno/blockchain"
	"github.com/NethermindEth/juno/core"
	"github.com/NethermindEth/juno/core/felt"
	"github.com/NethermindEth/juno/db"
	"github.com/NethermindEth/juno/db/memory"
	_ "github.com/NethermindEth/juno/encoder/registry"
	"github.com/NethermindEth/juno/feed"
	"github.com/NethermindEth/juno/migration/historyprunner"
	"github.com/NethermindEth/juno/pruner"
	"github.com/NethermindEth/juno/utils/log"
	"pgregory.net/rapid"

	"verif/harness/internal/gen"
	"verif/harness/internal/node"
	"verif/harness/internal/ref"
	"verif/harness/internal/stats"
)

func TestMain(m *testing.M) { stats.Main(m) }

// Known findings (see FINDINGS.md). While a key is listed as "known" its input class is not generated.
const (
	// a crash between two commits of one PruneUpto leaves blocks whose hash-keyed indexes and legacy state
	// history are already deleted while OldestRetainedBlock / RequireRetained / the re-seeded floor still
	// report them as retained (fixed in /repo by 8d51240)
	kfCrashMidPrune = "c16-crash-between-prune-commits-leaves-retained-blocks-half-deleted"
	// a prune that stops short of its target (cancelled inside its per-block loop, or process death between two
	// of its batches) has deleted the hash->number mapping of the block just below the new oldest retained
	// block, the carve-out StateAtBlockHash(parent) needs
	kfCancelParentMapping = "c16-cancelled-prune-drops-hash-mapping-of-block-below-floor"
	// the min-age sample (latestSampledHeight) is not lowered when a reorg replaces blocks below it with
	// younger ones: until the next tick the pruner may delete replacement blocks younger than min-age
	kfMinAgeStaleAfterReorg = "c16-min-age-sample-stale-after-reorg"
	// the history-prune migration (first start with --prune-mode on an existing database) fails, after it has
	// already wiped every hash-keyed lookup, ...
	// ... on the trie2 backend (it copies legacy history entries that do not exist)
	kfMigNewState = "c16-history-prune-migration-fails-on-new-state-backend"
	// ... when a kept block's diff writes zero to a never-written slot (the legacy state logs no history for it)
	kfMigZeroAbsent = "c16-history-prune-migration-fails-on-zero-write-to-absent-slot"
	// ... when the computed floor is block 0 (pivot == retained, or the whole chain is younger than min-age)
	kfMigFloorZero = "c16-history-prune-migration-fails-when-floor-is-zero"
)

func known(key string) bool {
	return stats.Known(key) || strings.Contains(os.Getenv("C16_ASSUME_KNOWN"), key)
}

// chainEpoch is the first timestamp gen.NewChain uses.
const chainEpoch = 1_700_000_000

// bubble runs f inside a synctest bubble and forwards rapid's control-flow panics (failure, invalid data)
// to the calling goroutine, where rapid recovers them. rapid's shrinker identifies "the same failure" by
// the traceback of the panic; since every forwarded panic would have the same traceback, the re-panic is
// issued at a call depth derived from the kind of panic (invalid data / the ORACLE[...] key / foreign panic),
// so that shrinking cannot drift from one failure to another.
func bubble(t *testing.T, f func()) {
	var pv any
	var stack []byte
	synctest.Test(t, func(*testing.T) {
		defer func() {
			if pv = recover(); pv != nil {
				stack = debug.Stack()
			}
		}()
		f()
	})
	if pv == nil {
		return
	}
	switch fmt.Sprintf("%T", pv) {
	case "rapid.invalidData":
		rethrow(0, pv)
	case "rapid.stopTest":
		msg := fmt.Sprint(pv)
		h := fnv.New32a()
		if i := strings.Index(msg, "]"); strings.HasPrefix(msg, "ORACLE[") && i > 0 {
			h.Write([]byte(msg[:i]))
		}
		rethrow(2+int(h.Sum32()%12), pv)
	default:
		rethrow(15, fmt.Sprintf("panic inside the bubble: %v\n%s", pv, stack))
	}
}

//go:noinline
func rethrow(depth int, pv any) {
	if depth == 0 {
		panic(pv)
	}
	rethrow(depth-1, pv)
}

// ---------------------------------------------------------------------------------------------------------
// configuration

type cfg struct {
	newState bool
	retained uint64
	l2Per    uint64
	batch    int           // 0 = pruner default (96 MB: one batch per prune)
	minAge   time.Duration // 0 = disabled
	tick     time.Duration // 0 = pruner default (15 min)
}

func (c cfg) String() string {
	return fmt.Sprintf("backend=%s retained=%d l2HeadsPerPrune=%d batch=%d minAge=%s tick=%s",
		map[bool]string{false: "legacy", true: "trie2"}[c.newState], c.retained, c.l2Per, c.batch, c.minAge, c.tick)
}

// ---------------------------------------------------------------------------------------------------------
// a running pruned node: database + Blockchain + RetentionFloor + Pruner service

type pruneEv struct{ oldest, count uint64 }

type session struct {
	db     *fdb
	n      *node.Node
	floor  *pruner.RetentionFloor
	l2     *feed.Feed[*core.Block]
	l1     *feed.Feed[*core.L1Head]
	cancel context.CancelFunc
	done   chan error

	mu     sync.Mutex
	prunes []pruneEv
	errs   []error
	exited bool
	runErr error
	// cancelled: the harness cancelled the service context on purpose (fault point)
	cancelled bool
}

func (s *session) cancelNow() {
	s.mu.Lock()
	s.cancelled = true
	s.mu.Unlock()
	s.cancel()
}

func (s *session) wasCancelled() bool {
	s.mu.Lock()
	defer s.mu.Unlock()
	return s.cancelled
}

// startSession is "process start" on an existing database, in the order node.New / node.Run use:
// Blockchain with an unseeded shared floor and the pruning-aware running-filter initializer, (migrations,)
// floor.Seed(db), then the pruner service.
func (m *machine) startSession(d *fdb, cf cfg) (*session, error) {
	s, err := startSession(d, cf, m.u)
	if s != nil {
		m.all = append(m.all, s)
	}
	return s, err
}

// startPlain is a process start WITHOUT --prune-mode: same Blockchain wiring minus the pruning-aware running
// filter initializer, no pruner service.
func (m *machine) startPlain(d *fdb, cf cfg) (*session, error) {
	s := &session{db: d, floor: &pruner.RetentionFloor{}, exited: true, cancel: func() {}}
	s.n = node.New(cf.newState, d, m.u.Net, blockchain.WithRetentionFloor(s.floor))
	if err := s.floor.Seed(d); err != nil {
		return nil, fmt.Errorf("RetentionFloor.Seed: %w", err)
	}
	return s, nil
}

func startSession(d *fdb, cf cfg, u *gen.Universe) (*session, error) {
	s := &session{db: d, floor: &pruner.RetentionFloor{}}
	s.n = node.New(cf.newState, d, u.Net,
		blockchain.WithRetentionFloor(s.floor),
		blockchain.WithRunningEventFilterInitializer(pruner.InitializeRunningEventFilter))
	if err := s.floor.Seed(d); err != nil {
		return nil, fmt.Errorf("RetentionFloor.Seed: %w", err)
	}
	s.l2, s.l1 = feed.New[*core.Block](), feed.New[*core.L1Head]()
	opts := []pruner.Option{
		pruner.WithMinAge(cf.minAge),
		pruner.WithL2HeadsPerPrune(cf.l2Per),
		pruner.WithListener(&pruner.SelectiveListener{
			OnPruneCb: func(oldest, count uint64, _ time.Duration) {
				s.mu.Lock()
				s.prunes = append(s.prunes, pruneEv{oldest, count})
				s.mu.Unlock()
			},
			OnPruneErrorCb: func(err error) {
				s.mu.Lock()
				s.errs = append(s.errs, err)
				s.mu.Unlock()
			},
		}),
	}
	if cf.batch != 0 {
		opts = append(opts, pruner.WithTargetBatchByteSize(cf.batch))
	}
	if cf.tick != 0 {
		opts = append(opts, pruner.WithFloorTickInterval(cf.tick))
	}
	p := pruner.New(d, s.floor, cf.retained, s.l2.Subscribe(), s.l1.Subscribe(), log.NewNopZapLogger(), opts...)
	ctx, cancel := context.WithCancel(context.Background())
	s.cancel = cancel
	s.done = make(chan error, 1)
	go func() { s.done <- p.Run(ctx) }()
	synctest.Wait()
	s.pollExit()
	if s.exited {
		return nil, fmt.Errorf("pruner.Run returned at start-up: %v", s.runErr)
	}
	return s, nil
}

func (s *session) pollExit() {
	if s.exited {
		return
	}
	select {
	case err := <-s.done:
		s.exited, s.runErr = true, err
	default:
	}
}

// stop cancels the service (node shutdown) and waits for Run to return.
func (s *session) stop() {
	s.cancel()
	if !s.exited {
		s.runErr = <-s.done
		s.exited = true
	}
}

func (s *session) takeErrs() []error {
	s.mu.Lock()
	defer s.mu.Unlock()
	e := s.errs
	s.errs = nil
	return e
}

func (s *session) pruneCount() int {
	s.mu.Lock()
	defer s.mu.Unlock()
	return len(s.prunes)
}

// oldest returns the oldest retained block of a database (the floor), false when no block is retained.
func oldest(r db.KeyValueReader) (uint64, bool, error) {
	o, err := pruner.OldestRetainedBlock(r)
	if errors.Is(err, db.ErrKeyNotFound) {
		return 0, false, nil
	}
	return o, err == nil, err
}

// ---------------------------------------------------------------------------------------------------------
// state views

func errStr(err error) string {
	switch {
	case err == nil:
		return ""
	case errors.Is(err, db.ErrKeyNotFound):
		return "!notfound"
	default:
		return "!err:" + err.Error()
	}
}

func val(v string, err error) string {
	if err != nil {
		return errStr(err)
	}
	return v
}

// pair is one storage slot of one contract.
type pair struct{ a, k felt.Felt }

// scope selects what a state view is asked: class hash and nonce of every address always; the listed storage
// slots; class definitions / compiled class hashes only when classes is set (the pruner never touches them,
// and decoding them is the most expensive read).
type scope struct {
	pairs   []pair
	classes bool
}

// readState renders the reads of a state view selected by sc.
func readState(u *gen.Universe, r core.StateReader, sc scope) map[string]string {
	o := map[string]string{}
	for _, a := range u.AllAddrs() {
		a := a
		ch, err := r.ContractClassHash(&a)
		o["classhash/"+a.String()] = val(ch.String(), err)
		nn, err := r.ContractNonce(&a)
		o["nonce/"+a.String()] = val(nn.String(), err)
	}
	for _, p := range sc.pairs {
		p := p
		v, err := r.ContractStorage(&p.a, &p.k)
		o["storage/"+p.a.String()+"/"+p.k.String()] = val(v.String(), err)
	}
	if !sc.classes {
		return o
	}
	classes := []felt.Felt{}
	for _, s := range u.Sierra {
		classes = append(classes, s.Hash)
	}
	for _, s := range u.Cairo0 {
		classes = append(classes, s.Hash)
	}
	for _, c := range classes {
		c := c
		d, err := r.Class(&c)
		if err != nil {
			o["class/"+c.String()] = errStr(err)
		} else {
			o["class/"+c.String()] = fmt.Sprintf("at=%d", d.At)
		}
		sh := felt.SierraClassHash(c)
		h1, err := r.CompiledClassHash(&sh)
		o["casm/"+c.String()] = val((*felt.Felt)(&h1).String(), err)
	}
	return o
}

// refState renders what the abstract state says for existing contracts (class hash, nonce, selected slots).
func refState(u *gen.Universe, st *ref.State, sc scope) map[string]string {
	o := map[string]string{}
	for _, a := range u.AllAddrs() {
		ct, ok := st.Contracts[a]
		if !ok {
			continue // tolerance of C03: reads of missing contracts may be not-found or zero
		}
		o["classhash/"+a.String()] = ct.ClassHash.String()
		o["nonce/"+a.String()] = ct.Nonce.String()
	}
	for _, p := range sc.pairs {
		if ct, ok := st.Contracts[p.a]; ok {
			v := ct.Storage[p.k]
			o["storage/"+p.a.String()+"/"+p.k.String()] = v.String()
		}
	}
	return o
}

func sortedKeys(m map[string]string) []string {
	ks := make([]string, 0, len(m))
	for k := range m {
		ks = append(ks, k)
	}
	sort.Strings(ks)
	return ks
}

func isErr(v string) bool { return strings.HasPrefix(v, "!") }

func clip(s string) string {
	if len(s) > 160 {
		return s[:160] + "…"
	}
	return s
}

// ---------------------------------------------------------------------------------------------------------
// the machine

type machine struct {
	t  *testing.T
	rt *rapid.T
	c  *stats.Case
	cf cfg
	u  *gen.Universe
	ch *gen.Chain

	twin *node.Node
	s    *session
	ids  *node.Ids
	all  []*session // every session started in this case (stopped when the case ends)

	twinVer  int // bumped whenever the twin changes
	twinAt   int
	twinObsC node.Obs
	twinObsK string // observation window the cached twin observation was taken over (base-chain cases)

	// win: the case runs on a pre-built base chain around a real 8192-block event-index window boundary
	// (window_test.go); nil for the ordinary short chains
	win *winCase

	written    []pair // every slot ever written by a generated block (in order of first write)
	writtenSet map[pair]bool

	numOfHash map[felt.Felt]uint64 // canonical blocks only
	numOfTx   map[felt.Felt]uint64
	numOfMsg  map[string]uint64

	l1       *core.L1Head // last L1 head recorded
	hw       uint64       // high-water mark of min(L1 head known, local head) - retained over all delivered events
	hwOK     bool
	lastF    uint64 // floors never move down
	pruned   uint64 // blocks deleted by prunes so far
	afterUse bool   // a query/revert/restart ran after a deleting prune
	deep     bool   // a revert below the L1 head happened (min-age oracle no longer applicable)
	probes   int
	hist     []string
	// freshTips: every new block is stamped close to the virtual now (see nextBlock)
	freshTips bool
	// failure recorded by the mid-prune reader hook
	hookKey, hookFail string
	// pruning: --prune-mode is on (false while the node of a "late enable" case still runs without it)
	pruning, forceEnable bool
	// noParentMapping: the copy under inspection is the result of a cancelled (partial) prune and the known
	// finding kfCancelParentMapping is listed: the hash->number mapping of floor-1 is not required
	noParentMapping bool
}

func (m *machine) logf(f string, a ...any) {
	s := fmt.Sprintf(f, a...)
	m.hist = append(m.hist, s)
	m.rt.Logf("HIST %s", s)
}

func (m *machine) head() uint64 { return uint64(m.ch.Height() - 1) }

func (m *machine) violation(key, f string, a ...any) {
	m.rt.Helper()
	m.c.Violation(key, "%s\n  config: %s\n  history:\n    %s", fmt.Sprintf(f, a...), m.cf, strings.Join(m.hist, "\n    "))
}

// F returns the floor of database d (monotone w.r.t. base).
func floorOf(d db.KeyValueReader, base uint64) (uint64, error) {
	o, ok, err := oldest(d)
	if err != nil {
		return 0, err
	}
	if !ok || o < base {
		return base, nil
	}
	return o, nil
}

func (m *machine) F() uint64 {
	f, err := floorOf(m.s.db, m.lastF)
	if err != nil {
		m.violation("oldest-retained-error", "OldestRetainedBlock: %v", err)
	}
	m.lastF = f
	return f
}

func (m *machine) clockTo(ts uint64) {
	now := uint64(time.Now().Unix())
	if now < ts {
		time.Sleep(time.Duration(ts-now) * time.Second)
		synctest.Wait()
	}
}

func (m *machine) sleep(d time.Duration) {
	time.Sleep(d)
	synctest.Wait()
}

// ---- event delivery with the floor oracles

// noteBound raises the high-water mark of the permitted floor: min(L1 head known to the node, local head) - retained.
func (m *machine) noteBound(l1Known uint64, haveL1 bool) {
	if !haveL1 || m.ch.Height() == 0 {
		return
	}
	p := min(l1Known, m.head())
	if p < m.cf.retained {
		return
	}
	if b := p - m.cf.retained; !m.hwOK || b > m.hw {
		m.hw, m.hwOK = b, true
	}
}

// afterEvent checks the handler outcome: no handler error, floor bound, min-age bound.
func (m *machine) afterEvent(s *session, what string, fBefore uint64, base *uint64) uint64 {
	s.pollExit()
	if s.exited && (!s.wasCancelled() || s.runErr != nil) {
		m.violation("pruner-exited", "pruner.Run returned while handling %s: %v", what, s.runErr)
	}
	if errs := s.takeErrs(); len(errs) > 0 {
		m.violation("prune-error", "pruner handler failed on %s: %v", what, errs)
	}
	fa := m.checkFloor(s.db, what, fBefore, base)
	// the in-memory floor must still admit state one block below the oldest retained block
	if fa > 0 && int(fa) <= m.ch.Height() && !s.wasCancelled() {
		if err := pruner.RequireStateRetainedByBlockNumber(s.db, s.floor, fa-1); err != nil && uint64(m.ch.Height()) > fa-1 {
			m.violation("state-floor-too-high", "after %s oldest retained block is %d but state at %d is refused: %v", what, fa, fa-1, err)
		}
	}
	return fa
}

// checkFloor applies oracle (1) to whatever moved the floor of database d from fBefore: bound by the high-water
// mark of min(L1 head, local head) - retained, and no block younger than min-age (now) among the newly pruned.
func (m *machine) checkFloor(d db.KeyValueReader, what string, fBefore uint64, base *uint64) uint64 {
	fa, err := floorOf(d, *base)
	if err != nil {
		m.violation("oldest-retained-error", "OldestRetainedBlock after %s: %v", what, err)
	}
	*base = fa
	if fa > 0 && (!m.hwOK || fa > m.hw) {
		m.violation("floor-above-bound", "after %s the oldest retained block is %d, above min(L1 head, local head) - retained = %v (defined=%v) [L1=%v head=%d retained=%d]",
			what, fa, m.hw, m.hwOK, l1num(m.l1), m.head(), m.cf.retained)
	}
	if m.cf.minAge > 0 && !m.deep {
		now := uint64(time.Now().Unix())
		cutoff := now - uint64(m.cf.minAge/time.Second)
		for b := fBefore; b < fa && int(b) < m.ch.Height(); b++ {
			if ts := m.ch.Blocks[b].B.Timestamp; ts > cutoff {
				m.violation("pruned-younger-than-min-age", "%s pruned block %d whose timestamp %d is %ds old, younger than min-age %s (now %d)",
					what, b, ts, int64(now)-int64(ts), m.cf.minAge, now)
			}
		}
	}
	return fa
}

func l1num(h *core.L1Head) string {
	if h == nil {
		return "none"
	}
	return fmt.Sprint(h.BlockNumber)
}

func (m *machine) sendL2(s *session, b *core.Block, base *uint64) (before, after uint64) {
	before, _ = floorOf(s.db, *base)
	if s.l2 == nil { // pruning not enabled (yet)
		return before, before
	}
	s.l2.Send(b)
	synctest.Wait()
	after = m.afterEvent(s, fmt.Sprintf("L2 head %d", b.Number), before, base)
	return
}

func (m *machine) sendL1(s *session, h *core.L1Head, base *uint64) (before, after uint64) {
	before, _ = floorOf(s.db, *base)
	if s.l1 == nil {
		return before, before
	}
	s.l1.Send(h)
	synctest.Wait()
	after = m.afterEvent(s, fmt.Sprintf("L1 head %d", h.BlockNumber), before, base)
	return
}

func (m *machine) notePruned(before, after uint64, via string) {
	if after > before {
		m.pruned += after - before
		m.afterUse = false
		m.c.Label("prune-deleted-blocks")
		m.c.Label("prune-via-" + via)
		if after-before >= 5 {
			m.c.Label("prune-deleted>=5")
		}
		m.logf("  -> pruned [%d,%d)", before, after)
	}
}

func (m *machine) used(what string) {
	if m.pruned > 0 {
		m.afterUse = true
		m.c.Label("after-prune:" + what)
	}
}

// ---- actions

func (m *machine) addBlock(b *gen.Block) {
	if b.Tags["excluded-zero-to-absent"] {
		m.c.Excluded(kfMigZeroAbsent)
	}
	m.ids.AddBlock(b)
	for _, p := range diffPairs(b) {
		if !m.writtenSet[p] {
			m.writtenSet[p] = true
			m.written = append(m.written, p)
		}
	}
	m.numOfHash[*b.B.Hash] = b.Num()
	for _, tx := range b.B.Transactions {
		m.numOfTx[*tx.Hash()] = b.Num()
		if l1, ok := tx.(*core.L1HandlerTransaction); ok {
			m.numOfMsg[fmt.Sprintf("%x", l1.MessageHash())] = b.Num()
		}
	}
}

func (m *machine) dropBlock(b *gen.Block) {
	delete(m.numOfHash, *b.B.Hash)
	for _, tx := range b.B.Transactions {
		delete(m.numOfTx, *tx.Hash())
		if l1, ok := tx.(*core.L1HandlerTransaction); ok {
			delete(m.numOfMsg, fmt.Sprintf("%x", l1.MessageHash()))
		}
	}
}

func (m *machine) nextBlock() *gen.Block {
	var b *gen.Block
	if m.ch.Height() > 0 && rapid.IntRange(0, 3).Draw(m.rt, "emptyBlock") == 0 {
		b = m.ch.AppendEmpty(m.ch.Blocks[m.ch.Height()-1].B.ProtocolVersion)
	} else {
		b = m.ch.Next(m.rt)
	}
	// Timestamps: the generator advances them by <= 10 min per block from a fixed epoch. Now and then (always
	// while freshTips is set) the chain "reaches the tip": the block is stamped a few minutes before the
	// virtual now, leaving a gap to its parent (any non-decreasing sequence is a valid chain). Later blocks
	// are kept non-decreasing. The block hash is recomputed (the timestamp is part of it).
	now := uint64(time.Now().Unix())
	ts, prev := b.B.Timestamp, uint64(0)
	if b.Num() > 0 {
		prev = m.ch.Blocks[b.Num()-1].B.Timestamp
	}
	if now > ts+600 && (m.freshTips || rapid.IntRange(0, 7).Draw(m.rt, "tsGap") == 0) {
		ts = now - uint64(rapid.IntRange(0, 300).Draw(m.rt, "freshAge"))
		m.c.Label("timestamp-gap-to-tip")
	}
	if b.Num() > 0 && ts < prev {
		ts = prev
	}
	if ts != b.B.Timestamp {
		b.B.Timestamp = ts
		gen.Rehash(b, m.u.Net)
	}
	return b
}

// store draws the next block, advances the clock to its arrival time, stores it on both nodes and delivers
// the new-head event to the pruner (the synchroniser sends it after the block is stored).
func (m *machine) store(probe bool) {
	defer prof("store", wall())
	b := m.nextBlock()
	m.addBlock(b)
	arrival := b.B.Timestamp + uint64(rapid.IntRange(0, 90).Draw(m.rt, "arrivalDelay"))
	m.clockTo(arrival)
	m.c.Fp("store %d %s", b.Num(), b.B.Hash.String())
	m.logf("store #%d ts=%d (age %ds) txs=%d", b.Num(), b.B.Timestamp, int64(time.Now().Unix())-int64(b.B.Timestamp), len(b.B.Transactions))
	m.twinVer++
	if err := m.twin.Store(b); err != nil {
		stats.HarnessError("twin rejected generated block %d: %v", b.Num(), err)
	}
	if err := m.s.n.Store(b); err != nil {
		m.violation("extend-failed", "pruned node rejected valid block %d (twin stored it): %v", b.Num(), err)
	}
	var pre imageDB
	if probe {
		pre = m.s.db.inner.Image()
	}
	if m.l1 != nil {
		m.noteBound(m.l1.BlockNumber, true)
	}
	m.s.db.arm(m.midPruneReader(m.s, m.lastF))
	before, after := m.sendL2(m.s, b.B, &m.lastF)
	m.s.db.arm(nil)
	m.raiseHookFailure()
	m.notePruned(before, after, "L2")
	if probe && after > before && m.probeAffordable(before, after) {
		m.interrupt(pre, func(s *session, base *uint64) { m.sendL2(s, b.B, base) }, fmt.Sprintf("L2 head %d", b.Num()), true)
	}
}

func (m *machine) setL1(probe bool) {
	if m.ch.Height() == 0 {
		return
	}
	head := m.head()
	var num uint64
	switch rapid.SampledFrom([]string{"lag", "lag", "lag", "lag", "equal", "ahead", "ahead"}).Draw(m.rt, "l1rel") {
	case "lag":
		d := uint64(1 + gen.Uniform(m.rt, 14, "l1lag"))
		if d > head {
			d = head
		}
		num = head - d
		m.c.Label("l1-lagging")
	case "equal":
		num = head
		m.c.Label("l1-equal")
	default:
		num = head + uint64(rapid.IntRange(1, 20).Draw(m.rt, "l1ahead"))
		m.c.Label("l1-ahead")
	}
	m.applyL1(num, probe)
}

// applyL1 records L1 head num (never below the previous one) on both nodes and delivers the event to the pruner.
func (m *machine) applyL1(num uint64, probe bool) {
	head := m.head()
	if m.l1 != nil && num < m.l1.BlockNumber {
		num = m.l1.BlockNumber // finalised L1 heads do not move back
	}
	h := &core.L1Head{BlockNumber: num, BlockHash: gen.FP(0xb10c0000 + num), StateRoot: gen.FP(0x5007 + num)}
	if int(num) < m.ch.Height() {
		h.BlockHash, h.StateRoot = m.ch.Blocks[num].B.Hash, m.ch.Blocks[num].B.GlobalStateRoot
	}
	// Blockchain.SetL1Head sends the event before it writes the head: the pruner may see either order.
	eventFirst := !probe && rapid.IntRange(0, 3).Draw(m.rt, "l1EventFirst") == 0
	m.c.Fp("l1 %d ef=%v", num, eventFirst)
	m.logf("L1 head := %d (local head %d, eventFirst=%v)", num, head, eventFirst)
	m.noteBound(num, true)
	write := func() {
		m.twinVer++
		if err := m.twin.BC.SetL1Head(h); err != nil {
			stats.HarnessError("twin SetL1Head: %v", err)
		}
		if err := m.s.n.BC.SetL1Head(h); err != nil {
			m.violation("set-l1-head", "SetL1Head(%d): %v", num, err)
		}
		m.l1 = h
	}
	var pre imageDB
	if !eventFirst {
		write()
		if probe {
			pre = m.s.db.inner.Image()
		}
	}
	m.s.db.arm(m.midPruneReader(m.s, m.lastF))
	before, after := m.sendL1(m.s, h, &m.lastF)
	m.s.db.arm(nil)
	m.raiseHookFailure()
	if eventFirst {
		write()
		m.c.Label("l1-event-before-write")
	}
	m.notePruned(before, after, "L1")
	if probe && after > before && m.probeAffordable(before, after) {
		m.interrupt(pre, func(s *session, base *uint64) { m.sendL1(s, h, base) }, fmt.Sprintf("L1 head %d", num), false)
	}
}

// probeAffordable: the fault probe keeps a database image per commit of the probed prune and replays the event on
// several copies; on the long base chains only prunes of up to 600 blocks are probed (a size, not a time: the
// first cut of such a case deletes thousands of blocks in as many commits).
func (m *machine) probeAffordable(before, after uint64) bool {
	if m.win == nil || after-before <= 600 {
		return true
	}
	m.c.Label("probe-skipped-large-prune")
	return false
}

func (m *machine) idle() {
	d := rapid.SampledFrom([]time.Duration{time.Minute, 16 * time.Minute, 61 * time.Minute, 5 * time.Hour}).Draw(m.rt, "idle")
	m.c.Fp("idle %s", d)
	m.logf("idle %s", d)
	m.sleep(d)
	m.c.Label("idle")
	if errs := m.s.takeErrs(); len(errs) > 0 {
		m.violation("prune-error", "pruner tick failed: %v", errs)
	}
}

func (m *machine) restart() {
	graceful := rapid.Bool().Draw(m.rt, "graceful")
	m.c.Fp("restart %v", graceful)
	m.logf("restart graceful=%v", graceful)
	if graceful {
		if err := m.s.n.BC.WriteRunningEventFilter(); err != nil {
			m.violation("snapshot-write", "WriteRunningEventFilter: %v", err)
		}
	}
	m.s.stop()
	if m.s.runErr != nil {
		m.violation("pruner-run-error", "pruner.Run returned %v on shutdown", m.s.runErr)
	}
	if !m.pruning {
		if m.l1 != nil && m.migrationFloorWouldBeZero() && known(kfMigFloorZero) {
			// known finding: do not enable pruning at a moment where the migration's floor is block 0
			m.c.Excluded(kfMigFloorZero)
			if m.forceEnable {
				// make the floor positive: every existing block older than min-age, pivot above retained
				m.logf("  (blocks age by %s; more blocks until min(L1 head, head) > retained)", m.cf.minAge+time.Second)
				m.sleep(m.cf.minAge + time.Second)
				s, err := m.startPlain(m.s.db, m.cf)
				if err != nil {
					m.violation("restart-failed", "restart (pruning off) failed: %v", err)
				}
				m.s = s
				for guard := 0; m.migrationFloorWouldBeZero() && guard < 8; guard++ {
					m.store(false)
					m.setL1(false)
				}
				if m.migrationFloorWouldBeZero() {
					m.pruning = true // give up on the migration in this case: plain start with the pruner
				} else {
					m.enablePruning()
				}
				goto start
			}
		}
		if m.l1 == nil || m.migrationFloorWouldBeZero() && known(kfMigFloorZero) || !(m.forceEnable || rapid.Bool().Draw(m.rt, "enablePruning")) {
			s, err := m.startPlain(m.s.db, m.cf)
			if err != nil {
				m.violation("restart-failed", "restart (pruning off) failed: %v", err)
			}
			m.s = s
			m.c.Label("restart")
			return
		}
		m.enablePruning()
	}
start:
	s, err := m.startSession(m.s.db, m.cf)
	if err != nil {
		m.violation("restart-failed", "restart on the pruned database failed: %v", err)
	}
	m.s = s
	m.c.Label("restart")
	m.used("restart")
}

// migrationFloorWouldBeZero mirrors historyprunner's floor computation only to steer the generator away from
// the known floor-zero class: pivot >= retained and min(pivot - retained, first block within min-age) == 0.
func (m *machine) migrationFloorWouldBeZero() bool {
	if m.l1 == nil || m.ch.Height() == 0 {
		return false
	}
	pivot := min(m.l1.BlockNumber, m.head())
	if pivot < m.cf.retained {
		return false
	}
	if pivot == m.cf.retained {
		return true
	}
	if m.cf.minAge == 0 {
		return false
	}
	cutoff := uint64(time.Now().Add(-m.cf.minAge).Unix())
	return m.ch.Blocks[0].B.Timestamp >= cutoff
}

// enablePruning: the operator restarts the node with --prune-mode for the first time. node.Run runs the
// history-pruning migration (same retained / min-age settings) before the floor is seeded and the pruner starts.
func (m *machine) enablePruning() {
	m.pruning = true
	m.c.Label("pruning-enabled-by-migration")
	m.c.Fp("enable")
	before := m.F()
	m.noteBound(m.l1.BlockNumber, true)
	m.logf("pruning enabled: history-prune migration (L1 head %d, local head %d)", m.l1.BlockNumber, m.ch.Height()-1)
	mig := historyprunner.New(m.cf.retained, m.cf.minAge)
	if err := mig.Before(nil); err != nil {
		m.violation("migration-failed", "historyprunner.Before(nil): %v", err)
	}
	st, err := mig.Migrate(context.Background(), m.s.db, m.u.Net, log.NewNopZapLogger())
	if err != nil {
		m.violation("migration-failed", "history-prune migration (retained %d, min-age %s, L1 head %d, local head %d) failed: %v",
			m.cf.retained, m.cf.minAge, m.l1.BlockNumber, m.ch.Height()-1, err)
	}
	if st != nil {
		m.violation("migration-incomplete", "history-prune migration returned intermediate state %x without being cancelled", st)
	}
	after := m.checkFloor(m.s.db, "the history-prune migration", before, &m.lastF)
	m.notePruned(before, after, "migration")
}

// revert undoes the head block on both nodes.
func (m *machine) revertHead(why string) {
	h := m.head()
	m.c.Fp("revert %d", h)
	m.logf("revert #%d (%s)", h, why)
	m.twinVer++
	if err := m.twin.BC.RevertHead(); err != nil {
		stats.HarnessError("twin RevertHead(%d): %v", h, err)
	}
	if err := m.s.n.BC.RevertHead(); err != nil {
		m.violation("revert-failed", "RevertHead of block %d (floor %d) failed on the pruned node: %v", h, m.lastF, err)
	}
	m.forgetHead(h)
}

// forgetHead removes the reverted head block h from the model chain.
func (m *machine) forgetHead(h uint64) {
	if m.win != nil {
		m.win.noteReverted(m, h)
	}
	m.dropBlock(m.ch.Blocks[h])
	m.ch = m.ch.Fork(int(h))
}

// reorg is the realistic revert: only blocks above the L1-confirmed head (and above the floor) are undone.
func (m *machine) reorg() bool {
	if m.ch.Height() == 0 {
		return false
	}
	low := m.F()
	if m.l1 != nil && m.l1.BlockNumber > low {
		low = m.l1.BlockNumber
	}
	if m.head() <= low {
		return false
	}
	n := uint64(rapid.IntRange(1, 3).Draw(m.rt, "reorgDepth"))
	for i := uint64(0); i < n && m.head() > low; i++ {
		m.revertHead("reorg above L1 head")
	}
	m.c.Label("reorg")
	m.used("revert")
	if m.cf.minAge > 0 && known(kfMinAgeStaleAfterReorg) {
		// known finding: exclude "prune between a reorg and the next min-age tick" by letting one tick pass
		tick := m.cf.tick
		if tick == 0 {
			tick = 15 * time.Minute
		}
		m.logf("  (one min-age tick passes: %s)", tick+time.Second)
		m.sleep(tick + time.Second)
		m.c.Excluded(kfMinAgeStaleAfterReorg)
	}
	return true
}

// ---------------------------------------------------------------------------------------------------------
// oracles (2) and (3): compare the pruned node with the twin

type obsPair struct{ p, t node.Obs }

// blockOfKey classifies an observation key: (block number, known); global keys return kind "global".
func (m *machine) blockOfKey(k string) (num uint64, kind string) {
	switch {
	case k == "height" || k == "head" || k == "headsheader" || k == "l1head" || strings.HasPrefix(k, "headstate"):
		return 0, "global"
	case strings.HasPrefix(k, "n"):
		var i uint64
		var rest string
		if _, err := fmt.Sscanf(k, "n%d/%s", &i, &rest); err == nil {
			return i, "num:" + rest
		}
	case strings.HasPrefix(k, "h"):
		parts := strings.SplitN(k[1:], "/", 2)
		var h felt.Felt
		if _, err := h.SetString(parts[0]); err == nil {
			if n, ok := m.numOfHash[h]; ok {
				return n, "hash:" + parts[1]
			}
			return 0, "unknown"
		}
	case strings.HasPrefix(k, "t"):
		parts := strings.SplitN(k[1:], "/", 2)
		var h felt.Felt
		if _, err := h.SetString(parts[0]); err == nil {
			if n, ok := m.numOfTx[h]; ok {
				return n, "tx"
			}
			return 0, "unknown"
		}
	case strings.HasPrefix(k, "m"):
		if n, ok := m.numOfMsg[k[1:]]; ok {
			return n, "msg"
		}
		return 0, "unknown"
	}
	return 0, "global"
}

// compareObs applies oracle (2) to keys of blocks >= f (and of identifiers that are not on the canonical
// chain: both nodes must say the same) and oracle (3) to keys of blocks below f.
func (m *machine) compareObs(where string, o obsPair, f uint64) {
	head := m.head()
	for _, k := range sortedKeys(o.t) {
		pv, tv := o.p[k], o.t[k]
		num, kind := m.blockOfKey(k)
		if kind == "global" {
			if k == "head" || k == "headsheader" {
				num, kind = head, "num:"+k
			} else {
				if pv != tv {
					m.violation("global-differs", "%s: %s differs: pruned %s, twin %s", where, k, clip(pv), clip(tv))
				}
				continue
			}
		}
		if kind == "unknown" || num >= f {
			if pv != tv {
				m.violation("retained-block-differs", "%s: %s (block %d >= floor %d) differs:\n   pruned: %s\n   twin:   %s", where, k, num, f, clip(pv), clip(tv))
			}
			continue
		}
		// documented carve-outs below the floor: headers of the BlockHashLag blocks below it (read by number),
		// and the hash->number mapping of floor-1
		if num+core.BlockHashLag >= f && (kind == "num:header" || kind == "num:hash" || kind == "num:headsheader") {
			if pv != tv {
				m.violation("lag-header-missing", "%s: %s (block %d within BlockHashLag below floor %d) differs:\n   pruned: %s\n   twin:   %s", where, k, num, f, clip(pv), clip(tv))
			}
			continue
		}
		if num+1 == f && kind == "hash:number" {
			if pv != tv && !m.noParentMapping {
				m.violation("parent-hash-mapping-missing", "%s: %s (hash->number of floor-1 = %d) differs: pruned %s, twin %s", where, k, num, clip(pv), clip(tv))
			}
			continue
		}
		if _, asked := o.p[k]; !asked {
			continue // per-index keys exist only when the node itself listed that many transactions
		}
		if !isErr(pv) && pv != tv {
			m.violation("partial-data-below-floor", "%s: %s (block %d < floor %d) answered with a value that differs from the unpruned twin:\n   pruned: %s\n   twin:   %s", where, k, num, f, clip(pv), clip(tv))
		}
		if isErr(pv) {
			m.c.Info("below-floor-answers-error")
		} else {
			m.c.Info("below-floor-answers-exact")
		}
	}
}

type view struct {
	tag string
	num uint64
	by  string // "num" | "hash" | "head"
}

func (m *machine) openView(n *node.Node, v view) (core.StateReader, error) {
	switch v.by {
	case "num":
		r, _, err := n.BC.StateAtBlockNumber(v.num)
		return r, err
	case "hash":
		r, _, err := n.BC.StateAtBlockHash(m.ch.Blocks[v.num].B.Hash)
		return r, err
	default:
		r, _, err := n.BC.HeadState()
		return r, err
	}
}

// scopeFor: every slot ever written by a generated block (plus one never-written slot); class reads for
// one view in three.
func (m *machine) scopeFor(v view) scope {
	sc := scope{pairs: append([]pair{}, m.written...)}
	sc.pairs = append(sc.pairs, pair{m.u.Addrs[0], gen.F(0xdead0001)})
	sc.classes = rapid.IntRange(0, 2).Draw(m.rt, "classReads") == 0
	return sc
}

// fixedScope is the scope without draws, for copy-vs-copy summaries.
func (m *machine) fixedScope() scope { return scope{pairs: append([]pair{}, m.written...)} }

// diffPairs lists the storage slots a block writes, sorted.
func diffPairs(b *gen.Block) []pair {
	var out []pair
	for a, kv := range b.SU.StateDiff.StorageDiffs {
		for k := range kv {
			out = append(out, pair{a, k})
		}
	}
	sort.Slice(out, func(i, j int) bool {
		if c := out[i].a.Cmp(&out[j].a); c != 0 {
			return c < 0
		}
		return out[i].k.Cmp(&out[j].k) < 0
	})
	return out
}

// compareStateView: must == the view is required to answer exactly (blocks >= floor-1, head); otherwise it may
// fail, but whatever it answers must be the twin's answer.
func (m *machine) compareStateView(where string, s *session, v view, must bool, f uint64) {
	defer prof("stateview", wall())
	desc := fmt.Sprintf("%s: state by %s at block %d (floor %d)", where, v.by, v.num, f)
	rp, errP := m.openView(s.n, v)
	if errP != nil {
		if must {
			m.violation("state-unavailable", "%s cannot be opened: %v", desc, errP)
		}
		m.c.Info("below-floor-state-refused")
		return
	}
	sc := m.scopeFor(v)
	gp := readState(m.u, rp, sc)
	// the unpruned twin is the oracle for every answer; the abstract state (ref.State) additionally for the
	// views that must answer
	{
		rtw, errT := m.openView(m.twin, v)
		if errT != nil {
			stats.HarnessError("twin cannot open state %s %d: %v", v.by, v.num, errT)
		}
		gt := readState(m.u, rtw, sc)
		for _, k := range sortedKeys(gt) {
			if gp[k] == gt[k] {
				continue
			}
			if must {
				m.violation("state-differs", "%s: %s = %s, twin %s", desc, k, gp[k], gt[k])
			}
			if !isErr(gp[k]) {
				m.violation("wrong-state-below-floor", "%s: %s = %s but the unpruned twin says %s (must be refused or exact)", desc, k, gp[k], gt[k])
			}
		}
	}
	if must {
		var st *ref.State
		if v.by == "head" {
			st = m.ch.TipState()
		} else {
			st = m.ch.Blocks[v.num].Post
		}
		want := refState(m.u, st, sc)
		for _, k := range sortedKeys(want) {
			if gp[k] != want[k] {
				m.violation("state-differs-from-model", "%s: %s = %s, abstract state %s", desc, k, gp[k], want[k])
			}
		}
		// contracts that do not exist in the abstract state: not found, or zero storage (tolerance of C03)
		for _, k := range sortedKeys(gp) {
			if _, ok := want[k]; ok || strings.HasPrefix(k, "class/") || strings.HasPrefix(k, "casm/") {
				continue
			}
			if x := gp[k]; x != "!notfound" && !(strings.HasPrefix(k, "storage/") && x == "0x0") {
				m.violation("state-of-missing-contract", "%s: %s = %s for a contract that does not exist in the abstract state", desc, k, x)
			}
		}
	} else {
		m.c.Info("below-floor-state-answered-exact")
	}
}

// midPruneReader returns a commit hook that plays a READER racing with the prune: right after each of the
// first commits of the prune (inside the pruner's goroutine, while the script waits at the barrier) it opens
// the historical state of the blocks whose history the prune is deleting. Whatever is not refused must be
// exactly the twin's answer ("the floor is raised before deleting; readers consult it"). Failures are only
// recorded here (no panics in the service goroutine, no draws) and raised by the script afterwards.
func (m *machine) midPruneReader(s *session, fBefore uint64) func(k int) {
	return func(k int) {
		if k > 3 || m.hookFail != "" || m.ch.Height() == 0 {
			return
		}
		head := m.head()
		sc := m.fixedScope()
		for _, n := range []uint64{fBefore - 1, fBefore, fBefore + 1, fBefore + 2, fBefore + 4} {
			if n > head { // also skips the wrap-around of fBefore-1 at 0
				continue
			}
			v := view{num: n, by: "num"}
			rp, err := m.openView(s.n, v)
			if err != nil {
				m.c.Info("mid-prune-read-refused")
				continue
			}
			rtw, errT := m.openView(m.twin, v)
			if errT != nil {
				m.hookKey, m.hookFail = "harness", fmt.Sprintf("twin cannot open state at %d: %v", n, errT)
				return
			}
			gp, gt := readState(m.u, rp, sc), readState(m.u, rtw, sc)
			for _, key := range sortedKeys(gt) {
				if gp[key] != gt[key] && !isErr(gp[key]) {
					m.hookKey = "wrong-state-during-prune"
					m.hookFail = fmt.Sprintf("reader during the prune (after its commit %d; floor before the prune %d): state by number at block %d: %s = %s but the unpruned twin says %s (must be refused or exact)",
						k, fBefore, n, key, gp[key], gt[key])
					return
				}
			}
			m.c.Info("mid-prune-read-answered-exact")
		}
	}
}

func (m *machine) raiseHookFailure() {
	if m.hookFail == "" {
		return
	}
	if m.hookKey == "harness" {
		stats.HarnessError("%s", m.hookFail)
	}
	m.violation(m.hookKey, "%s", m.hookFail)
}

func (m *machine) events(n *node.Node, from, to uint64, addr *felt.Felt, keys [][]felt.Felt) ([]string, error) {
	var addrs []felt.Address
	if addr != nil {
		addrs = []felt.Address{felt.Address(*addr)}
	}
	f, err := n.BC.EventFilter(addrs, keys, func() (blockchain.PreConfirmedReader, error) { return nil, nil })
	if err != nil {
		return nil, err
	}
	defer f.Close()
	if err := f.SetRangeEndBlockByNumber(blockchain.EventFilterFrom, from); err != nil {
		return nil, err
	}
	if err := f.SetRangeEndBlockByNumber(blockchain.EventFilterTo, to); err != nil {
		return nil, err
	}
	var out []string
	var tok *blockchain.ContinuationToken
	for guard := 0; guard < 10000; guard++ {
		evs, next, err := f.Events(tok, 7)
		if err != nil {
			return out, err
		}
		for _, e := range evs {
			out = append(out, fmt.Sprintf("b%d/%s tx%d/%s ev%d from=%s k=%d d=%d", e.BlockNumber, e.BlockHash.ShortString(), e.TransactionIndex,
				e.TransactionHash.ShortString(), e.EventIndex, e.From.ShortString(), len(e.Keys), len(e.Data)))
		}
		if next.IsEmpty() {
			return out, nil
		}
		nt := next
		tok = &nt
	}
	return out, errors.New("continuation tokens do not terminate")
}

func (m *machine) compareEvents(where string, s *session, from, to uint64, addr *felt.Felt, must bool, f uint64) {
	m.compareEventsK(where, s, from, to, addr, nil, must, f)
}

// compareEventsK: event query [from, to] filtered by an optional address and optional per-position key
// alternatives, on the pruned node and on the unpruned twin.
func (m *machine) compareEventsK(where string, s *session, from, to uint64, addr *felt.Felt, keys [][]felt.Felt, must bool, f uint64) {
	defer prof("events", wall())
	ep, errP := m.events(s.n, from, to, addr, keys)
	et, errT := m.events(m.twin, from, to, addr, keys)
	if errT != nil {
		stats.HarnessError("twin event query %d-%d: %v", from, to, errT)
	}
	desc := fmt.Sprintf("%s: events %d-%d addr=%v keys=%d (floor %d)", where, from, to, addr != nil, len(keys), f)
	if len(et) > 0 {
		m.c.Info("event-query-with-matches")
	} else {
		m.c.Info("event-query-without-matches")
	}
	if errP != nil {
		if must {
			m.violation("events-unavailable", "%s failed: %v", desc, errP)
		}
		m.c.Info("below-floor-events-refused")
		return
	}
	if strings.Join(ep, "\n") != strings.Join(et, "\n") {
		key := "events-differ"
		if !must {
			key = "partial-events-below-floor"
		}
		m.violation(key, "%s: pruned node returned %d events, twin %d:\n  pruned %v\n  twin   %v", desc, len(ep), len(et), ep, et)
	}
}

// twinObs is the twin's (state-less) observation, cached until the twin changes.
func (m *machine) twinObs(f uint64) node.Obs {
	defer prof("twinObs", wall())
	if k := m.obsKey(f); m.twinObsC == nil || m.twinAt != m.twinVer || m.twinObsK != k {
		m.twinObsC, m.twinAt, m.twinObsK = m.observe(m.twin, f), m.twinVer, k
	}
	return m.twinObsC
}

// observe evaluates the state-less Reader API of n: over every block of the chain for the ordinary short
// chains; for base-chain cases over the windows of obsRanges(f) (see window_test.go).
func (m *machine) observe(n *node.Node, f uint64) node.Obs {
	if m.win == nil {
		return n.Observe(m.ids)
	}
	return m.observeWindows(n, f)
}

func (m *machine) obsKey(f uint64) string {
	if m.win == nil {
		return ""
	}
	return fmt.Sprint(m.obsRanges(f))
}

// checkNode runs oracles (2) and (3) for session s (the main pruned node or an interrupted copy).
var profT = map[string]int64{}

func prof(k string, t0 int64) { profT[k] += wall() - t0 }

func (m *machine) checkNode(where string, s *session, f uint64, light bool) {
	defer prof("checkNode", wall())
	if m.ch.Height() == 0 {
		return
	}
	head := m.head()
	o := obsPair{p: m.observe(s.n, f), t: m.twinObs(f)}
	m.compareObs(where, o, f)
	// state views: head state; floor-1 (by number and by hash) and floor; drawn retained and pruned blocks
	type vm struct {
		v    view
		must bool
	}
	views := []vm{{view{by: "head"}, true}}
	num := func(n uint64, must bool) { views = append(views, vm{view{num: n, by: "num"}, must}) }
	hash := func(n uint64, must bool) { views = append(views, vm{view{num: n, by: "hash"}, must}) }
	if head >= f {
		if f > 0 && f-1 <= head {
			num(f-1, true)
			hash(f-1, !m.noParentMapping)
		}
		if f < head {
			num(f, true)
		}
		if !light {
			num(head, true)
			hash(head, true)
			hash(f, true)
			if head > f+1 {
				d := f + 1 + uint64(gen.Uniform(m.rt, int(head-f-1), "stateBlock"))
				num(d, true)
				hash(d, true)
			}
		}
	} else if f > 0 && f-1 == head {
		num(head, true)
		hash(head, !m.noParentMapping)
	}
	if f >= 2 {
		d := uint64(gen.Uniform(m.rt, int(f-1), "prunedStateBlock"))
		num(d, false)
		hash(d, false)
		if !light && f >= 3 {
			num(f-2, false)
		}
	}
	for _, v := range views {
		m.compareStateView(where, s, v.v, v.must, f)
	}
	// event queries
	if m.win != nil {
		m.win.eventChecks(m, where, s, f, light)
		return
	}
	if head >= f {
		m.compareEvents(where, s, f, head, nil, true, f)
		if !light {
			a := rapid.SampledFrom(m.u.Addrs).Draw(m.rt, "evAddr")
			lo := f + uint64(gen.Uniform(m.rt, int(head-f+1), "evFrom"))
			m.compareEvents(where, s, lo, head+uint64(rapid.IntRange(0, 2).Draw(m.rt, "evBeyond")), &a, true, f)
		}
	}
	if f > 0 {
		lo := uint64(gen.Uniform(m.rt, int(f), "evFromPruned"))
		m.compareEvents(where, s, lo, head, nil, false, f)
	}
}

func (m *machine) query() {
	m.c.Fp("query")
	m.logf("query (floor %d, head %d)", m.F(), m.ch.Height()-1)
	m.checkNode("query", m.s, m.F(), false)
	m.c.Label("query")
	m.used("query")
}

// ---------------------------------------------------------------------------------------------------------
// fault points: interruption of one prune after each of its commits

// summary is the observation used to compare two copies of the pruned node with each other (oracle 5).
func (m *machine) summary(s *session) node.Obs {
	defer prof("summary", wall())
	f, _, _ := oldest(s.db)
	o := m.observe(s.n, f) // whole Reader API without state
	o["oldest-retained"] = fmt.Sprint(f)
	if m.ch.Height() == 0 {
		return o
	}
	head := m.head()
	add := func(tag string, v view) {
		r, err := m.openView(s.n, v)
		if err != nil {
			o["state/"+tag] = errStr(err)
			return
		}
		for k, x := range readState(m.u, r, m.fixedScope()) {
			o["state/"+tag+"/"+k] = x
		}
	}
	add("head", view{by: "head"})
	for _, n := range []uint64{head, f, f - 1, f - 2, (f + head) / 2} {
		if n <= head { // f-1, f-2 wrap around when f < 2
			add(fmt.Sprintf("num%d", n), view{num: n, by: "num"})
			add(fmt.Sprintf("hash%d", n), view{num: n, by: "hash"})
		}
	}
	for _, from := range []uint64{0, f - 1, f, f + 1} {
		if from <= head {
			evs, err := m.events(s.n, from, head, nil, nil)
			o[fmt.Sprintf("events/%d-", from)] = val(strings.Join(evs, ";"), err)
		}
	}
	return o
}

// interrupt replays the event that just pruned on copies of the pre-event database image pre:
//   - a reference copy where the prune runs to completion (it also records a crash image after every commit),
//   - for chosen k: a restart on the crash image after the k-th commit,
//   - for chosen k: a copy where the pruner's context is cancelled when the k-th commit happens (shutdown).
//
// Every interrupted copy is restarted (new Blockchain, floor, Pruner), must satisfy oracles (2),(3) as it is,
// then receives the same event again and must end observationally equal to the reference copy.
func (m *machine) interrupt(pre imageDB, deliver func(s *session, base *uint64), what string, l2 bool) {
	defer prof("interrupt", wall())
	if m.probes >= stats.Pick(2, 3) {
		return
	}
	m.probes++
	cf := m.cf
	if l2 {
		cf.l2Per = 1 // a fresh pruner must prune on this very event
	}
	f0, _ := floorOf(pre, 0)
	ref := newFdbOn(pre.Image())
	var images []imageDB
	sr, err := m.startSession(ref, cf)
	if err != nil {
		m.violation("restart-failed", "start on a copy of the database before %s failed: %v", what, err)
	}
	ref.arm(func(int) { images = append(images, ref.inner.Image()) })
	baseR := f0
	deliver(sr, &baseR)
	ref.arm(nil)
	if baseR == f0 {
		sr.stop()
		m.c.Label("probe-without-prune")
		return
	}
	ncommits := len(images)
	m.logf("probe: %s prunes [%d,%d) in %d commits on a fresh copy", what, f0, baseR, ncommits)
	m.checkNode("reference copy after "+what, sr, baseR, true)
	want := m.summary(sr)
	sr.stop()
	m.c.Labelf("probe-commits-%s", bucket(ncommits))

	ks := map[int]bool{}
	if stats.Thorough() || ncommits <= 3 {
		for k := 1; k <= ncommits && k <= 48; k++ {
			ks[k] = true
		}
	} else {
		ks[1], ks[ncommits], ks[ncommits-1] = true, true, true
		ks[1+gen.Uniform(m.rt, ncommits, "faultK")] = true
	}
	var order []int
	for k := range ks {
		order = append(order, k)
	}
	sort.Ints(order)
	for _, k := range order {
		for _, mode := range []string{"crash", "cancel"} {
			if !stats.Thorough() && ncommits > 3 && rapid.IntRange(0, 2).Draw(m.rt, "skipFault") == 0 {
				continue
			}
			var d *fdb
			graceful := false
			where := fmt.Sprintf("%s after commit %d/%d of the prune triggered by %s", mode, k, ncommits, what)
			if mode == "crash" && k < ncommits && known(kfCrashMidPrune) {
				m.c.Excluded(kfCrashMidPrune)
				continue
			}
			if mode == "crash" {
				d = newFdbOn(images[k-1].Image())
			} else {
				d = newFdbOn(pre.Image())
				sc, err := m.startSession(d, cf)
				if err != nil {
					m.violation("restart-failed", "%s: start failed: %v", where, err)
				}
				d.arm(func(n int) {
					if n == k {
						sc.cancelNow()
					}
				})
				baseC := f0
				deliver(sc, &baseC) // the handler finishes its current iteration; Run then observes ctx.Done
				d.arm(nil)
				graceful = rapid.Bool().Draw(m.rt, "gracefulAfterCancel")
				if graceful {
					if err := sc.n.BC.WriteRunningEventFilter(); err != nil {
						m.violation("snapshot-write", "%s: WriteRunningEventFilter: %v", where, err)
					}
				}
				sc.stop()
				if sc.runErr != nil {
					m.violation("pruner-run-error", "%s: pruner.Run returned %v", where, sc.runErr)
				}
			}
			m.c.Fp("fault %s %d/%d", mode, k, ncommits)
			m.logf("  fault: %s (graceful=%v)", where, graceful)
			si, err := m.startSession(d, cf)
			if err != nil {
				m.violation("restart-failed", "%s: restart failed: %v", where, err)
			}
			fi, err := floorOf(d, 0)
			if err != nil {
				m.violation("oldest-retained-error", "%s: %v", where, err)
			}
			if fi > baseR {
				m.violation("floor-above-bound", "%s: oldest retained block %d above the uninterrupted prune's %d", where, fi, baseR)
			}
			if fi < baseR && known(kfCancelParentMapping) { // the prune stopped short: cancelled in its loop, or died between batches
				m.noParentMapping = true
				m.c.Excluded(kfCancelParentMapping)
			}
			m.checkNode("restarted after "+where, si, fi, true)
			m.noParentMapping = false
			baseI := fi
			deliver(si, &baseI)
			got := m.summary(si)
			if dd := node.Diff(got, want, 6); len(dd) > 0 {
				m.violation("interrupted-prune-does-not-converge", "%s, restart, same event again: node differs from the copy whose prune was never interrupted:\n   %s", where, strings.Join(dd, "\n   "))
			}
			si.stop()
			m.c.Label("fault-" + mode)
			if k < ncommits {
				m.c.Label("fault-mid-prune-" + mode)
			}
		}
	}
	m.used("restart")
}

func bucket(n int) string {
	switch {
	case n <= 2:
		return fmt.Sprint(n)
	case n <= 5:
		return "3-5"
	case n <= 15:
		return "6-15"
	default:
		return ">15"
	}
}

// ---------------------------------------------------------------------------------------------------------
// oracle (4): revert down to the floor, below it, and extend again

func (m *machine) deepRevert() { m.deepRevertTo(0) }

// deepRevertTo reverts down to block stop (or to the floor, whichever is higher), optionally restarts there,
// tries to go below the floor when it stands on it, and extends the chain again with a different fork.
func (m *machine) deepRevertTo(stop uint64) {
	f := m.F()
	if m.ch.Height() == 0 || m.head() < f {
		return
	}
	if stop < f {
		stop = f
	}
	m.c.Label("deep-revert")
	m.deep = true
	m.logf("deep revert from %d down to %d (floor %d)", m.head(), stop, f)
	steps := 0
	for m.head() > stop {
		m.revertHead("down to the floor")
		steps++
		if steps%4 == 0 && rapid.Bool().Draw(m.rt, "checkDuringRevert") {
			m.checkNode(fmt.Sprintf("reverted down to %d", m.head()), m.s, f, true)
		}
	}
	m.used("revert")
	m.checkNode(fmt.Sprintf("reverted down to %d", stop), m.s, f, false)
	if steps > 0 && stop == f {
		m.c.Label("reverted-to-floor")
	}
	if rapid.IntRange(0, 2).Draw(m.rt, "restartAtFloor") == 0 {
		m.restart()
		m.checkNode("restarted after the deep revert", m.s, f, true)
	}
	if f > 0 && stop == f && rapid.IntRange(0, 2).Draw(m.rt, "belowFloor") > 0 {
		m.belowFloor(f)
	}
	// extend again
	n := rapid.IntRange(1, 3).Draw(m.rt, "extendAfterRevert")
	if m.win != nil {
		n = m.win.extendAfterRevert(m, n)
	}
	for i := 0; i < n; i++ {
		m.store(false)
	}
	m.checkNode("extended after deep revert", m.s, m.F(), false)
	m.c.Label("extended-after-deep-revert")
}

// belowFloor: the head is the oldest retained block f. Reverting it leaves a head below the floor; a further
// revert needs pruned data. Either must fail cleanly (node unchanged) or behave exactly like the twin.
func (m *machine) belowFloor(f uint64) {
	m.c.Label("revert-below-floor-attempt")
	before := m.observe(m.s.n, f)
	h := m.head()
	m.logf("revert #%d = the oldest retained block (head would fall below the floor)", h)
	err := m.s.n.BC.RevertHead()
	if err != nil {
		m.c.Label("revert-of-floor-block-refused")
		if d := node.Diff(m.observe(m.s.n, f), before, 4); len(d) > 0 {
			m.violation("failed-revert-changed-node", "RevertHead of the floor block %d failed (%v) but changed the node:\n   %s", h, err, strings.Join(d, "\n   "))
		}
		return
	}
	m.c.Label("revert-of-floor-block-succeeded")
	m.twinVer++
	if err := m.twin.BC.RevertHead(); err != nil {
		stats.HarnessError("twin RevertHead(%d): %v", h, err)
	}
	m.forgetHead(h)
	m.checkNode("head reverted below the floor", m.s, f, true)
	if m.ch.Height() == 0 {
		return
	}
	// a second revert would need the pruned block f-1
	before = m.observe(m.s.n, f)
	err = m.s.n.BC.RevertHead()
	m.logf("revert #%d (pruned block) -> %v", m.head(), err)
	if err == nil {
		m.violation("revert-of-pruned-block-succeeded", "RevertHead of block %d, which lies below the floor %d (its state update and transactions are pruned), reported success", m.head(), f)
	}
	m.c.Label("revert-of-pruned-block-refused")
	if d := node.Diff(m.observe(m.s.n, f), before, 4); len(d) > 0 {
		m.violation("failed-revert-changed-node", "RevertHead of pruned block %d failed (%v) but changed the node:\n   %s", m.head(), err, strings.Join(d, "\n   "))
	}
}

// ---------------------------------------------------------------------------------------------------------
// the property

func drawCfg(rt *rapid.T) cfg {
	cf := cfg{
		newState: rapid.IntRange(0, 2).Draw(rt, "backend") == 2,
		retained: rapid.SampledFrom([]uint64{0, 0, 1, 1, 2, 2, 5, 5, 5, 1000}).Draw(rt, "retained"),
		l2Per:    rapid.SampledFrom([]uint64{1, 3}).Draw(rt, "l2HeadsPerPrune"),
		batch:    rapid.SampledFrom([]int{1, 1, 0}).Draw(rt, "batch"),
	}
	if rapid.IntRange(0, 2).Draw(rt, "minAgeOn") > 0 {
		cf.minAge = time.Hour
		cf.tick = rapid.SampledFrom([]time.Duration{0, 0, time.Minute}).Draw(rt, "tick")
	}
	return cf
}

// newMachine labels the configuration, sets the virtual clock (chain epoch + offset) and starts the twin and the
// pruned node on empty databases. The caller must defer m.stopAll().
func newMachine(t *testing.T, rt *rapid.T, c *stats.Case, cf cfg, offset time.Duration) *machine {
	u := gen.NewUniverse(rt)
	m := &machine{t: t, rt: rt, c: c, cf: cf, u: u,
		ch:         gen.NewChain(u, gen.Opts{MaxTxs: 2, MaxEvents: 2, DenseEvents: true, MinVersionIdx: rapid.IntRange(0, 3).Draw(rt, "minver")}),
		ids:        &node.Ids{NoState: true},
		writtenSet: map[pair]bool{}, numOfHash: map[felt.Felt]uint64{}, numOfTx: map[felt.Felt]uint64{}, numOfMsg: map[string]uint64{},
	}
	c.Fp("%s", cf)
	c.Labelf("backend-%s", map[bool]string{false: "legacy", true: "trie2"}[cf.newState])
	c.Labelf("retained-%d", cf.retained)
	c.Labelf("l2HeadsPerPrune-%d", cf.l2Per)
	c.Labelf("batch-%d", cf.batch)
	c.Labelf("minAge-%s", cf.minAge)
	time.Sleep(time.Unix(chainEpoch, 0).Add(offset).Sub(time.Now()))
	c.Fp("offset %s", offset)
	c.Labelf("clock-offset-%s", offset)
	m.logf("config %s; clock offset %s", cf, offset)
	m.twin = node.New(cf.newState, newFdb(memory.New()), u.Net) // same wrapper (cheap batch reads), no fault hooks
	return m
}

func (m *machine) stopAll() {
	for _, s := range m.all {
		s.stop()
	}
}

func (m *machine) finish() {
	c := m.c
	if m.pruned > 0 && m.afterUse {
		c.NonTrivial("prune-deleted-blocks-then-query/revert/restart")
	}
	if m.pruned == 0 {
		c.Label("nothing-pruned")
	}
	c.Labelf("chain-%s", map[bool]string{true: ">=30", false: "<30"}[m.ch.Height() >= 30])
	hist := append([]string{}, m.hist...)
	cf, pruned, lastF := m.cf, m.pruned, m.lastF
	c.Sample(func() any {
		if len(hist) > 60 {
			hist = append(hist[:30:30], hist[len(hist)-30:]...)
		}
		return map[string]any{"config": cf.String(), "blocks_pruned": pruned, "final_floor": lastF, "history": hist}
	})
}

func runCase(t *testing.T, rt *rapid.T, c *stats.Case) {
	cf := drawCfg(rt)
	// virtual clock: the chain's first timestamp plus an offset (0 = the node follows the tip: blocks arrive
	// fresh; hours = the first blocks arrive old and the node catches up with the clock; years = deep catch-up)
	offset := rapid.SampledFrom([]time.Duration{0, 0, 45 * time.Minute, 3 * time.Hour, 20 * time.Hour, 3 * 365 * 24 * time.Hour}).Draw(rt, "clockOffset")
	// a fifth of the cases start WITHOUT --prune-mode and enable it at a later restart (history-prune migration)
	late := rapid.IntRange(0, 4).Draw(rt, "lateEnable") == 0
	exclNewState := false
	if late && cf.newState && known(kfMigNewState) {
		cf.newState, exclNewState = false, true
	}
	m := newMachine(t, rt, c, cf, offset)
	defer m.stopAll()
	if exclNewState {
		c.Excluded(kfMigNewState)
	}
	if late && known(kfMigZeroAbsent) {
		m.ch.Opt.NoZeroToAbsent = true
	}
	var s *session
	var err error
	if late {
		c.Label("starts-without-pruning")
		c.Fp("late")
		m.logf("node starts without --prune-mode")
		s, err = m.startPlain(newFdb(memory.New()), cf)
	} else {
		m.pruning = true
		s, err = m.startSession(newFdb(memory.New()), cf)
	}
	if err != nil {
		m.violation("restart-failed", "start on an empty database failed: %v", err)
	}
	m.s = s

	// phase 1: get beyond BlockHashLag, with L1 heads sprinkled in
	warm := rapid.IntRange(11, 22).Draw(rt, "warmBlocks")
	for m.ch.Height() < warm {
		m.store(false)
		if rapid.IntRange(0, 5).Draw(rt, "warmL1") == 0 {
			m.setL1(false)
		}
	}
	// phase 2: interleaved script
	target := warm + 4 + gen.Uniform(rt, 35, "moreBlocks")
	nsteps := 8 + gen.Uniform(rt, 70, "nsteps")
	restarts := 0
	for i := 0; i < nsteps; i++ {
		a := rapid.SampledFrom([]string{"store", "store", "store", "store", "store", "store", "store", "store", "l1", "l1", "l1", "l1", "idle", "restart", "query", "query", "reorg"}).Draw(rt, "action")
		// fault probe: the event of this step is replayed on copies with interruptions if it prunes
		probe := (a == "store" || a == "l1") && m.probes < stats.Pick(2, 3) && rapid.IntRange(0, 2).Draw(rt, "probe") == 0
		switch a {
		case "store":
			if m.ch.Height() >= target {
				m.query()
				continue
			}
			m.store(probe)
		case "l1":
			m.setL1(probe)
		case "idle":
			m.idle()
		case "restart":
			if restarts >= 3 {
				m.query()
				continue
			}
			restarts++
			m.restart()
		case "query":
			m.query()
		case "reorg":
			if !m.reorg() {
				m.store(false)
			}
		}
	}
	if !m.pruning { // late-enable case that never restarted: enable now
		if m.l1 == nil {
			m.setL1(false)
		}
		m.forceEnable = true
		m.restart()
		for i := rapid.IntRange(0, 6).Draw(rt, "afterEnable"); i > 0; i-- {
			if rapid.Bool().Draw(rt, "afterEnableL1") {
				m.setL1(false)
			} else {
				m.store(false)
			}
		}
	}
	m.query()
	if rapid.IntRange(0, 2).Draw(rt, "deep") > 0 {
		m.deepRevert()
	}
	if m.ch.Height() > 0 {
		m.query()
	}
	m.finish()
}

const rule = "per case (inside a synctest bubble with a virtual clock): config drawn from backend {legacy, trie2} x retained {0,1,2,5,1000} x l2HeadsPerPrune {1,3} x target batch size {1 byte, default} x min-age {0, 1h (tick default|1m)} x clock offset {0, 45m, 3h, 20h, 3y}; a fifth of the cases start without --prune-mode and enable it at a later restart (history-prune migration run where node.Run runs it); 11-22 warm-up blocks then a script of 8-77 steps over store (generated or empty block, occasionally stamped minutes before the virtual now, arrival time >= its timestamp, new-head event to the real pruner.Run loop) / L1 head (lagging, equal, ahead; event before or after the write) / idle (virtual minutes-hours, min-age ticks fire) / restart (graceful or not: new Blockchain+floor+Pruner on the same DB, wired as node.New does) / reorg above the L1 head / query; a third of the store/L1 steps are fault probes (crash image after, or context cancelled at, the k-th commit of the prune just triggered, on copies: restart, check, resume, compare with the uninterrupted copy); after each of the first commits of every prune a reader opens the state of the blocks being pruned; optional final revert down to the floor, attempt below it, re-extension. Oracles vs an unpruned twin: floor <= high-water of min(L1, head)-retained and no block younger than min-age pruned; every Reader answer, state (by number and hash, from floor-1) and event query for blocks >= floor equal the twin (and the abstract state); headers of the BlockHashLag blocks below the floor and the hash->number of floor-1 kept; below the floor refused or exactly the twin's answer. Non-trivial = a prune deleted >= 1 block and a query, revert or restart followed."

func TestPropPruning(t *testing.T) {
	stats.Check(t, stats.Budget{Quick: 80, Thorough: 700}, rule, func(rt *rapid.T, c *stats.Case) {
		t0 := wall()
		bubble(t, func() { runCase(t, rt, c) })
		prof("case", t0)
	})
	if os.Getenv("C16_PROF") != "" {
		fmt.Println("PROF(ms):", profT)
	}
}

// ---------------------------------------------------------------------------------------------------------
// biased skeleton: min-age floor around a reorg
//
// The uniform script rarely lines up "the min-age sample sits at or just below the head" with "a reorg
// replaces blocks below the sample by younger blocks" and "the pivot passes them before the next tick".
// This skeleton builds exactly that neighbourhood and leaves the rest to the generator.

const ruleMinAge = "skeleton (synctest bubble, virtual clock, min-age 1h, retained {0,1,2}, l2HeadsPerPrune {1,3}, both backends, batch {1, default}): 12-20 blocks that are 1.5-20 h old on arrival, L1 head 3-6 below the head; the min-age floor is sampled (restart = start-up seed, or an idle period with ticks); reorg of 1-3 blocks above the L1 head; replacement and further blocks are stamped minutes before the virtual now; L1 heads (just below / at / ahead of the head), stores, occasional short idles and queries follow. Same oracles as TestPropPruning (floor bound, no block younger than min-age pruned at the moment of the prune, twin/abstract-state equality from floor-1, refusal or exact answers below). Non-trivial = a prune deleted >= 1 block after the reorg and a query followed."

func runMinAgeReorg(t *testing.T, rt *rapid.T, c *stats.Case) {
	cf := cfg{
		newState: rapid.IntRange(0, 2).Draw(rt, "backend") == 2,
		retained: rapid.SampledFrom([]uint64{0, 1, 2}).Draw(rt, "retained"),
		l2Per:    rapid.SampledFrom([]uint64{1, 3}).Draw(rt, "l2HeadsPerPrune"),
		batch:    rapid.SampledFrom([]int{1, 0}).Draw(rt, "batch"),
		minAge:   time.Hour,
		tick:     rapid.SampledFrom([]time.Duration{0, 0, time.Minute}).Draw(rt, "tick"),
	}
	offset := rapid.SampledFrom([]time.Duration{90 * time.Minute, 3 * time.Hour, 20 * time.Hour}).Draw(rt, "clockOffset")
	m := newMachine(t, rt, c, cf, offset)
	defer m.stopAll()
	m.pruning = true
	s, err := m.startSession(newFdb(memory.New()), cf)
	if err != nil {
		m.violation("restart-failed", "start on an empty database failed: %v", err)
	}
	m.s = s
	n0 := rapid.IntRange(12, 20).Draw(rt, "oldBlocks")
	for m.ch.Height() < n0 {
		m.store(false)
	}
	// L1 head a few blocks below the head, so that the reorg stays above it
	lag := uint64(rapid.IntRange(3, 6).Draw(rt, "l1lag"))
	h := &core.L1Head{BlockNumber: m.head() - lag, BlockHash: m.ch.Blocks[m.head()-lag].B.Hash, StateRoot: m.ch.Blocks[m.head()-lag].B.GlobalStateRoot}
	m.logf("L1 head := %d (local head %d)", h.BlockNumber, m.head())
	c.Fp("l1 %d", h.BlockNumber)
	m.noteBound(h.BlockNumber, true)
	m.twinVer++
	if err := m.twin.BC.SetL1Head(h); err != nil {
		stats.HarnessError("twin SetL1Head: %v", err)
	}
	if err := m.s.n.BC.SetL1Head(h); err != nil {
		m.violation("set-l1-head", "SetL1Head: %v", err)
	}
	m.l1 = h
	before, after := m.sendL1(m.s, h, &m.lastF)
	m.notePruned(before, after, "L1")
	// sample the min-age floor: start-up seed or ticks
	if rapid.Bool().Draw(rt, "sampleByRestart") {
		m.restart()
	} else {
		m.idle()
	}
	if !m.reorg() {
		stats.HarnessError("skeleton: reorg impossible (head %d, L1 %d)", m.head(), h.BlockNumber)
	}
	prunedBefore := m.pruned
	m.freshTips = true
	nsteps := rapid.IntRange(4, 14).Draw(rt, "nsteps")
	for i := 0; i < nsteps; i++ {
		switch rapid.SampledFrom([]string{"store", "store", "store", "l1", "l1", "query", "shortIdle"}).Draw(rt, "action") {
		case "store":
			m.store(false)
		case "l1":
			m.setL1(false)
		case "query":
			m.query()
		case "shortIdle":
			d := time.Duration(rapid.IntRange(10, 300).Draw(rt, "shortIdle")) * time.Second
			m.c.Fp("idle %s", d)
			m.logf("idle %s", d)
			m.sleep(d)
		}
	}
	m.query()
	if m.pruned > prunedBefore {
		c.Label("pruned-after-reorg")
	}
	m.finish()
}

func TestPropMinAgeAroundReorg(t *testing.T) {
	stats.Check(t, stats.Budget{Quick: 40, Thorough: 300}, ruleMinAge, func(rt *rapid.T, c *stats.Case) {
		bubble(t, func() { runMinAgeReorg(t, rt, c) })
	})
}
