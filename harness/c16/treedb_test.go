package c16

import (
	"errors"
	"slices"
	"strings"
	"sync"

	"github.com/NethermindEth/juno/db"
	"github.com/NethermindEth/juno/db/dbutils"
	"github.com/NethermindEth/juno/db/memory"
	"github.com/RaduBerinde/btreemap"
)

// imageDB is what the commit-counting wrapper (fdb) sits on: a db.KeyValueStore of which independent
// copies ("database images": crash images, twins, per-case clones of a base chain) can be taken.
type imageDB interface {
	db.KeyValueStore
	Image() imageDB
}

// memImg: juno's own memory.Database (a Go map; copies are deep, iterators and range deletes scan the whole
// map). Used by every case on the ordinary short chains, as before.
type memImg struct{ *memory.Database }

func (m memImg) Image() imageDB { return memImg{m.Database.Copy()} }

// tdb is an ordered in-memory db.KeyValueStore for the cases that run on base chains of 8 000 - 16 000 blocks,
// where memory.Database is unusable (a 16 000-block image has ~85 000 keys: every iterator - and the legacy
// state opens one per historical read, OldestRetainedBlock one per call - and every DeleteRange scans and
// sorts all of them; a commit-per-block prune of such a chain takes minutes). It is a copy-on-write B-tree
// (github.com/RaduBerinde/btreemap, the tree Pebble v2 itself depends on): point operations O(log n),
// iterators walk the tree lazily over an O(1) snapshot, images are O(1).
//
// Its observable behaviour mirrors memory.Database operation by operation (same batch semantics: ordered
// writes, range deletions applied at Write time and consulted by the batch's own reads; iterators are
// snapshots restricted to the prefix; same positions before-first / past-the-end); TestSelfTreeDB checks the
// equivalence on random operation sequences.
type tdb struct {
	mu     sync.RWMutex
	t      *btreemap.BTreeMap[string, []byte]
	closed bool
}

var (
	errTdbClosed      = errors.New("c16 tree database closed")
	errTdbBatchClosed = errors.New("c16 tree batch closed")
	errTdbIterClosed  = errors.New("c16 tree iterator closed")
)

var _ imageDB = (*tdb)(nil)

func newTdb() *tdb { return &tdb{t: btreemap.New[string, []byte](32, strings.Compare)} }

func (d *tdb) Image() imageDB { return d.image() }

func (d *tdb) image() *tdb {
	d.mu.Lock() // Clone re-labels the copy-on-write context of the original
	defer d.mu.Unlock()
	return &tdb{t: d.t.Clone()}
}

func (d *tdb) Len() int {
	d.mu.RLock()
	defer d.mu.RUnlock()
	return d.t.Len()
}

func (d *tdb) Has(key []byte) (bool, error) {
	d.mu.RLock()
	defer d.mu.RUnlock()
	if d.closed {
		return false, errTdbClosed
	}
	return d.t.Has(string(key)), nil
}

func (d *tdb) Get(key []byte, cb func([]byte) error) error {
	d.mu.RLock()
	defer d.mu.RUnlock()
	if d.closed {
		return errTdbClosed
	}
	_, v, ok := d.t.Get(string(key))
	if !ok {
		return db.ErrKeyNotFound
	}
	return cb(v)
}

func (d *tdb) Put(key, value []byte) error {
	d.mu.Lock()
	defer d.mu.Unlock()
	if d.closed {
		return errTdbClosed
	}
	d.t.ReplaceOrInsert(string(key), slices.Clone(value))
	return nil
}

func (d *tdb) Delete(key []byte) error {
	d.mu.Lock()
	defer d.mu.Unlock()
	if d.closed {
		return errTdbClosed
	}
	d.t.Delete(string(key))
	return nil
}

// deleteRange removes [start, end) from t (caller holds the lock).
func treeDeleteRange(t *btreemap.BTreeMap[string, []byte], start, end string) {
	if start >= end {
		return
	}
	var ks []string
	for k := range t.Ascend(btreemap.GE(start), btreemap.LT(end)) {
		ks = append(ks, k)
	}
	for _, k := range ks {
		t.Delete(k)
	}
}

func (d *tdb) DeleteRange(start, end []byte) error {
	d.mu.Lock()
	defer d.mu.Unlock()
	if d.closed {
		return errTdbClosed
	}
	treeDeleteRange(d.t, string(start), string(end))
	return nil
}

func (d *tdb) Close() error {
	d.mu.Lock()
	defer d.mu.Unlock()
	d.closed = true
	return nil
}

func (d *tdb) Path() string                                   { return "" }
func (d *tdb) Impl() any                                      { return d.t }
func (d *tdb) WithListener(db.EventListener) db.KeyValueStore { return d }

func (d *tdb) NewIterator(prefix []byte, withUpperBound bool) (db.Iterator, error) {
	d.mu.Lock()
	defer d.mu.Unlock()
	if d.closed {
		return nil, errTdbClosed
	}
	return newTreeIter(d.t.Clone(), prefix), nil
}

func (d *tdb) NewSnapshot() db.Snapshot {
	if d.closed {
		panic(errTdbClosed)
	}
	return d.image()
}

func (d *tdb) NewBatch() db.Batch                          { return newTreeBatch(d) }
func (d *tdb) NewBatchWithSize(int) db.Batch               { return newTreeBatch(d) }
func (d *tdb) NewIndexedBatch() db.IndexedBatch            { return newTreeBatch(d) }
func (d *tdb) NewIndexedBatchWithSize(int) db.IndexedBatch { return newTreeBatch(d) }

func (d *tdb) Update(fn func(db.IndexedBatch) error) error {
	if d.closed {
		return errTdbClosed
	}
	b := d.NewIndexedBatch()
	if err := fn(b); err != nil {
		return err
	}
	return b.Write()
}

func (d *tdb) Write(fn func(db.Batch) error) error {
	if d.closed {
		return errTdbClosed
	}
	b := d.NewBatch()
	if err := fn(b); err != nil {
		return err
	}
	return b.Write()
}

// ---- iterator: the keys that carry the prefix, in order, over an immutable snapshot of the tree.
// memory.Database restricts an iterator to the prefix whether or not an upper bound is requested.

type treeIter struct {
	s      *btreemap.BTreeMap[string, []byte]
	prefix string
	upper  string // exclusive end of the prefix range; unbounded when noUpper
	noUp   bool
	pos    int // -1 before the first key, 0 on key, +1 past the last key
	key    string
	val    []byte
	closed bool
}

func newTreeIter(s *btreemap.BTreeMap[string, []byte], prefix []byte) *treeIter {
	it := &treeIter{s: s, prefix: string(prefix), pos: -1}
	if ub := dbutils.UpperBound(prefix); ub != nil {
		it.upper = string(ub)
	} else {
		it.noUp = true
	}
	return it
}

func (i *treeIter) in(k string) bool { return strings.HasPrefix(k, i.prefix) }

func (i *treeIter) land(k string, v []byte, ok bool, miss int) bool {
	if ok && i.in(k) {
		i.pos, i.key, i.val = 0, k, v
		return true
	}
	i.pos, i.key, i.val = miss, "", nil
	return false
}

func (i *treeIter) first() bool {
	k, v, ok := i.s.SeekGE(i.prefix)
	return i.land(k, v, ok, +1)
}

func (i *treeIter) last() bool {
	if i.noUp {
		k, v, ok := i.s.Max()
		return i.land(k, v, ok, -1)
	}
	k, v, ok := i.s.SeekLT(i.upper)
	return i.land(k, v, ok, -1)
}

func (i *treeIter) mustOpen() {
	if i.closed {
		panic(errTdbIterClosed)
	}
}

func (i *treeIter) Valid() bool {
	i.mustOpen()
	return i.pos == 0
}

func (i *treeIter) First() bool {
	i.mustOpen()
	return i.first()
}

func (i *treeIter) Next() bool {
	i.mustOpen()
	switch i.pos {
	case -1:
		return i.first()
	case 0:
		k, v, ok := i.s.SeekGT(i.key)
		return i.land(k, v, ok, +1)
	default:
		return false
	}
}

func (i *treeIter) Prev() bool {
	i.mustOpen()
	switch i.pos {
	case -1:
		// memory (and its model, pebble) restart from the first key
		return i.first()
	case 0:
		k, v, ok := i.s.SeekLT(i.key)
		return i.land(k, v, ok, -1)
	default:
		return i.last()
	}
}

func (i *treeIter) Seek(key []byte) bool {
	i.mustOpen()
	target := string(key)
	if target < i.prefix {
		target = i.prefix
	}
	k, v, ok := i.s.SeekGE(target)
	return i.land(k, v, ok, +1)
}

func (i *treeIter) Key() []byte {
	i.mustOpen()
	if i.pos != 0 {
		return nil
	}
	return []byte(i.key)
}

func (i *treeIter) Value() ([]byte, error) {
	v, err := i.UncopiedValue()
	if err != nil {
		return nil, err
	}
	return slices.Clone(v), nil
}

func (i *treeIter) UncopiedValue() ([]byte, error) {
	if i.closed {
		return nil, errTdbIterClosed
	}
	if i.pos != 0 {
		return nil, errors.New("iterator is not valid")
	}
	return i.val, nil
}

func (i *treeIter) Close() error {
	if i.closed {
		return errTdbIterClosed
	}
	*i = treeIter{closed: true, pos: -1}
	return nil
}

// ---- batch: same model as memory's batch (ordered writes; range deletions are applied at Write time and
// consulted by the batch's own reads)

type treeOp struct {
	key, end string // end is set for a range deletion of [key, end)
	val      []byte
	del, rng bool
	seq      int
}

type treeBatch struct {
	d      *tdb
	writes []treeOp
	latest map[string]treeOp
	ranges []treeOp
	size   int
}

func newTreeBatch(d *tdb) *treeBatch { return &treeBatch{d: d, latest: map[string]treeOp{}} }

func (b *treeBatch) lookup(key string) (treeOp, bool) {
	op, ok := b.latest[key]
	for i := len(b.ranges) - 1; i >= 0; i-- {
		r := b.ranges[i]
		if ok && r.seq < op.seq {
			break
		}
		if key >= r.key && key < r.end {
			return treeOp{key: key, del: true}, true
		}
	}
	return op, ok
}

func (b *treeBatch) Get(key []byte, cb func([]byte) error) error {
	if b.d == nil {
		return errTdbBatchClosed
	}
	if op, ok := b.lookup(string(key)); ok {
		if op.del {
			return db.ErrKeyNotFound
		}
		return cb(op.val)
	}
	return b.d.Get(key, cb)
}

func (b *treeBatch) Has(key []byte) (bool, error) {
	if b.d == nil {
		return false, errTdbBatchClosed
	}
	if op, ok := b.lookup(string(key)); ok {
		return !op.del, nil
	}
	return b.d.Has(key)
}

func applyTreeOps(t *btreemap.BTreeMap[string, []byte], ops []treeOp) {
	for _, op := range ops {
		switch {
		case op.rng:
			treeDeleteRange(t, op.key, op.end)
		case op.del:
			t.Delete(op.key)
		default:
			t.ReplaceOrInsert(op.key, op.val)
		}
	}
}

func (b *treeBatch) NewIterator(prefix []byte, withUpperBound bool) (db.Iterator, error) {
	if b.d == nil {
		return nil, errTdbBatchClosed
	}
	view := b.d.image()
	if view.closed {
		return nil, errTdbClosed
	}
	applyTreeOps(view.t, b.writes)
	return newTreeIter(view.t, prefix), nil
}

func (b *treeBatch) Put(key, value []byte) error {
	if b.d == nil {
		return errTdbBatchClosed
	}
	op := treeOp{key: string(key), val: slices.Clone(value), seq: len(b.writes)}
	b.writes = append(b.writes, op)
	b.latest[op.key] = op
	b.size += len(key) + len(value)
	return nil
}

func (b *treeBatch) Delete(key []byte) error {
	if b.d == nil {
		return errTdbBatchClosed
	}
	op := treeOp{key: string(key), del: true, seq: len(b.writes)}
	b.writes = append(b.writes, op)
	b.latest[op.key] = op
	b.size += len(key)
	return nil
}

func (b *treeBatch) DeleteRange(start, end []byte) error {
	if b.d == nil {
		return errTdbBatchClosed
	}
	op := treeOp{key: string(start), end: string(end), rng: true, seq: len(b.writes)}
	b.writes = append(b.writes, op)
	b.ranges = append(b.ranges, op)
	return nil
}

func (b *treeBatch) Size() int { return b.size }

func (b *treeBatch) Write() error {
	if b.d == nil {
		return errTdbBatchClosed
	}
	b.d.mu.Lock()
	if b.d.closed {
		b.d.mu.Unlock()
		return errTdbClosed
	}
	applyTreeOps(b.d.t, b.writes)
	b.d.mu.Unlock()
	return b.Close()
}

func (b *treeBatch) Close() error {
	if b.d == nil {
		return errTdbBatchClosed
	}
	*b = treeBatch{}
	return nil
}
