package c16

import (
	"context"
	"errors"
	"fmt"
	"testing"
	"testing/synctest"
	"time"

	"github.com/NethermindEth/juno/blockchain"
	"github.com/NethermindEth/juno/blockchain/networks"
	"github.com/NethermindEth/juno/core"
	"github.com/NethermindEth/juno/core/felt"
	"github.com/NethermindEth/juno/db"
	"github.com/NethermindEth/juno/db/memory"
	"github.com/NethermindEth/juno/migration/historyprunner"
	"github.com/NethermindEth/juno/pruner"
	"github.com/NethermindEth/juno/utils/log"

	"verif/harness/internal/gen"
	"verif/harness/internal/node"
	"verif/harness/internal/ref"
	"verif/harness/internal/stats"
)

// Deterministic witnesses of the known findings of C16 (see FINDINGS.md). Each builds the same hand-made
// chain on a pruned (legacy backend, commit-counting database) node and an unpruned twin, drives the exported
// pruner.PruneUpto directly and reports through stats.KnownFindingWitness whether the defect still reproduces.

const witnessBatchDefault = 96 << 20 // pruner's defaultTargetBatchByteSize

// A witness never aborts the process: the tree under test may be a fixed or a mutated one on which its set-up
// no longer works the same way. abortWitness unwinds to runWitness, which records "not reproduced".
type witnessAbort string

func abortWitness(format string, a ...any) { panic(witnessAbort(fmt.Sprintf(format, a...))) }

// runWitness runs body (which returns whether the finding reproduced) for a key that is listed as known.
func runWitness(t *testing.T, key string, body func() bool) {
	if !stats.Known(key) {
		t.Skipf("%s is not listed as known", key)
	}
	reproduced := false
	func() {
		defer func() {
			if r := recover(); r != nil {
				t.Logf("%s: witness could not be evaluated on this tree: %v", key, r)
			}
		}()
		reproduced = body()
	}()
	stats.KnownFindingWitness(t, key, reproduced)
}

// witnessBlock appends a hand-made block with the given diff to ch.
func witnessBlock(ch *gen.Chain, ver string, d *core.StateDiff, classes map[felt.Felt]core.ClassDefinition) *gen.Block {
	return witnessBlockAt(ch, ver, d, classes, chainEpoch+uint64(len(ch.Blocks)))
}

func witnessBlockAt(ch *gen.Chain, ver string, d *core.StateDiff, classes map[felt.Felt]core.ClassDefinition, ts uint64) *gen.Block {
	pre, num, ph := ref.NewState(), uint64(len(ch.Blocks)), felt.Zero
	if num > 0 {
		pre, ph = ch.Blocks[num-1].Post, *ch.Blocks[num-1].B.Hash
	}
	post := pre.Clone()
	if err := post.Apply(num, ver, d, classes, ch.U.CasmV2Of); err != nil {
		abortWitness("witness block %d: %v", num, err)
	}
	one := gen.F(1)
	h := &core.Header{ParentHash: &ph, Number: num, SequencerAddress: &one, Timestamp: ts, ProtocolVersion: ver,
		EventsBloom: core.EventsBloom(nil), L1GasPriceETH: &one, L1GasPriceSTRK: &one,
		L1DataGasPrice: &core.GasPrice{PriceInWei: &one, PriceInFri: &one}, L2GasPrice: &core.GasPrice{PriceInWei: &one, PriceInFri: &one}}
	if classes == nil {
		classes = map[felt.Felt]core.ClassDefinition{}
	}
	b := &gen.Block{B: &core.Block{Header: h, Transactions: []core.Transaction{}, Receipts: []*core.TransactionReceipt{}},
		SU: &core.StateUpdate{StateDiff: d}, Classes: classes, Pre: pre, Post: post, Tags: map[string]bool{}}
	gen.Seal(b, ch.U.Net)
	ch.Blocks = append(ch.Blocks, b)
	return b
}

type witness struct {
	ch   *gen.Chain
	addr felt.Felt
	slot felt.Felt
	twin *node.Node
	d    *fdb
	n    *node.Node
}

// newWitness: 14 blocks on the legacy backend; block 0 declares a class and deploys contract A, and every
// block i writes A[slot] = i+1 (so every block has a storage-history entry and a non-empty prune batch).
func newWitness() *witness {
	s := gen.MakeSierra(3)
	u := &gen.Universe{Net: &networks.Sepolia, Sierra: []*gen.SierraInfo{s}}
	w := &witness{ch: gen.NewChain(u, gen.Opts{}), addr: gen.F(0xa1), slot: gen.F(7)}
	for i := uint64(0); i < 14; i++ {
		d := core.EmptyStateDiff()
		var classes map[felt.Felt]core.ClassDefinition
		if i == 0 {
			d.DeclaredV1Classes[s.Hash] = &s.CasmV1
			d.DeployedContracts[w.addr] = &s.Hash
			classes = map[felt.Felt]core.ClassDefinition{s.Hash: s.Def}
		}
		d.StorageDiffs[w.addr] = map[felt.Felt]*felt.Felt{w.slot: gen.FP(i + 1)}
		witnessBlock(w.ch, "0.13.2", &d, classes)
	}
	w.twin = node.New(false, nil, u.Net)
	w.d = newFdb(memory.New())
	w.n = node.New(false, w.d, u.Net)
	for _, b := range w.ch.Blocks {
		for _, n := range []*node.Node{w.twin, w.n} {
			if err := n.Store(b); err != nil {
				abortWitness("witness: store block %d: %v", b.Num(), err)
			}
		}
	}
	return w
}

// restartOn is a process start on database image d (floor seeded from the database, as node.Run does).
func (w *witness) restartOn(d db.KeyValueStore) *node.Node {
	floor := &pruner.RetentionFloor{}
	n := node.New(false, d, w.ch.U.Net, blockchain.WithRetentionFloor(floor),
		blockchain.WithRunningEventFilterInitializer(pruner.InitializeRunningEventFilter))
	if err := floor.Seed(d); err != nil {
		abortWitness("witness: Seed: %v", err)
	}
	return n
}

func (w *witness) slotAt(n *node.Node, num uint64) (string, error) {
	r, _, err := n.BC.StateAtBlockNumber(num)
	if err != nil {
		return "", err
	}
	v, err := r.ContractStorage(&w.addr, &w.slot)
	return v.String(), err
}

// TestKnownCrashBetweenPruneCommits: PruneUpto(10) with the default batch size makes two commits (hash-keyed
// indexes + state history, then the number-keyed ranges). On the image after the first commit the node
// restarts with oldest retained block 0 (RequireRetained(3) == nil, floor seeded to 0), yet block 3 cannot be
// found by hash any more and the legacy state at block 0 answers A[slot] with the HEAD value instead of 1.
func TestKnownCrashBetweenPruneCommits(t *testing.T) {
	runWitness(t, kfCrashMidPrune, func() bool {
		w := newWitness()
		var image imageDB
		w.d.arm(func(k int) {
			if k == 1 {
				image = w.d.inner.Image()
			}
		})
		if _, _, err := pruner.PruneUpto(context.Background(), w.d, 10, witnessBatchDefault); err != nil {
			abortWitness("witness: PruneUpto: %v", err)
		}
		commits := w.d.count()
		w.d.arm(nil)
		if image == nil {
			abortWitness("witness: PruneUpto made no commit")
		}
		n := w.restartOn(newFdbOn(image))
		oldestBlk, _, _ := oldest(n.DB)
		retained3 := pruner.RequireRetained(n.DB, 3)
		_, errByHash := n.BC.BlockNumberByHash(w.ch.Blocks[3].B.Hash)
		got, errState := w.slotAt(n, 0)
		want, _ := w.slotAt(w.twin, 0)
		reproduced := commits >= 2 && oldestBlk == 0 && retained3 == nil &&
			(errors.Is(errByHash, db.ErrKeyNotFound) || (errState == nil && got != want))
		t.Logf("%s: PruneUpto(10) made %d commits; image after commit 1: oldest retained %d, RequireRetained(3)=%v, BlockNumberByHash(block 3)=%v, state@0 A[slot]=%s (%v), twin %s (reproduced=%v)",
			kfCrashMidPrune, commits, oldestBlk, retained3, errByHash, got, errState, want, reproduced)
		return reproduced
	})
}

// TestKnownCancelledPruneDropsParentMapping: PruneUpto(10) with a 1-byte batch target commits once per block.
// (a) The context is cancelled when the third commit happens: the loop stops at block 3 and the partial window
// [0,3) is flushed. (b) The process dies right after the third commit (crash image). Either way block 3 is now
// the oldest retained block and the documented carve-out (hash->number of the block just below it, needed by
// StateAtBlockHash(parent)) is gone: state at block 2 opens by number, not by hash.
func TestKnownCancelledPruneDropsParentMapping(t *testing.T) {
	runWitness(t, kfCancelParentMapping, func() bool {
		check := func(w *witness, d db.KeyValueStore) (uint64, error, error) {
			n := w.restartOn(d)
			o, _, _ := oldest(n.DB)
			if o == 0 {
				return 0, nil, nil
			}
			_, errNum := w.slotAt(n, o-1)
			_, _, errHash := n.BC.StateAtBlockHash(w.ch.Blocks[o-1].B.Hash)
			return o, errNum, errHash
		}
		// (a) cancellation
		w := newWitness()
		ctx, cancel := context.WithCancel(context.Background())
		defer cancel()
		w.d.arm(func(k int) {
			if k == 3 {
				cancel()
			}
		})
		_, kept, err := pruner.PruneUpto(ctx, w.d, 10, 1)
		w.d.arm(nil)
		if err != nil {
			abortWitness("witness: PruneUpto: %v", err)
		}
		oa, numA, hashA := check(w, w.d)
		cancelRepro := kept > 0 && kept < 10 && oa == kept && numA == nil && errors.Is(hashA, db.ErrKeyNotFound)
		// (b) crash image after the third commit
		w2 := newWitness()
		var image imageDB
		w2.d.arm(func(k int) {
			if k == 3 {
				image = w2.d.inner.Image()
			}
		})
		if _, _, err := pruner.PruneUpto(context.Background(), w2.d, 10, 1); err != nil {
			abortWitness("witness: PruneUpto: %v", err)
		}
		w2.d.arm(nil)
		crashRepro := false
		var ob uint64
		var numB, hashB error
		if image != nil {
			ob, numB, hashB = check(w2, newFdbOn(image))
			crashRepro = ob > 0 && ob < 10 && numB == nil && errors.Is(hashB, db.ErrKeyNotFound)
		}
		t.Logf("%s: cancelled at commit 3: oldest kept %d, state at %d by number: %v, by hash: %v (reproduced=%v); crash image after commit 3: oldest kept %d, by number: %v, by hash: %v (reproduced=%v)",
			kfCancelParentMapping, oa, oa-1, numA, hashA, cancelRepro, ob, numB, hashB, crashRepro)
		return cancelRepro || crashRepro
	})
}

// TestKnownMinAgeSampleStaleAfterReorg drives the real service (pruner.Run inside a synctest bubble, virtual
// clock): min-age 1h, 1 retained block. 18 blocks older than min-age are on disk when the service starts, so
// the start-up sample finds no young block and sets the min-age floor to the head (17). A reorg then replaces
// blocks 16 and 17 by blocks that are 100 s old and the chain grows to 19 while the L1 head is ahead: the
// L2 path computes min(sample 17, head-1) and prunes the replacement block 16, which is younger than min-age.
func TestKnownMinAgeSampleStaleAfterReorg(t *testing.T) {
	runWitness(t, kfMinAgeStaleAfterReorg, func() bool {
		reproduced := false
		bubble(t, func() {
			now := uint64(chainEpoch + 10000)
			time.Sleep(time.Unix(int64(now), 0).Sub(time.Now()))
			u := &gen.Universe{Net: &networks.Sepolia}
			ch := gen.NewChain(u, gen.Opts{})
			d := newFdb(memory.New())
			n := node.New(false, d, u.Net)
			empty := func(ts uint64) *gen.Block {
				df := core.EmptyStateDiff()
				b := witnessBlockAt(ch, "0.13.2", &df, nil, ts)
				if err := n.Store(b); err != nil {
					abortWitness("witness: store %d: %v", b.Num(), err)
				}
				return b
			}
			for i := uint64(0); i < 18; i++ {
				empty(chainEpoch + i) // about 10000 s old
			}
			cf := cfg{retained: 1, l2Per: 1, minAge: time.Hour}
			s, err := startSession(d, cf, u) // start-up sample: no block within min-age -> floor sample = head = 17
			if err != nil {
				abortWitness("witness: %v", err)
			}
			defer s.stop()
			for i := 0; i < 2; i++ { // reorg: blocks 17 and 16 are undone
				if err := s.n.BC.RevertHead(); err != nil {
					abortWitness("witness: revert: %v", err)
				}
				ch.Blocks = ch.Blocks[:len(ch.Blocks)-1]
			}
			if err := s.n.BC.SetL1Head(&core.L1Head{BlockNumber: 26, BlockHash: gen.FP(1), StateRoot: gen.FP(2)}); err != nil {
				abortWitness("witness: SetL1Head: %v", err)
			}
			var young *gen.Block
			for num := 16; num <= 19; num++ {
				df := core.EmptyStateDiff()
				b := witnessBlockAt(ch, "0.13.2", &df, nil, now-100+uint64(num-16))
				if err := s.n.Store(b); err != nil {
					abortWitness("witness: store %d: %v", b.Num(), err)
				}
				if num == 16 {
					young = b
				}
				s.l2.Send(b.B)
				synctest.Wait()
			}
			o, _, _ := oldest(d)
			age := uint64(time.Now().Unix()) - young.B.Timestamp
			reproduced = o > 16 && age < 3600 && len(s.takeErrs()) == 0
			t.Logf("%s: oldest retained block %d; replacement block 16 is %d s old (min-age 3600 s) (reproduced=%v)", kfMinAgeStaleAfterReorg, o, age, reproduced)
		})
		return reproduced
	})
}

// migrationWitness stores the 14-block witness chain on a node WITHOUT pruning, records L1 head l1, then runs
// the history-prune migration the way node.Run does on the first start with --prune-mode=retained. It returns
// the migration error and whether the hash->number lookup of the HEAD block survived.
func migrationWitness(newState bool, retained, l1 uint64, zeroWriteAt uint64) (err error, headLookup error) {
	s := gen.MakeSierra(3)
	u := &gen.Universe{Net: &networks.Sepolia, Sierra: []*gen.SierraInfo{s}}
	ch := gen.NewChain(u, gen.Opts{})
	addr, slot, fresh := gen.F(0xa1), gen.F(7), gen.F(0x99)
	d := newFdb(memory.New())
	n := node.New(newState, d, u.Net)
	for i := uint64(0); i < 14; i++ {
		df := core.EmptyStateDiff()
		var classes map[felt.Felt]core.ClassDefinition
		if i == 0 {
			df.DeclaredV1Classes[s.Hash] = &s.CasmV1
			df.DeployedContracts[addr] = &s.Hash
			classes = map[felt.Felt]core.ClassDefinition{s.Hash: s.Def}
		}
		df.StorageDiffs[addr] = map[felt.Felt]*felt.Felt{slot: gen.FP(i + 1)}
		if zeroWriteAt != 0 && i == zeroWriteAt {
			df.StorageDiffs[addr][fresh] = gen.FP(0) // zero written to a never-written slot
		}
		b := witnessBlock(ch, "0.13.2", &df, classes)
		if e := n.Store(b); e != nil {
			abortWitness("witness: store block %d: %v", i, e)
		}
	}
	if e := n.BC.SetL1Head(&core.L1Head{BlockNumber: l1, BlockHash: gen.FP(1), StateRoot: gen.FP(2)}); e != nil {
		abortWitness("witness: SetL1Head: %v", e)
	}
	mig := historyprunner.New(retained, 0)
	if e := mig.Before(nil); e != nil {
		abortWitness("witness: Before: %v", e)
	}
	_, err = mig.Migrate(context.Background(), d, u.Net, log.NewNopZapLogger())
	_, headLookup = n.BC.BlockNumberByHash(ch.Blocks[13].B.Hash)
	return err, headLookup
}

// The three migration witnesses share one shape: the migration returns an error (the node does not start),
// and by then it has already wiped the hash-keyed lookup buckets, so even the head block cannot be found by hash.

func TestKnownHistoryPruneMigrationFailsOnNewState(t *testing.T) {
	runWitness(t, kfMigNewState, func() bool {
		err, look := migrationWitness(true, 2, 12, 0)
		reproduced := err != nil && errors.Is(look, db.ErrKeyNotFound)
		t.Logf("%s: trie2 backend, retained 2, L1 head 12, head 13: Migrate: %v; BlockNumberByHash(head): %v (reproduced=%v)", kfMigNewState, err, look, reproduced)
		return reproduced
	})
}

func TestKnownHistoryPruneMigrationFailsOnZeroWriteToAbsentSlot(t *testing.T) {
	runWitness(t, kfMigZeroAbsent, func() bool {
		err, look := migrationWitness(false, 2, 12, 11) // block 11 (kept: floor 10) writes 0 to a fresh slot
		reproduced := err != nil && errors.Is(look, db.ErrKeyNotFound)
		t.Logf("%s: legacy backend, retained 2, L1 head 12, block 11 writes zero to a never-written slot: Migrate: %v; BlockNumberByHash(head): %v (reproduced=%v)", kfMigZeroAbsent, err, look, reproduced)
		return reproduced
	})
}

func TestKnownHistoryPruneMigrationFailsWhenFloorIsZero(t *testing.T) {
	runWitness(t, kfMigFloorZero, func() bool {
		err, look := migrationWitness(false, 12, 12, 0) // pivot 12 - retained 12 = floor 0
		reproduced := err != nil && errors.Is(look, db.ErrKeyNotFound)
		t.Logf("%s: legacy backend, retained 12, L1 head 12, head 13: Migrate: %v; BlockNumberByHash(head): %v (reproduced=%v)", kfMigFloorZero, err, look, reproduced)
		return reproduced
	})
}
