package c04

import (
	"fmt"

	"github.com/NethermindEth/juno/blockchain"
	"github.com/NethermindEth/juno/core"
	"github.com/NethermindEth/juno/core/felt"
	"pgregory.net/rapid"

	"verif/harness/internal/gen"
	"verif/harness/internal/node"
	"verif/harness/internal/stats"
)

// ---- drawn event queries with a naive-scan oracle (the event clause of "same answers from every ... event ... query")
//
// The matcher below is the specification of starknet_getEvents filtering restated in ten lines; it never
// looks at a bloom filter, an aggregated window, the running filter or a cache.

type evFilter struct {
	addrs []felt.Felt
	keys  [][]felt.Felt
}

func (f evFilter) matches(e *core.Event) bool {
	if len(f.addrs) > 0 {
		ok := false
		for _, a := range f.addrs {
			ok = ok || a.Equal(e.From)
		}
		if !ok {
			return false
		}
	}
	for i, alts := range f.keys {
		if len(alts) == 0 {
			continue
		}
		if i >= len(e.Keys) {
			return false
		}
		ok := false
		for _, k := range alts {
			ok = ok || k.Equal(&e.Keys[i])
		}
		if !ok {
			return false
		}
	}
	return true
}

type evQuery struct {
	f        evFilter
	from, to uint64
	chunk    uint64
	limit    uint
}

func (q evQuery) String() string {
	var as []string
	for _, a := range q.f.addrs {
		as = append(as, a.ShortString())
	}
	var ks []string
	for _, alts := range q.f.keys {
		s := "["
		for _, k := range alts {
			s += k.ShortString() + " "
		}
		ks = append(ks, s+"]")
	}
	return fmt.Sprintf("addrs=%v keys=%v range %d-%d chunk %d scan-limit %d", as, ks, q.from, q.to, q.chunk, q.limit)
}

// drawQuery draws an address set, per-position key alternatives, a block range around [lo, head] (also 0, beyond the
// head, from > to), a page size and a scan limit.
func drawQuery(t *rapid.T, u *gen.Universe, lo, head uint64) evQuery {
	var q evQuery
	na := rapid.SampledFrom([]int{0, 1, 1, 1, 2, 3}).Draw(t, "q-naddr")
	for i := 0; i < na; i++ {
		q.f.addrs = append(q.f.addrs, rapid.SampledFrom(u.Addrs).Draw(t, "q-addr"))
	}
	npos := rapid.SampledFrom([]int{0, 0, 0, 1, 1, 2, 3}).Draw(t, "q-npos")
	for i := 0; i < npos; i++ {
		nalt := rapid.IntRange(0, 2).Draw(t, "q-nalt")
		if i == npos-1 && nalt == 0 {
			nalt = 1 // no trailing wildcard positions (the specification is ambiguous for events with fewer keys)
		}
		var alts []felt.Felt
		for j := 0; j < nalt; j++ {
			alts = append(alts, rapid.SampledFrom(u.EvKeys).Draw(t, "q-key"))
		}
		q.f.keys = append(q.f.keys, alts)
	}
	if lo > head {
		lo = head
	}
	pick := func(l string) uint64 {
		switch rapid.IntRange(0, 5).Draw(t, l+"-kind") {
		case 0:
			return 0
		case 1:
			return head + uint64(rapid.IntRange(0, 3).Draw(t, l+"-beyond"))
		default:
			return lo + uint64(rapid.IntRange(0, int(head-lo)).Draw(t, l))
		}
	}
	q.from, q.to = pick("q-from"), pick("q-to")
	if rapid.IntRange(0, 2).Draw(t, "q-whole") == 0 {
		q.from, q.to = 0, head
	}
	q.chunk = uint64(rapid.SampledFrom([]int{1, 2, 3, 5, 1000, 1000}).Draw(t, "q-chunk"))
	q.limit = uint(rapid.SampledFrom([]int{0, 0, 0, 1, 3, 7}).Draw(t, "q-limit"))
	return q
}

// naive scans the receipts of the model chain (blocks[i].Num() ascending).
func (q evQuery) naive(blocks []*gen.Block) []string {
	out := []string{}
	for _, b := range blocks {
		if b.Num() < q.from || b.Num() > q.to {
			continue
		}
		for ti, r := range b.B.Receipts {
			for ei, e := range r.Events {
				if q.f.matches(e) {
					out = append(out, renderEv(b.Num(), b.B.Hash, ti, r.TransactionHash, ei, e))
				}
			}
		}
	}
	return out
}

func renderEv(num uint64, bh *felt.Felt, ti int, th *felt.Felt, ei int, e *core.Event) string {
	s := fmt.Sprintf("b%d/%s tx%d/%s ev%d from=%s keys=", num, bh.String(), ti, th.String(), ei, e.From.String())
	for _, k := range e.Keys {
		s += k.String() + ","
	}
	s += " data="
	for _, d := range e.Data {
		s += d.String() + ","
	}
	return s
}

// run pages through the query on a real node (continuation tokens through their string form).
func (q evQuery) run(c *stats.Case, n *node.Node, who string) []string {
	addrs := make([]felt.Address, len(q.f.addrs))
	for i, a := range q.f.addrs {
		addrs[i] = felt.Address(a)
	}
	fl, err := n.BC.EventFilter(addrs, q.f.keys, func() (blockchain.PreConfirmedReader, error) { return nil, nil })
	if err != nil {
		c.Violation("event-filter", "%s: EventFilter(%v): %v", who, q, err)
	}
	defer fl.Close()
	_ = fl.SetRangeEndBlockByNumber(blockchain.EventFilterFrom, q.from)
	_ = fl.SetRangeEndBlockByNumber(blockchain.EventFilterTo, q.to)
	if q.limit > 0 {
		fl.WithLimit(q.limit)
	}
	out := []string{}
	var tok *blockchain.ContinuationToken
	for pages := 0; ; pages++ {
		evs, next, err := fl.Events(tok, q.chunk)
		if err != nil {
			c.Violation("events-error", "%s: Events(%v) failed for %v: %v", who, tok, q, err)
		}
		if uint64(len(evs)) > q.chunk {
			c.Violation("page-exceeds-chunk", "%s: page of %d events for %v", who, len(evs), q)
		}
		for _, e := range evs {
			out = append(out, renderEv(e.BlockNumber, e.BlockHash, int(e.TransactionIndex), e.TransactionHash, int(e.EventIndex), e.Event))
		}
		if next.IsEmpty() {
			return out
		}
		if pages > 20000 {
			c.Violation("tokens-do-not-terminate", "%s: more than 20000 pages for %v", who, q)
		}
		var nt blockchain.ContinuationToken
		if err := nt.FromString(next.String()); err != nil {
			c.Violation("token-roundtrip", "%s: token %q does not parse: %v", who, next.String(), err)
		}
		tok = &nt
	}
}

func sameStrings(a, b []string) bool {
	if len(a) != len(b) {
		return false
	}
	for i := range a {
		if a[i] != b[i] {
			return false
		}
	}
	return true
}

func firstDiff(got, want []string) string {
	for i := 0; i < len(got) || i < len(want); i++ {
		g, w := "<nothing>", "<nothing>"
		if i < len(got) {
			g = got[i]
		}
		if i < len(want) {
			w = want[i]
		}
		if g != w {
			return fmt.Sprintf("first difference at event %d:\n      node : %s\n      model: %s", i, g, w)
		}
	}
	return ""
}

// eventQueries draws k queries against the long-lived node a whose canonical chain is model (the generated blocks
// from number lo on; the blocks below carry no event) and compares every answer with the naive scan; when another
// node is given (node B, a fresh node) it must answer identically as well.
// Returns the number of queries that had at least one matching event.
func eventQueries(t *rapid.T, c *stats.Case, u *gen.Universe, k int, when string, a *node.Node, model []*gen.Block, lo uint64, otherName string, other *node.Node) int {
	if len(model) == 0 && lo == 0 {
		return 0 // empty chain: EventFilter has no head to anchor to
	}
	head := lo - 1
	if len(model) > 0 {
		head = model[len(model)-1].Num()
	}
	qlo := uint64(0)
	if lo > 3 {
		qlo = lo - 3
	}
	hits := 0
	for i := 0; i < k; i++ {
		q := drawQuery(t, u, qlo, head)
		c.Fp("q@%s %v", when, q)
		want := q.naive(model)
		if len(want) > 0 {
			hits++
		}
		got := q.run(c, a, "node A "+when)
		if !sameStrings(got, want) {
			c.Violation("event-query-vs-model", "%s (head %d, %s backend): node A answers %d events, the naive scan of the canonical chain's receipts %d, for %v\n    %s",
				when, head, a.Backend(), len(got), len(want), q, firstDiff(got, want))
		}
		if other != nil {
			if g2 := q.run(c, other, otherName+" "+when); !sameStrings(g2, got) {
				c.Violation("event-query-a-vs-b", "%s (head %d, %s backend): node A answers %d events, %s %d, for %v\n    %s",
					when, head, a.Backend(), len(got), otherName, len(g2), q, firstDiff(got, g2))
			}
		}
	}
	return hits
}
