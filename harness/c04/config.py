# Driver configuration for property C04
PROP = dict(
    pkg="c04", level="exploration",
    technique="differential PBT: node that followed a fork and reverted vs node that never saw it (observational equality over the whole Reader API), plus drawn event queries against a naive scan of the model chain's receipts, on short chains and across the 8192-block event-index window boundary",
    level_text=("Exploration: generated chain trees (prefix, two forks, fork point anywhere) on both state backends, on an empty database and "
                "(a sixth of the cases) on top of a per-process base image of 8186 real blocks (thorough also 16378) so that reverts, fork points "
                "and the second fork cross the aggregated event-bloom window boundary in both directions; after every RevertHead the node "
                "is compared, over every Reader accessor, historical state at every block/hash (on the long chains: head state plus a drawn "
                "historical probe) and per-address event queries, with a fresh node that stored only the remaining blocks; finally with a node "
                "that followed the second fork directly. Drawn event queries (address sets, key alternatives, ranges, page sizes, scan limits) "
                "are issued on the same long-lived Blockchain object before the reverts, between individual reverts, while following the second "
                "fork and after convergence, each checked against a naive scan of the model chain and against the other node."),
    rule=("short: prefix 0-4 + F1 1-4 + F2 1-4 generated blocks; long (1/6): base image of 8186 empty blocks cloned per case + prefix 0-9 "
          "(common head 8185..8194, weighted to fork points just below block 8192) + F1 1-5 + F2 1-5 (a fifth of them with F1 ending exactly "
          "on the last block of the window); 4 protocol versions, both backends, optional cache warm-up, ungraceful and graceful "
          "(snapshot-writing) restarts before any revert and before the second fork, re-apply; between reverts on the long chains drawn: full "
          "comparison / drawn event queries only / nothing; "
          "non-trivial = F1 contains one of the content classes the property lists (declare+deploy+touch, zero write, system contract, "
          "CASM migration, L1 handler, replaced class) or the reverts take back the last block of a completed window; "
          "distinct = SHA-256 over backend, base, shape, block hashes and drawn queries."),
    assumptions=["blocks are sealed with the reference state root and juno's block-hash function", "raw DB dumps compared as information only (short chains)",
                 "base-image blocks are empty (no events, empty state diffs): events and state exist only in the generated blocks",
                 "on the in-memory database a historical state read costs time proportional to the database, so the long-chain cases sample the historical state instead of sweeping it (the short-chain cases keep the full sweep)"],
    runs=[dict(run="^Test(Prop|Known)")],
)
