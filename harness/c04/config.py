# Driver configuration for property C04
PROP = dict(
    pkg="c04", level="exploration",
    technique="differential PBT: node that followed a fork and reverted vs node that never saw it (observational equality over the whole Reader API)",
    level_text=("Exploration: generated chain trees (prefix, two forks, fork point anywhere) on both state backends; after every RevertHead the node "
                "is compared, over every Reader accessor, historical state at every block/hash and per-address event queries, with a fresh node "
                "that stored only the remaining blocks; finally with a node that followed the second fork directly."),
    rule=("prefix 0-4 + F1 1-4 + F2 1-4 generated blocks, 4 protocol versions, both backends, optional cache warm-up, restarts and re-apply; "
          "non-trivial = F1 contains one of the content classes the property lists (declare+deploy+touch, zero write, system contract, "
          "CASM migration, L1 handler, replaced class); distinct = SHA-256 over backend, shape and block hashes."),
    assumptions=["blocks are sealed with the reference state root and juno's block-hash function", "raw DB dumps compared as information only"],
    runs=[dict(run="^Test(Prop|Known)")],
)
