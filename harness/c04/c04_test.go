// Package c04: reverting the head exactly undoes a block; forks converge to the same node (property C04).
package c04

import (
	"encoding/json"
	"fmt"
	"testing"

	"github.com/NethermindEth/juno/core"
	"github.com/NethermindEth/juno/core/felt"
	"github.com/NethermindEth/juno/db/memory"
	"pgregory.net/rapid"

	"verif/harness/internal/gen"
	"verif/harness/internal/node"
	"verif/harness/internal/stats"
)

func TestMain(m *testing.M) { stats.Main(m) }

const kfLegacyZero = "c04-legacy-revert-zero-write-to-absent-slot"

func observe(n *node.Node, ids *node.Ids) node.Obs {
	o := n.Observe(ids)
	n.ObserveEvents(o, ids)
	return o
}

// histSample is the part of the historical state a base-chain case looks at: on the in-memory database every
// historical read costs time proportional to the whole database (8186+ blocks), so the per-block/per-hash state sweep
// of the short-chain cases is replaced by the complete head state plus one drawn (block, address, key) probe.
type histSample struct {
	num  uint64
	hash felt.Felt
	addr felt.Felt
	key  felt.Felt
}

// observeLong is observe for the cases on a long base chain: the whole Reader API over all ids except the historical
// state sweep, all event queries of observe, the complete head state, and (when hs is given) the historical probe.
func observeLong(n *node.Node, ids *node.Ids, hs *histSample) node.Obs {
	light := *ids
	light.NoState = true
	o := n.Observe(&light)
	n.ObserveEvents(o, ids)
	sr, closer, err := n.BC.HeadState()
	if err != nil {
		o["headstate"] = "!err:" + err.Error()
	} else {
		readState(o, "headstate", sr, ids.Addrs, ids.Keys, ids.Classes)
		_ = closer()
	}
	if hs != nil {
		sr, closer, err := n.BC.StateAtBlockNumber(hs.num)
		if err != nil {
			o["probe/number"] = "!err:" + err.Error()
		} else {
			readState(o, "probe/number", sr, []felt.Felt{hs.addr}, []felt.Felt{hs.key}, nil)
			_ = closer()
		}
		sr, closer, err = n.BC.StateAtBlockHash(&hs.hash)
		if err != nil {
			o["probe/hash"] = "!err:" + err.Error()
		} else {
			readState(o, "probe/hash", sr, []felt.Felt{hs.addr}, []felt.Felt{hs.key}, nil)
			_ = closer()
		}
	}
	return o
}

func rs(v string, err error) string {
	if err != nil {
		return "!err:" + err.Error()
	}
	return v
}

// readState renders class hash, nonce, storage and class lookups of a state reader (same reads as node.Observe).
func readState(o node.Obs, tag string, r core.StateReader, addrs, keys, classes []felt.Felt) {
	for _, a := range addrs {
		a := a
		ch, err := r.ContractClassHash(&a)
		o[tag+"/classhash/"+a.String()] = rs(ch.String(), err)
		nn, err := r.ContractNonce(&a)
		o[tag+"/nonce/"+a.String()] = rs(nn.String(), err)
		for _, k := range keys {
			k := k
			v, err := r.ContractStorage(&a, &k)
			o[tag+"/storage/"+a.String()+"/"+k.String()] = rs(v.String(), err)
		}
	}
	for _, cl := range classes {
		cl := cl
		d, err := r.Class(&cl)
		if err != nil {
			o[tag+"/class/"+cl.String()] = "!err:" + err.Error()
		} else {
			b, jerr := json.Marshal(map[string]any{"at": d.At, "def": d.Class})
			o[tag+"/class/"+cl.String()] = rs(string(b), jerr)
		}
		sh := felt.SierraClassHash(cl)
		h1, err := r.CompiledClassHash(&sh)
		o[tag+"/casm/"+cl.String()] = rs((*felt.Felt)(&h1).String(), err)
		h2, err := r.CompiledClassHashV2(&sh)
		o[tag+"/casm2/"+cl.String()] = rs((*felt.Felt)(&h2).String(), err)
	}
}

// windowSize is core.NumBlocksPerFilter: the number of blocks one aggregated event-bloom window covers.
const windowSize = 8192

// freshWith builds a node that never saw anything but blocks: the per-process base image of baseN empty blocks
// (baseN = 0: an empty database) plus the given generated blocks, stored one after the other.
func freshWith(newState bool, u *gen.Universe, baseN int, blocks []*gen.Block) (*node.Node, error) {
	var n *node.Node
	if baseN > 0 {
		_, d := node.GetBase(baseN, newState, u.Net)
		n = node.New(newState, d, u.Net)
	} else {
		n = node.New(newState, nil, u.Net)
	}
	for _, b := range blocks {
		if err := n.Store(b); err != nil {
			return nil, fmt.Errorf("fresh node could not store block %d: %w", b.Num(), err)
		}
	}
	return n, nil
}

const rule = "common prefix + fork F1 + fork F2 of generated blocks, fork point anywhere incl. genesis, both state backends, on (a) an empty database: prefix 0-4, forks 1-4 blocks, or (b, a sixth of the cases) a per-process base image of 8186 real empty blocks cloned per case (thorough also 16378): prefix 0-9, forks 1-5 blocks, so that the common head lies in 8185..8194 and forks, reverts and the fork point fall on both sides of / exactly on the 8192-block event-index window boundary (window persisted, un-persisted by the revert, persisted again by the other fork; running filter emptied and reloaded; window cache warm or cold). Node A (one long-lived Blockchain object, optionally restarted ungracefully or gracefully = with a running-filter snapshot) stores prefix+F1, reverts F1 block by block (each revert must succeed), stores F2 and must equal node B that stored prefix+F2 directly: whole Reader API over all ids incl. reverted hashes, state at every block/hash, per-address event queries. After every revert A is compared in the same way with a fresh node holding the remaining blocks (always on (a); on (b) drawn: full comparison / drawn event queries only / nothing, so that cache contents survive several reverts). Drawn event queries (address set, per-position key alternatives, range incl. from>to and beyond the head, page size, scan limit, continuation tokens) are issued on A before the reverts, between individual reverts, between the stores of F2 and after convergence, each compared with a naive scan of the model chain's receipts and, where one exists, with the fresh node / node B. non-trivial = F1 contains declare+deploy+touch, a zero write, a system-contract write, a CASM migration, an L1 handler or a replaced class, or the reverts take back the last block of a completed window"

func TestPropRevertAndForkConvergence(t *testing.T) {
	stats.Check(t, stats.Budget{Quick: 300, Thorough: 2500}, rule,
		func(rt *rapid.T, c *stats.Case) {
			u := gen.NewUniverse(rt)
			newState := rapid.Bool().Draw(rt, "newState")
			opts := gen.Opts{MinVersionIdx: rapid.IntRange(0, 3).Draw(rt, "minver")}
			if !newState && stats.Known(kfLegacyZero) {
				opts.NoZeroToAbsent = true
			}
			// ---- height: empty database, or a base image ending just below an event-index window boundary
			baseN := 0
			if gen.Uniform(rt, 6, "onBaseChain") == 0 {
				baseN = 8186
				if stats.Thorough() && rapid.IntRange(0, 3).Draw(rt, "secondWindow") == 0 {
					baseN = 16378
				}
			}
			var base *gen.Chain
			var adb *memory.Database
			maxPrefix, maxFork := 4, 4
			if baseN > 0 {
				bch, d := node.GetBase(baseN, newState, u.Net)
				adb = d
				base = bch.Fork(bch.Height())
				base.U = u
				base.Opt = gen.NewChain(u, opts).Opt
				maxPrefix, maxFork = 9, 5
				c.Labelf("base-%d", baseN)
				c.Label("base-chain")
			} else {
				base = gen.NewChain(u, opts)
				adb = memory.New()
			}
			var np int
			if baseN > 0 {
				// common head in baseN-1 .. baseN+8 (8185..8194), weighted towards fork points just below the boundary
				np = []int{0, 1, 2, 3, 3, 4, 4, 5, 5, 5, 6, 6, 7, 8, 9}[gen.Uniform(rt, 15, "prefixLong")]
			} else {
				np = rapid.IntRange(0, maxPrefix).Draw(rt, "prefix")
			}
			for i := 0; i < np; i++ {
				base.Next(rt)
			}
			fh := baseN + np // fork height = number of blocks both forks share
			f1 := base.Fork(fh)
			forkLen := func(label string) int {
				if baseN > 0 {
					return 1 + gen.Uniform(rt, maxFork, label+"Long")
				}
				return rapid.IntRange(1, maxFork).Draw(rt, label)
			}
			n1 := forkLen("f1")
			if baseN > 0 && gen.Uniform(rt, 5, "f1EndsWindow") == 0 {
				// bias: the head before the reverts is exactly the last block of a window (window just persisted,
				// running filter empty), whenever the drawn fork point allows it
				if k := (baseN/windowSize+1)*windowSize - fh; k >= 1 && k <= maxFork {
					n1 = k
				}
			}
			for i := 0; i < n1; i++ {
				f1.Next(rt)
			}
			f2 := base.Fork(fh)
			n2 := forkLen("f2")
			for i := 0; i < n2; i++ {
				f2.Next(rt)
			}
			lo := uint64(baseN)
			c.Fp("ns%v base%d p%d f1:%d f2:%d", newState, baseN, np, n1, n2)
			c.Labelf("backend-%v", map[bool]string{true: "trie2", false: "legacy"}[newState])
			ids := &node.Ids{Addrs: u.AllAddrs(), Keys: u.Keys}
			if baseN > 2 {
				ids.MinNumber = uint64(baseN - 2)
			}
			for _, s := range u.Sierra {
				ids.Classes = append(ids.Classes, s.Hash)
			}
			for _, s := range u.Cairo0 {
				ids.Classes = append(ids.Classes, s.Hash)
			}
			interesting := false
			for _, b := range f1.Blocks[baseN:] {
				ids.AddBlock(b)
				c.Fp("f1 %s", b.B.Hash.String())
			}
			for _, b := range f2.Blocks[fh:] {
				ids.AddBlock(b)
				c.Fp("f2 %s", b.B.Hash.String())
			}
			for _, b := range f1.Blocks[fh:] {
				for tag := range b.Tags {
					c.Label("f1:" + tag)
					switch tag {
					case "deploy+touch", "zero-to-absent", "zero-to-present", "system-storage", "migrate", "l1handler", "replace", "declare":
						interesting = true
					}
					if tag == "excluded-zero-to-absent" {
						c.Excluded(kfLegacyZero)
					}
				}
			}
			if interesting {
				c.NonTrivial("f1-has-listed-content-class")
			}
			if n1 >= 2 {
				c.Label("fork-depth>=2")
			}
			if fh == 0 {
				c.Label("fork-at-genesis")
			}
			// geometry relative to the window boundary: `last` is the last block number of the window the base ends in
			tip1, tip2 := uint64(fh+n1-1), uint64(fh+n2-1)
			var last uint64
			crossDown, crossUp := false, false
			if baseN > 0 {
				last = (uint64(baseN)/windowSize+1)*windowSize - 1
				crossDown = uint64(fh) <= last && tip1 >= last // block `last` is reverted: its window becomes the running one again
				crossUp = uint64(fh) <= last && tip2 >= last   // F2 completes (persists) that window (again)
				switch {
				case crossDown && tip1 == last:
					c.Label("revert-crosses-boundary:head-is-last-block-of-window")
				case crossDown:
					c.Label("revert-crosses-boundary:from-above")
				case tip1 >= last:
					c.Label("reverts-stay-above-boundary")
				default:
					c.Label("reverts-stay-below-boundary")
				}
				if crossDown {
					c.Label("revert-crosses-boundary")
					c.NonTrivial("revert-takes-back-last-block-of-completed-window")
				}
				if crossUp {
					c.Label("f2-completes-window")
				}
				if crossDown && crossUp {
					c.Label("window-unpersisted-and-persisted-again")
				}
				if !crossDown && crossUp {
					c.Label("only-f2-crosses-boundary")
				}
				if uint64(fh) == last+1 {
					c.Label("fork-point-is-first-block-of-window")
				}
			}

			// observation: everything on the short chains; on the long ones the historical state sweep is replaced by probes
			obs := func(n *node.Node, hs *histSample) node.Obs {
				if baseN > 0 {
					return observeLong(n, ids, hs)
				}
				return observe(n, ids)
			}
			probe := func(ch *gen.Chain, label string) *histSample {
				if baseN == 0 || gen.Uniform(rt, 3, label) != 0 {
					return nil
				}
				c.Label("historical-state-probe-on-long-chain")
				num := baseN - 1 + rapid.IntRange(0, len(ch.Blocks)-baseN).Draw(rt, label+"-num")
				return &histSample{num: uint64(num), hash: *ch.Blocks[num].B.Hash,
					addr: rapid.SampledFrom(ids.Addrs).Draw(rt, label+"-addr"), key: rapid.SampledFrom(ids.Keys).Draw(rt, label+"-key")}
			}

			// a quarter of the short-chain cases run node A on the production store (Pebble v2): real batches, snapshots and
			// prefix iterators with upper bounds under the revert path (nodes B / the fresh nodes stay on the memory store:
			// the comparison is observational)
			var a *node.Node
			if baseN == 0 && gen.Uniform(rt, 4, "pebbleA") == 0 {
				pa, cleanup, err := node.NewPebble(newState, u.Net)
				if err != nil {
					stats.HarnessError("pebble: %v", err)
				}
				defer cleanup()
				a = pa
				c.Label("node-A-on-pebble")
			} else {
				a = node.New(newState, adb, u.Net)
			}
			for _, b := range f1.Blocks[baseN:] {
				if err := a.Store(b); err != nil {
					c.Violation("valid-block-rejected", "node A (%s) rejected valid block %d: %v", a.Backend(), b.Num(), err)
				}
			}
			restart := func(when string) {
				switch gen.Uniform(rt, 12, "restart-"+when) {
				case 0, 1:
					a.Reopen()
					c.Label("restart-" + when)
				case 2:
					if err := a.BC.WriteRunningEventFilter(); err != nil {
						c.Violation("snapshot-write", "WriteRunningEventFilter: %v", err)
					}
					a.Reopen()
					c.Label("restart-" + when)
					c.Label("graceful-restart-" + when)
				}
			}
			// ---- queries BEFORE the reverts (warm whatever caches the node keeps)
			warmed := false
			if rapid.Bool().Draw(rt, "warmQueries") {
				_ = obs(a, nil) // warms caches / bloom filter cache before the reorg
				c.Label("warm-before-revert")
				warmed = true
			}
			if k := rapid.IntRange(0, 3).Draw(rt, "queriesBefore"); k > 0 {
				eventQueries(rt, c, u, k, "before the reverts", a, f1.Blocks[baseN:], lo, "", nil)
				c.Label("drawn-queries-before-revert")
				warmed = true
			}
			if warmed && crossDown {
				c.Label("revert-crosses-boundary+queries-before")
			}
			// ---- revert F1 block by block
			queriedBetween, queriedAtLast := false, false
			for h := len(f1.Blocks); h > fh; h-- {
				restart("before-revert")
				if err := a.BC.RevertHead(); err != nil {
					c.Violation("revert-failed", "RevertHead of block %d (%s backend) failed: %v; block tags %v", h-1, a.Backend(), err, f1.Blocks[h-1].Tags)
				}
				remaining := f1.Blocks[baseN : h-1]
				// what is asked between this revert and the next: on an empty database always the full comparison; on a
				// base chain drawn, so that cache contents can also survive a revert unobserved
				mid := 0
				if baseN > 0 {
					mid = rapid.SampledFrom([]int{0, 0, 0, 0, 0, 0, 1, 1, 2, 2}).Draw(rt, "between")
				}
				var want *node.Node
				if mid == 0 {
					var err error
					want, err = freshWith(newState, u, baseN, remaining)
					if err != nil {
						stats.HarnessError("%v", err)
					}
					var hs *histSample
					if h-1 == fh { // F1 is completely reverted
						hs = probe(f1, "probeAfterReverts")
					}
					if d := node.Diff(obs(a, hs), obs(want, hs), 6); len(d) > 0 {
						hist := ""
						for _, b := range f1.Blocks[baseN:] {
							hist += fmt.Sprintf("    #%d v%s %s\n", b.Num(), b.B.ProtocolVersion, gen.DiffString(b.SU.StateDiff))
						}
						c.Violation("revert-not-exact", "after reverting block %d (%s backend, tags %v) node differs from a node that never stored it:\n%s  chain diffs:\n%s", h-1, a.Backend(), f1.Blocks[h-1].Tags, joinLines(d), hist)
					}
				}
				nq := 0
				switch mid {
				case 0:
					nq = rapid.IntRange(0, 2).Draw(rt, "queriesBetween")
				case 1:
					nq = rapid.IntRange(1, 3).Draw(rt, "queriesBetween")
				}
				if nq > 0 && h-1 > 0 {
					eventQueries(rt, c, u, nq, fmt.Sprintf("after reverting block %d", h-1), a, remaining, lo, "fresh node", want)
					c.Label("drawn-queries-between-reverts")
				}
				if h-1 > fh && (mid == 0 || nq > 0) { // another revert follows
					queriedBetween = true
					if baseN > 0 && uint64(h-2) == last {
						queriedAtLast = true
					}
				}
				if baseN > 0 {
					c.Labelf("between-reverts:%s", []string{"full-comparison", "drawn-queries-only", "nothing"}[mid])
				}
			}
			if queriedBetween {
				c.Label("queries-between-individual-reverts")
			}
			if crossDown && queriedBetween {
				c.Label("revert-crosses-boundary+queries-between-reverts")
			}
			if queriedAtLast {
				c.Label("revert-crosses-boundary+query-while-head-is-last-block-of-window")
			}
			// partial re-apply of the same blocks, then revert again (re-apply interleaving)
			if rapid.Bool().Draw(rt, "reapply") {
				k := rapid.IntRange(1, n1).Draw(rt, "reapplyN")
				c.Labelf("reapply")
				for _, b := range f1.Blocks[fh : fh+k] {
					if err := a.Store(b); err != nil {
						c.Violation("reapply-rejected", "re-storing reverted block %d failed: %v", b.Num(), err)
					}
				}
				if rapid.IntRange(0, 2).Draw(rt, "queryReapplied") == 0 {
					eventQueries(rt, c, u, 1, "after re-applying reverted blocks", a, f1.Blocks[baseN:fh+k], lo, "", nil)
				}
				for i := 0; i < k; i++ {
					if err := a.BC.RevertHead(); err != nil {
						c.Violation("revert-failed", "RevertHead after re-apply failed: %v", err)
					}
				}
			}
			restart("before-second-fork")
			// ---- follow the other fork
			for i, b := range f2.Blocks[fh:] {
				if err := a.Store(b); err != nil {
					c.Violation("fork-block-rejected", "node A (%s) rejected block %d of the second fork after reverting the first: %v", a.Backend(), b.Num(), err)
				}
				if i < n2-1 && rapid.IntRange(0, 3).Draw(rt, "queryWhileFollowing") == 0 {
					eventQueries(rt, c, u, 1, fmt.Sprintf("after storing block %d of the second fork", b.Num()), a, f2.Blocks[baseN:fh+i+1], lo, "", nil)
					c.Label("drawn-queries-while-following-second-fork")
				}
			}
			bnode, err := freshWith(newState, u, baseN, f2.Blocks[baseN:])
			if err != nil {
				stats.HarnessError("%v", err)
			}
			// ---- AFTER the convergence: drawn queries first on some cases (the full observation asks per-address queries itself)
			nAfter := rapid.IntRange(1, 4).Draw(rt, "queriesAfter")
			first := rapid.Bool().Draw(rt, "drawnQueriesFirst")
			if first {
				eventQueries(rt, c, u, nAfter, "after following the second fork", a, f2.Blocks[baseN:], lo, "node B", bnode)
			}
			hs := probe(f2, "probeAfterConvergence")
			if d := node.Diff(obs(a, hs), obs(bnode, hs), 6); len(d) > 0 {
				c.Violation("forks-do-not-converge", "node that followed F1, reverted and followed F2 differs from node that followed F2 directly (%s backend):\n%s", a.Backend(), joinLines(d))
			}
			if !first {
				eventQueries(rt, c, u, nAfter, "after following the second fork", a, f2.Blocks[baseN:], lo, "node B", bnode)
			}
			// information only: raw database images (skipped on the long base chains)
			if baseN == 0 {
				if da, db := node.Dump(a.DB), node.Dump(bnode.DB); len(da) != len(db) {
					c.Info("raw-dump-size-differs")
				}
			}
			c.Sample(func() any {
				return map[string]any{"backend": a.Backend(), "base_blocks": baseN, "prefix": np, "f1": tagsOf(f1.Blocks[fh:]), "f2": tagsOf(f2.Blocks[fh:]),
					"revert_crosses_window_boundary": crossDown, "f2_completes_window": crossUp}
			})
		})
}

func tagsOf(bs []*gen.Block) []string {
	var out []string
	for _, b := range bs {
		s := fmt.Sprintf("#%d v%s txs=%d:", b.Num(), b.B.ProtocolVersion, len(b.B.Transactions))
		for t := range b.Tags {
			s += " " + t
		}
		out = append(out, s)
	}
	return out
}

func joinLines(s []string) string {
	out := ""
	for _, l := range s {
		out += "  " + l + "\n"
	}
	return out
}
