// Package c04: reverting the head exactly undoes a block; forks converge to the same node (property C04).
package c04

import (
	"fmt"
	"testing"

	"pgregory.net/rapid"

	"verif/harness/internal/gen"
	"verif/harness/internal/node"
	"verif/harness/internal/stats"
)

func TestMain(m *testing.M) { stats.Main(m) }

const kfLegacyZero = "c04-legacy-revert-zero-write-to-absent-slot"

func observe(n *node.Node, ids *node.Ids) node.Obs {
	o := n.Observe(ids)
	n.ObserveEvents(o, ids)
	return o
}

func freshWith(newState bool, u *gen.Universe, blocks []*gen.Block) (*node.Node, error) {
	n := node.New(newState, nil, u.Net)
	for _, b := range blocks {
		if err := n.Store(b); err != nil {
			return nil, fmt.Errorf("fresh node could not store block %d: %w", b.Num(), err)
		}
	}
	return n, nil
}

func TestPropRevertAndForkConvergence(t *testing.T) {
	stats.Check(t, stats.Budget{Quick: 300, Thorough: 2500},
		"common prefix (0-4 blocks) + fork F1 (1-4 blocks) + fork F2 (1-4 blocks), fork point anywhere incl. genesis, both state backends; node A stores prefix+F1, reverts F1 block by block (each revert must succeed and leave A observationally equal to a fresh node holding the remaining blocks: whole Reader API over all ids incl. reverted hashes, state at every block/hash, per-address event queries), then stores F2 and must equal node B that stored prefix+F2 directly; non-trivial = F1 contains declare+deploy+touch, a zero write, a system-contract write, a CASM migration, an L1 handler or a replaced class",
		func(rt *rapid.T, c *stats.Case) {
			u := gen.NewUniverse(rt)
			newState := rapid.Bool().Draw(rt, "newState")
			opts := gen.Opts{MinVersionIdx: rapid.IntRange(0, 3).Draw(rt, "minver")}
			if !newState && stats.Known(kfLegacyZero) {
				opts.NoZeroToAbsent = true
			}
			base := gen.NewChain(u, opts)
			np := rapid.IntRange(0, 4).Draw(rt, "prefix")
			for i := 0; i < np; i++ {
				base.Next(rt)
			}
			f1 := base.Fork(np)
			n1 := rapid.IntRange(1, 4).Draw(rt, "f1")
			for i := 0; i < n1; i++ {
				f1.Next(rt)
			}
			f2 := base.Fork(np)
			n2 := rapid.IntRange(1, 4).Draw(rt, "f2")
			for i := 0; i < n2; i++ {
				f2.Next(rt)
			}
			c.Fp("ns%v p%d f1:%d f2:%d", newState, np, n1, n2)
			c.Labelf("backend-%v", map[bool]string{true: "trie2", false: "legacy"}[newState])
			ids := &node.Ids{Addrs: u.AllAddrs(), Keys: u.Keys}
			for _, s := range u.Sierra {
				ids.Classes = append(ids.Classes, s.Hash)
			}
			for _, s := range u.Cairo0 {
				ids.Classes = append(ids.Classes, s.Hash)
			}
			interesting := false
			for _, b := range f1.Blocks {
				ids.AddBlock(b)
				c.Fp("f1 %s", b.B.Hash.String())
			}
			for _, b := range f2.Blocks[np:] {
				ids.AddBlock(b)
				c.Fp("f2 %s", b.B.Hash.String())
			}
			for _, b := range f1.Blocks[np:] {
				for tag := range b.Tags {
					c.Label("f1:" + tag)
					switch tag {
					case "deploy+touch", "zero-to-absent", "zero-to-present", "system-storage", "migrate", "l1handler", "replace", "declare":
						interesting = true
					}
					if tag == "excluded-zero-to-absent" {
						c.Excluded(kfLegacyZero)
					}
				}
			}
			if interesting {
				c.NonTrivial("f1-has-listed-content-class")
			}
			if n1 >= 2 {
				c.Label("fork-depth>=2")
			}
			if np == 0 {
				c.Label("fork-at-genesis")
			}

			a := node.New(newState, nil, u.Net)
			for _, b := range f1.Blocks {
				if err := a.Store(b); err != nil {
					c.Violation("valid-block-rejected", "node A (%s) rejected valid block %d: %v", a.Backend(), b.Num(), err)
				}
			}
			if rapid.Bool().Draw(rt, "warmQueries") {
				_ = observe(a, ids) // warms caches / bloom filter cache before the reorg
				c.Label("warm-before-revert")
			}
			// revert F1 block by block
			for h := len(f1.Blocks); h > np; h-- {
				if rapid.IntRange(0, 4).Draw(rt, "restartBeforeRevert") == 0 {
					a.Reopen()
					c.Label("restart-before-revert")
				}
				if err := a.BC.RevertHead(); err != nil {
					c.Violation("revert-failed", "RevertHead of block %d (%s backend) failed: %v; block tags %v", h-1, a.Backend(), err, f1.Blocks[h-1].Tags)
				}
				want, err := freshWith(newState, u, f1.Blocks[:h-1])
				if err != nil {
					stats.HarnessError("%v", err)
				}
				if d := node.Diff(observe(a, ids), observe(want, ids), 6); len(d) > 0 {
					hist := ""
					for _, b := range f1.Blocks {
						hist += fmt.Sprintf("    #%d v%s %s\n", b.Num(), b.B.ProtocolVersion, gen.DiffString(b.SU.StateDiff))
					}
					c.Violation("revert-not-exact", "after reverting block %d (%s backend, tags %v) node differs from a node that never stored it:\n%s  chain diffs:\n%s", h-1, a.Backend(), f1.Blocks[h-1].Tags, joinLines(d), hist)
				}
			}
			// partial re-apply of the same blocks, then revert again (re-apply interleaving)
			if rapid.Bool().Draw(rt, "reapply") {
				k := rapid.IntRange(1, n1).Draw(rt, "reapplyN")
				c.Labelf("reapply")
				for _, b := range f1.Blocks[np : np+k] {
					if err := a.Store(b); err != nil {
						c.Violation("reapply-rejected", "re-storing reverted block %d failed: %v", b.Num(), err)
					}
				}
				for i := 0; i < k; i++ {
					if err := a.BC.RevertHead(); err != nil {
						c.Violation("revert-failed", "RevertHead after re-apply failed: %v", err)
					}
				}
			}
			// follow the other fork
			for _, b := range f2.Blocks[np:] {
				if err := a.Store(b); err != nil {
					c.Violation("fork-block-rejected", "node A (%s) rejected block %d of the second fork after reverting the first: %v", a.Backend(), b.Num(), err)
				}
			}
			bnode, err := freshWith(newState, u, f2.Blocks)
			if err != nil {
				stats.HarnessError("%v", err)
			}
			if d := node.Diff(observe(a, ids), observe(bnode, ids), 6); len(d) > 0 {
				c.Violation("forks-do-not-converge", "node that followed F1, reverted and followed F2 differs from node that followed F2 directly (%s backend):\n%s", a.Backend(), joinLines(d))
			}
			// information only: raw database images
			if da, db := node.Dump(a.DB), node.Dump(bnode.DB); len(da) != len(db) {
				c.Info("raw-dump-size-differs")
			}
			c.Sample(func() any {
				return map[string]any{"backend": a.Backend(), "prefix": np, "f1": tagsOf(f1.Blocks[np:]), "f2": tagsOf(f2.Blocks[np:])}
			})
		})
}

func tagsOf(bs []*gen.Block) []string {
	var out []string
	for _, b := range bs {
		s := fmt.Sprintf("#%d v%s txs=%d:", b.Num(), b.B.ProtocolVersion, len(b.B.Transactions))
		for t := range b.Tags {
			s += " " + t
		}
		out = append(out, s)
	}
	return out
}

func joinLines(s []string) string {
	out := ""
	for _, l := range s {
		out += "  " + l + "\n"
	}
	return out
}
