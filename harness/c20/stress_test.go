package c20

// Schedule pressure on the lock-free published chain (property C20, "concurrent readers taking
// views at arbitrary times").
//
// One writer goroutine (the rapid goroutine) plays the poller: it performs a drawn script of MANY
// publishes on the real ChainStorage (hundreds to thousands of ApplyUpdate / AdvanceTo steps that
// cycle through drawn chain shapes), moving an atomic "canonical height" the way the sync loop
// does (the height moves first, the poller's AdvanceTo follows). 2-6 reader goroutines SPIN: read
// the height, ask for SnapshotForBlock(height+1) for a height they have legitimately observed
// (the order Synchronizer.PreConfirmedChain uses: blockchain.Height(), then
// SnapshotForBlock(height+1); a reader may be delayed arbitrarily between the two, so recently
// observed heights are requested too), and check EVERY view handed out.
//
// Reader-side oracles are schedule independent:
//   - shape: a non-empty view is the gap-free run starting at the requested block, Length equals
//     the number of blocks iterated, Head is the newest block (doc of SnapshotForBlock: "empty, or
//     [blockNumber, chain.tip()]");
//   - published: the writer logs (number, identifier, tx count) of every chain BEFORE it publishes
//     it; SnapshotForBlock is a read of ONE published chain, so the view (empty or not) must be
//     the answer for the requested block on one of the chains that were current at some moment
//     of the call (log entries doneBefore .. startedAfter). A racing AdvanceTo may therefore
//     legitimately turn the answer into the empty view (requested block fell below the new base,
//     or the chain was dropped) - never into a non-empty view that is not the run from the
//     requested block to the tip of one published chain;
//   - immutable: sampled views are held and re-walked later (same entries, same content);
//   - overlay / lookups on sampled views agree with the blocks iterated.
//
// Work is bounded by counts: the writer's script length is the budget; readers take as many views
// as they can while the writer runs.

import (
	"fmt"
	"os"
	"runtime"
	"strings"
	"sync"
	"sync/atomic"
	"testing"

	"github.com/NethermindEth/juno/core/felt"
	"github.com/NethermindEth/juno/core/pending"
	"github.com/NethermindEth/juno/starknet"
	"github.com/NethermindEth/juno/sync/preconfirmed"
	"pgregory.net/rapid"

	"verif/harness/internal/stats"
)

// ---------------------------------------------------------------------------------------------
// shared state of one stress case

type stressKey struct {
	num uint64
	id  string
	ntx int
}

// stressChain is one published chain as the writer's list model knows it (oldest first).
type stressChain struct {
	base uint64
	keys []stressKey
}

func (ch *stressChain) String() string {
	if len(ch.keys) == 0 {
		return "[]"
	}
	var b strings.Builder
	b.WriteByte('[')
	for i, k := range ch.keys {
		if i > 0 {
			b.WriteByte(' ')
		}
		fmt.Fprintf(&b, "%d:%s/%dtx", k.num, k.id, k.ntx)
	}
	b.WriteByte(']')
	return b.String()
}

// answer: the documented SnapshotForBlock(req) on this chain: number of blocks (0 = empty view).
func (ch *stressChain) answer(req uint64) int {
	n := uint64(len(ch.keys))
	if n == 0 || req < ch.base || req > ch.base+n-1 {
		return 0
	}
	return int(ch.base + n - req)
}

type stressRig struct {
	st      *preconfirmed.ChainStorage
	head    atomic.Uint64 // the canonical height readers observe (blockchain.Height())
	seq     atomic.Int64  // index of the newest chain whose publish has STARTED
	done    atomic.Int64  // index of the newest chain whose publish has RETURNED
	log     []stressChain // log[i] is immutable once seq >= i
	stop    atomic.Bool
	failed  atomic.Bool
	started atomic.Int32
	keepOn  bool // measurement mode: keep running after a reader failure and count them

	addrs, keys []felt.Felt
	poolTx      []felt.Felt // every transaction hash any pool content carries

	mu    sync.Mutex
	fails []stressFail
}

type stressFail struct{ key, msg string }

func (g *stressRig) fail(key, format string, a ...any) {
	g.failed.Store(true)
	g.mu.Lock()
	if len(g.fails) < 4 {
		g.fails = append(g.fails, stressFail{key, fmt.Sprintf(format, a...)})
	}
	g.mu.Unlock()
}

// ---------------------------------------------------------------------------------------------
// readers

type stressHeld struct {
	v    preconfirmed.ChainReader
	req  uint64
	ents []*pending.PreConfirmed // oldest first
	keys []stressKey
	deep string
}

type stressReader struct {
	id           int
	pattern      [16]uint8 // which of the last observed heights the next request uses
	refresh      int       // re-read the height every refresh-th view
	overlayEvery int
	holdEvery    int
	deepEvery    int // every deepEvery-th hold also takes the deep fingerprint (0 = never)

	views, nonEmpty, overlapped, racy, stale uint64
	overlays, lookups, holds, rechecks       uint64
	violations                               uint64
	held                                     [4]*stressHeld
}

// observed renders a view for the failure message (rapid cannot replay a schedule).
func stressObserved(v *preconfirmed.ChainReader, req uint64) string {
	var up, down []string
	for e := range v.OldestFirst() {
		up = append(up, stressEntryString(e))
		if len(up) > 64 {
			up = append(up, "...")
			break
		}
	}
	for e := range v.NewestFirst() {
		down = append(down, stressEntryString(e))
		if len(down) > 64 {
			down = append(down, "...")
			break
		}
	}
	hd := "nil"
	if v.Length() != 0 {
		hd = stressEntryString(v.Head())
	}
	return fmt.Sprintf("requested block %d, Length() = %d, Head() = %s, OldestFirst = %v, NewestFirst = %v", req, v.Length(), hd, up, down)
}

func stressEntryString(e *pending.PreConfirmed) string {
	if e == nil || e.Block == nil || e.Block.Header == nil {
		return "<nil>"
	}
	return fmt.Sprintf("%d:%s/%dtx", e.Block.Number, e.BlockIdentifier, len(e.Block.Transactions))
}

func (g *stressRig) candidates(a, b int64) string {
	var s []string
	for i := a; i <= b; i++ {
		s = append(s, fmt.Sprintf("#%d %s", i, g.log[i].String()))
	}
	return strings.Join(s, " ; ")
}

func (rd *stressReader) run(g *stressRig, wg *sync.WaitGroup) {
	defer wg.Done()
	var ring [4]uint64
	h0 := g.head.Load()
	for i := range ring {
		ring[i] = h0
	}
	var down [72]*pending.PreConfirmed
	var up [72]*pending.PreConfirmed
	g.started.Add(1)
	for i := 0; !g.stop.Load(); i++ {
		// the order of Synchronizer.PreConfirmedChain: the height first, then the view for height+1
		if rd.refresh <= 1 || i%rd.refresh == 0 {
			if h := g.head.Load(); h != ring[0] {
				ring[3], ring[2], ring[1], ring[0] = ring[2], ring[1], ring[0], h
			}
		}
		pick := rd.pattern[i&15]
		req := ring[pick] + 1
		a, s0 := g.done.Load(), g.seq.Load()
		v := g.st.SnapshotForBlock(req)
		b := g.seq.Load()
		rd.views++
		if pick != 0 && ring[pick] != ring[0] {
			rd.stale++
		}
		n := v.Length()
		if n == 0 {
			if v.Head() != nil {
				rd.bad(g, "concurrent-view-shape", &v, req, a, b, "empty view with a non-nil Head()")
				continue
			}
		} else {
			cnt := 0
			for e := range v.NewestFirst() {
				if cnt < len(down) {
					down[cnt] = e
				}
				cnt++
				if cnt > 64 {
					break
				}
			}
			if n < 0 || cnt != n {
				rd.bad(g, "concurrent-view-shape", &v, req, a, b, fmt.Sprintf("Length() = %d but %d blocks are iterated", n, cnt))
				continue
			}
			ok := true
			for j := 0; j < n; j++ {
				e := down[j]
				if e == nil || e.Block == nil || e.Block.Header == nil || e.Block.Number != req+uint64(n-1-j) {
					ok = false
					break
				}
				up[n-1-j] = e
			}
			if !ok {
				rd.bad(g, "concurrent-view-shape", &v, req, a, b, "a non-empty view must be the gap-free run starting at the requested block")
				continue
			}
			if v.Head() != down[0] {
				rd.bad(g, "concurrent-view-shape", &v, req, a, b, "Head() is not the newest block iterated")
				continue
			}
			rd.nonEmpty++
		}
		// the view must be the documented answer on one chain that was current during the call
		match, differ := false, false
		first := g.log[a].answer(req)
		for ci := a; ci <= b; ci++ {
			ch := &g.log[ci]
			want := ch.answer(req)
			if want != first {
				differ = true
			}
			if want != n {
				continue
			}
			same := true
			for j := 0; j < n; j++ {
				k := &ch.keys[int(req-ch.base)+j]
				e := up[j]
				if e.Block.Number != k.num || e.BlockIdentifier != k.id || len(e.Block.Transactions) != k.ntx {
					same = false
					break
				}
			}
			if same {
				match = true
			}
		}
		if s0 != b { // a publish was announced while the call ran
			rd.overlapped++
			if differ {
				rd.racy++
			}
		}
		if !match {
			rd.bad(g, "concurrent-view-not-a-published-chain", &v, req, a, b,
				"the view is not SnapshotForBlock(requested) of any chain that was published while the call ran")
			continue
		}
		if n == 0 {
			continue
		}
		if rd.views%uint64(rd.overlayEvery) == 0 {
			rd.checkOverlay(g, &v, req, up[:n], int(rd.views/uint64(rd.overlayEvery)))
		}
		if rd.views%uint64(rd.holdEvery) == 0 {
			rd.hold(g, &v, req, up[:n])
		}
	}
	for _, hv := range rd.held {
		if hv != nil {
			rd.recheck(g, hv)
		}
	}
}

func (rd *stressReader) bad(g *stressRig, key string, v *preconfirmed.ChainReader, req uint64, a, b int64, what string) {
	rd.violations++
	g.fail(key, "reader %d, view %d: %s: %s; chains published around the call: %s", rd.id, rd.views, what, stressObserved(v, req), g.candidates(a, b))
}

// hold keeps the view and re-walks the view it evicts.
func (rd *stressReader) hold(g *stressRig, v *preconfirmed.ChainReader, req uint64, up []*pending.PreConfirmed) {
	rd.holds++
	hv := &stressHeld{v: *v, req: req, ents: append([]*pending.PreConfirmed(nil), up...)}
	for _, e := range up {
		hv.keys = append(hv.keys, stressKey{e.Block.Number, e.BlockIdentifier, len(e.Block.Transactions)})
	}
	if rd.deepEvery > 0 && rd.holds%uint64(rd.deepEvery) == 0 {
		hv.deep = renderView(v)
	}
	slot := int(rd.holds) % len(rd.held)
	if old := rd.held[slot]; old != nil {
		rd.recheck(g, old)
	}
	rd.held[slot] = hv
}

func (rd *stressReader) recheck(g *stressRig, hv *stressHeld) {
	rd.rechecks++
	i := 0
	for e := range hv.v.OldestFirst() {
		if i >= len(hv.ents) || e != hv.ents[i] {
			break
		}
		k := hv.keys[i]
		if e.Block.Number != k.num || e.BlockIdentifier != k.id || len(e.Block.Transactions) != k.ntx {
			break
		}
		i++
	}
	if i != len(hv.ents) || hv.v.Length() != len(hv.ents) {
		rd.violations++
		g.fail("concurrent-view-changed", "reader %d: a view taken at %d was %v when handed out and is now: %s", rd.id, hv.req, hv.keys, stressObserved(&hv.v, hv.req))
		return
	}
	if hv.deep != "" {
		if now := renderView(&hv.v); now != hv.deep {
			rd.violations++
			g.fail("concurrent-view-changed", "reader %d: the content of a view taken at %d changed while it was held: %s -> %s", rd.id, hv.req, clip(hv.deep, now), clip(now, hv.deep))
		}
	}
}

// checkOverlay: the state read through the view at one of its blocks (over an empty base) is the
// in-order overlay of the diffs of the blocks iterated up to that block; lookups find exactly the
// transactions of the blocks iterated.
func (rd *stressReader) checkOverlay(g *stressRig, v *preconfirmed.ChainReader, req uint64, up []*pending.PreConfirmed, salt int) {
	rd.overlays++
	n := len(up)
	t := salt % n
	target := req + uint64(t)
	sr, closer, err := v.PreConfirmedStateAt(target, emptyBase{})
	if err != nil {
		rd.violations++
		g.fail("concurrent-overlay", "reader %d: PreConfirmedStateAt(%d) on the view {%s}: %v", rd.id, target, stressObserved(v, req), err)
		return
	}
	for ai := 0; ai < 3 && ai < len(g.addrs); ai++ {
		addr := g.addrs[(salt+ai)%len(g.addrs)]
		var wantNonce *felt.Felt
		for j := 0; j <= t; j++ {
			if x, ok := up[j].StateUpdate.StateDiff.Nonces[addr]; ok {
				wantNonce = x
			}
		}
		got, err := sr.ContractNonce(&addr)
		if wantNonce != nil {
			if err != nil || !got.Equal(wantNonce) {
				rd.violations++
				g.fail("concurrent-overlay", "reader %d: state at %d through the view {%s}: ContractNonce(%s) = %s, %v; the newest block iterated up to %d that sets it says %s",
					rd.id, target, stressObserved(v, req), addr.ShortString(), got.ShortString(), err, target, wantNonce.ShortString())
			}
		} else if !(notFound(err) || (err == nil && got.IsZero())) {
			rd.violations++
			g.fail("concurrent-overlay", "reader %d: state at %d through the view {%s}: ContractNonce(%s) = %s, %v; no block iterated up to %d sets it (empty base)",
				rd.id, target, stressObserved(v, req), addr.ShortString(), got.ShortString(), err, target)
		}
		for ki := 0; ki < 2 && ki < len(g.keys); ki++ {
			key := g.keys[(salt+ki)%len(g.keys)]
			var want *felt.Felt
			for j := 0; j <= t; j++ {
				if m := up[j].StateUpdate.StateDiff.StorageDiffs[addr]; m != nil {
					if x, ok := m[key]; ok {
						want = x
					}
				}
			}
			got, err := sr.ContractStorage(&addr, &key)
			if want != nil {
				if err != nil || !got.Equal(want) {
					rd.violations++
					g.fail("concurrent-overlay", "reader %d: state at %d through the view {%s}: ContractStorage(%s, %s) = %s, %v; the newest block iterated up to %d that writes it says %s",
						rd.id, target, stressObserved(v, req), addr.ShortString(), key.ShortString(), got.ShortString(), err, target, want.ShortString())
				}
			} else if !(notFound(err) || (err == nil && got.IsZero())) {
				rd.violations++
				g.fail("concurrent-overlay", "reader %d: state at %d through the view {%s}: ContractStorage(%s, %s) = %s, %v; no block iterated up to %d writes it (empty base)",
					rd.id, target, stressObserved(v, req), addr.ShortString(), key.ShortString(), got.ShortString(), err, target)
			}
		}
	}
	_ = closer()

	// lookups
	rd.lookups++
	in := func(h *felt.Felt) (uint64, bool) {
		for j := n - 1; j >= 0; j-- {
			for _, tx := range up[j].Block.Transactions {
				if tx.Hash().Equal(h) {
					return up[j].Block.Number, true
				}
			}
		}
		return 0, false
	}
	contains := func(e *pending.PreConfirmed, h *felt.Felt) bool {
		for _, tx := range e.Block.Transactions {
			if tx.Hash().Equal(h) {
				return true
			}
		}
		return false
	}
	for xi, tx := range up[t].Block.Transactions {
		if xi >= 3 {
			break
		}
		h := tx.Hash()
		if got, err := v.TransactionByHash(h); err != nil || got == nil || !got.Hash().Equal(h) {
			rd.violations++
			g.fail("concurrent-lookup", "reader %d: TransactionByHash of transaction %d of block %d of the view {%s}: %v", rd.id, xi, target, stressObserved(v, req), err)
		}
		rc, num, err := v.ReceiptByHash(h)
		okNum := false
		if err == nil && rc != nil && rc.TransactionHash.Equal(h) && num >= req && num < req+uint64(n) {
			okNum = contains(up[num-req], h)
		}
		if !okNum {
			rd.violations++
			g.fail("concurrent-lookup", "reader %d: ReceiptByHash of transaction %d of block %d of the view {%s} = block %d, %v", rd.id, xi, target, stressObserved(v, req), num, err)
		}
	}
	if len(g.poolTx) > 0 {
		h := g.poolTx[salt%len(g.poolTx)]
		if _, there := in(&h); !there {
			if _, err := v.TransactionByHash(&h); err == nil {
				rd.violations++
				g.fail("concurrent-lookup", "reader %d: TransactionByHash(%s) found a transaction that none of the blocks of the view {%s} carries", rd.id, h.ShortString(), stressObserved(v, req))
			}
			if _, num, err := v.ReceiptByHash(&h); err == nil {
				rd.violations++
				g.fail("concurrent-lookup", "reader %d: ReceiptByHash(%s) found a receipt (block %d) that none of the blocks of the view {%s} carries", rd.id, h.ShortString(), num, stressObserved(v, req))
			}
		}
	}
}

// ---------------------------------------------------------------------------------------------
// the writer

// sop is one step of a script template; it adapts to the chain it meets (construction, no
// rejection): e.g. a partial advance on a chain shorter than 2 becomes an append.
type sop struct {
	kind byte // 'A' append/bootstrap, 'D' delta, 'R' new round at depth a below the tip, 'S' poorer same-round block (no-op), 'N' no-change (no-op), 'H' head advance + AdvanceTo, 'V' head revert + AdvanceTo
	a    int
	mode byte // 'H': 'p' partial (by 1 + a mod (len-1)), 'x' exactly to the tip (drop), 'o' past the tip (drop)
}

func (o sop) String() string {
	if o.kind == 'H' {
		return fmt.Sprintf("H%c%d", o.mode, o.a)
	}
	return fmt.Sprintf("%c%d", o.kind, o.a)
}

type sslot struct {
	num  uint64
	id   string
	ntx  int
	pool int
}

type stressWriter struct {
	g         *stressRig
	pool      []*content
	wires     map[[2]int]starknet.PreConfirmedBlock
	chain     []sslot
	head      uint64
	aligned   uint64
	nid       int
	nextPool  int
	publishes int
	steps     int
	counts    map[string]int
	err       *stressFail
	maxLen    int // an append on a chain this long becomes "the height catches up" (partial advance) first
}

func (w *stressWriter) fail(key, format string, a ...any) {
	if w.err == nil {
		w.err = &stressFail{key, fmt.Sprintf(format, a...)}
	}
}

func (w *stressWriter) wire(p, k int, id string) starknet.PreConfirmedBlock {
	b, ok := w.wires[[2]int{p, k}]
	if !ok {
		b = wireBlock(w.pool[p], k)
		w.wires[[2]int{p, k}] = b
	}
	b.BlockIdentifier = id
	return b
}

func (w *stressWriter) newID() string {
	w.nid++
	return fmt.Sprintf("0x%x", 0xb0000+w.nid)
}

func (w *stressWriter) takePool() int {
	p := w.nextPool
	w.nextPool = (w.nextPool + 1) % len(w.pool)
	return p
}

// announce logs the chain the next publish installs, BEFORE the publish.
func (w *stressWriter) announce(nc []sslot) {
	rec := stressChain{}
	if len(nc) > 0 {
		rec.base = nc[0].num
		rec.keys = make([]stressKey, len(nc))
		for i, s := range nc {
			rec.keys[i] = stressKey{s.num, s.id, s.ntx}
		}
	}
	idx := w.publishes + 1
	if idx >= len(w.g.log) {
		stats.HarnessError("stress log too short: %d", idx)
	}
	w.g.log[idx] = rec
	w.g.seq.Store(int64(idx))
	w.publishes = idx
}

// verify: the writer is the only writer, so what it reads back is exactly its model.
func (w *stressWriter) verify(what string) {
	if len(w.chain) == 0 {
		for _, x := range []uint64{w.aligned, w.head + 1} {
			if v := w.g.st.SnapshotForBlock(x); v.Length() != 0 {
				w.fail("model-chain", "%s: the model chain is empty but SnapshotForBlock(%d) is {%s}", what, x, stressObserved(&v, x))
			}
		}
		return
	}
	base := w.chain[0].num
	v := w.g.st.SnapshotForBlock(base)
	i := 0
	for e := range v.OldestFirst() {
		if i < len(w.chain) {
			s := w.chain[i]
			if e == nil || e.Block == nil || e.Block.Number != s.num || e.BlockIdentifier != s.id || len(e.Block.Transactions) != s.ntx {
				break
			}
		}
		i++
		if i > 64 {
			break
		}
	}
	if i != len(w.chain) || v.Length() != len(w.chain) {
		w.fail("model-chain", "%s: the stored chain read back by the writer is {%s}, model %s", what, stressObserved(&v, base), w.g.log[w.publishes].String())
	}
}

func (w *stressWriter) applied(what string, affected *pending.PreConfirmed, err error, s sslot) {
	if err != nil || affected == nil {
		w.fail("model-update-not-applied", "%s at block %d (oldest %d): ApplyUpdate = %v, %v; the documented outcome is a new chain %s", what, s.num, w.aligned, affected, err, w.g.log[w.publishes].String())
		return
	}
	if affected.Block.Number != s.num || affected.BlockIdentifier != s.id || len(affected.Block.Transactions) != s.ntx {
		w.fail("model-affected-entry", "%s: ApplyUpdate returned %s, documented %d:%s/%dtx", what, stressEntryString(affected), s.num, s.id, s.ntx)
	}
}

func (w *stressWriter) noop(what string, affected *pending.PreConfirmed, err error) {
	if affected != nil || err != nil {
		w.fail("model-noop-returned-entry", "%s: ApplyUpdate = %s, %v; the documented outcome is the silent no-op", what, stressEntryString(affected), err)
	}
}

func (w *stressWriter) opAppend(sel int) {
	if n := len(w.chain); n >= w.maxLen {
		w.moveHead(w.head+uint64(n-w.maxLen/2), "advance-partial-catching-up")
		return
	}
	num := w.aligned
	what := "bootstrap"
	if len(w.chain) > 0 {
		num = w.chain[len(w.chain)-1].num + 1
		what = "append"
	}
	p := w.takePool()
	k := w.pool[p].ntx()
	if sel > 0 && k >= 2 {
		k = 1 + (sel-1)%(k-1) // a prefix: the rest arrives with deltas
		w.counts["append-prefix"]++
	}
	s := sslot{num: num, id: w.newID(), ntx: k, pool: p}
	nc := append(append([]sslot{}, w.chain...), s)
	w.announce(nc)
	affected, err := w.g.st.ApplyUpdate(w.wire(p, k, s.id), num, 0, w.aligned, nil)
	w.applied(what, affected, err, s)
	w.chain = nc
	w.counts[what]++
	w.verify(what)
}

func (w *stressWriter) opDelta(a int) {
	if len(w.chain) == 0 {
		w.opAppend(1)
		return
	}
	tip := w.chain[len(w.chain)-1]
	ct := w.pool[tip.pool]
	if tip.ntx >= ct.ntx() {
		w.opRound(0)
		return
	}
	to := tip.ntx + 1 + a%(ct.ntx()-tip.ntx)
	s := sslot{num: tip.num, id: tip.id, ntx: to, pool: tip.pool}
	nc := append(append([]sslot{}, w.chain[:len(w.chain)-1]...), s)
	w.announce(nc)
	affected, err := w.g.st.ApplyUpdate(wireDelta(ct, tip.id, tip.ntx, to), tip.num, uint64(tip.ntx), w.aligned, nil)
	w.applied("delta", affected, err, s)
	w.chain = nc
	w.counts["delta"]++
	w.verify("delta")
}

func (w *stressWriter) opRound(depth int) {
	if len(w.chain) == 0 {
		w.opAppend(0)
		return
	}
	i := len(w.chain) - 1 - depth%len(w.chain)
	p := w.takePool()
	s := sslot{num: w.chain[i].num, id: w.newID(), ntx: w.pool[p].ntx(), pool: p}
	nc := append(append([]sslot{}, w.chain[:i]...), s)
	w.announce(nc)
	affected, err := w.g.st.ApplyUpdate(w.wire(p, s.ntx, s.id), s.num, 0, w.aligned, nil)
	what := "new-round-tip"
	if i < len(w.chain)-1 {
		what = "new-round-below-truncating"
	}
	w.applied(what, affected, err, s)
	w.chain = nc
	w.counts[what]++
	w.verify(what)
}

func (w *stressWriter) opSame(a int) {
	if len(w.chain) == 0 {
		w.opAppend(0)
		return
	}
	tip := w.chain[len(w.chain)-1]
	k := a % (tip.ntx + 1)
	affected, err := w.g.st.ApplyUpdate(w.wire(tip.pool, k, tip.id), tip.num, 0, w.aligned, nil)
	w.noop("same-round block with no more transactions", affected, err)
	w.counts["noop-same-round"]++
	w.verify("same-round")
}

func (w *stressWriter) opNoChange() {
	if len(w.chain) == 0 {
		w.opAppend(0)
		return
	}
	tip := w.chain[len(w.chain)-1]
	affected, err := w.g.st.ApplyUpdate(starknet.PreConfirmedNoChange{}, tip.num, uint64(tip.ntx), w.aligned, nil)
	w.noop("no-change", affected, err)
	w.counts["noop-no-change"]++
}

// moveHead: the canonical height moves first (the sync loop stores the block), the poller's
// AdvanceTo(height+1) follows.
func (w *stressWriter) moveHead(nh uint64, what string) {
	o := nh + 1
	var nc []sslot
	publish := false
	if len(w.chain) > 0 {
		oldest, tip := w.chain[0].num, w.chain[len(w.chain)-1].num
		switch {
		case o == oldest:
			nc = w.chain
		case o > tip || o < oldest:
			publish = true
		default:
			nc = append([]sslot{}, w.chain[o-oldest:]...)
			publish = true
		}
	}
	w.head = nh
	w.g.head.Store(nh)
	if publish {
		w.announce(nc)
	}
	got := w.g.st.AdvanceTo(o)
	w.aligned = o
	if got != publish {
		w.fail("model-chain", "%s: AdvanceTo(%d) = %v on the chain %s, documented %v", what, o, got, w.g.log[w.publishes].String(), publish)
	}
	w.chain = nc
	w.counts[what]++
	w.verify(what)
}

func (w *stressWriter) opAdvance(o sop) {
	n := len(w.chain)
	switch {
	case n == 0:
		w.moveHead(w.head+1+uint64(o.a%3), "advance-no-chain")
	case o.mode == 'p' && n < 2:
		w.opAppend(0)
	case o.mode == 'p':
		w.moveHead(w.head+1+uint64(o.a%(n-1)), "advance-partial")
	case o.mode == 'x':
		w.moveHead(w.head+uint64(n), "advance-to-tip-drop")
	default:
		w.moveHead(w.head+uint64(n)+1+uint64(o.a%3), "advance-past-tip-drop")
	}
}

func (w *stressWriter) opRevert(a int) {
	r := uint64(1 + a%2)
	if w.head < r {
		w.opAppend(0)
		return
	}
	what := "revert-drop"
	if len(w.chain) == 0 {
		what = "revert-no-chain"
	}
	w.moveHead(w.head-r, what)
}

func (w *stressWriter) step(o sop) {
	w.steps++
	switch o.kind {
	case 'A':
		w.opAppend(o.a)
	case 'D':
		w.opDelta(o.a)
	case 'R':
		w.opRound(o.a)
	case 'S':
		w.opSame(o.a)
	case 'N':
		w.opNoChange()
	case 'H':
		w.opAdvance(o)
	case 'V':
		w.opRevert(o.a)
	}
	w.g.done.Store(int64(w.publishes))
}

// drawTemplate draws one chain shape: build [h+1..t], updates in place, a drain (the head advances
// by k < t-h, once or repeatedly, possibly with appends in between: the sliding window of a node
// at the tip), and an ending (advance to / past the tip, revert and rebuild, new round below the
// tip, nothing).
func drawTemplate(rt *rapid.T) []sop {
	var ops []sop
	L := rapid.IntRange(2, 8).Draw(rt, "build")
	for i := 0; i < L; i++ {
		ops = append(ops, sop{kind: 'A', a: rapid.SampledFrom([]int{0, 0, 0, 1, 2}).Draw(rt, "prefix")})
	}
	for i, n := 0, rapid.IntRange(0, 5).Draw(rt, "mid"); i < n; i++ {
		k := rapid.SampledFrom([]byte{'D', 'D', 'D', 'R', 'R', 'S', 'N', 'A'}).Draw(rt, "midKind")
		ops = append(ops, sop{kind: k, a: rapid.IntRange(0, 7).Draw(rt, "midArg")})
	}
	switch rapid.SampledFrom([]string{"by1", "by1", "byk", "slide", "slide", "none"}).Draw(rt, "drain") {
	case "by1":
		for i, n := 0, rapid.IntRange(1, 7).Draw(rt, "drainSteps"); i < n; i++ {
			ops = append(ops, sop{kind: 'H', mode: 'p'})
		}
	case "byk":
		for i, n := 0, rapid.IntRange(1, 3).Draw(rt, "drainSteps"); i < n; i++ {
			ops = append(ops, sop{kind: 'H', mode: 'p', a: rapid.IntRange(1, 6).Draw(rt, "k")})
		}
	case "slide":
		for i, n := 0, rapid.IntRange(2, 12).Draw(rt, "slideSteps"); i < n; i++ {
			ops = append(ops, sop{kind: 'H', mode: 'p', a: rapid.SampledFrom([]int{0, 0, 0, 1}).Draw(rt, "k")})
			ops = append(ops, sop{kind: 'A', a: rapid.SampledFrom([]int{0, 0, 1}).Draw(rt, "prefix")})
			if rapid.IntRange(0, 3).Draw(rt, "slideDelta") == 0 {
				ops = append(ops, sop{kind: 'D', a: rapid.IntRange(0, 3).Draw(rt, "deltaArg")})
			}
		}
	}
	switch rapid.SampledFrom([]string{"none", "exact", "past", "revert", "round-below", "round-below"}).Draw(rt, "ending") {
	case "exact":
		ops = append(ops, sop{kind: 'H', mode: 'x'})
	case "past":
		ops = append(ops, sop{kind: 'H', mode: 'o', a: rapid.IntRange(0, 2).Draw(rt, "past")})
	case "revert":
		ops = append(ops, sop{kind: 'V', a: rapid.IntRange(0, 1).Draw(rt, "revertBy")})
	case "round-below":
		ops = append(ops, sop{kind: 'R', a: rapid.IntRange(1, 6).Draw(rt, "depth")}, sop{kind: 'A'}, sop{kind: 'H', mode: 'p', a: rapid.IntRange(0, 2).Draw(rt, "k")})
	}
	return ops
}

// ---------------------------------------------------------------------------------------------
// the property

const stressRule = "schedule pressure on the published chain: per case a pool of 6-10 generated pre-confirmed blocks, 2-5 drawn chain-shape templates (build [h+1..t] with full blocks or prefixes, deltas / new round at or below the tip with truncation / poorer same-round block / no-change, drain: the height advances by 1 or by k < t-h once or repeatedly or as a sliding window with appends in between, ending: advance exactly to / past the tip (drop), revert (drop and re-bootstrap), new round below the tip; chain length capped at a drawn 6-16: an append on a full chain becomes the height catching up) cycled by ONE writer until a drawn number of publishes (hundreds to thousands of ApplyUpdate/AdvanceTo per case; the height is stored first, AdvanceTo(height+1) follows, as sync loop and poller do) while 2-6 reader goroutines SPIN with GOMAXPROCS >= 4: read the height, SnapshotForBlock(h+1) for one of the last 4 heights the reader observed (drawn pattern, drawn height-refresh period), no sleeps or hand-offs per view. EVERY view is checked: empty or the gap-free run from the requested block with Length = blocks iterated and Head = newest; equal (number, round identifier, tx count per block) to the documented answer on one of the chains the writer had published while the call ran (the writer logs each chain before publishing it; a racing AdvanceTo/truncation/drop may legitimately give the empty view); sampled views are held and re-walked (entries, content, deep fingerprint), and their overlay state (over an empty base) and tx/receipt lookups are compared with the blocks iterated. The writer reads its own chain back after every step (list model). Non-trivial = the readers took >= 1000 views and at least one SnapshotForBlock call overlapped a publish; distinct = SHA-256 of the drawn script and reader parameters"

func stressProp(rt *rapid.T, c *stats.Case) {
	if prev := runtime.GOMAXPROCS(0); prev < 4 {
		runtime.GOMAXPROCS(4)
		defer runtime.GOMAXPROCS(prev)
	}
	w0 := newWorld(rt, c, false, rapid.IntRange(1, 3).Draw(rt, "height"))
	g := &stressRig{st: preconfirmed.NewChainStorage(), addrs: w0.u.AllAddrs(), keys: w0.u.Keys, keepOn: os.Getenv("VERIF_C20_STRESS_STATS") == "2"}

	// pool of contents (the wire form carries no block number: a content can be shown at any slot)
	tipB := w0.canon.Blocks[w0.canon.Height()-1]
	pre, ver := tipB.Post, tipB.B.ProtocolVersion
	np := rapid.IntRange(6, 10).Draw(rt, "pool")
	w := &stressWriter{g: g, wires: map[[2]int]starknet.PreConfirmedBlock{}, counts: map[string]int{}, maxLen: rapid.IntRange(6, 16).Draw(rt, "maxLen")}
	for i := 0; i < np; i++ {
		ck := w0.drawChunk(rt, w0.head()+1+uint64(i), pre, ver, "", rapid.SampledFrom([]int{0, 0, 1, 2, 3}).Draw(rt, "minTxs"))
		ct := &content{num: w0.head() + 1 + uint64(i), ver: ck.ver, h: ck.h, txs: ck.txs, rcs: ck.rcs, diffs: ck.diffs, states: ck.states}
		w.pool = append(w.pool, ct)
		pre, ver = ct.end(), ct.ver
		for _, tx := range ct.txs {
			g.poolTx = append(g.poolTx, *tx.Hash())
		}
	}

	var templates [][]sop
	for i, n := 0, rapid.IntRange(2, 5).Draw(rt, "templates"); i < n; i++ {
		templates = append(templates, drawTemplate(rt))
	}
	lo, hi := stats.Pick(300, 1000), stats.Pick(1500, 6000)
	budget := rapid.IntRange(lo, hi).Draw(rt, "publishes")
	g.log = make([]stressChain, budget+16)

	nr := rapid.IntRange(2, 6).Draw(rt, "readers")
	readers := make([]*stressReader, nr)
	for r := range readers {
		rd := &stressReader{id: r,
			refresh:      rapid.SampledFrom([]int{1, 1, 1, 2, 4, 16}).Draw(rt, "refresh"),
			overlayEvery: rapid.IntRange(64, 1024).Draw(rt, "overlayEvery"),
			holdEvery:    rapid.IntRange(16, 256).Draw(rt, "holdEvery"),
		}
		if r == 0 {
			rd.deepEvery = rapid.IntRange(8, 64).Draw(rt, "deepEvery")
		}
		for i := range rd.pattern {
			rd.pattern[i] = rapid.SampledFrom([]uint8{0, 0, 0, 1, 1, 1, 2, 3}).Draw(rt, "pick")
		}
		readers[r] = rd
		c.Fp("reader %d refresh %d pattern %v", r, rd.refresh, rd.pattern)
	}
	c.Fp("pool %d budget %d maxLen %d templates %v", np, budget, w.maxLen, templates)
	c.Labelf("readers:%d", nr)

	w.head = w0.head()
	w.aligned = w.head + 1
	g.head.Store(w.head)

	var wg sync.WaitGroup
	for _, rd := range readers {
		wg.Add(1)
		go rd.run(g, &wg)
	}
	// one hand-off per CASE (not per view): the script starts when every reader spins
	for g.started.Load() < int32(nr) {
		runtime.Gosched()
	}
	func() {
		defer func() { g.stop.Store(true); wg.Wait() }()
		maxSteps := 6 * budget
		for ti := 0; w.publishes < budget && w.steps < maxSteps && w.err == nil; ti++ {
			for _, o := range templates[ti%len(templates)] {
				if w.publishes >= budget || w.err != nil || (g.failed.Load() && !g.keepOn) {
					break
				}
				w.step(o)
			}
			if g.failed.Load() && !g.keepOn {
				break
			}
		}
	}()

	var views, nonEmpty, overlapped, racy, stale, overlays, holds, rechecks, viol uint64
	minViews := ^uint64(0)
	for _, rd := range readers {
		views += rd.views
		nonEmpty += rd.nonEmpty
		overlapped += rd.overlapped
		racy += rd.racy
		stale += rd.stale
		overlays += rd.overlays
		holds += rd.holds
		rechecks += rd.rechecks
		viol += rd.violations
		minViews = min(minViews, rd.views)
	}
	if os.Getenv("VERIF_C20_STRESS_STATS") != "" {
		fmt.Fprintf(os.Stderr, "C20-STRESS publishes=%d steps=%d readers=%d views=%d (min/reader %d) nonempty=%d stale-requests=%d calls-overlapping-a-publish=%d of-which-answer-changed=%d overlays=%d holds=%d reader-violations=%d counts=%v\n",
			w.publishes, w.steps, nr, views, minViews, nonEmpty, stale, overlapped, racy, overlays, holds, viol, w.counts)
	}
	if w.err != nil {
		c.Violation(w.err.key, "writer, step %d (publish %d): %s", w.steps, w.publishes, w.err.msg)
	}
	if len(g.fails) > 0 && !g.keepOn {
		for _, f := range g.fails {
			fmt.Fprintf(os.Stderr, "C20-STRESS-OBSERVED [%s] %s\n", f.key, f.msg)
		}
		c.Violation(g.fails[0].key, "%d reader failures in %d views (%d publishes so far); first: %s", viol, views, w.publishes, g.fails[0].msg)
	}

	for k := range w.counts {
		c.Label("script:" + k)
	}
	switch {
	case w.publishes >= 3000:
		c.Label("publishes:>=3000")
	case w.publishes >= 1000:
		c.Label("publishes:1000-2999")
	default:
		c.Label("publishes:<1000")
	}
	switch {
	case views >= 1_000_000:
		c.Label("views/case:>=1e6")
	case views >= 100_000:
		c.Label("views/case:1e5-1e6")
	case views >= 10_000:
		c.Label("views/case:1e4-1e5")
	default:
		c.Label("views/case:<1e4")
	}
	if minViews < 100 {
		c.Label("a-reader-took-<100-views")
	}
	if overlapped > 0 {
		c.Label("calls-overlapping-a-publish:>=1")
	}
	if overlapped >= 100 {
		c.Label("calls-overlapping-a-publish:>=100")
	}
	if racy > 0 {
		c.Label("calls-overlapping-a-publish-that-changes-the-answer:>=1")
	}
	if racy >= 10 {
		c.Label("calls-overlapping-a-publish-that-changes-the-answer:>=10")
	}
	if holds > 0 && rechecks > 0 {
		c.Label("views-held-and-rewalked")
	}
	if overlays > 0 {
		c.Label("overlay+lookups-checked")
	}
	if views >= 1000 && overlapped > 0 {
		c.NonTrivial("readers-took->=1000-views-and-a-call-overlapped-a-publish")
	}
	for i := uint64(0); i < views/100_000; i++ {
		c.Info("views-checked-x100k")
	}
	for i := uint64(0); i < racy/10; i++ {
		c.Info("calls-overlapping-an-answer-changing-publish-x10")
	}
	c.Sample(func() any {
		var ts []string
		for _, t := range templates {
			ts = append(ts, fmt.Sprint(t))
		}
		return map[string]any{"templates": ts, "publishes": w.publishes, "steps": w.steps, "readers": nr, "views": views, "non_empty_views": nonEmpty,
			"requests_for_an_older_observed_height": stale, "calls_overlapping_a_publish": overlapped, "of_which_the_publish_changed_the_answer": racy,
			"overlay_checks": overlays, "views_held": holds, "writer_steps": w.counts}
	})
}

// TestPropStressReaders: the stress without the race detector (its ~10x slowdown of the spin loop
// changes the timing).
func TestPropStressReaders(t *testing.T) {
	stats.Check(t, stats.Budget{Quick: 24, Thorough: 120}, stressRule, stressProp)
}

// TestRaceStressReaders: the same stress under -race.
func TestRaceStressReaders(t *testing.T) {
	stats.Check(t, stats.Budget{Quick: 10, Thorough: 50}, stressRule+"; under -race", stressProp)
}
