package c20

// Shared machinery of the C20 checks: generated pre-confirmed content (transactions, receipts,
// per-transaction state diffs that are consistent with an abstract state), conversion to the
// feeder wire types, the list model of the storage, deep rendering of views, and the overlay
// comparison against ref.State.

import (
	"encoding/json"
	"errors"
	"fmt"
	"sort"
	"strings"

	"github.com/NethermindEth/juno/blockchain"
	"github.com/NethermindEth/juno/core"
	"github.com/NethermindEth/juno/core/felt"
	"github.com/NethermindEth/juno/core/pending"
	"github.com/NethermindEth/juno/db"
	_ "github.com/NethermindEth/juno/encoder/registry"
	"github.com/NethermindEth/juno/starknet"
	"github.com/NethermindEth/juno/sync/preconfirmed"
	"pgregory.net/rapid"

	"verif/harness/internal/gen"
	"verif/harness/internal/node"
	"verif/harness/internal/ref"
	"verif/harness/internal/stats"
)

const blankID = "0x0" // feeder.PreConfirmedBlankIdentifier (the placeholder identifier)

// kfCasmMigration: pending.State.CompiledClassHash does not consult the diff's MigratedClasses, so the
// state read through a view keeps answering the Poseidon (V1) CASM hash of a class that one of the
// view's blocks migrated to the blake2s (V2) hash; the canonical state answers V2 once the same
// diff is stored. While listed as known those reads are not judged (counted as excluded).
const kfCasmMigration = "c20-pending-state-casm-hash-ignores-migration"

// ---------------------------------------------------------------------------------------------
// sorted iteration helpers (no map-iteration order in generators or oracles)

func sortedFelts[V any](m map[felt.Felt]V) []felt.Felt {
	out := make([]felt.Felt, 0, len(m))
	for k := range m {
		out = append(out, k)
	}
	sort.Slice(out, func(i, j int) bool { return out[i].Cmp(&out[j]) < 0 })
	return out
}

// ---------------------------------------------------------------------------------------------
// canonical rendering of state diffs

// diffCanon renders every entry of a state diff in sorted order. showEmpty also renders inner
// storage maps without entries (part of the data for the immutability fingerprint; invisible to
// the semantic comparison).
func diffCanon(d *core.StateDiff, showEmpty bool) string {
	if d == nil {
		return "<nil>"
	}
	var b strings.Builder
	b.WriteString("S{")
	for _, a := range sortedFelts(d.StorageDiffs) {
		kv := d.StorageDiffs[a]
		if len(kv) == 0 {
			if showEmpty {
				fmt.Fprintf(&b, "%s:{}", a.String())
			}
			continue
		}
		for _, k := range sortedFelts(kv) {
			fmt.Fprintf(&b, "%s/%s=%s,", a.String(), k.String(), kv[k].String())
		}
	}
	b.WriteString("}N{")
	for _, a := range sortedFelts(d.Nonces) {
		fmt.Fprintf(&b, "%s=%s,", a.String(), d.Nonces[a].String())
	}
	b.WriteString("}D{")
	for _, a := range sortedFelts(d.DeployedContracts) {
		fmt.Fprintf(&b, "%s=%s,", a.String(), d.DeployedContracts[a].String())
	}
	b.WriteString("}R{")
	for _, a := range sortedFelts(d.ReplacedClasses) {
		fmt.Fprintf(&b, "%s=%s,", a.String(), d.ReplacedClasses[a].String())
	}
	b.WriteString("}C1{")
	for _, a := range sortedFelts(d.DeclaredV1Classes) {
		fmt.Fprintf(&b, "%s=%s,", a.String(), d.DeclaredV1Classes[a].String())
	}
	b.WriteString("}M{")
	mk := make([]felt.Felt, 0, len(d.MigratedClasses))
	for k := range d.MigratedClasses {
		mk = append(mk, felt.Felt(k))
	}
	sort.Slice(mk, func(i, j int) bool { return mk[i].Cmp(&mk[j]) < 0 })
	for _, k := range mk {
		v := felt.Felt(d.MigratedClasses[felt.SierraClassHash(k)])
		fmt.Fprintf(&b, "%s=%s,", k.String(), v.String())
	}
	b.WriteString("}C0[")
	for _, h := range d.DeclaredV0Classes { // list order is data
		b.WriteString(h.String() + ",")
	}
	b.WriteString("]")
	return b.String()
}

func diffEmpty(d *core.StateDiff) bool {
	return len(d.StorageDiffs) == 0 && len(d.Nonces) == 0 && len(d.DeployedContracts) == 0 && len(d.ReplacedClasses) == 0 &&
		len(d.DeclaredV1Classes) == 0 && len(d.MigratedClasses) == 0 && len(d.DeclaredV0Classes) == 0
}

// foldDiffs is the harness's own "apply in order, later wins" squash (independent of StateDiff.Merge).
func foldDiffs(ds []*core.StateDiff) *core.StateDiff {
	o := core.EmptyStateDiff()
	for _, d := range ds {
		for a, kv := range d.StorageDiffs {
			m := o.StorageDiffs[a]
			if m == nil {
				m = map[felt.Felt]*felt.Felt{}
				o.StorageDiffs[a] = m
			}
			for k, v := range kv {
				m[k] = v
			}
		}
		for a, v := range d.Nonces {
			o.Nonces[a] = v
		}
		for a, v := range d.DeployedContracts {
			o.DeployedContracts[a] = v
		}
		for a, v := range d.ReplacedClasses {
			o.ReplacedClasses[a] = v
		}
		for a, v := range d.DeclaredV1Classes {
			o.DeclaredV1Classes[a] = v
		}
		for a, v := range d.MigratedClasses {
			o.MigratedClasses[a] = v
		}
		o.DeclaredV0Classes = append(o.DeclaredV0Classes, d.DeclaredV0Classes...)
	}
	return &o
}

// ---------------------------------------------------------------------------------------------
// core -> feeder wire conversion (fresh memory for everything: the stored entries must not alias
// the harness's source values)

func cf(f *felt.Felt) *felt.Felt {
	if f == nil {
		return nil
	}
	c := *f
	return &c
}

func cfs(s []felt.Felt) *[]felt.Felt {
	c := append([]felt.Felt{}, s...)
	return &c
}

func u64f(u uint64) *felt.Felt { var f felt.Felt; f.SetUint64(u); return &f }

func wireRB(m map[core.Resource]core.ResourceBounds) *map[starknet.Resource]starknet.ResourceBounds {
	if m == nil {
		return nil
	}
	o := map[starknet.Resource]starknet.ResourceBounds{}
	for r, b := range m {
		o[starknet.Resource(r)] = starknet.ResourceBounds{MaxAmount: u64f(b.MaxAmount), MaxPricePerUnit: cf(b.MaxPricePerUnit)}
	}
	return &o
}

func wireDA(m core.DataAvailabilityMode) *starknet.DataAvailabilityMode {
	x := starknet.DataAvailabilityMode(m)
	return &x
}

func wireTx(tx core.Transaction) starknet.Transaction {
	switch x := tx.(type) {
	case *core.InvokeTransaction:
		w := starknet.Transaction{Type: starknet.TxnInvoke, Hash: cf(x.TransactionHash), Version: cf(x.Version.AsFelt()),
			ContractAddress: cf(x.ContractAddress), EntryPointSelector: cf(x.EntryPointSelector), Nonce: cf(x.Nonce),
			CallData: cfs(x.CallData), Signature: cfs(x.TransactionSignature), MaxFee: cf(x.MaxFee), SenderAddress: cf(x.SenderAddress)}
		if x.Version.Is(3) {
			w.ResourceBounds, w.Tip = wireRB(x.ResourceBounds), u64f(x.Tip)
			w.PaymasterData, w.AccountDeploymentData = cfs(x.PaymasterData), cfs(x.AccountDeploymentData)
			w.NonceDAMode, w.FeeDAMode = wireDA(x.NonceDAMode), wireDA(x.FeeDAMode)
			if x.ProofFacts != nil {
				w.ProofFacts = cfs(x.ProofFacts)
			}
		}
		return w
	case *core.DeclareTransaction:
		w := starknet.Transaction{Type: starknet.TxnDeclare, Hash: cf(x.TransactionHash), Version: cf(x.Version.AsFelt()),
			SenderAddress: cf(x.SenderAddress), MaxFee: cf(x.MaxFee), Signature: cfs(x.TransactionSignature), Nonce: cf(x.Nonce),
			ClassHash: cf(x.ClassHash), CompiledClassHash: cf(x.CompiledClassHash)}
		if x.Version.Is(3) {
			w.ResourceBounds, w.Tip = wireRB(x.ResourceBounds), u64f(x.Tip)
			w.PaymasterData, w.AccountDeploymentData = cfs(x.PaymasterData), cfs(x.AccountDeploymentData)
			w.NonceDAMode, w.FeeDAMode = wireDA(x.NonceDAMode), wireDA(x.FeeDAMode)
		}
		return w
	case *core.DeployAccountTransaction:
		w := starknet.Transaction{Type: starknet.TxnDeployAccount, Hash: cf(x.TransactionHash), Version: cf(x.Version.AsFelt()),
			ContractAddressSalt: cf(x.ContractAddressSalt), ContractAddress: cf(x.ContractAddress), ClassHash: cf(x.ClassHash),
			ConstructorCallData: cfs(x.ConstructorCallData), Signature: cfs(x.TransactionSignature), Nonce: cf(x.Nonce), MaxFee: cf(x.MaxFee)}
		if x.Version.Is(3) {
			w.ResourceBounds, w.Tip = wireRB(x.ResourceBounds), u64f(x.Tip)
			w.PaymasterData = cfs(x.PaymasterData)
			w.NonceDAMode, w.FeeDAMode = wireDA(x.NonceDAMode), wireDA(x.FeeDAMode)
		}
		return w
	case *core.L1HandlerTransaction:
		return starknet.Transaction{Type: starknet.TxnL1Handler, Hash: cf(x.TransactionHash), Version: cf(x.Version.AsFelt()),
			ContractAddress: cf(x.ContractAddress), EntryPointSelector: cf(x.EntryPointSelector), Nonce: cf(x.Nonce), CallData: cfs(x.CallData)}
	case *core.DeployTransaction:
		return starknet.Transaction{Type: starknet.TxnDeploy, Hash: cf(x.TransactionHash), Version: cf(x.Version.AsFelt()),
			ContractAddressSalt: cf(x.ContractAddressSalt), ContractAddress: cf(x.ContractAddress), ClassHash: cf(x.ClassHash),
			ConstructorCallData: cfs(x.ConstructorCallData)}
	}
	stats.HarnessError("wireTx: unknown transaction type %T", tx)
	return starknet.Transaction{}
}

func wireReceipt(r *core.TransactionReceipt, idx int) *starknet.TransactionReceipt {
	w := &starknet.TransactionReceipt{ActualFee: cf(r.Fee), TransactionHash: cf(r.TransactionHash), TransactionIndex: uint64(idx),
		ExecutionStatus: starknet.Succeeded, RevertError: r.RevertReason}
	if r.Reverted {
		w.ExecutionStatus = starknet.Reverted
	}
	for _, e := range r.Events {
		w.Events = append(w.Events, &starknet.Event{From: cf(e.From), Data: append([]felt.Felt{}, e.Data...), Keys: append([]felt.Felt{}, e.Keys...)})
	}
	for _, m := range r.L2ToL1Message {
		to, _ := m.To.MarshalText()
		w.L2ToL1Message = append(w.L2ToL1Message, &starknet.L2ToL1Message{From: cf(m.From), Payload: append([]felt.Felt{}, m.Payload...), To: string(to)})
	}
	if er := r.ExecutionResources; er != nil {
		w.ExecutionResources = &starknet.ExecutionResources{Steps: er.Steps, MemoryHoles: er.MemoryHoles,
			BuiltinInstanceCounter: starknet.BuiltinInstanceCounter{Pedersen: er.BuiltinInstanceCounter.Pedersen, RangeCheck: er.BuiltinInstanceCounter.RangeCheck}}
		if er.DataAvailability != nil {
			w.ExecutionResources.DataAvailability = &starknet.DataAvailability{L1Gas: er.DataAvailability.L1Gas, L1DataGas: er.DataAvailability.L1DataGas}
		}
		if er.TotalGasConsumed != nil {
			w.ExecutionResources.TotalGasConsumed = &starknet.GasConsumed{L1Gas: er.TotalGasConsumed.L1Gas, L1DataGas: er.TotalGasConsumed.L1DataGas, L2Gas: er.TotalGasConsumed.L2Gas}
		}
	}
	if m := r.L1ToL2Message; m != nil {
		from, _ := m.From.MarshalText()
		w.L1ToL2Message = &starknet.L1ToL2Message{From: string(from), Payload: append([]felt.Felt{}, m.Payload...), Selector: cf(m.Selector), To: cf(m.To), Nonce: cf(m.Nonce)}
	}
	return w
}

func wireDiff(d *core.StateDiff) *starknet.StateDiff {
	w := &starknet.StateDiff{}
	if len(d.StorageDiffs) > 0 {
		w.StorageDiffs = map[string][]struct {
			Key   *felt.Felt `json:"key"`
			Value *felt.Felt `json:"value"`
		}{}
		for _, a := range sortedFelts(d.StorageDiffs) {
			kv := d.StorageDiffs[a]
			var l []struct {
				Key   *felt.Felt `json:"key"`
				Value *felt.Felt `json:"value"`
			}
			for _, k := range sortedFelts(kv) {
				k := k
				l = append(l, struct {
					Key   *felt.Felt `json:"key"`
					Value *felt.Felt `json:"value"`
				}{Key: &k, Value: cf(kv[k])})
			}
			w.StorageDiffs[a.String()] = l
		}
	}
	if len(d.Nonces) > 0 {
		w.Nonces = map[string]*felt.Felt{}
		for a, v := range d.Nonces {
			w.Nonces[a.String()] = cf(v)
		}
	}
	for _, a := range sortedFelts(d.DeployedContracts) {
		a := a
		w.DeployedContracts = append(w.DeployedContracts, struct {
			Address   *felt.Felt `json:"address"`
			ClassHash *felt.Felt `json:"class_hash"`
		}{Address: &a, ClassHash: cf(d.DeployedContracts[a])})
	}
	for _, h := range d.DeclaredV0Classes {
		w.OldDeclaredContracts = append(w.OldDeclaredContracts, cf(h))
	}
	for _, h := range sortedFelts(d.DeclaredV1Classes) {
		h := h
		w.DeclaredClasses = append(w.DeclaredClasses, struct {
			ClassHash         *felt.Felt `json:"class_hash"`
			CompiledClassHash *felt.Felt `json:"compiled_class_hash"`
		}{ClassHash: &h, CompiledClassHash: cf(d.DeclaredV1Classes[h])})
	}
	for _, a := range sortedFelts(d.ReplacedClasses) {
		a := a
		w.ReplacedClasses = append(w.ReplacedClasses, struct {
			Address   *felt.Felt `json:"address"`
			ClassHash *felt.Felt `json:"class_hash"`
		}{Address: &a, ClassHash: cf(d.ReplacedClasses[a])})
	}
	mk := make([]felt.Felt, 0, len(d.MigratedClasses))
	for k := range d.MigratedClasses {
		mk = append(mk, felt.Felt(k))
	}
	sort.Slice(mk, func(i, j int) bool { return mk[i].Cmp(&mk[j]) < 0 })
	for _, k := range mk {
		w.MigratedClasses = append(w.MigratedClasses, struct {
			ClassHash         felt.SierraClassHash `json:"class_hash"`
			CompiledClassHash felt.CasmClassHash   `json:"compiled_class_hash"`
		}{ClassHash: felt.SierraClassHash(k), CompiledClassHash: d.MigratedClasses[felt.SierraClassHash(k)]})
	}
	return w
}

// ---------------------------------------------------------------------------------------------
// generated content

// content is the (immutable) source content of one pre-confirmed block as the sequencer shows it
// at one moment: transactions, receipts, per-transaction diffs, and the abstract state after
// each transaction (states[0] is the state before the block).
type content struct {
	num    uint64
	id     string
	ver    string
	h      *core.Header // drawn header fields (timestamp, sequencer, prices, DA mode)
	txs    []core.Transaction
	rcs    []*core.TransactionReceipt
	diffs  []*core.StateDiff
	states []*ref.State
}

func (c *content) ntx() int             { return len(c.txs) }
func (c *content) end() *ref.State      { return c.states[len(c.txs)] }
func (c *content) agg() *core.StateDiff { return foldDiffs(c.diffs) }

func (c *content) prefix(k int) *content {
	n := *c
	n.txs, n.rcs, n.diffs, n.states = c.txs[:k:k], c.rcs[:k:k], c.diffs[:k:k], c.states[:k+1:k+1]
	return &n
}

func (c *content) extended(ck *chunk) *content {
	n := *c
	n.txs = append(append([]core.Transaction{}, c.txs...), ck.txs...)
	n.rcs = append(append([]*core.TransactionReceipt{}, c.rcs...), ck.rcs...)
	n.diffs = append(append([]*core.StateDiff{}, c.diffs...), ck.diffs...)
	n.states = append(append([]*ref.State{}, c.states...), ck.states[1:]...)
	return &n
}

func (c *content) withID(id string) *content { n := *c; n.id = id; return &n }

func (c *content) String() string {
	return fmt.Sprintf("#%d id=%s v%s ntx=%d %s", c.num, c.id, c.ver, len(c.txs), gen.DiffString(c.agg()))
}

// chunk is one generated batch of transactions with diffs on top of a given abstract state.
type chunk struct {
	ver    string
	h      *core.Header
	txs    []core.Transaction
	rcs    []*core.TransactionReceipt
	diffs  []*core.StateDiff
	states []*ref.State
}

type world struct {
	c     *stats.Case
	u     *gen.Universe
	defs  map[felt.Felt]core.ClassDefinition
	canon *gen.Chain // canonical chain (model); the node, if any, stores exactly these blocks
	fac   *gen.Chain // factory lineage for pre-confirmed content (keeps tx hashes distinct)
	n     *node.Node // nil: model-only base state
	nid   int
}

func newWorld(rt *rapid.T, c *stats.Case, withNode bool, height int) *world {
	u := gen.NewUniverse(rt)
	w := &world{c: c, u: u, defs: map[felt.Felt]core.ClassDefinition{}}
	for _, s := range u.Sierra {
		w.defs[s.Hash] = s.Def
	}
	for _, s := range u.Cairo0 {
		w.defs[s.Hash] = s.Def
	}
	w.canon = gen.NewChain(u, gen.Opts{MaxTxs: 2, MaxEvents: 2, MinVersionIdx: rapid.IntRange(0, 3).Draw(rt, "minver")})
	if withNode {
		w.n = node.New(rapid.Bool().Draw(rt, "newState"), nil, u.Net)
		c.Label("backend:" + w.n.Backend())
	}
	for i := 0; i < height; i++ {
		w.storeCanon(w.canon.Next(rt))
	}
	// The factory's transaction-nonce counter starts far above anything the canonical lineage
	// reaches (each Fork adds 1e6), so canonical and pre-confirmed transaction hashes never collide.
	w.fac = gen.NewChain(u, gen.Opts{MaxTxs: 3, MaxEvents: 2})
	for i := 0; i < 1000; i++ {
		w.fac = w.fac.Fork(0)
	}
	return w
}

func (w *world) head() uint64 { return uint64(w.canon.Height() - 1) }

func (w *world) storeCanon(b *gen.Block) {
	if w.n == nil {
		return
	}
	if err := w.n.Store(b); err != nil {
		stats.HarnessError("canonical block %d rejected by the node: %v", b.Num(), err)
	}
}

func (w *world) newID() string {
	w.nid++
	return fmt.Sprintf("0x%x", 0xa000+w.nid)
}

// drawChunk draws transactions and per-transaction diffs for block num on top of state pre.
// fixedVer != "" pins the protocol version (a delta continues its block); otherwise the version
// is prevVer or later. minTxs forces at least that many transactions.
func (w *world) drawChunk(rt *rapid.T, num uint64, pre *ref.State, prevVer, fixedVer string, minTxs int) *chunk {
	if num == 0 {
		stats.HarnessError("drawChunk for block 0")
	}
	syn := &gen.Block{B: &core.Block{Header: &core.Header{Hash: u64f(0xbeef0000 + num), ProtocolVersion: prevVer, Timestamp: 1_800_000_000 + 1000*num}}, Post: pre}
	blocks := make([]*gen.Block, num)
	for i := range blocks {
		blocks[i] = syn
	}
	w.fac.Blocks = blocks
	w.fac.Opt.FixedVersion = fixedVer
	w.fac = w.fac.Fork(int(num))
	b := w.fac.Draw(rt)
	ck := &chunk{ver: b.B.ProtocolVersion, h: b.B.Header, txs: b.B.Transactions, rcs: b.B.Receipts}
	d := b.SU.StateDiff
	need := minTxs
	if need < 1 && !diffEmpty(d) {
		need = 1
	}
	for len(ck.txs) < need {
		tx := w.fac.DrawTx(rt, ck.ver)
		ck.txs = append(ck.txs, tx)
		ck.rcs = append(ck.rcs, w.fac.DrawReceipt(rt, tx))
	}
	ck.diffs = w.splitDiff(rt, d, len(ck.txs))
	ck.states = []*ref.State{pre}
	for i, td := range ck.diffs {
		st := ck.states[i].Clone()
		if err := st.Apply(num, ck.ver, td, w.defs, w.u.CasmV2Of); err != nil {
			stats.HarnessError("split diff %d of block %d inconsistent with the model: %v", i, num, err)
		}
		ck.states = append(ck.states, st)
	}
	if got, want := stateString(ck.states[len(ck.txs)]), stateString(b.Post); got != want {
		stats.HarnessError("split diffs of block %d do not add up to the block diff:\n%s\n%s", num, got, want)
	}
	return ck
}

// splitDiff distributes the entries of a block-level diff over n transactions so that applying the
// per-transaction diffs in order yields d; some slots/nonces get an earlier intermediate value
// (the order of merging then matters). A contract's nonce/storage entries are placed at or after
// the transaction that deploys it.
func (w *world) splitDiff(rt *rapid.T, d *core.StateDiff, n int) []*core.StateDiff {
	out := make([]*core.StateDiff, n)
	for i := range out {
		e := core.EmptyStateDiff()
		out[i] = &e
	}
	if n == 0 {
		return out
	}
	pick := func(lo int, l string) int {
		if lo >= n-1 {
			return n - 1
		}
		return rapid.IntRange(lo, n-1).Draw(rt, l)
	}
	for _, h := range d.DeclaredV0Classes {
		i := pick(0, "txOfDecl0")
		out[i].DeclaredV0Classes = append(out[i].DeclaredV0Classes, h)
	}
	for _, h := range sortedFelts(d.DeclaredV1Classes) {
		out[pick(0, "txOfDecl1")].DeclaredV1Classes[h] = d.DeclaredV1Classes[h]
	}
	mk := make([]felt.Felt, 0)
	for k := range d.MigratedClasses {
		mk = append(mk, felt.Felt(k))
	}
	sort.Slice(mk, func(i, j int) bool { return mk[i].Cmp(&mk[j]) < 0 })
	for _, k := range mk {
		out[pick(0, "txOfMigr")].MigratedClasses[felt.SierraClassHash(k)] = d.MigratedClasses[felt.SierraClassHash(k)]
	}
	deployedAt := map[felt.Felt]int{}
	for _, a := range sortedFelts(d.DeployedContracts) {
		i := pick(0, "txOfDeploy")
		out[i].DeployedContracts[a] = d.DeployedContracts[a]
		deployedAt[a] = i
	}
	for _, a := range sortedFelts(d.ReplacedClasses) {
		out[pick(0, "txOfReplace")].ReplacedClasses[a] = d.ReplacedClasses[a]
	}
	for _, a := range sortedFelts(d.Nonces) {
		lo := deployedAt[a]
		i := pick(lo, "txOfNonce")
		out[i].Nonces[a] = d.Nonces[a]
		if i > lo && rapid.IntRange(0, 2).Draw(rt, "nonceEarlier") == 0 {
			v := gen.Felt().Draw(rt, "nonceEarlierVal")
			out[rapid.IntRange(lo, i-1).Draw(rt, "nonceEarlierTx")].Nonces[a] = &v
			w.c.Label("tx-diffs:overwritten-nonce")
		}
	}
	for _, a := range sortedFelts(d.StorageDiffs) {
		lo := deployedAt[a]
		kv := d.StorageDiffs[a]
		put := func(i int, k felt.Felt, v *felt.Felt) {
			if out[i].StorageDiffs[a] == nil {
				out[i].StorageDiffs[a] = map[felt.Felt]*felt.Felt{}
			}
			out[i].StorageDiffs[a][k] = v
		}
		for _, k := range sortedFelts(kv) {
			i := pick(lo, "txOfSlot")
			put(i, k, kv[k])
			if i > lo && rapid.IntRange(0, 2).Draw(rt, "slotEarlier") == 0 {
				v := gen.NonZeroFelt().Draw(rt, "slotEarlierVal")
				put(rapid.IntRange(lo, i-1).Draw(rt, "slotEarlierTx"), k, &v)
				w.c.Label("tx-diffs:overwritten-slot")
			}
		}
	}
	return out
}

// newContent draws a fresh block (new round) at num on top of pre.
func (w *world) newContent(rt *rapid.T, num uint64, pre *ref.State, prevVer string, id string) *content {
	ck := w.drawChunk(rt, num, pre, prevVer, "", 0)
	return &content{num: num, id: id, ver: ck.ver, h: ck.h, txs: ck.txs, rcs: ck.rcs, diffs: ck.diffs, states: ck.states}
}

// declaredBy returns the definitions of every class the given diffs declare.
func (w *world) declaredBy(diffs []*core.StateDiff) map[felt.Felt]core.ClassDefinition {
	out := map[felt.Felt]core.ClassDefinition{}
	for _, d := range diffs {
		for _, h := range d.DeclaredV0Classes {
			out[*h] = w.defs[*h]
		}
		for h := range d.DeclaredV1Classes {
			out[h] = w.defs[h]
		}
	}
	return out
}

func wireBlock(c *content, k int) starknet.PreConfirmedBlock {
	b := starknet.PreConfirmedBlock{
		BlockIdentifier: c.id, Status: "PRE_CONFIRMED", Timestamp: c.h.Timestamp, Version: c.ver,
		SequencerAddress: cf(c.h.SequencerAddress),
		L1GasPrice:       &starknet.GasPrice{PriceInWei: cf(c.h.L1GasPriceETH), PriceInFri: cf(c.h.L1GasPriceSTRK)},
		L2GasPrice:       &starknet.GasPrice{PriceInWei: cf(c.h.L2GasPrice.PriceInWei), PriceInFri: cf(c.h.L2GasPrice.PriceInFri)},
		L1DataGasPrice:   &starknet.GasPrice{PriceInWei: cf(c.h.L1DataGasPrice.PriceInWei), PriceInFri: cf(c.h.L1DataGasPrice.PriceInFri)},
		L1DAMode:         starknet.L1DAMode(c.h.L1DAMode),
	}
	b.Transactions, b.Receipts, b.TransactionStateDiffs = wireTxs(c, 0, k)
	return b
}

func wireTxs(c *content, from, to int) ([]starknet.Transaction, []*starknet.TransactionReceipt, []*starknet.StateDiff) {
	txs := make([]starknet.Transaction, 0, to-from)
	rcs := make([]*starknet.TransactionReceipt, 0, to-from)
	dfs := make([]*starknet.StateDiff, 0, to-from)
	for i := from; i < to; i++ {
		txs = append(txs, wireTx(c.txs[i]))
		rcs = append(rcs, wireReceipt(c.rcs[i], i))
		dfs = append(dfs, wireDiff(c.diffs[i]))
	}
	return txs, rcs, dfs
}

func wireDelta(c *content, id string, from, to int) starknet.PreConfirmedDeltaUpdate {
	d := starknet.PreConfirmedDeltaUpdate{BlockIdentifier: id}
	d.Transactions, d.Receipts, d.TransactionStateDiffs = wireTxs(c, from, to)
	return d
}

// finalise turns pre-confirmed content into a sealed canonical block on top of the canonical tip.
func (w *world) finalise(c *content) *gen.Block {
	tip := w.canon.Blocks[w.canon.Height()-1]
	h := *c.h
	h.Number = uint64(w.canon.Height())
	h.ParentHash = tip.B.Hash
	h.ProtocolVersion = c.ver
	h.TransactionCount = uint64(len(c.txs))
	h.EventCount = 0
	for _, r := range c.rcs {
		h.EventCount += uint64(len(r.Events))
	}
	h.EventsBloom = core.EventsBloom(c.rcs)
	h.Hash, h.GlobalStateRoot, h.Signatures = nil, nil, nil
	// block-level diff as a sequencer publishes it: a contract deployed and later (another delta)
	// re-classed inside the same block is one deployment with the final class
	sq := gen.CloneDiff(c.agg())
	for a, ch := range sq.ReplacedClasses {
		if _, ok := sq.DeployedContracts[a]; ok {
			sq.DeployedContracts[a] = ch
			delete(sq.ReplacedClasses, a)
		}
	}
	blk := &gen.Block{B: &core.Block{Header: &h, Transactions: []core.Transaction{}, Receipts: []*core.TransactionReceipt{}},
		SU: &core.StateUpdate{StateDiff: sq}, Classes: w.declaredBy(c.diffs), Pre: tip.Post, Post: c.end(), Tags: map[string]bool{}}
	for i := range c.txs {
		blk.B.Transactions = append(blk.B.Transactions, gen.CloneTx(c.txs[i]))
		blk.B.Receipts = append(blk.B.Receipts, gen.CloneReceipt(c.rcs[i]))
	}
	gen.Seal(blk, w.u.Net)
	return blk
}

// appendCanon appends a sealed block to the canonical model chain (keeping its version lineage)
// and stores it in the node.
func (w *world) appendCanon(b *gen.Block) {
	w.canon.Blocks = append(w.canon.Blocks, b)
	w.canon = w.canon.Fork(len(w.canon.Blocks))
	w.storeCanon(b)
}

func (w *world) revertCanon() {
	if w.n != nil {
		if err := w.n.BC.RevertHead(); err != nil {
			stats.HarnessError("RevertHead(%d): %v", w.head(), err)
		}
	}
	w.canon = w.canon.Fork(w.canon.Height() - 1)
}

// ---------------------------------------------------------------------------------------------
// base state: the real blockchain, or a reader backed by the canonical model

type refReader struct {
	core.StateReader // unimplemented methods panic (never called by pending.State for the queries used)
	st               *ref.State
}

func (r refReader) ContractClassHash(a *felt.Felt) (felt.Felt, error) {
	if c, ok := r.st.Contracts[*a]; ok {
		return c.ClassHash, nil
	}
	return felt.Felt{}, db.ErrKeyNotFound
}

func (r refReader) ContractNonce(a *felt.Felt) (felt.Felt, error) {
	if c, ok := r.st.Contracts[*a]; ok {
		return c.Nonce, nil
	}
	return felt.Felt{}, db.ErrKeyNotFound
}

func (r refReader) ContractStorage(a, k *felt.Felt) (felt.Felt, error) {
	if c, ok := r.st.Contracts[*a]; ok {
		return c.Storage[*k], nil
	}
	return felt.Felt{}, db.ErrKeyNotFound
}

func (r refReader) Class(h *felt.Felt) (*core.DeclaredClassDefinition, error) {
	if c, ok := r.st.Classes[*h]; ok {
		return &core.DeclaredClassDefinition{At: c.DeclaredAt, Class: c.Def}, nil
	}
	return nil, db.ErrKeyNotFound
}

func (r refReader) CompiledClassHash(h *felt.SierraClassHash) (felt.CasmClassHash, error) {
	if c, ok := r.st.Classes[felt.Felt(*h)]; ok && c.Sierra {
		return felt.CasmClassHash(c.CurrentCasm()), nil
	}
	return felt.CasmClassHash{}, db.ErrKeyNotFound
}

func (r refReader) CompiledClassHashV2(h *felt.SierraClassHash) (felt.CasmClassHash, error) {
	if c, ok := r.st.Classes[felt.Felt(*h)]; ok && c.Sierra {
		return felt.CasmClassHash(c.CasmV2), nil
	}
	return felt.CasmClassHash{}, db.ErrKeyNotFound
}

// modelBC serves StateAtBlockNumber from the canonical model chain (snapshot of its blocks at
// construction time is NOT taken: it follows the world, like the real blockchain does).
type modelBC struct {
	blockchain.Reader
	w *world
}

func (m modelBC) StateAtBlockNumber(n uint64) (core.StateReader, blockchain.StateCloser, error) {
	if n >= uint64(m.w.canon.Height()) {
		return nil, nil, db.ErrKeyNotFound
	}
	return refReader{st: m.w.canon.Blocks[n].Post}, func() error { return nil }, nil
}

func (w *world) bcReader() blockchain.Reader {
	if w.n != nil {
		return w.n.BC
	}
	return modelBC{w: w}
}

// ---------------------------------------------------------------------------------------------
// model of one stored slot and deep comparison / rendering of real entries

type mslot struct {
	c       *content
	classes map[felt.Felt]core.ClassDefinition // NewClasses the slot holds (nil or empty = none)
}

func classKeys(m map[felt.Felt]core.ClassDefinition) string {
	s := ""
	for _, k := range sortedFelts(m) {
		s += k.ShortString() + ","
	}
	return s
}

// entryMismatch compares a real stored entry with the model slot; "" when equal.
func entryMismatch(e *pending.PreConfirmed, s *mslot) string {
	c := s.c
	if e == nil || e.Block == nil || e.Block.Header == nil || e.StateUpdate == nil || e.StateUpdate.StateDiff == nil {
		return "entry or one of its parts is nil"
	}
	if e.Block.Number != c.num {
		return fmt.Sprintf("block number %d, model %d", e.Block.Number, c.num)
	}
	if e.BlockIdentifier != c.id {
		return fmt.Sprintf("block %d identifier %q, model %q", c.num, e.BlockIdentifier, c.id)
	}
	if len(e.Block.Transactions) != len(c.txs) || len(e.Block.Receipts) != len(c.txs) || len(e.TransactionStateDiffs) != len(c.txs) {
		return fmt.Sprintf("block %d has %d txs / %d receipts / %d tx diffs, model %d", c.num, len(e.Block.Transactions), len(e.Block.Receipts), len(e.TransactionStateDiffs), len(c.txs))
	}
	if e.Block.TransactionCount != uint64(len(c.txs)) {
		return fmt.Sprintf("block %d header TransactionCount %d, model %d", c.num, e.Block.TransactionCount, len(c.txs))
	}
	evs := uint64(0)
	for i := range c.txs {
		if !e.Block.Transactions[i].Hash().Equal(c.txs[i].Hash()) {
			return fmt.Sprintf("block %d tx %d hash %s, model %s", c.num, i, e.Block.Transactions[i].Hash().ShortString(), c.txs[i].Hash().ShortString())
		}
		r := e.Block.Receipts[i]
		if r == nil || !r.TransactionHash.Equal(c.txs[i].Hash()) || !r.Fee.Equal(c.rcs[i].Fee) || len(r.Events) != len(c.rcs[i].Events) || r.Reverted != c.rcs[i].Reverted {
			return fmt.Sprintf("block %d receipt %d differs from the model receipt", c.num, i)
		}
		evs += uint64(len(r.Events))
		if got, want := diffCanon(e.TransactionStateDiffs[i], false), diffCanon(c.diffs[i], false); got != want {
			return fmt.Sprintf("block %d tx diff %d = %s, model %s", c.num, i, got, want)
		}
	}
	if e.Block.EventCount != evs {
		return fmt.Sprintf("block %d header EventCount %d, model %d", c.num, e.Block.EventCount, evs)
	}
	if e.Block.ProtocolVersion != c.ver || e.Block.Timestamp != c.h.Timestamp {
		return fmt.Sprintf("block %d version/timestamp %s/%d, model %s/%d", c.num, e.Block.ProtocolVersion, e.Block.Timestamp, c.ver, c.h.Timestamp)
	}
	if got, want := diffCanon(e.StateUpdate.StateDiff, false), diffCanon(c.agg(), false); got != want {
		return fmt.Sprintf("block %d aggregated diff = %s, model (per-tx diffs applied in order) %s", c.num, got, want)
	}
	if got, want := classKeys(e.NewClasses), classKeys(s.classes); got != want {
		return fmt.Sprintf("block %d NewClasses {%s}, model {%s}", c.num, got, want)
	}
	for k, d := range e.NewClasses {
		if d != s.classes[k] {
			return fmt.Sprintf("block %d NewClasses[%s] is not the registered definition", c.num, k.ShortString())
		}
	}
	return ""
}

func mustJSON(v any) string {
	b, err := json.Marshal(v)
	if err != nil {
		return "!json:" + err.Error()
	}
	return string(b)
}

// renderEntry is the deep fingerprint of one entry: everything reachable that a reader may look at.
func renderEntry(e *pending.PreConfirmed) string {
	var b strings.Builder
	if e == nil {
		return "<nil entry>"
	}
	fmt.Fprintf(&b, "id=%s;", e.BlockIdentifier)
	if e.Block != nil {
		fmt.Fprintf(&b, "hdr=%s;", mustJSON(e.Block.Header))
		fmt.Fprintf(&b, "ntx=%d;nrc=%d;", len(e.Block.Transactions), len(e.Block.Receipts))
		for i, tx := range e.Block.Transactions {
			fmt.Fprintf(&b, "tx%d=%s:%s;", i, tx.Hash().String(), mustJSON(tx))
		}
		for i, r := range e.Block.Receipts {
			fmt.Fprintf(&b, "rc%d=%s;", i, mustJSON(r))
		}
	}
	if e.StateUpdate != nil {
		fmt.Fprintf(&b, "su=%v/%v/%v;agg=%s;", e.StateUpdate.BlockHash, e.StateUpdate.OldRoot, e.StateUpdate.NewRoot, diffCanon(e.StateUpdate.StateDiff, true))
	}
	fmt.Fprintf(&b, "ntd=%d;", len(e.TransactionStateDiffs))
	for i, d := range e.TransactionStateDiffs {
		fmt.Fprintf(&b, "td%d=%s;", i, diffCanon(d, true))
	}
	fmt.Fprintf(&b, "classes(nil=%v)=", e.NewClasses == nil)
	for _, k := range sortedFelts(e.NewClasses) {
		fmt.Fprintf(&b, "%s@%p,", k.String(), e.NewClasses[k])
	}
	return b.String()
}

// renderView walks a view oldest-first (bounded defensively) and renders every entry.
func renderView(v *preconfirmed.ChainReader) string {
	var b strings.Builder
	fmt.Fprintf(&b, "len=%d|", v.Length())
	i := 0
	for e := range v.OldestFirst() {
		fmt.Fprintf(&b, "[%d]%s|", i, renderEntry(e))
		i++
		if i > 64 {
			b.WriteString("...runaway")
			break
		}
	}
	return b.String()
}

// shapeProblem checks the schedule-independent structural properties of a view requested with
// SnapshotForBlock(arg): empty, or a gap-free run arg..tip, equal in both iteration orders, with
// Length = tip - arg + 1 and Head = the newest entry.
// maxViewLen bounds the iteration of a view (a cyclic chain must not hang the check); far above the longest chain any test
// builds (grow(): 70 slots + a Repeat of appends in the thorough tier).
const maxViewLen = 4096

func shapeProblem(v *preconfirmed.ChainReader, arg uint64) string {
	var up, down []*pending.PreConfirmed
	for e := range v.OldestFirst() {
		up = append(up, e)
		if len(up) > maxViewLen {
			return "OldestFirst does not terminate within the longest chain any test builds"
		}
	}
	for e := range v.NewestFirst() {
		down = append(down, e)
		if len(down) > maxViewLen {
			return "NewestFirst does not terminate within the longest chain any test builds"
		}
	}
	if len(up) != v.Length() || len(down) != v.Length() {
		return fmt.Sprintf("Length() = %d but OldestFirst yields %d and NewestFirst %d entries", v.Length(), len(up), len(down))
	}
	if v.Length() == 0 {
		if v.Head() != nil {
			return "empty view with non-nil Head()"
		}
		return ""
	}
	for i := range up {
		if up[i] == nil || up[i].Block == nil {
			return fmt.Sprintf("entry %d is nil", i)
		}
		if up[i] != down[len(down)-1-i] {
			return fmt.Sprintf("OldestFirst[%d] and NewestFirst[%d] are different entries", i, len(down)-1-i)
		}
		if up[i].Block.Number != arg+uint64(i) {
			return fmt.Sprintf("entry %d has block number %d, want %d (view requested at %d must be the gap-free run %d..)", i, up[i].Block.Number, arg+uint64(i), arg, arg)
		}
	}
	if v.Head() != down[0] {
		return "Head() is not the newest entry"
	}
	if tip := down[0].Block.Number; uint64(v.Length()) != tip-arg+1 {
		return fmt.Sprintf("Length() = %d, want tip - requested + 1 = %d", v.Length(), tip-arg+1)
	}
	return ""
}

// ---------------------------------------------------------------------------------------------
// abstract-state helpers

func stateString(s *ref.State) string {
	var b strings.Builder
	for _, a := range s.SortedContracts() {
		c := s.Contracts[a]
		fmt.Fprintf(&b, "%s:c=%s,n=%s,sys=%v{", a.ShortString(), c.ClassHash.ShortString(), c.Nonce.ShortString(), c.System)
		for _, k := range sortedFelts(c.Storage) {
			v := c.Storage[k]
			fmt.Fprintf(&b, "%s=%s,", k.ShortString(), v.ShortString())
		}
		b.WriteString("}")
	}
	for _, h := range s.SortedClasses() {
		c := s.Classes[h]
		fmt.Fprintf(&b, "|%s@%d m%d v1=%v v2=%s", h.ShortString(), c.DeclaredAt, c.MigratedAt, c.CasmV1 != nil, c.CasmV2.ShortString())
	}
	return b.String()
}

func notFound(err error) bool { return errors.Is(err, db.ErrKeyNotFound) }

// stateChecker compares a pre-confirmed state reader with the abstract overlay state.
type stateChecker struct {
	c     *stats.Case
	u     *gen.Universe
	extra []felt.Felt
	reads int
}

// compare checks r against st. viewFrom is the number of the oldest block of the view (classes
// declared at or above it live in NewClasses, not in the base); held are the class definitions
// the view's entries up to the queried block carry; lenient are classes whose presence is not
// judged (before-index reads merge the whole target slot's NewClasses).
func (k *stateChecker) compare(where string, r core.StateReader, st *ref.State, viewFrom uint64,
	held map[felt.Felt]core.ClassDefinition, lenient map[felt.Felt]core.ClassDefinition,
) {
	c := k.c
	for _, a := range k.u.AllAddrs() {
		a := a
		ct, exists := st.Contracts[a]
		ch, err := r.ContractClassHash(&a)
		k.reads++
		switch {
		case exists && !ct.System:
			if err != nil || !ch.Equal(&ct.ClassHash) {
				c.Violation("overlay-class-hash", "%s: ContractClassHash(%s) = %s, %v; overlay model %s", where, a.ShortString(), ch.ShortString(), err, ct.ClassHash.ShortString())
			}
		case exists: // system contract: no class; "not found" or zero
			if !(notFound(err) || (err == nil && ch.IsZero())) {
				c.Violation("overlay-class-hash", "%s: ContractClassHash(system %s) = %s, %v", where, a.ShortString(), ch.ShortString(), err)
			}
		default:
			if !notFound(err) {
				c.Violation("overlay-class-hash-of-missing-contract", "%s: ContractClassHash(%s) = %s, %v; contract does not exist in the overlay model", where, a.ShortString(), ch.ShortString(), err)
			}
		}
		nn, err := r.ContractNonce(&a)
		k.reads++
		switch {
		case exists && !ct.System:
			if err != nil || !nn.Equal(&ct.Nonce) {
				c.Violation("overlay-nonce", "%s: ContractNonce(%s) = %s, %v; overlay model %s", where, a.ShortString(), nn.ShortString(), err, ct.Nonce.ShortString())
			}
		case exists:
			if !(notFound(err) || (err == nil && nn.IsZero())) {
				c.Violation("overlay-nonce", "%s: ContractNonce(system %s) = %s, %v", where, a.ShortString(), nn.ShortString(), err)
			}
		default:
			if !notFound(err) {
				c.Violation("overlay-nonce-of-missing-contract", "%s: ContractNonce(%s) = %s, %v; contract does not exist in the overlay model", where, a.ShortString(), nn.ShortString(), err)
			}
		}
		for _, key := range append(append([]felt.Felt{}, k.u.Keys...), k.extra...) {
			key := key
			v, err := r.ContractStorage(&a, &key)
			k.reads++
			var want felt.Felt
			if exists {
				want = ct.Storage[key]
			}
			switch {
			case exists && !ct.System:
				if err != nil || !v.Equal(&want) {
					c.Violation("overlay-storage", "%s: ContractStorage(%s, %s) = %s, %v; overlay model %s", where, a.ShortString(), key.ShortString(), v.ShortString(), err, want.ShortString())
				}
			default: // system contract or missing contract: an unset slot may read as "not found" or zero
				if !((err == nil && v.Equal(&want)) || (notFound(err) && want.IsZero())) {
					c.Violation("overlay-storage", "%s: ContractStorage(%s, %s) = %s, %v; overlay model %s (exists=%v)", where, a.ShortString(), key.ShortString(), v.ShortString(), err, want.ShortString(), exists)
				}
			}
		}
	}
	check := func(h felt.Felt, isSierra bool) {
		cl, declared := st.Classes[h]
		inView := declared && cl.DeclaredAt >= viewFrom
		d, err := r.Class(&h)
		k.reads++
		heldDef, isHeld := held[h]
		switch {
		case declared && isHeld:
			// (also a Cairo-0 class the stale view re-declares on top of a new canonical chain that declared it already)
			if err != nil || d == nil || d.Class != heldDef {
				c.Violation("overlay-class", "%s: Class(%s) = %v, %v; the view's entry carries its definition in NewClasses", where, h.ShortString(), d, err)
			}
		case declared && !inView:
			if err != nil || d == nil || d.At != cl.DeclaredAt || d.Class != cl.Def && mustJSON(d.Class) != mustJSON(cl.Def) {
				c.Violation("overlay-class", "%s: Class(%s) = %v, %v; declared in the canonical chain at %d", where, h.ShortString(), d, err, cl.DeclaredAt)
			}
		case inView:
			if err == nil {
				if d.Class != cl.Def && mustJSON(d.Class) != mustJSON(cl.Def) {
					c.Violation("overlay-class", "%s: Class(%s) returned a wrong definition", where, h.ShortString())
				}
			} else if !notFound(err) {
				c.Violation("overlay-class", "%s: Class(%s): %v", where, h.ShortString(), err)
			} else {
				c.Info("class-declared-in-view-without-definition")
			}
		default:
			if _, ok := lenient[h]; !ok && !notFound(err) {
				c.Violation("overlay-class-not-declared", "%s: Class(%s) = %v, %v; not declared in the overlay model at this point", where, h.ShortString(), d, err)
			}
		}
		if !isSierra {
			return
		}
		sh := felt.SierraClassHash(h)
		casm, err := r.CompiledClassHash(&sh)
		k.reads++
		switch {
		case declared && cl.MigratedAt >= viewFrom && cl.MigratedAt > 0 && stats.Known(kfCasmMigration):
			c.Excluded(kfCasmMigration) // class migrated by one of the view's blocks: read not judged
		case declared:
			want := cl.CurrentCasm()
			if err != nil || !(*felt.Felt)(&casm).Equal(&want) {
				c.Violation("overlay-compiled-class-hash", "%s: CompiledClassHash(%s) = %s, %v; overlay model %s", where, h.ShortString(), (*felt.Felt)(&casm).ShortString(), err, want.ShortString())
			}
		default:
			if err == nil {
				c.Violation("overlay-compiled-class-hash-of-undeclared", "%s: CompiledClassHash(%s) = %s for a class not declared in the overlay model", where, h.ShortString(), (*felt.Felt)(&casm).ShortString())
			}
		}
		if declared && cl.MigratedAt >= viewFrom && cl.MigratedAt > 0 {
			casm2, err := r.CompiledClassHashV2(&sh)
			if err != nil || !(*felt.Felt)(&casm2).Equal(&cl.CasmV2) {
				c.Violation("overlay-compiled-class-hash-v2", "%s: CompiledClassHashV2(%s) = %s, %v; migrated inside the view to %s", where, h.ShortString(), (*felt.Felt)(&casm2).ShortString(), err, cl.CasmV2.ShortString())
			}
		}
	}
	for _, s := range k.u.Sierra {
		check(s.Hash, true)
	}
	for _, s := range k.u.Cairo0 {
		check(s.Hash, false)
	}
}
