// Package c20: a view of the pre-confirmed blocks is contiguous above the head it was aligned to,
// immutable, and a true overlay of the canonical state (property C20).
//
// One rapid state machine drives the real preconfirmed.ChainStorage as its single writer
// (ApplyUpdate of every documented kind, AdvanceTo) while the canonical head advances and
// reverts; readers take views with SnapshotForBlock at arbitrary points and keep them. Oracles:
// (a) shape of every view, (b) deep-fingerprint immutability of every view after every later
// action, (c) a list model of the storage written from the doc comments of chain_storage.go,
// (d) PreConfirmedStateAt / PreConfirmedStateBeforeIndexAt against ref.State(base) + the view's
// diffs, (e) transaction / receipt lookups. The base state is the canonical model
// (TestPropStorageModel, TestRaceConcurrentReaders) or a real Blockchain (TestPropOverlay).
// poller_test.go drives the same oracles through the real Poller. stress_test.go puts schedule
// pressure on the published chain pointer (one writer, thousands of publishes per case, spinning
// readers whose every view is checked against the chains published while their call ran).
package c20

import (
	"errors"
	"fmt"
	"maps"
	"runtime"
	"sync"
	"sync/atomic"
	"testing"
	"time"

	"github.com/NethermindEth/juno/blockchain"
	"github.com/NethermindEth/juno/blockchain/networks"
	"github.com/NethermindEth/juno/core"
	"github.com/NethermindEth/juno/core/felt"
	"github.com/NethermindEth/juno/core/pending"
	"github.com/NethermindEth/juno/starknet"
	"github.com/NethermindEth/juno/sync/preconfirmed"
	"pgregory.net/rapid"

	"verif/harness/internal/gen"
	"verif/harness/internal/node"
	"verif/harness/internal/ref"
	"verif/harness/internal/stats"
)

func TestMain(m *testing.M) { stats.Main(m) }

// heldView is a view handed to a reader together with what the model says it must contain.
type heldView struct {
	id       int
	v        preconfirmed.ChainReader
	arg      uint64 // the block number the reader asked for (its head + 1)
	exp      []*mslot
	fp       string
	baseHash *felt.Felt // hash of canonical block arg-1 when the view was taken (nil: above the head)
	mutated  bool       // a slot in the view's range was changed in the storage afterwards
	moved    bool       // the canonical head moved afterwards
}

func (hv *heldView) tip() uint64 { return hv.arg + uint64(len(hv.exp)) - 1 }

type machine struct {
	c       *stats.Case
	w       *world
	st      *preconfirmed.ChainStorage
	chain   []*mslot // model of the stored chain, oldest first
	aligned uint64   // the writer's oldestPreConf: head+1 at its last alignment
	views   []*heldView
	sk      *stateChecker
	dead    []*content // contents that were stored once (lookup probes)
	lastTip uint64
	nviews  int
	growing bool // grow(): full blocks are appends
}

func newMachine(rt *rapid.T, c *stats.Case, withNode bool) *machine {
	w := newWorld(rt, c, withNode, rapid.IntRange(1, 3).Draw(rt, "height"))
	m := &machine{c: c, w: w, st: preconfirmed.NewChainStorage(), aligned: w.head() + 1}
	m.sk = &stateChecker{c: c, u: w.u, extra: []felt.Felt{gen.F(0xdead0001)}}
	return m
}

func (m *machine) tipSlot() *mslot { return m.chain[len(m.chain)-1] }

// verBelow is the protocol version of the block under chain slot i.
func (m *machine) preOf(i int) (*ref.State, string) {
	if i > 0 {
		return m.chain[i-1].c.end(), m.chain[i-1].c.ver
	}
	// the state the oldest slot was generated on
	return m.chain[0].c.states[0], m.chain[0].c.ver
}

// ---------------------------------------------------------------------------------------------
// the list model of ChainStorage, written from the doc comments of chain_storage.go

type mupdate struct {
	kind    byte // 'B' full block, 'D' delta, 'N' no-change
	num     uint64
	baseTx  uint64
	oldest  uint64
	classes map[felt.Felt]core.ClassDefinition
	blk     *content // 'B': incoming content
	id      string   // 'D': identifier of the delta
	after   *content // 'D': the tip's content with the delta appended
}

type outcome struct {
	chain    []*mslot
	changed  bool
	slot     *mslot // the affected entry when changed
	mustErr  bool   // the comments promise an error
	baseErr  bool   // ... specifically ErrBaseTxCountMismatch
	rejected bool   // unchanged; an error or a silent no-op are both documented somewhere
	why      string
}

func subset(a, b map[felt.Felt]core.ClassDefinition) bool {
	for k := range a {
		if _, ok := b[k]; !ok {
			return false
		}
	}
	return true
}

func mergedClasses(base, extra map[felt.Felt]core.ClassDefinition) map[felt.Felt]core.ClassDefinition {
	o := map[felt.Felt]core.ClassDefinition{}
	maps.Copy(o, base)
	maps.Copy(o, extra)
	return o
}

func (m *machine) model(u *mupdate) outcome {
	same := outcome{chain: m.chain}
	if len(m.chain) == 0 {
		// "empty chain → bootstrapChain (only PreConfirmedBlock accepted)"; "The precondition is blockNumber == oldestPreConf"
		if u.kind != 'B' || u.num != u.oldest {
			same.rejected, same.why = true, "bootstrap needs a full block at oldestPreConf"
			return same
		}
		s := &mslot{c: u.blk, classes: u.classes}
		return outcome{chain: []*mslot{s}, changed: true, slot: s, why: "bootstrap"}
	}
	oldest, tip := m.chain[0].num(), m.tipSlot().num()
	if oldest != u.oldest {
		// "err is reserved for invariant violations (e.g. the chain's oldest slot drifted from oldestPreConf ...)"
		same.mustErr, same.why = true, "chain not aligned with oldestPreConf"
		return same
	}
	if u.num < oldest {
		same.rejected, same.why = true, "below the oldest slot"
		return same
	}
	if u.num > tip+1 {
		same.rejected, same.why = true, "gap above tip"
		return same
	}
	if u.num == tip+1 {
		if u.kind != 'B' {
			same.rejected, same.why = true, "only a full block can open a new slot"
			return same
		}
		s := &mslot{c: u.blk, classes: u.classes}
		return outcome{chain: append(append([]*mslot{}, m.chain...), s), changed: true, slot: s, why: "append"}
	}
	i := int(u.num - oldest)
	target := m.chain[i]
	isTip := i == len(m.chain)-1
	switch u.kind {
	case 'B':
		// shouldPreserveSlot: "keeps the existing slot when the incoming pre-confirmed is at the same identifier with no
		// extra transactions, or carries the blank placeholder identifier. A different real identifier (new round), a
		// richer same-identifier block, or one carrying declared classes the existing slot lacks replaces."
		sameRound := u.blk.id == target.c.id || u.blk.id == blankID
		if sameRound && u.blk.ntx() <= target.c.ntx() && subset(u.classes, target.classes) {
			same.why = "preserve"
			return same
		}
		// "A non-tip replacement also truncates every node above the replaced slot."
		s := &mslot{c: u.blk, classes: u.classes}
		return outcome{chain: append(append([]*mslot{}, m.chain[:i]...), s), changed: true, slot: s, why: "replace"}
	case 'D':
		if !isTip {
			same.rejected, same.why = true, "delta below the tip"
			return same
		}
		if uint64(target.c.ntx()) != u.baseTx {
			same.mustErr, same.baseErr, same.why = true, true, "base tx count mismatch"
			return same
		}
		if u.id != target.c.id {
			same.rejected, same.why = true, "delta identifier mismatch"
			return same
		}
		s := &mslot{c: u.after, classes: target.classes}
		if len(u.classes) > 0 {
			s.classes = mergedClasses(target.classes, u.classes)
		}
		return outcome{chain: append(append([]*mslot{}, m.chain[:i]...), s), changed: true, slot: s, why: "delta"}
	default:
		// "A NoChange branch exists only to register newly-fetched classes; with none there is nothing to do, whatever slot it targets."
		if len(u.classes) == 0 {
			same.why = "no-change without classes"
			return same
		}
		if !isTip {
			same.rejected, same.why = true, "no-change with classes below the tip"
			return same
		}
		if subset(u.classes, target.classes) {
			same.why = "no-change: tip already holds the classes"
			return same
		}
		s := &mslot{c: target.c, classes: mergedClasses(target.classes, u.classes)}
		return outcome{chain: append(append([]*mslot{}, m.chain[:i]...), s), changed: true, slot: s, why: "no-change registers classes"}
	}
}

func (s *mslot) num() uint64 { return s.c.num }

// modelAdvance: the three documented outcomes of AdvanceTo.
func (m *machine) modelAdvance(o uint64) []*mslot {
	if len(m.chain) == 0 {
		return m.chain
	}
	oldest, tip := m.chain[0].num(), m.tipSlot().num()
	switch {
	case o == oldest:
		return m.chain
	case o > tip || o < oldest:
		return nil
	default:
		return append([]*mslot{}, m.chain[o-oldest:]...)
	}
}

// setChain installs the new model chain, remembers dropped contents and flags held views whose
// range saw a change.
func (m *machine) setChain(nc []*mslot) {
	old := map[uint64]*mslot{}
	for _, s := range m.chain {
		old[s.num()] = s
	}
	now := map[uint64]*mslot{}
	for _, s := range nc {
		now[s.num()] = s
	}
	for n, s := range old {
		if now[n] != s {
			m.dead = append(m.dead, s.c)
			for _, hv := range m.views {
				if len(hv.exp) > 0 && n >= hv.arg && n <= hv.tip() && !hv.mutated {
					hv.mutated = true
				}
			}
		}
	}
	for _, hv := range m.views {
		if hv.mutated {
			m.c.NonTrivial("view-held-across-slot-mutation")
		}
	}
	if len(m.chain) > 0 {
		m.lastTip = m.tipSlot().num()
	}
	m.chain = nc
}

func (m *machine) headMoved() {
	for _, hv := range m.views {
		if len(hv.exp) > 0 {
			hv.moved = true
			m.c.NonTrivial("view-held-across-head-move")
		}
	}
}

// ---------------------------------------------------------------------------------------------
// real calls + oracles

func (m *machine) doApply(desc string, wire starknet.PreConfirmedUpdate, u *mupdate) {
	c := m.c
	out := m.model(u)
	c.Fp("apply %s %c n%d base%d o%d cls%d -> %s", desc, u.kind, u.num, u.baseTx, u.oldest, len(u.classes), out.why)
	c.Label("upd:" + desc)
	c.Label("model:" + out.why)
	var cls map[felt.Felt]core.ClassDefinition
	if u.classes != nil {
		cls = maps.Clone(u.classes)
	}
	affected, err := m.st.ApplyUpdate(wire, u.num, u.baseTx, u.oldest, cls)
	switch {
	case out.changed:
		if err != nil || affected == nil {
			c.Violation("model-update-not-applied", "%s: ApplyUpdate(%c, block %d, base %d, oldest %d) = %v, %v; the documented outcome is %q (model chain %s)", desc, u.kind, u.num, u.baseTx, u.oldest, affected, err, out.why, m.chainString())
		}
		if mis := entryMismatch(affected, out.slot); mis != "" {
			c.Violation("model-affected-entry", "%s: ApplyUpdate returned an entry that differs from the documented result (%s): %s", desc, out.why, mis)
		}
	case out.mustErr:
		if err == nil || affected != nil {
			c.Violation("model-missing-error", "%s: ApplyUpdate(%c, block %d, base %d, oldest %d) = %v, %v; documented: error (%s)", desc, u.kind, u.num, u.baseTx, u.oldest, affected, err, out.why)
		}
		if out.baseErr && !errors.Is(err, preconfirmed.ErrBaseTxCountMismatch) {
			c.Violation("model-missing-error", "%s: delta with base %d on a slot of %d txs returned %v, want ErrBaseTxCountMismatch", desc, u.baseTx, m.tipSlot().c.ntx(), err)
		}
	default:
		if affected != nil {
			c.Violation("model-noop-returned-entry", "%s: ApplyUpdate returned entry %d although the documented outcome is %q", desc, affected.Block.Number, out.why)
		}
		if !out.rejected && err != nil {
			c.Violation("model-noop-errored", "%s: ApplyUpdate failed with %v; the documented outcome is the silent no-op %q", desc, err, out.why)
		}
	}
	m.setChain(out.chain)
	m.verify("after " + desc)
}

func (m *machine) doAlign() {
	o := m.w.head() + 1
	nc := m.modelAdvance(o)
	dropped := len(nc) != len(m.chain)
	m.c.Fp("align %d -> len %d", o, len(nc))
	if dropped {
		if len(nc) == 0 {
			m.c.Label("align:drop-all")
		} else {
			m.c.Label("align:trim")
		}
	}
	_ = m.st.AdvanceTo(o)
	m.aligned = o
	m.setChain(nc)
	m.verify(fmt.Sprintf("after AdvanceTo(%d)", o))
}

func (m *machine) chainString() string {
	s := "["
	for _, x := range m.chain {
		s += fmt.Sprintf("%d:%s/%dtx ", x.num(), x.c.id, x.c.ntx())
	}
	return s + "]"
}

// verify: (c) the storage equals the model; (a,b) every held view still has its shape and its
// acquisition-time fingerprint.
func (m *machine) verify(where string) {
	c := m.c
	if len(m.chain) == 0 {
		for _, x := range []uint64{m.aligned, m.w.head() + 1, m.lastTip, m.lastTip + 1} {
			if v := m.st.SnapshotForBlock(x); v.Length() != 0 || v.Head() != nil {
				c.Violation("model-chain", "%s: the model chain is empty but SnapshotForBlock(%d) has %d entries", where, x, v.Length())
			}
		}
	} else {
		o, tip := m.chain[0].num(), m.tipSlot().num()
		full := m.st.SnapshotForBlock(o)
		if p := shapeProblem(&full, o); p != "" {
			c.Violation("view-shape", "%s: SnapshotForBlock(%d): %s", where, o, p)
		}
		if full.Length() != len(m.chain) {
			c.Violation("model-chain", "%s: stored chain from %d has %d entries, model %s", where, o, full.Length(), m.chainString())
		}
		i := 0
		for e := range full.OldestFirst() {
			if mis := entryMismatch(e, m.chain[i]); mis != "" {
				c.Violation("model-chain", "%s: stored chain differs from the model %s: %s", where, m.chainString(), mis)
			}
			i++
		}
		for _, x := range []uint64{o - 1, tip + 1} {
			if v := m.st.SnapshotForBlock(x); v.Length() != 0 {
				c.Violation("model-chain", "%s: SnapshotForBlock(%d) outside the model chain %s has %d entries", where, x, m.chainString(), v.Length())
			}
		}
	}
	for _, hv := range m.views {
		m.verifyView(hv, where)
	}
}

func (m *machine) verifyView(hv *heldView, where string) {
	if p := shapeProblem(&hv.v, hv.arg); p != "" {
		m.c.Violation("view-shape", "%s: view %d (taken at %d, %d entries): %s", where, hv.id, hv.arg, len(hv.exp), p)
	}
	if hv.v.Length() != len(hv.exp) {
		m.c.Violation("view-immutable", "%s: view %d (taken at %d) had %d entries when handed out and has %d now", where, hv.id, hv.arg, len(hv.exp), hv.v.Length())
	}
	if fp := renderView(&hv.v); fp != hv.fp {
		m.c.Violation("view-immutable", "%s: view %d (taken at %d, %d entries; slot mutated later=%v, head moved later=%v) changed after it was handed out:\n  then %s\n  now  %s",
			where, hv.id, hv.arg, len(hv.exp), hv.mutated, hv.moved, clip(hv.fp, fp), clip(fp, hv.fp))
	}
}

// clip shows the neighbourhood of the first difference between a and b (in a).
func clip(a, b string) string {
	i := 0
	for i < len(a) && i < len(b) && a[i] == b[i] {
		i++
	}
	lo, hi := i-120, i+200
	if lo < 0 {
		lo = 0
	}
	if hi > len(a) {
		hi = len(a)
	}
	return fmt.Sprintf("…%s… (first difference at byte %d)", a[lo:hi], i)
}

func (m *machine) takeView(arg uint64) *heldView {
	c := m.c
	v := m.st.SnapshotForBlock(arg)
	m.nviews++
	hv := &heldView{id: m.nviews, v: v, arg: arg}
	if len(m.chain) > 0 && arg >= m.chain[0].num() && arg <= m.tipSlot().num() {
		hv.exp = append([]*mslot{}, m.chain[arg-m.chain[0].num():]...)
	}
	c.Fp("view %d -> %d", arg, len(hv.exp))
	if p := shapeProblem(&v, arg); p != "" {
		c.Violation("view-shape", "SnapshotForBlock(%d) with stored chain %s: %s", arg, m.chainString(), p)
	}
	if v.Length() != len(hv.exp) {
		c.Violation("view-shape", "SnapshotForBlock(%d) has %d entries; the stored chain is %s, so the documented view is [%d, tip] = %d entries", arg, v.Length(), m.chainString(), arg, len(hv.exp))
	}
	i := 0
	for e := range v.OldestFirst() {
		if mis := entryMismatch(e, hv.exp[i]); mis != "" {
			c.Violation("view-content", "SnapshotForBlock(%d) entry %d: %s", arg, i, mis)
		}
		i++
	}
	hv.fp = renderView(&v)
	if arg >= 1 && arg-1 <= m.w.head() {
		hv.baseHash = m.w.canon.Blocks[arg-1].B.Hash
	}
	switch {
	case len(hv.exp) == 0:
		c.Label("view:empty")
	case arg == m.chain[0].num():
		c.Label("view:whole-chain")
	default:
		c.Label("view:trimmed")
	}
	if len(hv.exp) >= 2 {
		c.Label("view:multi-block")
	}
	m.views = append(m.views, hv)
	return hv
}

// checkLookups: a transaction or receipt lookup finds exactly the items of the view's blocks.
func (m *machine) checkLookups(rt *rapid.T, hv *heldView) {
	c := m.c
	in := map[felt.Felt]bool{}
	for _, s := range hv.exp {
		for i, tx := range s.c.txs {
			h := *tx.Hash()
			in[h] = true
			got, err := hv.v.TransactionByHash(&h)
			if err != nil || got == nil || !got.Hash().Equal(&h) {
				c.Violation("lookup-tx", "view %d: TransactionByHash(tx %d of block %d) = %v, %v", hv.id, i, s.num(), got, err)
			}
			r, bn, err := hv.v.ReceiptByHash(&h)
			if err != nil || r == nil || !r.TransactionHash.Equal(&h) || bn != s.num() {
				c.Violation("lookup-receipt", "view %d: ReceiptByHash(tx %d of block %d) = %v, block %d, %v", hv.id, i, s.num(), r, bn, err)
			}
			if !r.Fee.Equal(s.c.rcs[i].Fee) {
				c.Violation("lookup-receipt", "view %d: ReceiptByHash(tx %d of block %d) returned another transaction's receipt", hv.id, i, s.num())
			}
		}
	}
	var probes []felt.Felt
	for _, b := range m.w.canon.Blocks {
		for _, tx := range b.B.Transactions {
			probes = append(probes, *tx.Hash())
		}
	}
	for _, d := range m.dead {
		for _, tx := range d.txs {
			probes = append(probes, *tx.Hash())
		}
	}
	for _, s := range m.chain {
		for _, tx := range s.c.txs {
			probes = append(probes, *tx.Hash())
		}
	}
	probes = append(probes, gen.Felt().Draw(rt, "probeHash"), felt.Zero)
	for _, h := range probes {
		h := h
		if in[h] {
			continue
		}
		if tx, err := hv.v.TransactionByHash(&h); !errors.Is(err, pending.ErrTransactionNotFound) || tx != nil {
			c.Violation("lookup-foreign-tx", "view %d (blocks %d..): TransactionByHash(%s) = %v, %v for a hash that is in none of the view's blocks", hv.id, hv.arg, h.ShortString(), tx, err)
		}
		if r, bn, err := hv.v.ReceiptByHash(&h); !errors.Is(err, pending.ErrTransactionReceiptNotFound) || r != nil {
			c.Violation("lookup-foreign-receipt", "view %d (blocks %d..): ReceiptByHash(%s) = %v, %d, %v for a hash that is in none of the view's blocks", hv.id, hv.arg, h.ShortString(), r, bn, err)
		}
	}
}

// checkOverlay: the state read through the view at each of its blocks (and before each
// transaction index) equals the canonical state below the view + the view's diffs in order.
// every=false checks one drawn block only.
func (m *machine) checkOverlay(rt *rapid.T, hv *heldView, when string, every bool) {
	c := m.c
	bc := m.w.bcReader()
	if len(hv.exp) == 0 {
		if _, _, err := hv.v.PreConfirmedStateAt(hv.arg, bc); !errors.Is(err, pending.ErrPreConfirmedNotFound) {
			c.Violation("overlay-range", "%s: empty view %d: PreConfirmedStateAt(%d) error = %v, want ErrPreConfirmedNotFound", when, hv.id, hv.arg, err)
		}
		return
	}
	for _, bn := range []uint64{hv.arg - 1, hv.tip() + 1} {
		if _, _, err := hv.v.PreConfirmedStateAt(bn, bc); !errors.Is(err, pending.ErrPreConfirmedNotFound) {
			c.Violation("overlay-range", "%s: view %d [%d,%d]: PreConfirmedStateAt(%d) error = %v, want ErrPreConfirmedNotFound", when, hv.id, hv.arg, hv.tip(), bn, err)
		}
		if _, _, err := hv.v.PreConfirmedStateBeforeIndexAt(bn, 0, bc); !errors.Is(err, pending.ErrPreConfirmedNotFound) {
			c.Violation("overlay-range", "%s: view %d [%d,%d]: PreConfirmedStateBeforeIndexAt(%d, 0) error = %v, want ErrPreConfirmedNotFound", when, hv.id, hv.arg, hv.tip(), bn, err)
		}
	}
	if hv.arg-1 > m.w.head() {
		// the block below the view is not canonical (any more): the base state cannot be opened
		if _, _, err := hv.v.PreConfirmedStateAt(hv.arg, bc); err == nil {
			c.Violation("overlay-base", "%s: view %d starts at %d but the canonical head is %d: PreConfirmedStateAt succeeded without a base state", when, hv.id, hv.arg, m.w.head())
		}
		c.Label("overlay:base-above-head")
		return
	}
	st := m.w.canon.Blocks[hv.arg-1].Post.Clone()
	held := map[felt.Felt]core.ClassDefinition{}
	pickBlock := -1
	if !every {
		pickBlock = rapid.IntRange(0, len(hv.exp)-1).Draw(rt, "overlayBlock")
	}
	for i, s := range hv.exp {
		if every || i == pickBlock {
			// before every transaction index of this block
			exp := st.Clone()
			withTarget := mergedClasses(held, s.classes)
			ok := true
			for idx := 0; idx <= s.c.ntx() && ok; idx++ {
				if idx > 0 {
					if err := exp.Apply(s.num(), s.c.ver, s.c.diffs[idx-1], m.w.defs, m.w.u.CasmV2Of); err != nil {
						c.Label("overlay:view-inconsistent-with-new-canonical-chain")
						ok = false
						break
					}
				}
				r, closer, err := hv.v.PreConfirmedStateBeforeIndexAt(s.num(), uint(idx), bc)
				if err != nil {
					c.Violation("overlay-open", "%s: view %d: PreConfirmedStateBeforeIndexAt(%d, %d): %v", when, hv.id, s.num(), idx, err)
				}
				m.sk.compare(fmt.Sprintf("%s view %d [%d,%d] before tx %d of block %d", when, hv.id, hv.arg, hv.tip(), idx, s.num()), r, exp, hv.arg, withTarget, s.classes)
				_ = closer()
				if idx > 0 {
					c.Label("overlay:before-index>0")
				}
			}
			if _, _, err := hv.v.PreConfirmedStateBeforeIndexAt(s.num(), uint(s.c.ntx()+1), bc); !errors.Is(err, pending.ErrTransactionIndexOutOfBounds) {
				c.Violation("overlay-range", "%s: view %d: PreConfirmedStateBeforeIndexAt(%d, %d) with %d txs: error %v, want ErrTransactionIndexOutOfBounds", when, hv.id, s.num(), s.c.ntx()+1, s.c.ntx(), err)
			}
		}
		if err := st.Apply(s.num(), s.c.ver, s.c.agg(), m.w.defs, m.w.u.CasmV2Of); err != nil {
			// only possible when the canonical chain below the view is not the one the view was built on
			c.Label("overlay:view-inconsistent-with-new-canonical-chain")
			return
		}
		maps.Copy(held, s.classes)
		if every || i == pickBlock {
			r, closer, err := hv.v.PreConfirmedStateAt(s.num(), bc)
			if err != nil {
				c.Violation("overlay-open", "%s: view %d: PreConfirmedStateAt(%d): %v", when, hv.id, s.num(), err)
			}
			m.sk.compare(fmt.Sprintf("%s view %d [%d,%d] at block %d", when, hv.id, hv.arg, hv.tip(), s.num()), r, st, hv.arg, held, nil)
			_ = closer()
			if i > 0 {
				c.Label("overlay:at-second-or-later-block")
			}
		}
	}
	if hv.moved || hv.mutated {
		c.Label("overlay:on-held-view")
	}
}

// ---------------------------------------------------------------------------------------------
// generators of the writer's updates

// drawClasses: like the real caller, the registered definitions are either none (the tick's apply
// of the latest) or all classes the content declares (backfill).
func (m *machine) drawClasses(rt *rapid.T, diffs []*core.StateDiff) map[felt.Felt]core.ClassDefinition {
	if rapid.Bool().Draw(rt, "withClasses") {
		if d := m.w.declaredBy(diffs); len(d) > 0 {
			m.c.Label("upd:with-class-definitions")
			return d
		}
	}
	return nil
}

func emptyContent(num uint64, id, ver string, h *core.Header, pre *ref.State) *content {
	return &content{num: num, id: id, ver: ver, h: h, states: []*ref.State{pre}}
}

func (m *machine) actFull(rt *rapid.T) {
	w := m.w
	if len(m.chain) == 0 {
		if m.aligned != w.head()+1 {
			m.doAlign() // a consistent bootstrap needs the canonical state right below it
		}
		tipB := w.canon.Blocks[w.canon.Height()-1]
		var ct *content
		if rapid.IntRange(0, 9).Draw(rt, "blankBootstrap") == 0 {
			ct = emptyContent(m.aligned, blankID, tipB.B.ProtocolVersion, tipB.B.Header, tipB.Post)
		} else {
			ct = w.newContent(rt, m.aligned, tipB.Post, tipB.B.ProtocolVersion, w.newID())
		}
		m.doApply("bootstrap", wireBlock(ct, ct.ntx()), &mupdate{kind: 'B', num: ct.num, oldest: m.aligned, blk: ct, classes: m.drawClasses(rt, ct.diffs)})
		return
	}
	kinds := []string{"append", "append", "append", "new-round-tip", "richer-tip", "same-round-tip", "blank-tip", "blank-append"}
	if len(m.chain) < 3 {
		kinds = append(kinds, "append", "append", "append")
	}
	if len(m.chain) >= 2 {
		kinds = append(kinds, "new-round-below", "new-round-below", "same-round-below", "blank-below")
	}
	kind := rapid.SampledFrom(kinds).Draw(rt, "fullKind")
	if m.growing {
		kind = "append"
	}
	tip := m.tipSlot()
	switch kind {
	case "append":
		ct := w.newContent(rt, tip.num()+1, tip.c.end(), tip.c.ver, w.newID())
		m.doApply(kind, wireBlock(ct, ct.ntx()), &mupdate{kind: 'B', num: ct.num, oldest: m.aligned, blk: ct, classes: m.drawClasses(rt, ct.diffs), baseTx: uint64(rapid.IntRange(0, 3).Draw(rt, "staleBase"))})
	case "blank-append":
		ct := emptyContent(tip.num()+1, blankID, tip.c.ver, tip.c.h, tip.c.end())
		m.doApply(kind, wireBlock(ct, 0), &mupdate{kind: 'B', num: ct.num, oldest: m.aligned, blk: ct})
	case "new-round-tip", "new-round-below":
		i := len(m.chain) - 1
		if kind == "new-round-below" {
			i = rapid.IntRange(0, len(m.chain)-2).Draw(rt, "slot")
		}
		pre, ver := m.preOf(i)
		if i == 0 {
			ver = m.chain[0].c.ver // not below the version the replaced round had
		}
		ct := w.newContent(rt, m.chain[i].num(), pre, ver, w.newID())
		m.doApply(kind, wireBlock(ct, ct.ntx()), &mupdate{kind: 'B', num: ct.num, oldest: m.aligned, blk: ct, classes: m.drawClasses(rt, ct.diffs)})
	case "richer-tip":
		if tip.c.id == blankID {
			rt.Skip()
		}
		ck := w.drawChunk(rt, tip.num(), tip.c.end(), tip.c.ver, tip.c.ver, 1)
		ct := tip.c.extended(ck)
		m.doApply(kind, wireBlock(ct, ct.ntx()), &mupdate{kind: 'B', num: ct.num, oldest: m.aligned, blk: ct, classes: m.drawClasses(rt, ct.diffs)})
	case "same-round-tip", "same-round-below":
		i := len(m.chain) - 1
		if kind == "same-round-below" {
			i = rapid.IntRange(0, len(m.chain)-2).Draw(rt, "slot")
		}
		s := m.chain[i]
		k := rapid.IntRange(0, s.c.ntx()).Draw(rt, "prefix")
		ct := s.c.prefix(k)
		m.doApply(kind, wireBlock(ct, k), &mupdate{kind: 'B', num: ct.num, oldest: m.aligned, blk: ct, classes: m.drawClasses(rt, ct.diffs)})
	case "blank-tip", "blank-below":
		i := len(m.chain) - 1
		if kind == "blank-below" {
			i = rapid.IntRange(0, len(m.chain)-2).Draw(rt, "slot")
		}
		s := m.chain[i]
		ct := emptyContent(s.num(), blankID, s.c.ver, s.c.h, s.c.states[0])
		m.doApply(kind, wireBlock(ct, 0), &mupdate{kind: 'B', num: ct.num, oldest: m.aligned, blk: ct})
	}
}

func (m *machine) actDelta(rt *rapid.T) {
	if len(m.chain) == 0 || m.tipSlot().c.id == blankID {
		rt.Skip()
	}
	tip := m.tipSlot()
	ck := m.w.drawChunk(rt, tip.num(), tip.c.end(), tip.c.ver, tip.c.ver, 1)
	after := tip.c.extended(ck)
	var cls map[felt.Felt]core.ClassDefinition
	if rapid.Bool().Draw(rt, "withClasses") {
		// backfill's re-poll: classes of the stored tip and of the delta
		if d := m.w.declaredBy(after.diffs); len(d) > 0 {
			cls = d
			m.c.Label("upd:with-class-definitions")
		}
	}
	m.doApply("delta", wireDelta(after, tip.c.id, tip.c.ntx(), after.ntx()),
		&mupdate{kind: 'D', num: tip.num(), baseTx: uint64(tip.c.ntx()), oldest: m.aligned, id: tip.c.id, after: after, classes: cls})
}

func (m *machine) actNoChange(rt *rapid.T) {
	if len(m.chain) == 0 {
		rt.Skip()
	}
	i := len(m.chain) - 1
	var cls map[felt.Felt]core.ClassDefinition
	desc := "no-change"
	if len(m.chain) >= 2 && rapid.IntRange(0, 3).Draw(rt, "below") == 0 {
		i = rapid.IntRange(0, len(m.chain)-2).Draw(rt, "slot")
		desc = "no-change-below-tip"
	} else {
		cls = m.drawClasses(rt, m.chain[i].c.diffs)
	}
	s := m.chain[i]
	m.doApply(desc, starknet.PreConfirmedNoChange{}, &mupdate{kind: 'N', num: s.num(), baseTx: uint64(s.c.ntx()), oldest: m.aligned, classes: cls})
}

// actBad: updates the comments say are rejected; the chain must stay as it is.
func (m *machine) actBad(rt *rapid.T) {
	w := m.w
	if len(m.chain) == 0 {
		tipB := w.canon.Blocks[w.canon.Height()-1]
		switch rapid.SampledFrom([]string{"delta-on-empty", "no-change-on-empty", "bootstrap-wrong-height"}).Draw(rt, "badKind") {
		case "delta-on-empty":
			ck := w.drawChunk(rt, m.aligned, tipB.Post, tipB.B.ProtocolVersion, "", 1)
			ct := &content{num: m.aligned, id: w.newID(), ver: ck.ver, h: ck.h, txs: ck.txs, rcs: ck.rcs, diffs: ck.diffs, states: ck.states}
			m.doApply("delta-on-empty", wireDelta(ct, ct.id, 0, ct.ntx()), &mupdate{kind: 'D', num: m.aligned, oldest: m.aligned, id: ct.id, after: ct})
		case "no-change-on-empty":
			m.doApply("no-change-on-empty", starknet.PreConfirmedNoChange{}, &mupdate{kind: 'N', num: m.aligned, oldest: m.aligned})
		default:
			off := uint64(rapid.IntRange(1, 3).Draw(rt, "off"))
			num := m.aligned + off
			if rapid.Bool().Draw(rt, "below") && m.aligned > off {
				num = m.aligned - off
			}
			ct := emptyContent(num, w.newID(), tipB.B.ProtocolVersion, tipB.B.Header, tipB.Post)
			m.doApply("bootstrap-wrong-height", wireBlock(ct, 0), &mupdate{kind: 'B', num: num, oldest: m.aligned, blk: ct})
		}
		return
	}
	tip := m.tipSlot()
	kinds := []string{"gap-above-tip", "below-oldest", "misaligned", "delta-wrong-base", "delta-wrong-id", "delta-at-new-slot", "no-change-at-new-slot"}
	if len(m.chain) >= 2 {
		kinds = append(kinds, "delta-below-tip", "no-change-classes-below-tip")
	}
	kind := rapid.SampledFrom(kinds).Draw(rt, "badKind")
	switch kind {
	case "gap-above-tip":
		num := tip.num() + uint64(rapid.IntRange(2, 4).Draw(rt, "gap"))
		ct := emptyContent(num, w.newID(), tip.c.ver, tip.c.h, tip.c.end())
		m.doApply(kind, wireBlock(ct, 0), &mupdate{kind: 'B', num: num, oldest: m.aligned, blk: ct})
	case "below-oldest":
		o := m.chain[0].num()
		off := uint64(rapid.IntRange(1, 2).Draw(rt, "off"))
		if o <= off {
			rt.Skip()
		}
		ct := emptyContent(o-off, w.newID(), m.chain[0].c.ver, m.chain[0].c.h, m.chain[0].c.states[0])
		m.doApply(kind, wireBlock(ct, 0), &mupdate{kind: 'B', num: o - off, oldest: m.aligned, blk: ct})
	case "misaligned":
		o := m.aligned + 1
		if rapid.Bool().Draw(rt, "lower") && m.aligned > 1 {
			o = m.aligned - 1
		}
		ct := w.newContent(rt, tip.num()+1, tip.c.end(), tip.c.ver, w.newID())
		m.doApply(kind, wireBlock(ct, ct.ntx()), &mupdate{kind: 'B', num: ct.num, oldest: o, blk: ct})
	case "delta-wrong-base", "delta-wrong-id", "delta-below-tip", "delta-at-new-slot":
		if tip.c.id == blankID {
			rt.Skip()
		}
		ck := w.drawChunk(rt, tip.num(), tip.c.end(), tip.c.ver, tip.c.ver, 1)
		after := tip.c.extended(ck)
		u := &mupdate{kind: 'D', num: tip.num(), baseTx: uint64(tip.c.ntx()), oldest: m.aligned, id: tip.c.id, after: after}
		switch kind {
		case "delta-wrong-base":
			u.baseTx += uint64(rapid.IntRange(1, 2).Draw(rt, "baseOff"))
			if tip.c.ntx() > 0 && rapid.Bool().Draw(rt, "lower") {
				u.baseTx = uint64(rapid.IntRange(0, tip.c.ntx()-1).Draw(rt, "base"))
			}
		case "delta-wrong-id":
			u.id = w.newID()
		case "delta-below-tip":
			s := m.chain[rapid.IntRange(0, len(m.chain)-2).Draw(rt, "slot")]
			u.num, u.baseTx, u.id = s.num(), uint64(s.c.ntx()), s.c.id
		case "delta-at-new-slot":
			u.num = tip.num() + 1
		}
		m.doApply(kind, wireDelta(after, u.id, tip.c.ntx(), after.ntx()), u)
	case "no-change-at-new-slot":
		m.doApply(kind, starknet.PreConfirmedNoChange{}, &mupdate{kind: 'N', num: tip.num() + 1, oldest: m.aligned})
	case "no-change-classes-below-tip":
		var s *mslot
		for _, x := range m.chain[:len(m.chain)-1] {
			if len(w.declaredBy(x.c.diffs)) > 0 {
				s = x
			}
		}
		if s == nil {
			rt.Skip()
		}
		m.doApply(kind, starknet.PreConfirmedNoChange{}, &mupdate{kind: 'N', num: s.num(), oldest: m.aligned, classes: w.declaredBy(s.c.diffs)})
	}
}

func (m *machine) actHeadAdvance(rt *rapid.T) {
	w := m.w
	if w.canon.Height() >= 9 {
		rt.Skip()
	}
	j := rapid.IntRange(1, 3).Draw(rt, "j")
	for ; j > 0; j-- {
		next := w.head() + 1
		var s *mslot
		if len(m.chain) > 0 && next >= m.chain[0].num() && next <= m.tipSlot().num() {
			s = m.chain[next-m.chain[0].num()]
		}
		// the sequencer finalises the pre-confirmed block it showed, unless the stored slot was
		// built on another canonical chain (after a revert) or a different block wins
		if s != nil && s.c.states[0] == w.canon.TipState() && rapid.IntRange(0, 5).Draw(rt, "fork") > 0 {
			w.appendCanon(w.finalise(s.c))
			m.c.Fp("advance %d finalising slot", next)
			m.c.Label("head:advance-finalising-stored-slot")
		} else {
			b := w.canon.Draw(rt)
			w.appendCanon(b)
			m.c.Fp("advance %d %s", next, gen.DiffString(b.SU.StateDiff))
			m.c.Label("head:advance-other-block")
		}
	}
	m.headMoved()
	m.verify("after head advance")
}

func (m *machine) actHeadRevert(rt *rapid.T) {
	w := m.w
	if w.canon.Height() <= 1 {
		rt.Skip()
	}
	j := rapid.IntRange(1, min(2, w.canon.Height()-1)).Draw(rt, "j")
	for ; j > 0; j-- {
		w.revertCanon()
	}
	m.c.Fp("revert to %d", w.head())
	m.c.Label("head:revert")
	m.headMoved()
	m.verify("after head revert")
}

func (m *machine) actTakeView(rt *rapid.T) {
	if len(m.views) >= 8 {
		rt.Skip()
	}
	arg := m.w.head() + 1
	if rapid.IntRange(0, 3).Draw(rt, "otherArg") == 0 {
		lo, hi := uint64(1), m.w.head()+3
		if len(m.chain) > 0 {
			if o := m.chain[0].num(); o > 2 {
				lo = o - 2
			}
			hi = m.tipSlot().num() + 2
		}
		arg = uint64(rapid.IntRange(int(lo), int(hi)).Draw(rt, "arg"))
	}
	hv := m.takeView(arg)
	m.checkLookups(rt, hv)
	m.checkOverlay(rt, hv, "at acquisition", true)
	m.verifyView(hv, "after the reads at acquisition")
}

func (m *machine) actQueryView(rt *rapid.T) {
	if len(m.views) == 0 {
		rt.Skip()
	}
	hv := m.views[rapid.IntRange(0, len(m.views)-1).Draw(rt, "view")]
	m.c.Fp("query %d", hv.id)
	m.checkLookups(rt, hv)
	m.checkOverlay(rt, hv, "later", false)
	m.verify("after querying a view")
}

// grow: LENGTH of the pre-confirmed chain. The poller keeps appending while the canonical head stays put (nothing caps the
// length), but a Repeat of ~30 mixed actions rarely leaves more than 8 slots. A seventh of the cases therefore starts with a
// bootstrap and 12-40 (thorough: -70) appends in a row, interleaved with views, so that views of more than 16 / 32 / 64 blocks
// are taken, held and queried (every block of a long view is checked as an overlay once). Added after seed C20-h.
func (m *machine) grow(rt *rapid.T) {
	if rapid.IntRange(0, 6).Draw(rt, "longChain") != 0 {
		return
	}
	hi := 40
	if stats.Thorough() {
		hi = 70
	}
	n := rapid.SampledFrom([]int{12, 15, 16, 17, 18, 24, 31, 32, 33, 34, hi}).Draw(rt, "growTo")
	m.growing = true
	for len(m.chain) < n {
		m.actFull(rt)
		if rapid.IntRange(0, 7).Draw(rt, "viewWhileGrowing") == 0 {
			m.actTakeView(rt)
		}
	}
	m.growing = false
	m.c.Labelf("long-chain:%s", map[bool]string{true: ">16", false: "<=16"}[len(m.chain) > 16])
	if hv := m.takeView(m.w.head() + 1); hv != nil && len(hv.exp) > 0 {
		m.checkOverlay(rt, hv, "right after growing the chain", true)
		m.checkLookups(rt, hv)
	}
}

func (m *machine) actions() map[string]func(*rapid.T) {
	return map[string]func(*rapid.T){
		"full":    m.actFull,
		"full2":   m.actFull,
		"full3":   m.actFull,
		"delta":   m.actDelta,
		"delta2":  m.actDelta,
		"nochg":   m.actNoChange,
		"bad":     m.actBad,
		"advance": m.actHeadAdvance,
		"revert":  m.actHeadRevert,
		"align":   func(*rapid.T) { m.doAlign() },
		"view":    m.actTakeView,
		"view2":   m.actTakeView,
		"query":   m.actQueryView,
		"query2":  m.actQueryView,
	}
}

func (m *machine) finish() {
	m.verify("at the end of the case")
	held := 0
	for _, hv := range m.views {
		if len(hv.exp) > 0 {
			held++
		}
		if hv.mutated && hv.moved {
			m.c.Label("view:held-across-both")
		}
	}
	if held >= 3 {
		m.c.Label("views:>=3-non-empty")
	}
	m.c.Sample(func() any {
		var vs []string
		for _, hv := range m.views {
			vs = append(vs, fmt.Sprintf("view %d at %d: %d entries, slot mutated later=%v, head moved later=%v", hv.id, hv.arg, len(hv.exp), hv.mutated, hv.moved))
		}
		return map[string]any{"final_chain": m.chainString(), "head": m.w.head(), "views": vs, "state_reads": m.sk.reads}
	})
}

const ruleCommon = "rapid state machine, single writer on the real preconfirmed.ChainStorage: full blocks (bootstrap, append, new round at the tip or below it with truncation, richer/equal/poorer same-round block, blank-identifier placeholder), deltas of 1-3 txs, no-change with/without class definitions, rejected updates (gap above tip, below the oldest slot, misaligned oldestPreConf, delta with wrong base count/identifier/slot, delta or no-change on an empty chain, bootstrap at a wrong height), AdvanceTo(head+1), canonical head advance by 1-3 (finalising the stored slot or another block) and revert by 1-2; readers call SnapshotForBlock(head+1 or an arbitrary number) at arbitrary points and KEEP the views; a seventh of the cases first grows the chain to 12-40 (thorough -70) slots by appends, so views longer than 16 and 32 blocks are taken, held and every block of them read as an overlay. Content comes from the synthetic chain generator (per-transaction diffs whose in-order merge is a model-consistent block diff, with overwritten slots/nonces). Oracles after every action: list model of the documented ApplyUpdate/AdvanceTo cases, shape of every view, deep fingerprint of every view equal to the one at acquisition, tx/receipt lookups, PreConfirmedStateAt and PreConfirmedStateBeforeIndexAt vs ref.State(block below the view)+diffs. Non-trivial = a non-empty view is held across a later mutation of one of its slots (delta, replacement, truncation, class registration) or across a head move; distinct = SHA-256 of the rendered action sequence"

// TestPropStorageModel: the base state is served from the canonical model (no database).
func TestPropStorageModel(t *testing.T) {
	stats.Check(t, stats.Budget{Quick: 160, Thorough: 2500}, ruleCommon+"; base state read from the canonical model",
		func(rt *rapid.T, c *stats.Case) {
			m := newMachine(rt, c, false)
			m.grow(rt)
			rt.Repeat(m.actions())
			m.finish()
		})
}

// TestPropOverlay: the same machine over a real Blockchain (legacy or trie2 state backend): the
// base of every overlay read is the real StateAtBlockNumber(oldest-1), heads are stored/reverted
// for real.
func TestPropOverlay(t *testing.T) {
	stats.Check(t, stats.Budget{Quick: 70, Thorough: 1000}, ruleCommon+"; base state = real Blockchain on either state backend storing/reverting the generated canonical blocks",
		func(rt *rapid.T, c *stats.Case) {
			m := newMachine(rt, c, true)
			m.grow(rt)
			rt.Repeat(m.actions())
			m.finish()
		})
}

// ---------------------------------------------------------------------------------------------
// concurrent readers

type emptyBase struct{ blockchain.Reader }

func (emptyBase) StateAtBlockNumber(uint64) (core.StateReader, blockchain.StateCloser, error) {
	return refReader{st: ref.NewState()}, func() error { return nil }, nil
}

// TestRaceConcurrentReaders (-race): N reader goroutines take views and walk them while the
// machine above is the writer. Reader-side oracles are schedule independent: shape of the view
// for the number asked, two deep fingerprints of the same view (with state reads through the
// view and a yield in between) are equal. The writer keeps all its sequential oracles.
func TestRaceConcurrentReaders(t *testing.T) {
	stats.Check(t, stats.Budget{Quick: 16, Thorough: 150},
		"the writer machine of TestPropStorageModel runs while 4 reader goroutines loop: SnapshotForBlock(n) for n cycling over [1, head0+8], shape check, fingerprint, PreConfirmedStateAt(tip)+storage reads+lookups through the view, yield, fingerprint again (must be equal); under -race. Non-trivial = as in the machine, or the readers saw >= 3 different non-empty views",
		func(rt *rapid.T, c *stats.Case) {
			m := newMachine(rt, c, false)
			lo, hi := uint64(1), m.w.head()+8
			var stop atomic.Bool
			var wg sync.WaitGroup
			var mu sync.Mutex
			var bad []string
			seen := map[string]struct{}{}
			walked := 0
			addrs, keys := m.w.u.AllAddrs(), m.w.u.Keys
			for r := 0; r < 4; r++ {
				wg.Add(1)
				go func(r int) {
					defer wg.Done()
					local := map[string]struct{}{}
					n := 0
					fail := func(f string, a ...any) {
						mu.Lock()
						if len(bad) < 5 {
							bad = append(bad, fmt.Sprintf(f, a...))
						}
						mu.Unlock()
					}
					for i := 0; !stop.Load(); i++ {
						arg := lo + uint64(i+r)%(hi-lo+1)
						v := m.st.SnapshotForBlock(arg)
						if p := shapeProblem(&v, arg); p != "" {
							fail("reader %d: SnapshotForBlock(%d): %s", r, arg, p)
						}
						if v.Length() == 0 {
							runtime.Gosched()
							continue
						}
						f1 := renderView(&v)
						tip := v.Head().Block.Number
						if sr, closer, err := v.PreConfirmedStateAt(tip, emptyBase{}); err != nil {
							fail("reader %d: PreConfirmedStateAt(%d) on view [%d,%d]: %v", r, tip, arg, tip, err)
						} else {
							for _, a := range addrs {
								a := a
								_, _ = sr.ContractNonce(&a)
								k := keys[(i+r)%len(keys)]
								_, _ = sr.ContractStorage(&a, &k)
							}
							_ = closer()
						}
						if tip > arg {
							if _, closer, err := v.PreConfirmedStateBeforeIndexAt(tip-1, 0, emptyBase{}); err == nil {
								_ = closer()
							}
						}
						for _, tx := range v.Head().Block.Transactions {
							if _, _, err := v.ReceiptByHash(tx.Hash()); err != nil {
								fail("reader %d: ReceiptByHash of a transaction of the view's newest block: %v", r, err)
							}
						}
						runtime.Gosched()
						if f2 := renderView(&v); f1 != f2 {
							fail("reader %d: view [%d,%d] changed while held: %s -> %s", r, arg, tip, clip(f1, f2), clip(f2, f1))
						}
						time.Sleep(20 * time.Microsecond) // readers need not saturate the CPUs to interleave with the writer
						if len(local) < 64 {
							local[fmt.Sprintf("%d/%d/%s/%d", arg, tip, v.Head().BlockIdentifier, len(v.Head().Block.Transactions))] = struct{}{}
						}
						n++
					}
					mu.Lock()
					for k := range local {
						seen[k] = struct{}{}
					}
					walked += n
					mu.Unlock()
				}(r)
			}
			func() {
				defer func() { stop.Store(true); wg.Wait() }()
				rt.Repeat(m.actions())
				m.finish()
			}()
			if len(bad) > 0 {
				c.Violation("concurrent-reader", "%d reader failures, first: %s", len(bad), bad[0])
			}
			if len(seen) >= 3 {
				c.NonTrivial("readers-saw->=3-different-views")
			}
			if walked == 0 {
				c.Label("readers-walked-nothing")
			}
		})
}

// ---------------------------------------------------------------------------------------------
// known finding: deterministic witness

// handBlock seals a canonical block with the given diff on top of parent (nil: genesis).
func handBlock(u *gen.Universe, parent *gen.Block, ver string, d *core.StateDiff, classes map[felt.Felt]core.ClassDefinition, casmV2 func(felt.Felt) felt.Felt) *gen.Block {
	pre, num, ph := ref.NewState(), uint64(0), felt.Zero
	if parent != nil {
		pre, num, ph = parent.Post, parent.Num()+1, *parent.B.Hash
	}
	post := pre.Clone()
	if err := post.Apply(num, ver, d, classes, casmV2); err != nil {
		stats.HarnessError("witness block %d: %v", num, err)
	}
	one := gen.F(1)
	h := &core.Header{ParentHash: &ph, Number: num, SequencerAddress: &one, Timestamp: 1_700_000_000 + num, ProtocolVersion: ver,
		EventsBloom: core.EventsBloom(nil), L1GasPriceETH: &one, L1GasPriceSTRK: &one,
		L1DataGasPrice: &core.GasPrice{PriceInWei: &one, PriceInFri: &one}, L2GasPrice: &core.GasPrice{PriceInWei: &one, PriceInFri: &one}}
	b := &gen.Block{B: &core.Block{Header: h, Transactions: []core.Transaction{}, Receipts: []*core.TransactionReceipt{}},
		SU: &core.StateUpdate{StateDiff: d}, Classes: classes, Pre: pre, Post: post, Tags: map[string]bool{}}
	gen.Seal(b, u.Net)
	return b
}

// TestKnownCasmHashIgnoresMigrationInView: block 0 (0.13.4) declares Sierra class X with its Poseidon
// CASM hash V1. Node A stores block 1 (0.14.1) whose diff migrates X to the blake2s hash V2:
// StateAtBlockNumber(1).CompiledClassHash(X) = V2. Node B keeps block 1 pre-confirmed (one
// transaction whose state diff carries the same migration): the state read through the view at
// block 1 answers CompiledClassHash(X) = V1, i.e. not "canonical state + the view's diffs".
func TestKnownCasmHashIgnoresMigrationInView(t *testing.T) {
	if !stats.Known(kfCasmMigration) {
		t.Skipf("%s is not listed as known", kfCasmMigration)
	}
	for _, newState := range []bool{false, true} {
		u := &gen.Universe{Net: &networks.Sepolia}
		x := gen.MakeSierra(77)
		casmV2 := func(felt.Felt) felt.Felt { return x.CasmV2 }
		d0 := core.EmptyStateDiff()
		d0.DeclaredV1Classes[x.Hash] = &x.CasmV1
		defs := map[felt.Felt]core.ClassDefinition{x.Hash: x.Def}
		b0 := handBlock(u, nil, "0.13.4", &d0, defs, casmV2)
		d1 := core.EmptyStateDiff()
		d1.MigratedClasses[felt.SierraClassHash(x.Hash)] = felt.CasmClassHash(x.CasmV2)
		b1 := handBlock(u, b0, "0.14.1", &d1, nil, casmV2)

		a, b := node.New(newState, nil, u.Net), node.New(newState, nil, u.Net)
		for _, blk := range []*gen.Block{b0, b1} {
			if err := a.Store(blk); err != nil {
				stats.HarnessError("witness: node A rejected block %d: %v", blk.Num(), err)
			}
		}
		if err := b.Store(b0); err != nil {
			stats.HarnessError("witness: node B rejected block 0: %v", err)
		}
		sh := felt.SierraClassHash(x.Hash)
		ra, closeA, err := a.BC.StateAtBlockNumber(1)
		if err != nil {
			stats.HarnessError("witness: %v", err)
		}
		canon, err := ra.CompiledClassHash(&sh)
		_ = closeA()
		if err != nil || !(*felt.Felt)(&canon).Equal(&x.CasmV2) {
			t.Fatalf("ORACLE[witness] %s: canonical CompiledClassHash after the migration = %s, %v; want V2 %s", a.Backend(), (*felt.Felt)(&canon).ShortString(), err, x.CasmV2.ShortString())
		}

		sender, nonce := gen.F(0x1234), gen.F(1)
		tx := &core.InvokeTransaction{Version: new(core.TransactionVersion).SetUint64(1), SenderAddress: &sender, Nonce: &nonce,
			MaxFee: gen.FP(1), CallData: []felt.Felt{}, TransactionSignature: []felt.Felt{}, TransactionHash: gen.FP(0xabc1)}
		rc := &core.TransactionReceipt{Fee: gen.FP(1), TransactionHash: tx.TransactionHash, ExecutionResources: &core.ExecutionResources{}}
		ct := &content{num: 1, id: "0xa001", ver: "0.14.1", h: b1.B.Header, txs: []core.Transaction{tx}, rcs: []*core.TransactionReceipt{rc}, diffs: []*core.StateDiff{&d1}}
		st := preconfirmed.NewChainStorage()
		if _, err := st.ApplyUpdate(wireBlock(ct, 1), 1, 0, 1, nil); err != nil {
			stats.HarnessError("witness: ApplyUpdate: %v", err)
		}
		v := st.SnapshotForBlock(1)
		rb, closeB, err := v.PreConfirmedStateAt(1, b.BC)
		if err != nil {
			stats.HarnessError("witness: PreConfirmedStateAt: %v", err)
		}
		got, err1 := rb.CompiledClassHash(&sh)
		got2, err2 := rb.CompiledClassHashV2(&sh)
		_ = closeB()
		reproduced := err1 == nil && (*felt.Felt)(&got).Equal(&x.CasmV1) && !x.CasmV1.Equal(&x.CasmV2)
		t.Logf("%s backend %s: canonical state at block 1: CompiledClassHash(X)=%s; view at pre-confirmed block 1: CompiledClassHash(X)=%s (%v), CompiledClassHashV2(X)=%s (%v); V1=%s V2=%s (reproduced=%v)",
			kfCasmMigration, b.Backend(), (*felt.Felt)(&canon).ShortString(), (*felt.Felt)(&got).ShortString(), err1, (*felt.Felt)(&got2).ShortString(), err2, x.CasmV1.ShortString(), x.CasmV2.ShortString(), reproduced)
		stats.KnownFindingWitness(t, kfCasmMigration, reproduced)
	}
}
