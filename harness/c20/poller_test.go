package c20

// The same view oracles with the REAL Poller as the single writer. The poller is driven through
// its exported API only: Poller.Run inside a testing/synctest bubble (fake clock), exactly one
// ticker period per "tick" action, like the project's own poller tests do. No hook is needed.
//
// The harness plays the sequencer (preconfirmed.DataSource): it owns a chain of pre-confirmed
// blocks above the canonical head, reveals the newest block's transactions progressively and
// answers the identifier/txCount negotiation with full block, delta or no-change.

import (
	"context"
	"encoding/binary"
	"errors"
	"fmt"
	"hash/fnv"
	"os"
	"runtime"
	"sync/atomic"
	"testing"
	"testing/synctest"
	"time"

	"github.com/NethermindEth/juno/core"
	"github.com/NethermindEth/juno/core/felt"
	"github.com/NethermindEth/juno/core/pending"
	"github.com/NethermindEth/juno/feed"
	"github.com/NethermindEth/juno/starknet"
	"github.com/NethermindEth/juno/sync/preconfirmed"
	"github.com/NethermindEth/juno/utils/log"
	"pgregory.net/rapid"

	"verif/harness/internal/stats"
)

const pollInterval = 100 * time.Millisecond

type seqSim struct {
	w        *world
	pc       []*content          // pre-confirmed blocks above the canonical head, oldest first, full content
	revealed int                 // number of transactions of the newest block shown so far
	hist     map[uint64]*content // content of finalised blocks (restored by a node-local revert)

	failLatest, failByNumber, failClass bool // one-shot faults for the next tick
	omitNumber                          bool // NoChange answers carry block number 0 ("may omit it")
	nLatest, nByNumber, nClass, nFailed int
	kinds                               map[string]int
}

func (s *seqSim) shown(i int) *content {
	if i == len(s.pc)-1 {
		return s.pc[i].prefix(s.revealed)
	}
	return s.pc[i]
}

func (s *seqSim) negotiate(c *content, identifier string, txCount uint64) starknet.PreConfirmedUpdate {
	if identifier == c.id && identifier != "" {
		switch n := uint64(c.ntx()); {
		case txCount == n:
			s.kinds["no-change"]++
			return starknet.PreConfirmedNoChange{}
		case txCount < n:
			s.kinds["delta"]++
			return wireDelta(c, c.id, int(txCount), c.ntx())
		}
	}
	s.kinds["full"]++
	return wireBlock(c, c.ntx())
}

func (s *seqSim) PreConfirmedBlockLatest(_ context.Context, identifier string, txCount uint64) (starknet.PreConfirmedUpdate, uint64, error) {
	s.nLatest++
	if s.failLatest {
		s.nFailed++
		return nil, 0, errors.New("harness: feeder unavailable")
	}
	if len(s.pc) == 0 {
		s.nFailed++
		return nil, 0, errors.New("harness: no pre-confirmed block above the head yet")
	}
	c := s.shown(len(s.pc) - 1)
	u := s.negotiate(c, identifier, txCount)
	if _, nc := u.(starknet.PreConfirmedNoChange); nc && s.omitNumber {
		return u, 0, nil
	}
	return u, c.num, nil
}

func (s *seqSim) PreConfirmedBlockByNumber(_ context.Context, n uint64, identifier string, txCount uint64) (starknet.PreConfirmedUpdate, error) {
	s.nByNumber++
	if s.failByNumber {
		s.nFailed++
		return nil, errors.New("harness: feeder unavailable")
	}
	for i, c := range s.pc {
		if c.num == n {
			return s.negotiate(s.shown(i), identifier, txCount), nil
		}
	}
	s.nFailed++
	return nil, fmt.Errorf("harness: no pre-confirmed block %d", n)
}

func (s *seqSim) Class(_ context.Context, h *felt.Felt) (core.ClassDefinition, error) {
	s.nClass++
	if s.failClass {
		s.nFailed++
		return nil, errors.New("harness: class unavailable")
	}
	if d, ok := s.w.defs[*h]; ok {
		return d, nil
	}
	s.nFailed++
	return nil, fmt.Errorf("harness: unknown class %s", h.ShortString())
}

// open appends a new pre-confirmed block on top of the sequencer's chain (or of the canonical tip).
func (s *seqSim) open(rt *rapid.T) {
	w := s.w
	var ct *content
	if n := len(s.pc); n > 0 {
		ct = w.newContent(rt, s.pc[n-1].num+1, s.pc[n-1].end(), s.pc[n-1].ver, w.newID())
	} else {
		tipB := w.canon.Blocks[w.canon.Height()-1]
		ct = w.newContent(rt, w.head()+1, tipB.Post, tipB.B.ProtocolVersion, w.newID())
	}
	s.pc = append(s.pc, ct)
	s.revealed = rapid.IntRange(0, ct.ntx()).Draw(rt, "revealed")
}

type pollerRig struct {
	m       *machine
	seq     *seqSim
	highest atomic.Pointer[core.Header]
	ahead   uint64 // highest known header = head + ahead (0: at tip)
	panicV  atomic.Value
	ticks   int
	// exact: the stored chain cannot contain blocks of an abandoned fork. Cleared by a head revert
	// (if the head returns to the stored chain's base before the next tick, AdvanceTo keeps slots the
	// poller never re-polls); set again when a tick starts from an empty chain. Content freshness is
	// not part of C20, so while !exact every entry may also be the slot that was there before.
	exact bool
}

func contentMismatch(e *pending.PreConfirmed, c *content) string {
	return entryMismatch(e, &mslot{c: c, classes: e.NewClasses})
}

// tick lets exactly one ticker period pass and checks what the poller left in the storage.
func (r *pollerRig) tick(rt *rapid.T) { r.tickF(rt, true) }

func (r *pollerRig) tickF(rt *rapid.T, allowFault bool) {
	m, c, s := r.m, r.m.c, r.seq
	head := m.w.head()
	r.highest.Store(&core.Header{Number: head + r.ahead})
	s.failLatest, s.failByNumber, s.failClass = false, false, false
	if allowFault && rapid.IntRange(0, 7).Draw(rt, "fault") == 0 {
		switch rapid.IntRange(0, 2).Draw(rt, "faultKind") {
		case 0:
			s.failLatest = true
		case 1:
			s.failByNumber = true
		default:
			s.failClass = true
		}
	}
	s.omitNumber = rapid.Bool().Draw(rt, "omitNumber")
	failed0 := s.nFailed
	afterAdvance := m.modelAdvance(head + 1) // every tick starts with AdvanceTo(height+1)
	old := map[uint64]*mslot{}
	for _, x := range afterAdvance {
		old[x.num()] = x
	}
	if len(afterAdvance) == 0 {
		r.exact = true
	}

	time.Sleep(pollInterval)
	synctest.Wait()
	r.ticks++
	if p := r.panicV.Load(); p != nil {
		c.Violation("poller-panic", "Poller.Run panicked: %v", p)
	}

	faulted := s.nFailed != failed0
	atTip := r.ahead == 0
	c.Fp("tick head%d ahead%d pc%d rev%d fault%v", head, r.ahead, len(s.pc), s.revealed, faulted)
	snap := m.st.SnapshotForBlock(head + 1)
	if p := shapeProblem(&snap, head+1); p != "" {
		c.Violation("view-shape", "after a tick at head %d: SnapshotForBlock(%d): %s", head, head+1, p)
	}
	var entries []*pending.PreConfirmed
	for e := range snap.OldestFirst() {
		entries = append(entries, e)
	}
	var nc []*mslot
	switch {
	case !atTip || s.failLatest || len(s.pc) == 0:
		// nothing but the realignment may have happened
		if len(entries) != len(afterAdvance) {
			c.Violation("poller-chain", "tick at head %d (at tip=%v, latest poll failed=%v): stored chain has %d entries, want the realigned previous chain %d", head, atTip, faulted, len(entries), len(afterAdvance))
		}
		for i, e := range entries {
			if mis := entryMismatch(e, afterAdvance[i]); mis != "" {
				c.Violation("poller-chain", "tick at head %d without a successful poll changed the stored chain: %s", head, mis)
			}
		}
		nc = afterAdvance
		if !atTip {
			c.Label("tick:not-at-tip")
		} else {
			c.Label("tick:latest-poll-failed")
		}
	case faulted || !r.exact:
		// a fault in the middle of a tick (or slots of an abandoned fork): every stored entry is either what was there or what the sequencer shows now
		for _, e := range entries {
			var match *mslot
			if o := old[e.Block.Number]; o != nil && entryMismatch(e, o) == "" {
				match = o
			}
			if match == nil {
				for i, pc := range s.pc {
					if pc.num == e.Block.Number && contentMismatch(e, s.shown(i)) == "" {
						match = &mslot{c: s.shown(i), classes: e.NewClasses}
					}
				}
			}
			if match == nil {
				c.Violation("poller-chain", "tick at head %d with a feeder fault: stored block %d (id %s, %d txs) is neither the previous slot nor the sequencer's block", head, e.Block.Number, e.BlockIdentifier, len(e.Block.Transactions))
			}
			nc = append(nc, match)
		}
		if faulted {
			c.Label("tick:fault-mid-tick")
		} else {
			c.Label("tick:after-revert-inexact")
		}
	default:
		// "poll the server's latest pre-confirmed, backfill any gap below it, then apply the latest"
		if len(entries) != len(s.pc) {
			c.Violation("poller-chain", "tick at head %d: stored chain has %d entries, the sequencer shows %d blocks above the head (previous stored chain %s)", head, len(entries), len(s.pc), m.chainString())
		}
		for i, e := range entries {
			sh := s.shown(i)
			if mis := contentMismatch(e, sh); mis != "" {
				c.Violation("poller-chain", "tick at head %d: stored chain differs from what the sequencer shows: %s", head, mis)
			}
			decl := m.w.declaredBy(sh.diffs)
			for k, d := range e.NewClasses {
				if decl[k] == nil || decl[k] != d {
					c.Violation("poller-classes", "tick at head %d: block %d carries a class definition %s it does not declare (or a wrong one)", head, sh.num, k.ShortString())
				}
			}
			if i < len(entries)-1 && len(e.NewClasses) != len(decl) {
				// "applying each slot with its own declared classes so they land on the exact block that declares them"
				c.Violation("poller-classes", "tick at head %d: closed block %d declares %d classes but carries %d definitions", head, sh.num, len(decl), len(e.NewClasses))
			}
			if o := old[sh.num]; o != nil && entryMismatch(e, o) == "" {
				nc = append(nc, o)
			} else {
				nc = append(nc, &mslot{c: sh, classes: e.NewClasses})
			}
		}
		c.Label("tick:synced")
		if len(entries) >= 2 {
			c.Label("tick:synced-multi-block")
		}
	}
	m.aligned = head + 1
	m.setChain(nc)
	m.verify(fmt.Sprintf("after tick %d", r.ticks))
}

func (r *pollerRig) actions() map[string]func(*rapid.T) {
	m, s, w := r.m, r.seq, r.m.w
	c := m.c
	return map[string]func(*rapid.T){
		"tick":  r.tick,
		"tick2": r.tick,
		"tick3": r.tick,
		"seqReveal": func(rt *rapid.T) {
			n := len(s.pc)
			if n == 0 || s.revealed >= s.pc[n-1].ntx() {
				rt.Skip()
			}
			s.revealed = rapid.IntRange(s.revealed+1, s.pc[n-1].ntx()).Draw(rt, "revealed")
			c.Fp("reveal %d", s.revealed)
			c.Label("seq:reveal-more-txs")
		},
		"seqReveal2": func(rt *rapid.T) {
			n := len(s.pc)
			if n == 0 || s.revealed >= s.pc[n-1].ntx() {
				rt.Skip()
			}
			s.revealed++
			c.Fp("reveal %d", s.revealed)
			c.Label("seq:reveal-more-txs")
		},
		"seqExtend": func(rt *rapid.T) {
			// the newest block gets more transactions than first generated
			n := len(s.pc)
			if n == 0 {
				rt.Skip()
			}
			last := s.pc[n-1]
			ck := w.drawChunk(rt, last.num, last.end(), last.ver, last.ver, 1)
			s.pc[n-1] = last.extended(ck)
			s.revealed = rapid.IntRange(s.revealed, s.pc[n-1].ntx()).Draw(rt, "revealed")
			c.Fp("extend %d", s.pc[n-1].ntx())
			c.Label("seq:extend-newest")
		},
		"seqOpen": func(rt *rapid.T) {
			if len(s.pc) >= 5 {
				rt.Skip()
			}
			k := rapid.IntRange(1, 3).Draw(rt, "k")
			for ; k > 0 && len(s.pc) < 5; k-- {
				s.open(rt)
			}
			c.Fp("open -> %d", len(s.pc))
			c.Label("seq:open-blocks")
		},
		"seqNewRound": func(rt *rapid.T) {
			// a new round replaces block i and everything above it; when i is not the newest block
			// the poller is shown this state before the sequencer moves on (one forced tick)
			n := len(s.pc)
			if n == 0 {
				rt.Skip()
			}
			i := n - 1
			if rapid.IntRange(0, 2).Draw(rt, "deep") == 0 {
				i = rapid.IntRange(0, n-1).Draw(rt, "slot")
			}
			old := s.pc[i]
			ct := w.newContent(rt, old.num, old.states[0], old.ver, w.newID())
			s.pc = append(append([]*content{}, s.pc[:i]...), ct)
			s.revealed = rapid.IntRange(0, ct.ntx()).Draw(rt, "revealed")
			c.Fp("newround %d", ct.num)
			if i < n-1 {
				c.Label("seq:new-round-below-newest")
				r.ahead = 0
				r.tickF(rt, false)
			} else {
				c.Label("seq:new-round-at-newest")
			}
		},
		"advance": func(rt *rapid.T) {
			if w.canon.Height() >= 9 {
				rt.Skip()
			}
			j := rapid.IntRange(1, 3).Draw(rt, "j")
			for ; j > 0 && len(s.pc) > 0; j-- {
				// the sequencer finalises its oldest pre-confirmed block with its full content
				ct := s.pc[0]
				s.hist[ct.num] = ct
				w.appendCanon(w.finalise(ct))
				s.pc = s.pc[1:]
				if len(s.pc) == 0 && rapid.IntRange(0, 3).Draw(rt, "lag") > 0 {
					s.open(rt)
				}
			}
			c.Fp("advance -> %d", w.head())
			c.Label("head:advance")
			m.headMoved()
			m.verifyViews("after head advance")
		},
		"revert": func(rt *rapid.T) {
			if w.canon.Height() <= 1 {
				rt.Skip()
			}
			j := rapid.IntRange(1, min(2, w.canon.Height()-1)).Draw(rt, "j")
			local := rapid.Bool().Draw(rt, "local")
			var back []*content
			for ; j > 0; j-- {
				ct := s.hist[w.head()]
				if ct == nil {
					local = false
				}
				back = append([]*content{ct}, back...)
				w.revertCanon()
			}
			if local {
				// node-local revert: the sequencer still has the same blocks, now pre-confirmed again
				if len(s.pc) == 0 {
					s.revealed = back[len(back)-1].ntx()
				}
				s.pc = append(back, s.pc...)
				c.Label("head:revert-local")
			} else {
				s.pc = nil
				s.open(rt)
				c.Label("head:revert-reorg")
			}
			if os.Getenv("C20_STRICT_FRESHNESS") == "" { // probe switch: keep the exact-content oracle across reverts
				r.exact = false
			}
			c.Fp("revert -> %d local=%v", w.head(), local)
			m.headMoved()
			m.verifyViews("after head revert")
		},
		"syncState": func(rt *rapid.T) {
			r.ahead = uint64(rapid.SampledFrom([]int{0, 0, 0, 1, 5}).Draw(rt, "ahead"))
			c.Fp("ahead %d", r.ahead)
		},
		"view":   m.actTakeView,
		"view2":  m.actTakeView,
		"query":  m.actQueryView,
		"query2": m.actQueryView,
	}
}

func (m *machine) verifyViews(where string) {
	for _, hv := range m.views {
		m.verifyView(hv, where)
	}
}

// inBubble runs body inside a synctest bubble and carries rapid's control-flow panics (oracle
// failure, invalid data) back to the goroutine rapid runs the property on. rapid's shrinker tells
// failures apart by the traceback of the panic only; the re-panic therefore happens at a stack
// depth derived from the original panic site (distinct sites -> distinct tracebacks), and
// invalid-data panics (bit stream overrun while shrinking) go through a function of their own.
func inBubble(t *testing.T, body func()) {
	var pv any
	var site uint32
	synctest.Test(t, func(*testing.T) {
		defer func() {
			if pv = recover(); pv != nil {
				var pcs [48]uintptr
				n := runtime.Callers(2, pcs[:])
				h := fnv.New32a()
				for _, pc := range pcs[:n] {
					var b [8]byte
					binary.LittleEndian.PutUint64(b[:], uint64(pc))
					_, _ = h.Write(b[:])
				}
				site = h.Sum32()
			}
		}()
		body()
	})
	if pv == nil {
		return
	}
	if fmt.Sprintf("%T", pv) == "rapid.invalidData" {
		rethrowInvalid(pv)
	}
	rethrow(pv, int(site%24))
}

//go:noinline
func rethrowInvalid(pv any) { panic(pv) }

//go:noinline
func rethrow(pv any, depth int) {
	if depth > 0 {
		rethrow(pv, depth-1)
		return
	}
	panic(pv)
}

func TestPropPoller(t *testing.T) {
	stats.Check(t, stats.Budget{Quick: 70, Thorough: 800},
		"the real preconfirmed.Poller (Run under testing/synctest, one ticker period per tick action) over a real Blockchain and a harness sequencer (DataSource) holding up to 5 pre-confirmed blocks: reveal more txs of the newest block (delta), extend it, open 1-3 new blocks (backfill), new round at the newest block or below it, head advance finalising the sequencer's blocks, head revert (node-local or sequencer reorg), not-at-tip phases, one-shot feeder faults (latest / by-number / class), NoChange with or without block number; readers take and keep views between ticks. Oracles: after a fault-free tick at the tip the stored chain equals what the sequencer shows (closed blocks carry all their class definitions); otherwise only realignment; plus all view oracles of the storage machine (shape, immutability fingerprint, lookups, overlay vs ref.State). Non-trivial = a non-empty view held across a later mutation of one of its slots or a head move",
		func(rt *rapid.T, c *stats.Case) {
			inBubble(t, func() {
				m := newMachine(rt, c, true)
				r := &pollerRig{m: m, exact: true, seq: &seqSim{w: m.w, hist: map[uint64]*content{}, kinds: map[string]int{}}}
				r.highest.Store(&core.Header{Number: 0})
				r.seq.open(rt)
				p := preconfirmed.NewPoller(r.seq, m.st, m.w.n.BC, feed.New[*pending.PreConfirmed](), &r.highest, pollInterval, log.NewNopZapLogger())
				ctx, cancel := context.WithCancel(context.Background())
				done := make(chan struct{})
				go func() {
					defer close(done)
					defer func() {
						if x := recover(); x != nil {
							r.panicV.Store(fmt.Sprint(x))
						}
					}()
					p.Run(ctx)
				}()
				defer func() { cancel(); <-done }()
				synctest.Wait()
				time.Sleep(pollInterval / 2) // from now on every Sleep(pollInterval) spans exactly one tick
				if rapid.IntRange(0, 3).Draw(rt, "firstTick") > 0 {
					r.tickF(rt, false)
				}
				rt.Repeat(r.actions())
				m.finish()
				for k, n := range r.seq.kinds {
					if n > 0 {
						c.Label("wire:" + k)
					}
				}
				if r.seq.nClass > 0 {
					c.Label("wire:class-fetch")
				}
			})
		})
}
