package c06

import (
	"testing"
	"time"
)

func TestRaceProbeHeld(t *testing.T) {
	u, ch := emptyChain(3)
	r := start(u, ch, true, 2)
	defer r.stop()
	r.e.arm(armAny)
	r.pollErr()
	r.ok(kBlock, 2)
	for i := 0; i < 2000; i++ {
		if r.e.view().held >= 0 {
			break
		}
		time.Sleep(time.Millisecond)
	}
	t.Logf("held=%d", r.e.view().held)
	r.forkEmpty(2, 1, "reorg")
	r.ok(kBlock, 3)
	r.e.answerReq(r.await(kLatest, 0, false), "ok", nil, nil)
	time.Sleep(50 * time.Millisecond)
	r.e.release("probe", true)
	out := r.freezeAndConverge(nil, 600)
	r.stop()
	t.Logf("outcome %v viol %q %s\n%s", out, r.e.violKey, r.e.violMsg, r.history())
}
