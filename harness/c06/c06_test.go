// Package c06: the synchronizer converges to the source's chain and only ever stores verified
// blocks (property C06).
//
// Real sync.Synchronizer + real blockchain.Blockchain (memory DB, either state backend) pull from
// a harness DataSource whose schedule is owned by the generator: every BlockByNumber /
// BlockHeaderLatest call parks on a gate; a rapid-drawn script decides which parked request is
// answered next and how (correct block of the CURRENT source chain, injected error, corrupted
// copy, stale head, lagging head, or a WRONG-BUT-VALID block: a genuine, fully valid block that is
// simply not the one asked for - a block the node already holds, a canonical block of a lower or
// higher height, a genuine block of an abandoned fork at the requested or another height, the
// requested block paired with the genuine state update of another block; see wrongPool) and
// mutates the source chain between answers (extend, reorg, shorten).
// The script also owns the timing of the store step's tail: it can arm a hold, the next store
// step then blocks in the public EventListener hook OnSyncStepDone(OpStore) (block committed,
// notifications and plugin call not yet made) until the script releases it; meanwhile the script
// keeps mutating the source and answering parked requests. A hold is bounded (released by the
// script, at the end of the script, when nothing is parked, on cancellation, or by a real-time
// guard that only ever yields "inconclusive").
// Observation: a plugin.JunoPlugin (called synchronously after every store / before every
// revert), the sync.EventListener, the new-heads and reorg feeds, and the Blockchain reader.
// Each of the three announcement channels of a store (OnSyncStepDone(OpStore), new-head feed,
// plugin NewBlock) has its own "announced once per stored block, extending the head" oracle:
// store-step-not-extending-head / store-step-without-plugin-call / store-without-listener-step,
// new-head-not-extending-announced-chain (+ new-heads-not-subsequence when lossy), store-not-extending-head.
// The two feeds are made lossless where possible: the plugin's NewBlock (called by the store step
// after its notifications were sent) waits, bounded, until the feed readers have received them; if
// that ever fails the case falls back to the lossy (subsequence) assertions only.
// Go-runtime scheduling inside the pipeline is not owned: all oracles are schedule independent
// (invariants over the recorded history, monotone facts about the source), wall-clock guards only
// ever yield "inconclusive".
package c06

import (
	"net"
	"context"
	"encoding/json"
	"errors"
	"fmt"
	"runtime"
	"sort"
	"strings"
	gosync "sync"
	"testing"
	"time"

	"github.com/NethermindEth/juno/blockchain"
	"github.com/NethermindEth/juno/core"
	"github.com/NethermindEth/juno/core/felt"
	_ "github.com/NethermindEth/juno/encoder/registry"
	junoplugin "github.com/NethermindEth/juno/plugin"
	"github.com/NethermindEth/juno/starknet"
	jsync "github.com/NethermindEth/juno/sync"
	"github.com/NethermindEth/juno/utils/log"
	"pgregory.net/rapid"

	"verif/harness/internal/gen"
	"verif/harness/internal/node"
	"verif/harness/internal/stats"
)

func TestMain(m *testing.M) { stats.Main(m) }

const (
	// known finding: revertTask reverts every local block above its "last possibly valid height"
	// without asking the source whether that block was really replaced. Triggers: (a) a stale latest
	// header taken from an abandoned fork, (b) a block with a forged parent hash and a self-consistent
	// block hash, (c) a block fetched before a reorg and processed after a fresher lower block.
	kfRevert = "c06-revert-without-confirming-replacement"
	// known finding: the block revertTask fetches to compare hashes is not verified at all (hash
	// consistency, number): a garbage answer makes it revert a block the source still has.
	kfCompare = "c06-revert-comparison-block-unverified"
	// known finding: isReverting returns remoteHeight-1 on a uint64; with a remote head at height 0 whose hash
	// differs from the local genesis it wraps, revertTask then asks the source for the local head's number,
	// gets "not found" and gives up without reverting anything, forever.
	kfGenesis    = "c06-remote-head-at-genesis-wraps-revert-height"
	kfLegacyZero = "c04-legacy-revert-zero-write-to-absent-slot"

	maxChain      = 14
	livelockBound = 5000 // correctly answered requests without any store/revert while the chains differ
	wallGuard     = 180 * time.Second
	frozenBackoff = 100 * time.Microsecond // the frozen source's "not found"/latest answers model the client's back-off
	holdGuard     = 60 * time.Second       // real-time bound of a held store step: harness safety net, never a verdict
	feedGuard     = 500 * time.Millisecond // bound of the wait for the feed readers in NewBlock: on expiry the case is "lossy"
)

var (
	errInjected = errors.New("c06: injected fetch error")
	errNotFound = errors.New("c06: block not found")
)

type reqKind byte

const (
	kBlock  reqKind = 'B'
	kLatest reqKind = 'L'
)

type answer struct {
	cb  jsync.CommittedBlock
	hdr *core.Header
	err error
	dl  *delivered
}

type request struct {
	id   int
	kind reqKind
	num  uint64
	ctx  context.Context
	ch   chan answer
	poll bool // issued by pollLatest (root context): the node does not react to its answer
}

func (r *request) String() string {
	if r.kind == kLatest {
		if r.poll {
			return fmt.Sprintf("#%d latest(poll)", r.id)
		}
		return fmt.Sprintf("#%d latest", r.id)
	}
	return fmt.Sprintf("#%d block(%d)", r.id, r.num)
}

// delivered is a block handed to the node whose fate (Persisted) has not been observed yet.
type delivered struct {
	num       uint64
	persisted chan error
	ctx       context.Context // stream context of the request: once it is cancelled the block can no longer be stored
	wrong     string          // kind of the wrong-but-valid answer this block was ("" = the block asked for, possibly corrupted)
}

// Wrong-but-valid answers: the source answers a block request with a GENUINE block (hash, commitments,
// state update and classes verify in isolation) that is simply not the one asked for - what a stale or
// confused replica does. Only the number/parent checks of the store step and the number/hash checks of
// the revert task stand between such a block and the chain.
const (
	wvHeldHead    = "held-head"                   // the node's current head block (stale replica: h+1 answered with h)
	wvHeldLower   = "held-below-head"             // a block the node holds below its head
	wvCanonLower  = "canonical-lower-not-held"    // canonical block of a lower height the node does not hold (yet)
	wvCanonHigher = "canonical-higher"            // canonical block of a height above the requested one
	wvForkSame    = "abandoned-fork-same-height"  // genuine block of an abandoned fork at the requested height
	wvForkOther   = "abandoned-fork-other-height" // genuine block of an abandoned fork at another height, not held by the node
	wvSUOther     = "state-update-of-other-block" // the block asked for, paired with the genuine state update (and classes) of another block
)

var wvKinds = []string{wvHeldHead, wvHeldLower, wvCanonLower, wvCanonHigher, wvForkSame, wvForkOther, wvSUOther}

type wrongAns struct {
	kind        string
	blk         *gen.Block // the genuine block served
	su          *gen.Block // non-nil: blk's state update is replaced by the one of this genuine block
	withClasses bool       // ... and its classes too
	// classification (computed when the candidate is built)
	held        bool // the node holds exactly this block at its height
	staleNext   bool // the request is for the node's next height and the answer is the node's head
	extendsHead bool // abandoned block whose number is head+1 and whose parent is the node's head: will be stored (it was canonical once)
	comparison  bool // answer to the revert task's comparison fetch
	aboveTip    bool // the request is for a height the source does not have (yet)
}

type everEntry struct {
	b    *gen.Block
	json string
}

type event struct {
	kind byte // 'S' store, 'R' revert
	num  uint64
	hash felt.Felt
}

type counters struct{ arrivals, cancels, events, persisted, heads, answered, holds int }

const (
	armAny = 1
	armTip = 2
)

// hold is a store step blocked in OnSyncStepDone(OpStore): block num is committed, its
// notifications and the plugin's NewBlock have not been made yet.
type hold struct {
	num uint64
	ch  chan struct{}
}

// note is a notification received from one of the two feeds.
type note struct {
	reorg  *jsync.ReorgBlockRange // nil for a new-head notification
	num    uint64
	hash   felt.Felt
	parent felt.Felt
}

// env is the source, the gate and the recorder. One mutex orders everything: source mutations,
// answers, and the node's synchronous callbacks, so "canonical at the time of the revert" is a
// well defined question.
type env struct {
	mu    gosync.Mutex
	u     *gen.Universe
	chain *gen.Chain
	ever  map[felt.Felt]*everEntry
	all   []*gen.Block
	// heads the source had earlier (most recent last)
	pastHeads    []*core.Header
	shortenedTip bool

	pending       []*request
	nextID        int
	frozen        bool
	arrivals      int
	cancels       int
	answered      int
	frozenAnswers int
	errKind       int // kind of the next injected fetch error (drawn by the script)
	persistedSeen int
	dlv           []*delivered
	rootCtx       context.Context
	bc            *blockchain.Blockchain

	stack         []felt.Felt // model of the local chain, driven by the plugin callbacks
	events        []event
	storeSteps    int
	pendingRevert *uint64
	revertedEver  map[felt.Felt]bool
	canonReverts  []string // reverts of blocks that were canonical in the source at revert time
	tolerateCanon bool     // witnesses of the known finding count instead of failing
	violKey       string
	violMsg       string
	heads         []felt.Felt
	reorgs        []jsync.ReorgBlockRange
	hist          []string

	// schedule control of the store step's tail
	holdArmed          int // 0 = no, armAny = the next store step, armTip = the next store step that brings the node level with the source
	held               *hold
	holdsStarted       int
	holdTimeouts       int
	lastHeldNum        uint64
	lastHeldEvIdx      int // index in events at which the held block's store will be recorded; -1 = none
	heldThenReverted   int
	reorgSeenWhileHeld int // reorg checks answered, while a store step is held, with a head that differs from the node's block

	// announced chain: what a subscriber of both feeds knows (starts as the chain at subscription time)
	ann          []felt.Felt
	nbuf         []note
	lossy        bool // a notification was not received in time once: only the lossy assertions remain
	nStores      int
	stepOpen     bool           // OnSyncStepDone(OpStore) was called and the plugin's NewBlock for that block has not been called yet
	stepNum      uint64         // ... its block number
	wrongFate    map[string]int // fate (stored / rejected(why) / dropped) of the wrong-but-valid blocks that reported back through Persisted
	openRange    bool           // blocks were reverted since the last store
	openStart    uint64
	closedRanges int
}

func (e *env) logf(f string, a ...any) {
	if len(e.hist) < 1500 {
		e.hist = append(e.hist, fmt.Sprintf(f, a...))
	}
}

func (e *env) violate(key, f string, a ...any) {
	msg := fmt.Sprintf(f, a...)
	e.logf("!! ORACLE %s: %s", key, msg)
	if e.violKey == "" {
		e.violKey, e.violMsg = key, msg
	}
}

func short(h *felt.Felt) string {
	if h == nil {
		return "nil"
	}
	s := h.String()
	if len(s) > 10 {
		return s[:10]
	}
	return s
}

func renderBlock(b *core.Block, su *core.StateUpdate, classes map[felt.Felt]core.ClassDefinition) string {
	keys := make([]string, 0, len(classes))
	for k := range classes {
		keys = append(keys, k.String())
	}
	sort.Strings(keys)
	j, err := json.Marshal([]any{b, su, keys})
	if err != nil {
		return "!json:" + err.Error()
	}
	return string(j)
}

// register records freshly generated canonical blocks (called without the lock for the rendering, the map write is locked by the caller).
func (e *env) register(bs []*gen.Block) {
	for _, b := range bs {
		if _, dup := e.ever[*b.B.Hash]; dup {
			stats.HarnessError("generator produced the same block hash twice: %s", b.B.Hash.String())
		}
		e.ever[*b.B.Hash] = &everEntry{b: b, json: renderBlock(b.B, b.SU, b.Classes)}
		e.all = append(e.all, b)
	}
}

// ---------------------------------------------------------------- DataSource

func (e *env) BlockByNumber(ctx context.Context, n uint64) (jsync.CommittedBlock, error) {
	a := e.gate(ctx, kBlock, n)
	return a.cb, a.err
}

func (e *env) BlockHeaderLatest(ctx context.Context) (*core.Header, error) {
	a := e.gate(ctx, kLatest, 0)
	return a.hdr, a.err
}

func (e *env) PreConfirmedBlockByNumber(context.Context, uint64, string, uint64) (starknet.PreConfirmedUpdate, error) {
	return nil, errors.New("c06: pre_confirmed not available")
}

func (e *env) PreConfirmedBlockLatest(context.Context, string, uint64) (starknet.PreConfirmedUpdate, uint64, error) {
	return nil, 0, errors.New("c06: pre_confirmed not available")
}

func (e *env) Class(context.Context, *felt.Felt) (core.ClassDefinition, error) {
	return nil, errors.New("c06: class endpoint not available")
}

func (e *env) gate(ctx context.Context, kind reqKind, n uint64) answer {
	e.mu.Lock()
	if e.frozen {
		a := e.makeAnswer(ctx, kind, n, "ok", nil, nil, nil)
		e.frozenAnswers++
		e.mu.Unlock()
		if a.err != nil || kind == kLatest {
			time.Sleep(frozenBackoff)
		}
		return a
	}
	r := &request{id: e.nextID, kind: kind, num: n, ctx: ctx, ch: make(chan answer, 1), poll: ctx == e.rootCtx}
	e.nextID++
	e.pending = append(e.pending, r)
	e.arrivals++
	e.mu.Unlock()
	select {
	case a := <-r.ch:
		return a
	case <-ctx.Done():
		e.mu.Lock()
		found := false
		for i, p := range e.pending {
			if p == r {
				e.pending = append(e.pending[:i], e.pending[i+1:]...)
				found = true
				break
			}
		}
		if !found { // answered concurrently with the cancellation: the answer is dropped
			select {
			case a := <-r.ch:
				if a.dl != nil {
					e.dropDelivered(a.dl)
				}
			default:
			}
		}
		e.cancels++
		e.mu.Unlock()
		return answer{err: ctx.Err()}
	}
}

func (e *env) dropDelivered(d *delivered) {
	for i, x := range e.dlv {
		if x == d {
			e.dlv = append(e.dlv[:i], e.dlv[i+1:]...)
			return
		}
	}
}

// makeAnswer computes the answer from the source chain as it is NOW (caller holds the lock).
func (e *env) makeAnswer(ctx context.Context, kind reqKind, n uint64, how string, tm *tamper, stale *core.Header, wr *wrongAns) answer {
	if how == "err" {
		// the KIND of the failure is drawn by the script (errKind): a transport error, a request that ran into the client's
		// time-out or was aborted (errors matching context.DeadlineExceeded / context.Canceled while the stream's own context is
		// alive), a net.Error time-out
		switch e.errKind {
		case 1:
			return answer{err: fmt.Errorf("c06: get block: Post \"feeder\": %w", context.DeadlineExceeded)}
		case 2:
			return answer{err: fmt.Errorf("c06: get block: request aborted: %w", context.Canceled)}
		case 3:
			return answer{err: &net.DNSError{Err: "i/o timeout", Name: "feeder", IsTimeout: true}}
		}
		return answer{err: errInjected}
	}
	if kind == kBlock && how == "wrong" && wr != nil {
		b := gen.CloneBlock(wr.blk)
		if wr.su != nil {
			o := gen.CloneBlock(wr.su)
			b.SU = o.SU
			if wr.withClasses {
				b.Classes = o.Classes
			}
		}
		d := &delivered{num: b.B.Number, persisted: make(chan error, 1), ctx: ctx, wrong: wr.kind}
		e.dlv = append(e.dlv, d)
		return answer{cb: jsync.CommittedBlock{Block: b.B, StateUpdate: b.SU, NewClasses: b.Classes, Persisted: d.persisted}, dl: d}
	}
	if kind == kLatest {
		if how == "stale" && stale != nil {
			h := *stale
			return answer{hdr: &h}
		}
		h := *e.chain.Blocks[len(e.chain.Blocks)-1].B.Header
		return answer{hdr: &h}
	}
	if n >= uint64(len(e.chain.Blocks)) {
		return answer{err: errNotFound}
	}
	b := gen.CloneBlock(e.chain.Blocks[n])
	if how == "corrupt" && tm != nil {
		if !tm.apply(b) {
			b.B.Timestamp++ // always applicable fallback: stored hash no longer matches
		} else if tm.reseal {
			gen.Rehash(b, e.u.Net)
		}
	}
	d := &delivered{num: b.B.Number, persisted: make(chan error, 1), ctx: ctx}
	e.dlv = append(e.dlv, d)
	return answer{cb: jsync.CommittedBlock{Block: b.B, StateUpdate: b.SU, NewClasses: b.Classes, Persisted: d.persisted}, dl: d}
}

// wrongPool lists, per kind, the wrong-but-valid answers available NOW for a block request of height h.
// Candidates that would fall into a recorded finding or outside the property are left out and counted:
//   - excluded (only when the known finding kfRevert is recorded): a block of number n whose parent is neither the
//     canonical block n-1 nor the node's head could reach the store step with n = head+1 on top of a canonical head;
//     Store then reports a parent mismatch and revertTask reverts that canonical head without asking the source
//     (trigger (b)/(c) of the finding with a genuine fork block instead of a forged one);
//   - redirected: a genuine fork block of the right height served to the revert task's comparison fetch while the
//     node's block at that height is canonical (config.py assumption: nothing short of the source's word tells a
//     replaced block from a canonical one).
func (e *env) wrongPool(h uint64, known bool) (kinds []string, cands map[string][]wrongAns, excluded, redirected int) {
	e.mu.Lock()
	defer e.mu.Unlock()
	L, S := uint64(len(e.stack)), uint64(len(e.chain.Blocks))
	canonHash := func(n uint64, hash *felt.Felt) bool { return n < S && e.chain.Blocks[n].B.Hash.Equal(hash) }
	heldB := func(b *gen.Block) bool { return b.Num() < L && e.stack[b.Num()].Equal(b.B.Hash) }
	comparison := h < L
	cands = map[string][]wrongAns{}
	add := func(kind string, b *gen.Block) {
		n, parent := b.Num(), b.B.ParentHash
		w := wrongAns{kind: kind, blk: b, held: heldB(b), comparison: comparison, aboveTip: h >= S}
		w.staleNext = kind == wvHeldHead && h == L
		w.extendsHead = !canonHash(n, b.B.Hash) && n == L && (n == 0 || e.stack[n-1].Equal(parent))
		switch {
		case comparison:
			if n == h && canonHash(h, &e.stack[h]) && !e.stack[h].Equal(b.B.Hash) {
				redirected++
				return
			}
		case known:
			safe := n < L || n == 0 || canonHash(n-1, parent) || (n == L && e.stack[n-1].Equal(parent))
			if !safe {
				excluded++
				return
			}
		}
		cands[kind] = append(cands[kind], w)
	}
	if L > 0 {
		if ent := e.ever[e.stack[L-1]]; ent != nil && ent.b.Num() != h {
			add(wvHeldHead, ent.b)
		}
	}
	for i := uint64(0); i+1 < L; i++ {
		if ent := e.ever[e.stack[i]]; ent != nil && i != h {
			add(wvHeldLower, ent.b)
		}
	}
	for i := uint64(0); i < S; i++ {
		b := e.chain.Blocks[i]
		switch {
		case i == h || heldB(b):
		case i < h:
			add(wvCanonLower, b)
		default:
			add(wvCanonHigher, b)
		}
	}
	for _, b := range e.all {
		switch {
		case canonHash(b.Num(), b.B.Hash):
		case b.Num() == h:
			add(wvForkSame, b) // held or not: a replica that still serves the block the node has to give up
		case !heldB(b):
			add(wvForkOther, b)
		}
	}
	if h < S {
		// rejected by the first sanity check (block hash != state update's block hash) wherever it is served
		blk := e.chain.Blocks[h]
		for _, b := range e.all {
			if !b.B.Hash.Equal(blk.B.Hash) {
				cands[wvSUOther] = append(cands[wvSUOther], wrongAns{kind: wvSUOther, blk: blk, su: b, comparison: comparison})
			}
		}
	}
	for _, k := range wvKinds {
		if len(cands[k]) > 0 {
			kinds = append(kinds, k)
		}
	}
	return kinds, cands, excluded, redirected
}

// answerReq answers the parked request id. It returns false when the request is gone (cancelled by a stream reset).
func (e *env) answerReq(id int, how string, tm *tamper, stale *core.Header) bool {
	return e.answerReqW(id, how, tm, stale, nil)
}

func (e *env) answerReqW(id int, how string, tm *tamper, stale *core.Header, wr *wrongAns) bool {
	e.mu.Lock()
	defer e.mu.Unlock()
	for i, r := range e.pending {
		if r.id != id {
			continue
		}
		a := e.makeAnswer(r.ctx, r.kind, r.num, how, tm, stale, wr)
		e.pending = append(e.pending[:i], e.pending[i+1:]...)
		e.answered++
		desc := how
		if wr != nil && how == "wrong" {
			desc = "WRONG-BUT-VALID(" + wr.kind + ")"
		}
		switch {
		case a.err != nil:
			desc += " -> " + a.err.Error()
		case a.hdr != nil:
			desc += fmt.Sprintf(" -> head #%d %s", a.hdr.Number, short(a.hdr.Hash))
			if e.held != nil && !r.poll && a.hdr.Number <= e.held.num {
				// a reorg check (isReverting) gets its answer while the store step of the node's head is held
				if lh, err := e.bc.BlockHeaderByNumber(a.hdr.Number); err == nil && !lh.Hash.Equal(a.hdr.Hash) {
					e.reorgSeenWhileHeld++
					desc += "  (differs from the node's block at that height while the store step of #" + fmt.Sprint(e.held.num) + " is held)"
				}
			}
		default:
			desc += fmt.Sprintf(" -> block #%d %s parent %s", a.cb.Block.Number, short(a.cb.Block.Hash), short(a.cb.Block.ParentHash))
			if tm != nil {
				desc += " tamper=" + tm.name
			}
			if wr != nil && wr.su != nil {
				desc += fmt.Sprintf(" with the state update of #%d %s (classes too: %v)", wr.su.Num(), short(wr.su.B.Hash), wr.withClasses)
			}
		}
		e.logf("answer %s %s   [source len %d tip %s]", r, desc, len(e.chain.Blocks), short(e.chain.Blocks[len(e.chain.Blocks)-1].B.Hash))
		r.ch <- a
		return true
	}
	return false
}

// ---------------------------------------------------------------- source mutations (script goroutine only)

// replaceChain installs a chain sharing the first keep blocks with the current one plus fresh blocks.
func (e *env) replaceChain(nc *gen.Chain, keep int, what string) {
	fresh := nc.Blocks[keep:]
	e.mu.Lock()
	defer e.mu.Unlock()
	old := e.chain
	oldTip := old.Blocks[len(old.Blocks)-1].B.Header
	e.register(fresh)
	e.chain = nc
	newTip := nc.Blocks[len(nc.Blocks)-1].B.Header
	if !oldTip.Hash.Equal(newTip.Hash) {
		h := *oldTip
		e.pastHeads = append(e.pastHeads, &h)
	}
	e.shortenedTip = len(fresh) == 0
	e.logf("SOURCE %s: keep %d of %d, %d fresh -> len %d tip #%d %s   [pending %d, in flight %d, local len %d]", what, keep, len(old.Blocks), len(fresh),
		len(nc.Blocks), newTip.Number, short(newTip.Hash), len(e.pending), len(e.dlv), len(e.stack))
}

func (e *env) mutate(rt *rapid.T, keep, fresh int, what string) {
	nc := e.chain.Fork(keep) // only this goroutine replaces e.chain; chains are never mutated in place once installed
	for i := 0; i < fresh; i++ {
		nc.Next(rt)
	}
	e.replaceChain(nc, keep, what)
}

// ---------------------------------------------------------------- recorder: plugin, listener, feeds

type plug struct{ e *env }

func (p plug) Init() error     { return nil }
func (p plug) Shutdown() error { return nil }

func (p plug) NewBlock(block *core.Block, su *core.StateUpdate, classes map[felt.Felt]core.ClassDefinition) error {
	e := p.e
	e.awaitFeeds()
	e.mu.Lock()
	defer e.mu.Unlock()
	e.logf("  node STORE #%d %s parent %s", block.Number, short(block.Hash), short(block.ParentHash))
	// notification stream first: the stored block is the announced head by now
	e.flushNotes()
	if !e.lossy && (uint64(len(e.ann)) != block.Number+1 || !e.ann[block.Number].Equal(block.Hash)) {
		e.violate("stored-block-not-announced", "block #%d %s is stored (plugin NewBlock) and every notification sent so far has been received, but the announced chain (new-head/reorg notifications replayed) has %d blocks and its head is %s",
			block.Number, short(block.Hash), len(e.ann), shortLast(e.ann))
	}
	e.nStores++
	if !e.stepOpen || e.stepNum != block.Number {
		e.violate("store-without-listener-step", "plugin NewBlock(#%d %s) is not preceded by exactly one OnSyncStepDone(OpStore, %d) (open step: %v #%d)", block.Number, short(block.Hash), block.Number, e.stepOpen, e.stepNum)
	}
	e.stepOpen = false
	if e.openRange {
		e.openRange = false
		e.closedRanges++
	}
	ent, ok := e.ever[*block.Hash]
	switch {
	case !ok:
		e.violate("stored-never-canonical", "node stored block #%d %s which was never canonical in the source", block.Number, block.Hash.String())
	case renderBlock(block, su, classes) != ent.json:
		e.violate("stored-block-differs", "node stored block #%d %s whose content differs from the source's block with that hash", block.Number, block.Hash.String())
	}
	wantParent := &felt.Zero
	if len(e.stack) > 0 {
		wantParent = &e.stack[len(e.stack)-1]
	}
	if block.Number != uint64(len(e.stack)) || !block.ParentHash.Equal(wantParent) {
		e.violate("store-not-extending-head", "node stored block #%d parent %s while its head was #%d %s", block.Number, short(block.ParentHash), len(e.stack)-1, short(wantParent))
	}
	if hd, err := e.bc.HeadsHeader(); err != nil || !hd.Hash.Equal(block.Hash) {
		e.violate("reader-head-after-store", "after storing #%d %s the reader's head is %v (err %v)", block.Number, short(block.Hash), hd, err)
	}
	e.stack = append(e.stack, *block.Hash)
	e.events = append(e.events, event{'S', block.Number, *block.Hash})
	return nil
}

func (p plug) RevertBlock(from, to *junoplugin.BlockAndStateUpdate, _ *core.StateDiff) error {
	e := p.e
	e.mu.Lock()
	defer e.mu.Unlock()
	b := from.Block
	canonical := b.Number < uint64(len(e.chain.Blocks)) && e.chain.Blocks[b.Number].B.Hash.Equal(b.Hash)
	e.logf("  node REVERT #%d %s (canonical in source now: %v)", b.Number, short(b.Hash), canonical)
	// notification stream first: a block is never reverted before subscribers were told about it
	e.flushNotes()
	if !e.lossy && (b.Number >= uint64(len(e.ann)) || !e.ann[b.Number].Equal(b.Hash)) {
		e.violate("reverted-before-announced", "node reverts block #%d %s (plugin RevertBlock) whose new-head notification has not been emitted: announced chain has %d blocks, head %s",
			b.Number, short(b.Hash), len(e.ann), shortLast(e.ann))
	}
	e.openRange, e.openStart = true, b.Number
	if e.lastHeldEvIdx >= 0 && len(e.events) == e.lastHeldEvIdx+1 && e.events[e.lastHeldEvIdx].kind == 'S' && e.events[e.lastHeldEvIdx].hash.Equal(b.Hash) {
		e.heldThenReverted++
	}
	if len(e.stack) == 0 || !e.stack[len(e.stack)-1].Equal(b.Hash) || b.Number != uint64(len(e.stack)-1) {
		e.violate("revert-not-head", "node reverts #%d %s which is not its head (local len %d)", b.Number, short(b.Hash), len(e.stack))
	} else {
		e.stack = e.stack[:len(e.stack)-1]
	}
	if hd, err := e.bc.HeadsHeader(); err != nil || !hd.Hash.Equal(b.Hash) {
		e.violate("reader-head-before-revert", "before reverting #%d %s the reader's head is %v (err %v)", b.Number, short(b.Hash), hd, err)
	}
	if (to == nil) != (b.Number == 0) || (to != nil && !to.Block.Hash.Equal(b.ParentHash)) {
		e.violate("revert-to-block", "RevertBlock(from #%d) got a wrong 'to' block", b.Number)
	}
	if canonical {
		msg := fmt.Sprintf("node reverted block #%d %s although it is on the source's canonical chain (source len %d) at the time of the revert", b.Number, b.Hash.String(), len(e.chain.Blocks))
		e.canonReverts = append(e.canonReverts, msg)
		if !e.tolerateCanon {
			e.violate("reverted-canonical-block", "%s", msg)
		}
	}
	e.revertedEver[*b.Hash] = true
	e.events = append(e.events, event{'R', b.Number, *b.Hash})
	n := b.Number
	e.pendingRevert = &n
	return nil
}

type listener struct{ e *env }

func (l listener) OnSyncStepDone(op string, num uint64, _ time.Duration) {
	if op != jsync.OpStore {
		return
	}
	e := l.e
	e.mu.Lock()
	e.storeSteps++
	// announcement channel 3 (after the plugin and the new-head feed): one store step per stored block, each for the
	// block that extends the node's head and is committed by now
	if e.stepOpen {
		e.violate("store-step-without-plugin-call", "OnSyncStepDone(OpStore, %d) follows OnSyncStepDone(OpStore, %d) without a plugin NewBlock call between them", num, e.stepNum)
	}
	e.stepOpen, e.stepNum = true, num
	if num != uint64(len(e.stack)) {
		e.violate("store-step-not-extending-head", "OnSyncStepDone(OpStore, %d) announced while the node's head is %s: a store step is announced once per stored block and every stored block extends the head",
			num, shortLast(e.stack))
	} else if hd, err := e.bc.HeadsHeader(); err != nil || hd.Number != num || (num > 0 && !hd.ParentHash.Equal(&e.stack[num-1])) {
		e.violate("store-step-block-not-committed", "OnSyncStepDone(OpStore, %d) announced but the reader's head is %v (err %v), not a block #%d on top of %s", num, hd, err, num, shortLast(e.stack))
	}
	var h *hold
	if !e.frozen && e.held == nil && (e.holdArmed == armAny || e.holdArmed == armTip && num+1 == uint64(len(e.chain.Blocks))) {
		e.holdArmed = 0
		h = &hold{num: num, ch: make(chan struct{})}
		e.held = h
		e.holdsStarted++
		e.logf("  node STORE STEP of #%d HELD (block committed, notifications and plugin call pending)   [source len %d]", num, len(e.chain.Blocks))
	}
	e.mu.Unlock()
	if h == nil {
		return
	}
	t := time.NewTimer(holdGuard)
	timedOut := false
	select {
	case <-h.ch:
	case <-e.rootCtx.Done():
	case <-t.C:
		timedOut = true
	}
	t.Stop()
	e.mu.Lock()
	if e.held == h {
		e.noteRelease(h, "guard/cancel")
	}
	if timedOut {
		e.holdTimeouts++
	}
	e.mu.Unlock()
}

// noteRelease records the end of a hold (caller holds the lock).
func (e *env) noteRelease(h *hold, why string) {
	e.held = nil
	e.lastHeldNum, e.lastHeldEvIdx = h.num, len(e.events)
	e.logf("  store step of #%d RELEASED (%s)", h.num, why)
}

// release ends the current hold, if any, and optionally disarms. It reports whether a step was held.
func (e *env) release(why string, disarm bool) bool {
	e.mu.Lock()
	defer e.mu.Unlock()
	if disarm {
		e.holdArmed = 0
	}
	h := e.held
	if h == nil {
		return false
	}
	e.noteRelease(h, why)
	close(h.ch)
	return true
}

func (e *env) arm(kind int) {
	e.mu.Lock()
	e.holdArmed = kind
	if kind == armTip {
		e.logf("SCRIPT arms a hold: the next store step that brings the node level with the source blocks after its commit")
	} else {
		e.logf("SCRIPT arms a hold: the next store step blocks after its commit")
	}
	e.mu.Unlock()
}

func shortLast(a []felt.Felt) string {
	if len(a) == 0 {
		return "none"
	}
	return fmt.Sprintf("#%d %s", len(a)-1, short(&a[len(a)-1]))
}

// awaitFeeds is called at the start of the plugin's NewBlock, i.e. by the store step after it has
// sent its notifications: it waits (bounded) until the feed readers have received one new-head
// notification per stored block and one reorg notification per reverted range, which empties the
// feeds' one-slot buffers, so nothing is ever dropped. If the wait expires (a notification was
// dropped or is emitted later than the plugin call) the case is marked lossy and only the
// assertions that hold for a lossy subscriber are made.
func (e *env) awaitFeeds() {
	e.mu.Lock()
	wantH, wantG, skip := e.nStores+1, e.closedRanges, e.lossy
	if e.openRange {
		wantG++
	}
	e.mu.Unlock()
	if skip {
		return
	}
	startT := time.Now()
	for i := 0; ; i++ {
		e.mu.Lock()
		ok := len(e.heads) >= wantH && len(e.reorgs) >= wantG
		e.mu.Unlock()
		if ok {
			return
		}
		if i < 64 {
			runtime.Gosched()
		} else {
			time.Sleep(20 * time.Microsecond)
		}
		if i&0x3f == 0x3f && time.Since(startT) > feedGuard {
			e.mu.Lock()
			e.lossy = true
			e.logf("  (feeds: %d/%d new-head and %d/%d reorg notifications received %v after the store step sent them: lossy from here on)", len(e.heads), wantH, len(e.reorgs), wantG, feedGuard)
			e.mu.Unlock()
			return
		}
	}
}

// flushNotes replays the notifications received since the last plugin call on the announced chain
// (caller holds the lock). The feeds are separate channels, so the relative order of a reorg and a
// new-head notification received in the same window is not observable: reorgs are applied first,
// which is the only order a correct stream can have (a reorg is emitted with the next new head).
func (e *env) flushNotes() {
	buf := e.nbuf
	e.nbuf = nil
	if e.lossy {
		return
	}
	for _, n := range buf {
		if n.reorg == nil {
			continue
		}
		r, l := n.reorg, uint64(len(e.ann))
		if !(l > 0 && r.EndBlockNum == l-1 && r.EndBlockHash.Equal(&e.ann[l-1]) && r.StartBlockNum <= r.EndBlockNum && r.StartBlockHash.Equal(&e.ann[r.StartBlockNum])) {
			e.violate("reorg-notification-not-announced-suffix", "reorg notification start #%d %s end #%d %s is not a suffix of the announced chain (%d blocks, head %s)",
				r.StartBlockNum, short(r.StartBlockHash), r.EndBlockNum, short(r.EndBlockHash), l, shortLast(e.ann))
		}
		if r.StartBlockNum <= l {
			e.ann = e.ann[:r.StartBlockNum]
		}
	}
	for _, n := range buf {
		if n.reorg != nil {
			continue
		}
		l := uint64(len(e.ann))
		wantParent := &felt.Zero
		if l > 0 {
			wantParent = &e.ann[l-1]
		}
		if n.num != l || !n.parent.Equal(wantParent) {
			e.violate("new-head-not-extending-announced-chain", "new-head notification #%d %s (parent %s) does not extend the announced chain (%d blocks, head %s) and no reorg notification removed the difference",
				n.num, short(&n.hash), short(&n.parent), l, shortLast(e.ann))
		}
		if n.num <= l {
			e.ann = append(e.ann[:n.num:n.num], n.hash)
		}
	}
}

func (l listener) OnReorg(num uint64) {
	e := l.e
	e.mu.Lock()
	defer e.mu.Unlock()
	if e.pendingRevert == nil || *e.pendingRevert != num {
		e.violate("revert-without-plugin-call", "OnReorg(%d) without a preceding plugin RevertBlock for that block", num)
	}
	e.pendingRevert = nil
	h, err := e.bc.Height()
	if num == 0 {
		if err == nil {
			e.violate("revert-failed", "after reverting genesis the chain still has height %d", h)
		}
	} else if err != nil || h != num-1 {
		e.violate("revert-failed", "after reverting #%d the reader's height is %d (err %v)", num, h, err)
	}
}

func (e *env) onHead(b *core.Block) {
	// the notification must not precede the store: the block is in the database, or it has already been reverted again
	_, err := e.bc.BlockHeaderByHash(b.Hash)
	e.mu.Lock()
	defer e.mu.Unlock()
	if err != nil && !e.revertedEver[*b.Hash] {
		e.violate("head-notified-before-store", "new-head notification for #%d %s received while the block is neither stored nor reverted (%v)", b.Number, short(b.Hash), err)
	}
	e.heads = append(e.heads, *b.Hash)
	e.nbuf = append(e.nbuf, note{num: b.Number, hash: *b.Hash, parent: *b.ParentHash})
}

func (e *env) onReorg(r *jsync.ReorgBlockRange) {
	e.mu.Lock()
	defer e.mu.Unlock()
	e.reorgs = append(e.reorgs, *r)
	e.nbuf = append(e.nbuf, note{reorg: r})
	e.logf("  feed REORG start #%d %s end #%d %s", r.StartBlockNum, short(r.StartBlockHash), r.EndBlockNum, short(r.EndBlockHash))
}

// ---------------------------------------------------------------- tampers (a few rows of the C02 table)

type tamper struct {
	name   string
	reseal bool
	apply  func(b *gen.Block) bool
}

func bump(f *felt.Felt) *felt.Felt {
	var o felt.Felt
	o.Add(f, gen.FP(1))
	return &o
}

var tampers = []tamper{
	{tamperTimestamp, false, func(b *gen.Block) bool { b.B.Timestamp++; return true }},
	{tamperBlockHash, false, func(b *gen.Block) bool { b.B.Hash = bump(b.B.Hash); b.SU.BlockHash = b.B.Hash; return true }},
	{"header/state-update-block-hash-only", false, func(b *gen.Block) bool { b.SU.BlockHash = bump(b.SU.BlockHash); return true }},
	{"header/parent-hash-keep-hash", false, func(b *gen.Block) bool { b.B.ParentHash = bump(b.B.ParentHash); return true }},
	{"header/sequencer", false, func(b *gen.Block) bool { b.B.SequencerAddress = bump(b.B.SequencerAddress); return true }},
	{"tx/drop-last", false, func(b *gen.Block) bool {
		n := len(b.B.Transactions)
		if n == 0 {
			return false
		}
		b.B.Transactions, b.B.Receipts = b.B.Transactions[:n-1], b.B.Receipts[:n-1]
		return true
	}},
	{"receipt/event-add", false, func(b *gen.Block) bool {
		if len(b.B.Receipts) == 0 {
			return false
		}
		r := b.B.Receipts[0]
		r.Events = append(r.Events, &core.Event{From: gen.FP(9), Keys: []felt.Felt{gen.F(1)}, Data: []felt.Felt{}})
		return true
	}},
	{"statediff/nonce-changed-keep-hash", false, func(b *gen.Block) bool {
		for k, v := range b.SU.StateDiff.Nonces {
			b.SU.StateDiff.Nonces[k] = bump(v)
			return true
		}
		return false
	}},
	// self-consistent hash: only Store can reject these
	{tamperRootResealed, true, func(b *gen.Block) bool {
		b.B.GlobalStateRoot = bump(b.B.GlobalStateRoot)
		b.SU.NewRoot = b.B.GlobalStateRoot
		return true
	}},
	{tamperNumberPlus1, true, func(b *gen.Block) bool { b.B.Number++; return true }},
	{tamperForgedParent, true, func(b *gen.Block) bool { b.B.ParentHash = bump(b.B.ParentHash); return true }},
}

const (
	tamperTimestamp    = "header/timestamp"
	tamperBlockHash    = "header/block-hash"
	tamperRootResealed = "state/root-recomputed-hash"
	tamperNumberPlus1  = "succession/number+1"
	tamperForgedParent = "succession/parent-hash"
)

// ---------------------------------------------------------------- driver

type rig struct {
	e        *env
	nd       *node.Node
	cancel   context.CancelFunc
	done     chan struct{}
	headSub  jsync.NewHeadSubscription
	reorgSub jsync.ReorgSubscription
	drain    gosync.WaitGroup
	stopped  bool
}

// start builds the node (pre-loaded with the first `have` blocks of the chain) and starts the synchronizer.
func start(u *gen.Universe, ch *gen.Chain, newState bool, have int) *rig {
	e := &env{u: u, chain: ch, ever: map[felt.Felt]*everEntry{}, revertedEver: map[felt.Felt]bool{}, lastHeldEvIdx: -1, wrongFate: map[string]int{}}
	e.register(ch.Blocks)
	nd := node.New(newState, nil, u.Net)
	for _, b := range ch.Blocks[:have] {
		if err := nd.Store(gen.CloneBlock(b)); err != nil {
			stats.HarnessError("pre-loading block %d: %v", b.Num(), err)
		}
		e.stack = append(e.stack, *b.B.Hash)
		e.ann = append(e.ann, *b.B.Hash)
	}
	e.bc = nd.BC
	ctx, cancel := context.WithCancel(context.Background())
	e.rootCtx = ctx
	s := jsync.New(nd.BC, e, log.NewNopZapLogger(), 0, false, nd.DB).WithPlugin(plug{e}).WithListener(listener{e})
	r := &rig{e: e, nd: nd, cancel: cancel, done: make(chan struct{})}
	r.headSub = s.SubscribeNewHeads()
	r.reorgSub = s.SubscribeReorg()
	r.drain.Add(2)
	go func() {
		defer r.drain.Done()
		for b := range r.headSub.Recv() {
			e.onHead(b)
		}
	}()
	go func() {
		defer r.drain.Done()
		for x := range r.reorgSub.Recv() {
			e.onReorg(x)
		}
	}()
	go func() {
		defer close(r.done)
		_ = s.Run(ctx)
	}()
	return r
}

// stop cancels the synchronizer and waits for it and for the feed readers.
func (r *rig) stop() {
	if r.stopped {
		return
	}
	r.stopped = true
	r.e.release("stop", true)
	r.cancel()
	select {
	case <-r.done:
	case <-time.After(wallGuard):
		stats.HarnessError("synchronizer did not return %v after cancellation\n%s", wallGuard, r.history())
	}
	time.Sleep(200 * time.Microsecond) // let the feed readers pick up the last buffered items
	r.headSub.Unsubscribe()
	r.reorgSub.Unsubscribe()
	r.drain.Wait()
}

func (r *rig) history() string {
	r.e.mu.Lock()
	defer r.e.mu.Unlock()
	return strings.Join(r.e.hist, "\n")
}

// poll drains the Persisted channels of delivered blocks and returns the counters.
func (e *env) poll() (counters, int) {
	c, n, _ := e.pollHeld()
	return c, n
}

func (e *env) pollHeld() (counters, int, bool) {
	e.mu.Lock()
	defer e.mu.Unlock()
	kept := e.dlv[:0]
	for _, d := range e.dlv {
		select {
		case err := <-d.persisted:
			e.persistedSeen++
			if err != nil {
				e.logf("  node dropped delivered block #%d: %v", d.num, err)
			}
			if d.wrong != "" {
				switch {
				case err == nil:
					e.wrongFate["stored"]++
				case errors.Is(err, context.Canceled):
					e.wrongFate["dropped(stream reset)"]++
				case errors.Is(err, blockchain.ErrParentDoesNotMatchHead):
					e.wrongFate["rejected(parent mismatch -> revert task)"]++
				case strings.Contains(err.Error(), "expected block #"):
					e.wrongFate["rejected(number)"]++
				default:
					e.wrongFate["rejected(verification)"]++
				}
			}
		default:
			// blocks fetched by revertTask (hash comparison only) never report; they die with their stream context
			if d.ctx.Err() == nil {
				kept = append(kept, d)
			}
		}
	}
	e.dlv = kept
	return counters{e.arrivals, e.cancels, len(e.events), e.persistedSeen, len(e.heads), e.answered, e.holdsStarted}, len(e.pending), e.held != nil
}

// settle waits (bounded polling on counters) until the node has reacted to the last answer and
// parked again, or shows no reaction for a while (legitimate: e.g. an answered fetcher whose
// result queues behind a lower height). While a store step is held the pipeline can be completely
// blocked behind it with nothing parked: that also counts as settled (the script then releases).
// false = wall-clock guard hit (inconclusive).
func (r *rig) settle(prev counters, expectReaction bool) bool {
	const quiet, patience = 6, 50
	startT := time.Now()
	last, np, held := r.e.pollHeld()
	changed := last != prev
	stable, idle := 0, 0
	for it := 0; ; it++ {
		if np == 0 && held && idle >= patience {
			return true
		}
		if np >= 1 {
			if changed && stable >= quiet {
				return true
			}
			if !changed && (!expectReaction && idle >= quiet || idle >= patience) {
				return true
			}
		}
		time.Sleep(50 * time.Microsecond)
		cur, n, h := r.e.pollHeld()
		np, held = n, h
		if cur != last {
			changed, stable, last = true, 0, cur
		} else {
			stable++
			idle++
		}
		if it&0xff == 0xff && time.Since(startT) > wallGuard {
			return false
		}
	}
}

type pview struct {
	id   int
	kind reqKind
	num  uint64
	poll bool
}

type view struct {
	pending   []pview
	srcLen    int
	localLen  int
	inFlight  []uint64
	staleAll  []*core.Header
	staleSafe []*core.Header // stale heads that are still on the canonical chain
	viol      string
	held      int // number of the block whose store step is held, -1 = none
	armed     bool
}

func (e *env) view() view {
	e.mu.Lock()
	defer e.mu.Unlock()
	v := view{srcLen: len(e.chain.Blocks), localLen: len(e.stack), viol: e.violKey, held: -1, armed: e.holdArmed != 0}
	if e.held != nil {
		v.held = int(e.held.num)
	}
	for _, r := range e.pending {
		v.pending = append(v.pending, pview{r.id, r.kind, r.num, r.poll})
	}
	for _, d := range e.dlv {
		v.inFlight = append(v.inFlight, d.num)
	}
	for _, h := range e.pastHeads {
		v.staleAll = append(v.staleAll, h)
		if h.Number < uint64(len(e.chain.Blocks)) && e.chain.Blocks[h.Number].B.Hash.Equal(h.Hash) {
			v.staleSafe = append(v.staleSafe, h)
		}
	}
	return v
}

func (e *env) canonicalHeader(n int) *core.Header {
	e.mu.Lock()
	defer e.mu.Unlock()
	h := *e.chain.Blocks[n].B.Header
	return &h
}

func (e *env) converged() bool {
	if len(e.stack) != len(e.chain.Blocks) {
		return false
	}
	for i := range e.stack {
		if !e.stack[i].Equal(e.chain.Blocks[i].B.Hash) {
			return false
		}
	}
	return true
}

type outcome int

const (
	outOK outcome = iota
	outInconclusive
	outLivelock
)

var inconclusiveCases int

func inconclusive(c *stats.Case, r *rig, why string) {
	c.Label("inconclusive:" + why)
	inconclusiveCases++
	if inconclusiveCases >= 3 {
		stats.HarnessError("wall-clock guard hit in %d cases (%s); last history:\n%s", inconclusiveCases, why, r.history())
	}
}

func (r *rig) failIfViolated(c *stats.Case) {
	r.e.mu.Lock()
	k, m := r.e.violKey, r.e.violMsg
	r.e.mu.Unlock()
	if k != "" {
		r.stop()
		c.Violation(k, "%s\n--- history (source mutations, answers, node stores/reverts in one total order)\n%s", m, r.history())
	}
}

// freezeAndConverge freezes the source (every request is answered immediately and correctly from
// now on) and waits until the node's chain equals the source's. Livelock is decided by a COUNT of
// correctly answered requests without any store/revert; the wall clock only yields inconclusive.
func (r *rig) freezeAndConverge(c *stats.Case, bound int) outcome {
	e := r.e
	e.release("source frozen", true)
	e.mu.Lock()
	e.frozen = true
	e.logf("SOURCE frozen: len %d tip %s; answering %d parked requests", len(e.chain.Blocks), short(e.chain.Blocks[len(e.chain.Blocks)-1].B.Hash), len(e.pending))
	for _, p := range e.pending {
		p.ch <- e.makeAnswer(p.ctx, p.kind, p.num, "ok", nil, nil, nil)
		e.frozenAnswers++
	}
	e.pending = nil
	base, lastEvents := e.frozenAnswers, len(e.events)
	e.mu.Unlock()
	startT := time.Now()
	okStreak := 0
	for i := 0; ; i++ {
		e.poll()
		e.mu.Lock()
		conv, nev, fa, nfl, viol := e.converged(), len(e.events), e.frozenAnswers, len(e.dlv), e.violKey
		e.mu.Unlock()
		if viol != "" {
			if c == nil {
				return outInconclusive
			}
			r.failIfViolated(c)
		}
		if nev != lastEvents {
			lastEvents, base = nev, fa
		}
		if conv && nfl == 0 {
			okStreak++
			if okStreak >= 3 {
				return outOK
			}
		} else {
			okStreak = 0
		}
		if !conv && nfl == 0 && fa-base >= bound {
			r.stop()
			e.mu.Lock()
			e.logf("LIVELOCK: %d requests answered correctly by the frozen source since the node's chain last changed; node chain len %d, source chain len %d", fa-base, len(e.stack), len(e.chain.Blocks))
			e.mu.Unlock()
			return outLivelock
		}
		time.Sleep(100 * time.Microsecond)
		if i&0xff == 0xff && time.Since(startT) > wallGuard {
			return outInconclusive
		}
	}
}

// finalOracles runs after the synchronizer has stopped.
func (r *rig) finalOracles(c *stats.Case, newState bool) {
	e := r.e
	r.failIfViolated(c)
	hist := r.history
	// 1. new-head feed is an in-order subsequence of the store sequence
	var stores []felt.Felt
	type rng struct {
		sh, eh felt.Felt
		sn, en uint64
	}
	var expect []rng
	var cur *rng
	nStores := 0
	for _, ev := range e.events {
		if ev.kind == 'S' {
			nStores++
			stores = append(stores, ev.hash)
			if cur != nil {
				expect = append(expect, *cur)
				cur = nil
			}
			continue
		}
		if cur == nil {
			cur = &rng{sh: ev.hash, sn: ev.num, eh: ev.hash, en: ev.num}
		} else {
			if ev.num+1 != cur.sn {
				c.Violation("revert-sequence", "reverts between two stores are not contiguous: #%d after start #%d\n%s", ev.num, cur.sn, hist())
			}
			cur.sh, cur.sn = ev.hash, ev.num
		}
	}
	j := 0
	for _, h := range e.heads {
		for j < len(stores) && !stores[j].Equal(&h) {
			j++
		}
		if j == len(stores) {
			c.Violation("new-heads-not-subsequence", "new-head notification %s is not matched (in order, without duplicates) by the store sequence\n%s", h.String(), hist())
		}
		j++
	}
	if len(e.heads) < len(stores) {
		c.Info("new-head-notifications-dropped-by-lossy-feed")
	}
	if e.storeSteps != nStores {
		c.Violation("store-listener-count", "listener saw %d store steps, plugin %d stored blocks\n%s", e.storeSteps, nStores, hist())
	}
	// 2. every reorg notification is exactly one of the reverted ranges, in order
	k := 0
	for _, got := range e.reorgs {
		for k < len(expect) && !(expect[k].sn == got.StartBlockNum && expect[k].en == got.EndBlockNum && expect[k].sh.Equal(got.StartBlockHash) && expect[k].eh.Equal(got.EndBlockHash)) {
			k++
		}
		if k == len(expect) {
			c.Violation("reorg-notification-range", "reorg notification start #%d %s end #%d %s does not equal (in order) any range reverted between two stores; ranges: %d\n%s",
				got.StartBlockNum, short(got.StartBlockHash), got.EndBlockNum, short(got.EndBlockHash), len(expect), hist())
		}
		k++
	}
	if len(expect) > 0 {
		c.Label("reorg-ranges>=1")
	}
	// 2b. lossless subscriber: the announced chain (every notification replayed, see flushNotes) ends as the stored chain,
	// one new-head notification per stored block and one reorg notification per reverted range
	e.mu.Lock()
	e.flushNotes()
	lossy, ann := e.lossy, append([]felt.Felt{}, e.ann...)
	if e.openRange && e.openStart < uint64(len(ann)) {
		ann = ann[:e.openStart] // reverts not yet followed by a store: their notification is due with the next new head
	}
	closed, v2k, v2m := e.closedRanges, e.violKey, e.violMsg
	e.mu.Unlock()
	if v2k != "" {
		c.Violation(v2k, "%s\n--- history\n%s", v2m, hist())
	}
	if lossy {
		c.Label("feeds-lossy(announced-chain oracles off)")
	} else {
		c.Label("feeds-lossless")
		same := len(ann) == len(e.stack)
		for i := 0; same && i < len(ann); i++ {
			same = ann[i].Equal(&e.stack[i])
		}
		if !same {
			c.Violation("announced-chain-differs-from-stored-chain", "after the synchronizer stopped the announced chain (%d blocks, head %s) differs from the stored chain (%d blocks, head %s)\n%s",
				len(ann), shortLast(ann), len(e.stack), shortLast(e.stack), hist())
		}
		if len(e.heads) != nStores {
			c.Violation("new-heads-not-once-per-store", "no notification was dropped, yet %d new-head notifications were received for %d stored blocks\n%s", len(e.heads), nStores, hist())
		}
		if len(e.reorgs) != closed {
			c.Violation("reorg-notifications-not-once-per-range", "no notification was dropped, yet %d reorg notifications were received for %d reverted ranges that were followed by a store\n%s", len(e.reorgs), closed, hist())
		}
	}
	// 3. the node is observationally identical to a node that stored the source chain directly
	if !e.converged() {
		c.Violation("diverged-after-convergence", "node chain differs from the frozen source chain after the synchronizer stopped\n%s", hist())
	}
	ids := &node.Ids{Addrs: e.u.AllAddrs(), Keys: e.u.Keys}
	for _, s := range e.u.Sierra {
		ids.Classes = append(ids.Classes, s.Hash)
	}
	for _, s := range e.u.Cairo0 {
		ids.Classes = append(ids.Classes, s.Hash)
	}
	for _, b := range e.all {
		ids.AddBlock(b)
	}
	fresh := node.New(newState, nil, e.u.Net)
	for _, b := range e.chain.Blocks {
		if err := fresh.Store(gen.CloneBlock(b)); err != nil {
			stats.HarnessError("fresh node rejects source block %d: %v", b.Num(), err)
		}
	}
	if d := node.Diff(r.nd.Observe(ids), fresh.Observe(ids), 6); len(d) > 0 {
		c.Violation("not-identical-to-source", "after convergence the node differs observationally from a node that stored the source chain directly (%s backend):\n  %s\n%s", r.nd.Backend(), strings.Join(d, "\n  "), hist())
	}
}

func TestRaceSyncConvergesUnderScriptedSource(t *testing.T) {
	defer runtime.GOMAXPROCS(runtime.GOMAXPROCS(0))
	known := stats.Known(kfRevert)
	stats.Check(t, stats.Budget{Quick: 45, Thorough: 450},
		"real Synchronizer+Blockchain (either backend, GOMAXPROCS 2-4 => 1-4 fetchers, node pre-loaded with 0..all blocks) against a gated DataSource; rapid script of 5-50 steps: answer any parked request (ok of the CURRENT chain / injected error of a drawn kind: generic, wrapped context.DeadlineExceeded, wrapped context.Canceled, net time-out - while the stream context is alive / one of 11 corruptions / stale or lagging head / for block requests, 18% (32% above the source tip), a WRONG-BUT-VALID answer = a genuine block that is not the one asked for, kind drawn uniformly among the available ones: the node's head, a held block below it, a canonical block of a lower height not held / of a higher height, a genuine abandoned-fork block of the requested / of another height, the requested block with the genuine state update (+classes) of another block) or mutate the source (extend 1-3, reorg of any depth incl. genesis, shorten), or arm a hold (the next store step blocks in the public listener hook OnSyncStepDone(OpStore) after its commit, before its notifications) / release it; while a step is held the script goes on answering and mutating, with a bias towards reorgs at or just below the held height that leave the source as long as the node (+-1); then frozen source, convergence decided by request count; oracles over the plugin/listener/feed history incl. the announced chain replayed from both feeds (made lossless by waiting for the readers in the plugin call); non-trivial = reorg or shorten lands while >=1 request is parked or at/below a held store step, or a fetch error answered when remote height = local height, or a corrupted block served, or a wrong-but-valid block served",
		func(rt *rapid.T, c *stats.Case) { runCase(rt, c, known) })
}

func runCase(rt *rapid.T, c *stats.Case, known bool) {
	u := gen.NewUniverse(rt)
	newState := rapid.Bool().Draw(rt, "newState")
	procs := rapid.IntRange(2, 4).Draw(rt, "gomaxprocs")
	runtime.GOMAXPROCS(procs)
	opts := gen.Opts{MinVersionIdx: rapid.IntRange(0, 3).Draw(rt, "minver")}
	if !newState && stats.Known(kfLegacyZero) {
		opts.NoZeroToAbsent = true
	}
	ch := gen.NewChain(u, opts)
	l0 := rapid.IntRange(1, 10).Draw(rt, "srcLen")
	for i := 0; i < l0; i++ {
		ch.Next(rt)
	}
	have := rapid.IntRange(0, l0).Draw(rt, "preloaded")
	steps := rapid.IntRange(5, 50).Draw(rt, "steps")
	c.Fp("ns%v p%d l%d h%d s%d", newState, procs, l0, have, steps)
	c.Labelf("backend-%s", map[bool]string{true: "trie2", false: "legacy"}[newState])
	c.Labelf("gomaxprocs-%d", procs)
	if have == 0 {
		c.Label("start-empty")
	}

	r := start(u, ch, newState, have)
	defer r.stop()
	e := r.e

	genesisReplaced, heldReorged := false, false
	knownGenesis := stats.Known(kfGenesis)
	prev, _ := e.poll()
	if !r.settle(prev, false) {
		inconclusive(c, r, "no-first-request")
		return
	}
	for step := 0; step < steps; step++ {
		e.poll() // a held store step begins asynchronously: its block is no longer in flight
		v := e.view()
		if v.viol != "" {
			r.failIfViolated(c)
		}
		if len(v.pending) == 0 {
			if !r.settle(prev, true) {
				inconclusive(c, r, "no-parked-request")
				return
			}
			v = e.view()
		}
		// schedule control of the store step's tail
		ctl := gen.Uniform(rt, 100, "ctl") // uniform (rapid's IntRange favours small values); 0 = plain step, so cases shrink towards no holds
		switch {
		case v.held >= 0 && (len(v.pending) == 0 || ctl >= 92):
			if len(v.pending) == 0 {
				c.Label("hold-released:nothing-parked")
			} else {
				c.Label("hold-released:by-script")
			}
			c.Fp("rel")
			prev, _ = e.poll()
			e.release("script", false)
			if !r.settle(prev, true) {
				inconclusive(c, r, "stalled-after-release")
				return
			}
			continue
		case v.held < 0 && !v.armed && ctl >= 78:
			kind := armAny
			if rapid.Bool().Draw(rt, "armTip") {
				kind = armTip
			}
			c.Fp("arm%d", kind)
			c.Labelf("hold-armed:%s", map[int]string{armAny: "next-store", armTip: "next-store-reaching-source-tip"}[kind])
			e.arm(kind)
			continue
		}
		// while a step is held, 42% of the steps concentrate on the held block's neighbourhood: first a reorg at or
		// just below it, afterwards an answer to the fetch of the next height or to a reorg check's latest-header request
		if v.held < 0 {
			heldReorged = false
		}
		heldReorg := v.held >= 0 && ctl >= 50 && !heldReorged
		var focus []pview
		if v.held >= 0 {
			c.Label("step-while-store-held")
			if ctl >= 50 && heldReorged {
				for _, p := range v.pending {
					if p.kind == kBlock && p.num == uint64(v.held)+1 || p.kind == kLatest && !p.poll {
						focus = append(focus, p)
					}
				}
			}
		}
		nblk := 0
		for _, p := range v.pending {
			if p.kind == kBlock {
				nblk++
			}
		}
		if nblk >= 2 {
			c.Label("parallel-fetchers>=2")
		}
		act := rapid.IntRange(0, 99).Draw(rt, "act")
		switch {
		case !heldReorg && (act < 64 || len(focus) > 0) && len(v.pending) > 0:
			from := v.pending
			if len(focus) > 0 {
				from = focus
				c.Label("held:answer-near-held-block")
			}
			p := from[rapid.IntRange(0, len(from)-1).Draw(rt, "which")]
			how := "ok"
			var tm *tamper
			var stale *core.Header
			var wr *wrongAns
			hd := rapid.IntRange(0, 99).Draw(rt, "how")
			if p.kind == kBlock {
				switch {
				case hd < 16:
					how = "err"
					if v.localLen > 0 && v.localLen == v.srcLen && p.num == uint64(v.localLen) {
						c.NonTrivial("fetch-error-at-remote=local-height")
					}
					if v.held >= 0 && p.num == uint64(v.held)+1 {
						c.Label("held:fetch-error-for-block-above-held")
					}
				case (hd < 30 || hd >= 84 && p.num < uint64(v.localLen)) && p.num < uint64(v.srcLen):
					how = "corrupt"
					tm = &tampers[gen.Uniform(rt, len(tampers), "tamper")]
					if p.num < uint64(v.localLen) {
						// a request below the local head is revertTask's comparison fetch (fetchers only ask above it)
						c.Label("corrupt-answer-to-comparison-fetch")
						// what decides a revert is the HASH the answer claims: half of the corrupt answers to a comparison fetch
						// claim another hash consistently (block and state update agree, number right) - added after seed C06-j
						if rapid.Bool().Draw(rt, "comparisonHashTamper") {
							tm = &tampers[1]
						}
						switch tm.name {
						case tamperRootResealed, tamperForgedParent:
							// a self-consistent forged block of the right number cannot be told from a real fork block by
							// anything short of re-executing it: outside the property (assumption in config.py)
							c.Label("comparison-fetch-self-consistent-forgery-redirected")
							tm = &tampers[0]
						case tamperBlockHash, tamperNumberPlus1:
							if stats.Known(kfCompare) {
								c.Excluded(kfCompare)
								tm = &tampers[0]
							}
						}
					} else if known && tm.name == tamperForgedParent {
						c.Excluded(kfRevert)
						tm = &tampers[0]
					}
					c.NonTrivial("corrupted-block-served")
					c.Label("tamper:" + tm.name)
				case hd < 48:
					// wrong-but-valid answer: a genuine block that is not the one asked for (also to requests above the source's tip)
					kinds, cands, nx, nr := e.wrongPool(p.num, known)
					if nx > 0 {
						c.Excluded(kfRevert) // nx candidates were left out of the pool this draw is made from
					}
					if nr > 0 {
						c.Label("comparison-fetch-genuine-fork-block-redirected")
					}
					if len(kinds) > 0 {
						k := kinds[gen.Uniform(rt, len(kinds), "wrongKind")]
						w := cands[k][gen.Uniform(rt, len(cands[k]), "wrongWhich")]
						if w.su != nil {
							w.withClasses = rapid.Bool().Draw(rt, "wrongClasses")
						}
						how, wr = "wrong", &w
						c.NonTrivial("wrong-but-valid-block-served")
						c.Label("wrong-valid:" + k)
						if w.held {
							c.Label("wrong-valid:block-the-node-already-holds")
						}
						if w.staleNext {
							c.Label("wrong-valid:next-height-answered-with-the-node's-head")
						}
						if w.extendsHead {
							c.Label("wrong-valid:abandoned-block-that-extends-the-node's-head")
						}
						if w.comparison {
							c.Label("wrong-valid:answer-to-comparison-fetch")
						} else if w.aboveTip {
							c.Label("wrong-valid:answer-to-request-above-source-tip")
						}
						if v.held >= 0 {
							c.Label("wrong-valid:while-store-step-held")
						}
						c.Fp("w%s:%d", k, w.blk.Num())
					}
				}
				if how == "ok" && p.num >= uint64(v.srcLen) {
					c.Label("answer-not-found")
					if v.held >= 0 && p.num == uint64(v.held)+1 {
						c.Label("held:fetch-error-for-block-above-held")
					}
				}
			} else {
				switch {
				case hd < 20:
					how = "err"
				case hd < 45:
					if len(v.staleAll) > 0 {
						stale = v.staleAll[len(v.staleAll)-1-rapid.IntRange(0, len(v.staleAll)-1).Draw(rt, "staleIdx")]
						if !containsHdr(v.staleSafe, stale) {
							if known {
								// known finding (trigger a): only heads that are still on the canonical chain are served
								c.Excluded(kfRevert)
								stale = nil
								if len(v.staleSafe) > 0 {
									stale = v.staleSafe[len(v.staleSafe)-1]
								}
							} else {
								c.Label("stale-head-from-abandoned-fork")
							}
						}
						if stale != nil {
							how = "stale"
							c.Label("stale-head")
						}
					}
				case hd < 55 && v.srcLen >= 2:
					// lagging replica: the header of a canonical block below the tip, whether or not it ever was the source's head
					stale = e.canonicalHeader(rapid.IntRange(0, v.srcLen-2).Draw(rt, "lagHeight"))
					how = "stale"
					c.Label("lagging-head(canonical block below the tip)")
				}
			}
			if v.held >= 0 {
				c.Label("held:answer-" + string(p.kind))
				if p.kind == kLatest && !p.poll && how != "err" {
					c.Label("held:reorg-check-latest-answered")
				}
			}
			c.Fp("a%c%d:%s", p.kind, p.num, how)
			c.Label("answer-" + string(p.kind) + "-" + how)
			if len(v.pending) > 1 && p.id != v.pending[0].id {
				c.Label("answered-out-of-order")
			}
			if how == "err" {
				ek := rapid.SampledFrom([]int{0, 0, 1, 1, 2, 3}).Draw(rt, "errKind")
				e.mu.Lock()
				e.errKind = ek
				e.mu.Unlock()
				c.Labelf("fetch-error-kind:%s", []string{"generic", "deadline-exceeded", "canceled", "net-timeout"}[ek])
			}
			prev, _ = e.poll()
			if !e.answerReqW(p.id, how, tm, stale, wr) {
				c.Label("answer-raced-with-stream-reset")
			}
			if !r.settle(prev, !p.poll) {
				inconclusive(c, r, "stalled-after-answer")
				return
			}
		default:
			// source mutation
			keep, fresh, what := v.srcLen, 0, "extend"
			switch {
			case heldReorg:
				// reorg at or just below the held block; afterwards the source is as long as the node will be once
				// the held step completes, one shorter or one longer
				what = "reorg"
				top := min(v.held, v.srcLen-1)
				keep = top - rapid.IntRange(0, min(top, 2)).Draw(rt, "heldDepth")
				fresh = max(1, v.held+1+rapid.IntRange(-1, 1).Draw(rt, "heldLen")-keep)
				c.Label("held:reorg-near-held-height")
			case act < 80 || v.srcLen < 1:
				fresh = rapid.IntRange(1, 3).Draw(rt, "extend")
			case act < 94:
				what = "reorg"
				if rapid.Bool().Draw(rt, "deep") {
					keep = rapid.IntRange(0, v.srcLen-1).Draw(rt, "keep")
				} else {
					keep = v.srcLen - rapid.IntRange(1, min(v.srcLen, 3)).Draw(rt, "depth")
				}
				fresh = rapid.IntRange(1, v.srcLen-keep+2).Draw(rt, "fresh")
			default:
				what = "shorten"
				if v.srcLen < 2 {
					what, fresh = "extend", 1
				} else {
					keep = rapid.IntRange(1, v.srcLen-1).Draw(rt, "shortenTo")
				}
			}
			if keep+fresh > maxChain {
				fresh = max(0, maxChain-keep)
				if fresh == 0 && keep == v.srcLen {
					c.Label("chain-at-cap")
					continue
				}
			}
			if keep < v.srcLen {
				// known finding (trigger c): a block delivered before the reorg and processed after a
				// fresher lower block makes the node revert that fresher (canonical) block
				if known {
					hit := false
					for _, n := range v.inFlight {
						if n > uint64(keep) {
							hit = true
						}
					}
					if hit {
						c.Excluded(kfRevert)
						c.Fp("x")
						continue
					}
				}
				if len(v.pending) > 0 {
					c.NonTrivial(what + "-while-request-parked")
				}
				if v.held >= 0 {
					c.Label("held:" + what)
					heldReorged = true
					if keep <= v.held {
						c.NonTrivial(what + "-at-or-below-held-store-step")
						if keep+fresh == v.held+1 {
							c.Label("held:reorg-to-same-height-as-node")
						}
					}
				}
				nb := 0
				for _, p := range v.pending {
					if p.kind == kBlock {
						nb++
					}
				}
				if nb >= 2 {
					c.Label(what + "-while-fetchers-parallel")
				}
				if nb >= 2 || len(v.inFlight) > 0 {
					c.Label(what + "-while-blocks-in-flight")
				}
				if keep == 0 {
					c.Label("reorg-replaces-genesis")
					genesisReplaced = true
				}
				if keep < v.localLen {
					c.Labelf("reorg-below-local-head")
				}
				if v.localLen > 0 && keep == 0 {
					c.Label("reorg-of-whole-local-chain")
				}
			}
			c.Fp("m%s:%d+%d", what, keep, fresh)
			c.Label("mutate-" + what)
			e.mutate(rt, keep, fresh, what)
			prev, _ = e.poll()
		}
	}
	if e.release("end of script", true) {
		c.Label("hold-released:end-of-script")
	}
	r.failIfViolated(c)
	// a rollback that is never followed by growth cannot be told from a lagging replica (isReverting
	// deliberately ignores an older latest header with a matching hash): let the source grow by one block
	e.mu.Lock()
	needGrow := e.shortenedTip
	e.mu.Unlock()
	if needGrow {
		c.Label("grow-after-final-shorten")
		e.mutate(rt, len(e.chain.Blocks), 1, "extend(after final shorten)")
	}
	if knownGenesis && genesisReplaced && len(e.chain.Blocks) == 1 {
		// known finding: a source consisting of a single block that differs from the local genesis is never adopted
		c.Excluded(kfGenesis)
		e.mutate(rt, 1, 1, "extend(single-block source after genesis reorg)")
	}
	switch r.freezeAndConverge(c, livelockBound) {
	case outInconclusive:
		inconclusive(c, r, "convergence-wall-clock")
		return
	case outLivelock:
		c.Violation("no-convergence", "source frozen and answering every request correctly, >= %d requests answered since the node's chain last changed, node chain still differs from the source chain\n--- history\n%s", livelockBound, r.history())
	}
	r.stop()
	e.mu.Lock()
	nev, nre := len(e.events), 0
	for _, ev := range e.events {
		if ev.kind == 'R' {
			nre++
		}
	}
	modeSwitch := e.cancels
	nHeld, heldRev, holdTO := e.holdsStarted, e.heldThenReverted, e.holdTimeouts
	for k := range e.wrongFate {
		c.Label("wrong-valid-fate:" + k)
	}
	if e.reorgSeenWhileHeld > 0 {
		c.Label("held:reorg-check-sees-replaced-head-while-store-held")
	}
	e.mu.Unlock()
	if nHeld > 0 {
		c.Label("store-step-held>=1")
	}
	if nHeld >= 2 {
		c.Label("store-step-held>=2")
	}
	if heldRev > 0 {
		c.Label("held-block-reverted-right-after-its-store-step")
	}
	if holdTO > 0 {
		inconclusive(c, r, "hold-guard")
	}
	if nre > 0 {
		c.Label("node-reverted>=1")
	}
	if nre >= 3 {
		c.Label("node-reverted>=3")
	}
	if modeSwitch > 0 {
		c.Label("stream-reset>=1")
	}
	_ = nev
	r.finalOracles(c, newState)
	c.Sample(func() any {
		h := e.hist
		if len(h) > 60 {
			h = h[:60]
		}
		return map[string]any{"backend": r.nd.Backend(), "gomaxprocs": procs, "history_head": h}
	})
}

func containsHdr(hs []*core.Header, h *core.Header) bool {
	for _, x := range hs {
		if x == h {
			return true
		}
	}
	return false
}
