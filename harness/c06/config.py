# Driver configuration for property C06 (read by /verif/checks_config.py)
PROP = dict(
        pkg="c06", level="exploration",
        technique=("schedule-owning PBT (rapid) of the real sync.Synchronizer + Blockchain against a gated DataSource; "
                   "history oracles via plugin/listener/feeds, count-bounded convergence, -race"),
        level_text=("Exploration: hundreds (quick) / thousands (thorough) of generated source scripts; the environment's schedule "
                    "(which request is answered when and how, when the source reorgs) is owned by the generator, Go-runtime scheduling "
                    "inside the pipeline is not; oracles are schedule independent; samples the space, does not prove absence."),
        rule=("chain generator (all tx kinds, 4 protocol versions) builds a source chain of 1-10 blocks, the node starts with 0..all of them; "
              "rapid script of 5-50 steps, each either answering any parked BlockByNumber/BlockHeaderLatest request (correct answer from the "
              "CURRENT chain, injected error, one of 11 corruptions from the C02 table, a head the source had earlier) or mutating the source "
              "(extend 1-3, reorg with any fork point incl. genesis, shorten); then the source is frozen and must be matched exactly. "
              "Non-trivial = a reorg/shorten applied while >= 1 request is parked, or a fetch error answered when remote height = local height, "
              "or a corrupted block served. Distinct = distinct SHA-256 of the rendered script."),
        assumptions=["Go-runtime interleavings inside the fetch/verify/store pipeline are sampled (GOMAXPROCS 2-4, -race), not enumerated",
                     "abandoned blocks never become canonical again (every reorg produces fresh blocks)",
                     "a rollback of the source that is never followed by growth is indistinguishable from a lagging replica: the source grows by one block before it is frozen",
                     "a self-consistent forged block (recomputed hash, right number) is never served to revertTask's hash-comparison fetch: nothing short of re-executing it distinguishes it from a real fork block",
                     "pre_confirmed polling is disabled (poll interval 0) as in the synchronizer's own tests",
                     "the subscriber drains the lossy feeds promptly; only subsequence / exact-range facts are asserted"],
        # TestRaceSync… = the generated check; TestRaceKnown… = deterministic witnesses of the three known findings
        runs=[dict(run="^TestRace", race=True)],
    )
