# Driver configuration for property C06 (read by /verif/checks_config.py)
PROP = dict(
        pkg="c06", level="exploration",
        technique=("schedule-owning PBT (rapid) of the real sync.Synchronizer + Blockchain against a gated DataSource; "
                   "the script also holds/releases the store step's tail through the public EventListener hook; "
                   "the answer alphabet includes wrong-but-valid answers (genuine blocks that are not the one asked for); "
                   "history oracles via plugin/listener/feeds (announced chain replayed from both feeds, every store announced once per channel and extending the head), "
                   "count-bounded convergence, -race"),
        level_text=("Exploration: hundreds (quick) / thousands (thorough) of generated source scripts; the environment's schedule "
                    "(which request is answered when and how - correctly, with an error, a corrupted copy, a stale/lagging head or a genuine block of "
                    "another height/fork -, when the source reorgs, how long a store step stays between its commit and its "
                    "notifications) is owned by the generator, other Go-runtime scheduling inside the pipeline is not; oracles are schedule independent; samples the space, does not prove absence."),
        rule=("chain generator (all tx kinds, 4 protocol versions) builds a source chain of 1-10 blocks, the node starts with 0..all of them; "
              "rapid script of 5-50 steps, each either answering any parked BlockByNumber/BlockHeaderLatest request (correct answer from the "
              "CURRENT chain, injected error of a drawn kind (generic, wrapped context.DeadlineExceeded, wrapped context.Canceled, net time-out; the stream context stays alive), one of 11 corruptions from the C02 table (requests below the node's head = revertTask's comparison fetches get corrupt answers three times as often, half of them claiming another hash consistently in block and state update), a head the source had earlier, the header of a canonical block "
              "below the tip (lagging replica, 10% of the latest-header answers), or - 18% of the block answers, 32% when the request is above the source's "
              "tip - a WRONG-BUT-VALID answer: a genuine block, valid in isolation, that is not the one asked for; its kind is drawn uniformly among the "
              "kinds available at that moment: held-head (the node's current head: stale replica answering h+1 with h), held-below-head, "
              "canonical-lower-not-held, canonical-higher, abandoned-fork-same-height (genuine block of an abandoned fork at the requested height, also the very "
              "block the node holds there), abandoned-fork-other-height, state-update-of-other-block (the requested block with the genuine state update, and "
              "with or without the classes, of any other block ever canonical); such answers are served to fetchers (any of the 1-4 in flight) and to the revert "
              "task's comparison fetch; measured over 1350 quick-tier cases: 63% of the cases serve >= 1 wrong-but-valid block, 38% a block the node already "
              "holds, 28% held-head (18% as the answer to the request for the next height), 19% held-below-head, 20% canonical-lower, 13% canonical-higher, "
              "7% abandoned same height, 17% abandoned other height, 17% state-update-of-other-block, 12% an abandoned block that extends the node's head "
              "(6% of the cases really store one), 3% to a comparison fetch, 13% while a store step is held; labels wrong-valid:* and wrong-valid-fate:*) "
              "or mutating the source "
              "(extend 1-3, reorg with any fork point incl. genesis, shorten), or arming a hold (22% of the steps while none is armed or held; "
              "either the next store step or the next store step that brings the node level with the source): the armed store step blocks in the "
              "public listener hook OnSyncStepDone(OpStore), i.e. after the block is committed and before reorg/new-head notifications and the "
              "plugin call, until the script releases it (8% of the steps while held), nothing is parked any more, or the script ends; while a step "
              "is held the script goes on as before, except that 42% of its steps concentrate on the held block: first a reorg whose fork point is "
              "0-2 blocks below the held block and which leaves the source as long as the node, one shorter or one longer, afterwards answers to the "
              "fetch of the next height / to a reorg check's latest-header request (so the failed-fetch reorg check runs and decides while the "
              "store step is still unfinished). Then the source is frozen and must be matched exactly. "
              "Labels store-step-held>=1 / held:* count the cases with a held step, with a reorg applied while it is held (held:reorg, "
              "nt:reorg-at-or-below-held-store-step), and with a reorg check that sees the replaced head while the step is held "
              "(held:reorg-check-sees-replaced-head-while-store-held). "
              "Non-trivial = a reorg/shorten applied while >= 1 request is parked or at/below a held store step, or a fetch error answered when "
              "remote height = local height, or a corrupted block served, or a wrong-but-valid block served. Distinct = distinct SHA-256 of the rendered script."),
        assumptions=["Go-runtime interleavings inside the fetch/verify/store pipeline are sampled (GOMAXPROCS 2-4, -race), not enumerated",
                     "abandoned blocks never become canonical again (every reorg produces fresh blocks)",
                     "a rollback of the source that is never followed by growth is indistinguishable from a lagging replica: the source grows by one block before it is frozen",
                     "a self-consistent forged block (recomputed hash, right number) is never served to revertTask's hash-comparison fetch: nothing short of re-executing it distinguishes it from a real fork block",
                     "a genuine block of an abandoned fork at the requested height is not served to revertTask's comparison fetch while the node's block at that height is canonical (same reason; label comparison-fetch-genuine-fork-block-redirected)",
                     "while the finding c06-revert-without-confirming-replacement is recorded as known, a wrong-but-valid block of number n is only served to a fetcher if n is at or below the node's head, n = 0, "
                     "its parent is the canonical block n-1, or it extends the node's head: any other genuine fork block could reach the store step on top of a canonical head, where the parent mismatch makes "
                     "revertTask revert that head without asking the source (triggers (b)/(c) of the finding with a genuine instead of a forged block); left-out candidates are counted as excluded",
                     "the class definitions handed over with a block are exactly the classes its own state update introduces (the production adapter sync/data_source.go derives the set from the state update; "
                     "Store registers every class it is handed, so 'genuine block + genuine state update + classes of another block' is not generated)",
                     "pre_confirmed polling is disabled (poll interval 0) as in the synchronizer's own tests",
                     "a held store step models a slow EventListener / a descheduled store goroutine; a hold ends by script, when no request is parked, at the end of the script, on cancellation, "
                     "or after a 60 s real-time guard (never reached so far; it would only make the case inconclusive)",
                     "the feeds are lossy one-slot channels and separate: the plugin's NewBlock (called by the store step after it sent its notifications) waits up to 500 ms until "
                     "the two readers have received one new-head per stored block and one reorg per reverted range, which keeps the buffers empty; while that succeeds (label "
                     "feeds-lossless) the announced chain is replayed from both feeds (a reorg is applied before a new head received in the same window between two plugin calls, "
                     "the relative order of the two channels not being observable) and must be extended by every new head, cut by every reorg exactly at a suffix, contain every "
                     "block at the time it is reverted, and end equal to the stored chain; after a missed wait (label feeds-lossy) only subsequence / exact-range facts are asserted",
                     "the announced chain starts as the node's chain at subscription time (pre-loaded blocks)"],
        # TestRaceSync… = the generated check; TestRaceKnown… = deterministic witnesses of the three known findings
        runs=[dict(run="^TestRace", race=True)],
    )
