package c06

import (
	"fmt"
	"runtime"
	"testing"
	"time"

	"github.com/NethermindEth/juno/core"
	"pgregory.net/rapid"

	"verif/harness/internal/gen"
	"verif/harness/internal/stats"
)

// Deterministic witnesses of the known findings of C06 (fixed scripts over chains of empty blocks).
//
// 1. c06-revert-without-confirming-replacement: revertTask reverts every local head above its
//    lastPossiblyValidHeight hint without asking the source, so blocks the source still has are reverted
//    (plugin RevertBlock, OnReorg, reorg notification) and then stored again with the same hashes. Triggers:
//    (a) a stale latest header taken from an abandoned fork, (b) a block with a forged parent hash and a
//    recomputed hash, (c) honest source: block N fetched before a reorg, block N-1 after it (two fetchers).
//    Fix: proposed_fixes/c06-revert-without-confirming-replacement.diff (ask the source for every head;
//    residual: trigger + fetch error on that confirmation request).
// 2. c06-revert-comparison-block-unverified: the block revertTask fetches to compare hashes is not verified
//    (hash consistency, number); a garbage answer reverts a canonical block.
// 3. c06-remote-head-at-genesis-wraps-revert-height: isReverting returns remoteHeight-1 on a uint64; a remote
//    head at height 0 with another genesis wraps it, nothing is ever reverted (livelock until the source
//    outgrows the node).
//
// `go test -race -run TestRaceKnown -v` prints the complete history of each witness.

// witnessGuard bounds the wait for the next scripted request; hitting it only means "not reproduced".
const witnessGuard = 20 * time.Second

type witnessStuck string

func emptyChain(n int) (*gen.Universe, *gen.Chain) {
	var u *gen.Universe
	// the universe only needs a *rapid.T for its address/key pools; a fixed-seed-free single example is enough
	u = rapid.Custom(func(t *rapid.T) *gen.Universe { return gen.NewUniverse(t) }).Example(1)
	ch := gen.NewChain(u, gen.Opts{})
	for i := 0; i < n; i++ {
		ch.AppendEmpty("0.14.0")
	}
	return u, ch
}

// forkEmpty replaces the blocks from keep on by fresh empty ones.
func (r *rig) forkEmpty(keep, fresh int, what string) {
	nc := r.e.chain.Fork(keep)
	for i := 0; i < fresh; i++ {
		nc.AppendEmpty("0.14.0")
	}
	r.e.replaceChain(nc, keep, what)
}

// await waits until a request of the given kind (and number, for block requests) is parked and returns its id.
func (r *rig) await(kind reqKind, num uint64, poll bool) int {
	startT := time.Now()
	for {
		r.e.poll()
		r.e.mu.Lock()
		id := -1
		for _, p := range r.e.pending {
			if p.kind == kind && p.poll == poll && (kind == kLatest || p.num == num) {
				id = p.id // the most recent one: older ones may belong to a stream that is being reset
			}
		}
		r.e.mu.Unlock()
		if id >= 0 {
			return id
		}
		time.Sleep(100 * time.Microsecond)
		if time.Since(startT) > witnessGuard {
			panic(witnessStuck(fmt.Sprintf("request %c(%d) never arrived", kind, num)))
		}
	}
}

func (r *rig) awaitLocalLen(n int) {
	startT := time.Now()
	for {
		r.e.mu.Lock()
		l := len(r.e.stack)
		r.e.mu.Unlock()
		if l == n {
			return
		}
		time.Sleep(100 * time.Microsecond)
		if time.Since(startT) > witnessGuard {
			panic(witnessStuck(fmt.Sprintf("local chain never reached length %d", n)))
		}
	}
}

func (r *rig) ok(kind reqKind, num uint64)  { r.e.answerReq(r.await(kind, num, false), "ok", nil, nil) }
func (r *rig) err(kind reqKind, num uint64) { r.e.answerReq(r.await(kind, num, false), "err", nil, nil) }
func (r *rig) pollErr()                     { r.e.answerReq(r.await(kLatest, 0, true), "err", nil, nil) }
func (r *rig) pollOK()                      { r.e.answerReq(r.await(kLatest, 0, true), "ok", nil, nil) }

func tamperByName(name string) *tamper {
	for i := range tampers {
		if tampers[i].name == name {
			return &tampers[i]
		}
	}
	stats.HarnessError("no tamper %s", name)
	return nil
}

func (r *rig) canonicalReverts() []string {
	r.e.mu.Lock()
	defer r.e.mu.Unlock()
	return append([]string{}, r.e.canonReverts...)
}

func witness(t *testing.T, key string, n, have int, script func(r *rig) bool) {
	u, ch := emptyChain(n)
	r := start(u, ch, true, have)
	r.e.mu.Lock()
	r.e.tolerateCanon = true
	r.e.mu.Unlock()
	defer r.stop()
	got := func() (got bool) {
		defer func() {
			// the node did not follow the scripted path (e.g. the defect is repaired): not reproduced, never a verdict
			if x := recover(); x != nil {
				if w, ok := x.(witnessStuck); ok {
					t.Logf("witness of %s left its script: %s", key, string(w))
					got = false
					return
				}
				panic(x)
			}
		}()
		return script(r)
	}()
	r.stop()
	r.e.mu.Lock()
	vk, vm := r.e.violKey, r.e.violMsg
	r.e.mu.Unlock()
	if vk != "" {
		t.Fatalf("ORACLE[%s] (in witness of %s) %s\n%s", vk, key, vm, r.history())
	}
	if got {
		t.Logf("witness of %s reproduced:\n%s", key, r.history())
	} else {
		t.Logf("witness of %s did NOT reproduce:\n%s", key, r.history())
	}
	stats.KnownFindingWitness(t, key, got)
}

// (a) a stale latest header from an abandoned fork makes isReverting/revertTask revert blocks the source still has.
func TestRaceKnownStaleHeadFromAbandonedFork(t *testing.T) {
	witness(t, kfRevert, 4, 4, func(r *rig) bool {
		staleHead := *r.e.chain.Blocks[3].B.Header // A3: really served head of the source before the reorg
		r.forkEmpty(2, 3, "reorg")                 // A0 A1 B2 B3 B4
		r.pollErr()                                // highest header unknown: tip-following mode, one fetcher
		r.ok(kBlock, 4)                            // B4: parent mismatch -> revert A3, compare A2
		r.ok(kBlock, 2)                            // B2 != A2, same parent -> revert A2
		r.ok(kBlock, 2)
		r.ok(kBlock, 3)
		r.ok(kBlock, 4)
		r.awaitLocalLen(5)
		if len(r.canonicalReverts()) != 0 {
			return false
		}
		r.err(kBlock, 5) // remote height = local height: isReverting asks for the latest header
		r.e.answerReq(r.await(kLatest, 0, false), "stale", nil, &staleHead)
		r.ok(kBlock, 2) // revertTask(2) has reverted B4 and B3 unconditionally; B2 compares equal
		n := len(r.canonicalReverts())
		if r.freezeAndConverge(nil, 600) != outOK {
			return false
		}
		return n == 2
	})
}

// (b) a block whose parent hash is forged (block hash recomputed, so SanityCheckNewHeight passes) is taken for a reorg.
func TestRaceKnownForgedParentBlock(t *testing.T) {
	witness(t, kfRevert, 3, 2, func(r *rig) bool {
		r.pollErr()
		r.e.answerReq(r.await(kBlock, 2, false), "corrupt", tamperByName(tamperForgedParent), nil)
		r.ok(kBlock, 0) // revertTask(0) reverted block 1 unconditionally, block 0 compares equal
		n := len(r.canonicalReverts())
		if r.freezeAndConverge(nil, 600) != outOK {
			return false
		}
		return n == 1
	})
}

// (c) honest source: block 2 fetched before a reorg, block 1 fetched after it (two fetchers in flight).
func TestRaceKnownReorgWhileFetchersInFlight(t *testing.T) {
	defer runtime.GOMAXPROCS(runtime.GOMAXPROCS(0))
	runtime.GOMAXPROCS(2) // catch-up mode = 2 fetchers, entered when highest > stored + 2
	witness(t, kfRevert, 6, 0, func(r *rig) bool {
		r.pollOK()
		r.ok(kBlock, 0) // stored; 5 > 0+2 -> catch-up mode, streams restart with two fetchers
		id2 := r.await(kBlock, 2, false) // only the two-fetcher stream asks for block 2 before block 1 is stored
		id1 := r.await(kBlock, 1, false)
		r.e.answerReq(id2, "ok", nil, nil) // X2 waits behind fetcher 1
		r.forkEmpty(1, 5, "reorg")         // X0 Y1 .. Y5
		r.e.answerReq(id1, "ok", nil, nil) // Y1 stored, then X2: parent mismatch -> Y1 reverted although canonical
		startT := time.Now()
		for len(r.canonicalReverts()) == 0 && time.Since(startT) < 20*time.Second {
			r.e.mu.Lock()
			// the revert needs no further answer; but if the streams were reset for another reason, give up
			gone := len(r.e.dlv) == 0 && len(r.e.stack) >= 2
			r.e.mu.Unlock()
			r.e.poll()
			if gone {
				break
			}
			time.Sleep(200 * time.Microsecond)
		}
		n := len(r.canonicalReverts())
		if r.freezeAndConverge(nil, 600) != outOK {
			return false
		}
		return n >= 1
	})
}

// the block fetched by revertTask for its hash comparison is not verified: an answer whose hash field is garbage reverts a canonical block.
func TestRaceKnownComparisonBlockUnverified(t *testing.T) {
	witness(t, kfCompare, 3, 3, func(r *rig) bool {
		r.forkEmpty(2, 2, "reorg") // A0 A1 B2 B3
		r.pollErr()
		r.ok(kBlock, 3) // B3: parent mismatch -> revert A2 (legitimate), compare block 1
		r.e.answerReq(r.await(kBlock, 1, false), "corrupt", tamperByName(tamperBlockHash), nil)
		r.awaitLocalLen(1) // A1 reverted although canonical
		n := len(r.canonicalReverts())
		if r.freezeAndConverge(nil, 600) != outOK {
			return false
		}
		return n == 1
	})
}

// remote head at height 0 with a different genesis: remoteHeight-1 wraps, nothing is ever reverted.
func TestRaceKnownRemoteHeadAtGenesis(t *testing.T) {
	witness(t, kfGenesis, 2, 2, func(r *rig) bool {
		r.forkEmpty(0, 1, "reorg") // source = [B0], node = [A0 A1]
		r.pollErr()
		return r.freezeAndConverge(nil, 600) == outLivelock
	})
}

var _ = core.Header{}
