package c11

// DELIVERY as part of the generated input. The property quantifies over byte sequences RECEIVED: the server reads a
// request from an io.Reader (a websocket message, an HTTP body) that hands the bytes out in whatever pieces the
// network produced. The answer - and what the handlers get to see - is a function of the bytes alone, so
//
//   - every segmented delivery is checked against the reference model like any other input, and
//   - (metamorphic, needs no model) the responses and the recorded handler invocations of a segmented delivery must
//     equal those of the very same bytes delivered in one piece.
//
// Requests here are also LARGE (a few hundred bytes up to ~16 KB before whitespace styling, position-dependent
// content) so that the server's readers and buffers go through several refills / growth steps before the top-level
// value is complete.

import (
	"fmt"
	"sort"
	"strings"
	"testing"
	"unicode/utf8"

	"pgregory.net/rapid"

	"verif/harness/internal/stats"
)

// span draws an int in [lo,hi] without rapid's small-value bias (small raw values still select directly: shrinking).
func (g *gen) span(label string, lo, hi int) int {
	if hi <= lo {
		return lo
	}
	n := uint64(hi - lo + 1)
	u := rapid.Uint64().Draw(g.rt, label)
	if u >= n {
		u = (u * 0x9E3779B97F4A7C15 >> 33) % n
	}
	return lo + int(u)
}

// segment draws the size of one segment; rest = "everything that is left".
func (g *gen) segment() (size int, rest bool) {
	switch g.pick("segkind", 8, 8, 6, 22, 10, 8, 12, 6, 10, 10) {
	case 0:
		return 1, false
	case 1:
		return g.span("seg-small", 2, 16), false
	case 2:
		return g.span("seg-tens", 17, 99), false
	case 3:
		return g.span("seg-hundreds", 100, 600), false
	case 4:
		return sample(g, "seg-512", 511, 512, 513), false
	case 5:
		return sample(g, "seg-1024", 1023, 1024, 1025), false
	case 6: // what is left of an Ethernet / PPPoE / tunnel MTU after the headers
		return g.span("seg-mtu", 1320, 1500), false
	case 7: // around the server's own bufio size
		return sample(g, "seg-128", 127, 128, 129), false
	case 8:
		return g.span("seg-big", 601, 4096), false
	}
	return 0, true
}

// delivery draws a segmentation of n bytes that splits them at least once (n >= 2).
func (g *gen) delivery(n int) *delivery {
	dl := &delivery{eofWithLast: g.pick("eof-with-last", 3, 1) == 1}
	if n < 2 {
		return dl
	}
	switch g.pick("dlshape", 7, 2) {
	case 1: // a stream of equal segments
		sz, rest := g.segment()
		if rest {
			sz = g.span("seg-any", 1, n-1)
		}
		sz = min(sz, n-1)
		for total := 0; total < n; total += sz {
			dl.segs = append(dl.segs, sz)
		}
		g.c.Label("delivery:equal-segments")
	default:
		for total := 0; total < n && len(dl.segs) < 64; {
			sz, rest := g.segment()
			if rest {
				break
			}
			run := 1
			switch {
			case sz == 1:
				run = g.intn("run1", 1, 300)
			case g.pick("repeat", 4, 1) == 1:
				run = g.intn("run", 2, 6)
			}
			for ; run > 0 && total < n; run-- {
				dl.segs = append(dl.segs, sz)
				total += sz
			}
		}
		if len(dl.segs) == 0 || dl.segs[0] >= n {
			dl.segs = append([]int{g.span("seg-first", 1, n-1)}, dl.segs...)
		}
		g.c.Label("delivery:drawn-segments")
	}
	return dl
}

// ---------------------------------------------------------------- large requests

var textSeps = []string{".", " ", "é", "\n", "\\", "\"", "/", "日本", "\t", "\u0001"}

// posText returns about n bytes in which every group is different from every other (a counter), so that a moved,
// dropped or repeated stretch of it changes the value.
func posText(n, start int, sep string) string {
	var sb strings.Builder
	for i := start; sb.Len() < n; i++ {
		fmt.Fprintf(&sb, "%04d%s", i, sep)
	}
	s := sb.String()
	for n < len(s) && !utf8.RuneStart(s[n]) {
		n++
	}
	return s[:n]
}

var bigCapable = map[ptype]bool{tStr: true, tPtrStr: true, tStrs: true, tInts: true, tStruct: true, tPtrStruct: true, tReqStruct: true,
	tStructs: true, tMapPtr: true, tMapStruct: true, tRaw: true}

func bigSpecsOf(specs []*mspec) []*mspec {
	var out []*mspec
	for _, sp := range specs {
		for _, p := range sp.params {
			if bigCapable[p.t] {
				out = append(out, sp)
				break
			}
		}
	}
	return out
}

var bigBase, bigMatrix = bigSpecsOf(baseSpecs), bigSpecsOf(matrixSpecs)

// bigValue draws a good value of the parameter type that renders to about target bytes, with position-dependent content.
func (g *gen) bigValue(t ptype, target int) *jv {
	start := g.intn("start", 0, 5000)
	text := func(n int) *jv { return jstr(posText(n, start, sample(g, "sep", textSeps...))) }
	st := func(i int, b *jv) *jv {
		if i%3 == 0 {
			return jobj(mem("b", b), mem("a", jint(int64(i%9+1))))
		}
		return jobj(mem("a", jint(int64(i%9+1))), mem("b", b))
	}
	count := func(per int) int { return max(1, target/per) }
	switch t {
	case tStr, tPtrStr:
		return text(target)
	case tStruct, tPtrStruct:
		return st(start, text(target))
	case tReqStruct:
		return jobj(mem("name", text(max(1, target))))
	case tInts:
		step := sample(g, "step", 1, 7, 1000003)
		v := jarr()
		for i := 0; i < count(7); i++ {
			v.a = append(v.a, jint(int64(start+i*step)))
		}
		return v
	case tStrs:
		v := jarr()
		for i := 0; i < count(9); i++ {
			v.a = append(v.a, jstr(fmt.Sprintf("s%05d", start+i)))
		}
		return v
	case tStructs:
		v := jarr()
		for i := 0; i < count(24); i++ {
			v.a = append(v.a, st(start+i, jstr(fmt.Sprintf("b%d", start+i))))
		}
		return v
	case tMapPtr, tMapStruct:
		v := jobj()
		for i := 0; i < count(32); i++ {
			v.o = append(v.o, mem(fmt.Sprintf("k%d", start+i), st(start+i, jstr(fmt.Sprintf("v%d", start+i)))))
		}
		return v
	default: // json.RawMessage: anything
		switch g.pick("rawkind", 2, 3, 1, 1) {
		case 0:
			return text(target)
		case 1: // hundreds of small objects
			v := jarr()
			for i := 0; i < count(22); i++ {
				v.a = append(v.a, jobj(mem(fmt.Sprintf("k%d", start+i), jarr(jstr(fmt.Sprintf("v%d", start+i)), jstr("w")))))
			}
			return v
		case 2:
			v := jarr()
			for i := 0; i < count(8); i++ {
				v.a = append(v.a, sample(g, "rawelem", jnull(), jbool(true), jnum("1.5e3")), jint(int64(start+i)))
			}
			return v
		default:
			v := jobj()
			for i := 0; i < count(40); i++ {
				v.o = append(v.o, mem(fmt.Sprintf("m%d", start+i), jobj(mem("x", jarr(jint(int64(i)), jnull())), mem("y", jstr(posText(12, start+i, "-"))))))
			}
			return v
		}
	}
}

// bigCall draws one well-formed call whose params render to about target bytes.
func (g *gen) bigCall(target int) *jv {
	sp := g.pickSpec(bigBase, bigMatrix)
	n, req := len(sp.params), sp.required()
	var capable []int
	for i, p := range sp.params {
		if bigCapable[p.t] {
			capable = append(capable, i)
		}
	}
	bi := capable[g.uniform("bigparam", len(capable))]
	k := n
	if lo := max(req, bi+1); n > lo && g.pick("tail", 3, 2) == 1 {
		k = g.intn("nargs", lo, n)
	}
	vals := make([]*jv, k)
	for i := range vals {
		vals[i] = g.goodValue(sp.params[i].t)
	}
	vals[bi] = g.bigValue(sp.params[bi].t, target)
	if g.pick("secondbig", 3, 1) == 1 {
		if j := capable[g.uniform("bigparam2", len(capable))]; j != bi && j < k {
			vals[bi] = g.bigValue(sp.params[bi].t, target/2)
			vals[j] = g.bigValue(sp.params[j].t, target/2)
		}
	}
	var params *jv
	if g.pick("form", 1, 1) == 0 {
		params = positional(vals)
		labelOmittedTail(g.c, sp, len(vals))
		g.c.Label("params:large(positional)")
	} else {
		drop := map[int]bool{}
		for i := range vals {
			if i != bi && sp.params[i].opt && g.pick("dropopt", 3, 1) == 1 {
				drop[i] = true
			}
		}
		params = g.named(sp, vals, drop)
		g.c.Label("params:large(named)")
	}
	g.c.Label("method:" + sp.shape)
	ms := []member{mem("jsonrpc", jstr("2.0")), mem("method", jstr(sp.name)), mem("params", params)}
	switch g.pick("bigid", 5, 2, 1) {
	case 0:
		ms = append(ms, mem("id", g.freshID()))
	case 1:
		ms = append(ms, mem("id", jstr(fmt.Sprintf("big-%d", g.nextID))))
		g.nextID++
	default:
		g.c.Label("id:absent")
	}
	return jobj(g.shuffle(ms)...)
}

// posCall is a cheap well-formed batch entry whose arguments and id depend on its position i.
func (g *gen) posCall(i int) *jv {
	I := int64(i)
	var method string
	var params *jv
	switch g.pick("poscall", 3, 2, 2, 1, 1, 1) {
	case 0:
		method, params = "sub", jarr(jint(1000+I), jint(I))
	case 1:
		method, params = "ctxTwo", jarr(jstr(fmt.Sprintf("s%d", i)), jbool(i%2 == 0))
	case 2:
		method, params = "opt", jobj(mem("c", jarr(jint(I), jint(I+1))), mem("a", jint(I)))
	case 3:
		method = "noParams"
	case 4:
		method, params = "valPtr", jarr(jobj(mem("a", jint(I%9+1)), mem("b", jstr(fmt.Sprintf("b%d", i)))))
	default:
		method, params = "raw", jarr(jobj(mem(fmt.Sprintf("k%d", i), jarr(jstr(fmt.Sprintf("v%d", i)), jnull()))))
	}
	ms := []member{mem("jsonrpc", jstr("2.0")), mem("method", jstr(method))}
	if params != nil {
		ms = append(ms, mem("params", params))
	}
	if i%11 != 10 { // every eleventh entry is a notification
		ms = append(ms, mem("id", g.freshID()))
	}
	r := i % len(ms)
	return jobj(append(append([]member{}, ms[r:]...), ms[:r]...)...)
}

// bigBatch draws a batch that renders (compactly) to about target bytes.
func (g *gen) bigBatch(target int) *jv {
	v := jarr()
	for size := 2; size < target && len(v.a) < 400; {
		var e *jv
		if g.pick("batchentry", 2, 1) == 0 {
			e = g.posCall(len(v.a))
		} else {
			e = g.entry()
		}
		v.a = append(v.a, e)
		size += len(renderString(e, style{})) + 1
	}
	return v
}

var sizeBuckets = [][2]int{{300, 700}, {700, 2000}, {2000, 4500}, {4500, 9000}, {9000, 16000}}

// largeDocument draws a complete input of a few hundred bytes up to ~16 KB (more after whitespace styling).
func (g *gen) largeDocument() ([]byte, docInfo) {
	b := sizeBuckets[g.pick("sizebucket", 2, 3, 3, 2, 2)]
	target := g.span("target", b[0], b[1])
	var v *jv
	info := docInfo{}
	switch g.pick("bigkind", 5, 4, 1) {
	case 0:
		v, info.kind = g.bigCall(target), "large:single-call"
	case 1:
		v, info.kind = g.bigBatch(target), "large:batch"
	default: // one big call between small entries
		v = jarr()
		for i, n := 0, g.intn("around", 1, 6); i < n; i++ {
			v.a = append(v.a, g.posCall(i))
		}
		at := g.intn("bigat", 0, len(v.a))
		v.a = append(v.a[:at:at], append([]*jv{g.bigCall(target)}, v.a[at:]...)...)
		info.kind = "large:batch-with-large-call"
	}
	text := renderString(v, g.style())
	if g.pick("broken", 7, 1) == 1 {
		t, kind := g.damage([]byte(text), g.span("at", 0, len(text)-1))
		info.kind = "large:" + kind
		return t, info
	}
	info.tree = v
	lead := ""
	switch g.pick("lead", 80, 10, 10) {
	case 1:
		lead = sample(g, "leadws", " ", "\n", "\t", "\r\n", " \r\t\n", "  \n\n")
	case 2:
		lead = strings.Repeat(sample(g, "leadch", " ", "\n", "\t"), sample(g, "leadn", 127, 128, 129, 511, 512, 513, 1500))
	}
	if len(lead) >= 128 && v.k == 'a' && stats.Known(kLongWS) {
		g.c.Excluded(kLongWS)
		lead = lead[:127]
	}
	if lead != "" {
		g.c.Labelf("leading-ws:%s", bucket(len(lead)))
	}
	trail := ""
	switch g.pick("trail", 90, 5, 2, 3) {
	case 1:
		trail = sample(g, "trailws", " ", "\n", " \r\n\t")
	case 2:
		trail = sample(g, "garbage", "x", "]", "}", ",", "\x00", "null", " 1")
		g.c.Label("trailing:garbage")
	case 3:
		trail = sample(g, "seconddoc", "", " ", "\n") + renderString(g.requestObject(), style{})
		g.c.Label("trailing:second-document")
	}
	return []byte(lead + text + trail), info
}

// ---------------------------------------------------------------- the check

// behaviour renders what a caller and the handlers can observe of one exchange, independent of the order in which a
// batch's entries were executed: shape of the output, the multiset of (id, result | error code [, application error
// data]) and the multiset of recorded handler invocations with their arguments. The text of server-generated errors
// is not part of it (a parse error's excerpt legitimately depends on how far the reader had got).
func behaviour(out []byte, log []string) string {
	ob, bad := observe(out, true)
	if ob == nil {
		return "unparsable output: " + bad
	}
	keys := append([]string{}, ob.keys...)
	sort.Strings(keys)
	inv := append([]string{}, log...)
	sort.Strings(inv)
	return fmt.Sprintf("empty=%v array=%v\nresponses:\n %s\ninvocations:\n %s", ob.empty, ob.isArray, strings.Join(keys, "\n "), strings.Join(inv, "\n "))
}

func clipInts(xs []int) string {
	if len(xs) <= 40 {
		return fmt.Sprint(xs)
	}
	return fmt.Sprintf("%v … (%d reads)", xs[:40], len(xs))
}

func firstDifference(a, b string) string {
	i := 0
	for i < len(a) && i < len(b) && a[i] == b[i] {
		i++
	}
	from := max(0, i-60)
	return fmt.Sprintf("first difference at byte %d of the rendering:\n  one piece: …%q…\n  segmented: …%q…", i, a[from:min(len(a), i+100)], b[from:min(len(b), i+100)])
}

// labelDelivery classifies the reads the server was actually served (the sizes it saw, which the server's own
// buffer sizes co-determine) relative to the end of the top-level value.
func labelDelivery(c *stats.Case, in []byte, reads []int, dl *delivery) {
	valueEnd := len(in)
	if raw, rest, ok, _ := firstValue(in); ok && len(raw) > 0 {
		valueEnd = len(in) - len(rest)
	}
	c.Label("delivery:segmented")
	c.Labelf("delivery:reads=%s", countBucket(len(reads)))
	if dl.eofWithLast {
		c.Label("delivery:EOF-returned-with-the-last-bytes")
	}
	off := 0
	for i, n := range reads {
		switch {
		case n == 1:
			c.Label("delivery:has-read-of:1")
		case n >= 511 && n <= 513:
			c.Label("delivery:has-read-of:511..513")
		case n >= 1023 && n <= 1025:
			c.Label("delivery:has-read-of:1023..1025")
		case n >= 1320 && n <= 1500:
			c.Label("delivery:has-read-of:1320..1500(MTU-like)")
		case n > 1500:
			c.Label("delivery:has-read-of:>1500")
		}
		off += n
		if n >= 512 && i+1 < len(reads) && reads[i+1] < 512 && off < valueEnd {
			c.Label("delivery:read>=512-followed-by-read<512,before-the-value-is-complete")
		}
		if n < 512 && i+1 < len(reads) && reads[i+1] >= 512 && off+reads[i+1] < valueEnd {
			c.Label("delivery:read<512-followed-by-read>=512,before-the-value-is-complete")
		}
	}
	switch {
	case len(in) > 8192:
		c.Label("request-bytes:>8192")
		fallthrough
	case len(in) > 2048:
		c.Label("request-bytes:>2048")
		fallthrough
	case len(in) > 640:
		c.Label("request-bytes:>640")
	default:
		c.Label("request-bytes:<=640")
	}
}

func countBucket(n int) string {
	switch {
	case n <= 1:
		return "1"
	case n <= 3:
		return "2..3"
	case n <= 8:
		return "4..8"
	case n <= 32:
		return "9..32"
	default:
		return ">32"
	}
}

const deliveryRule = "input = request bytes + DELIVERY. Bytes: 1 in 4 a document of the structured grammar (see TestPropStructured), otherwise a LARGE " +
	"request of 300 B - 16 KB before whitespace styling (size bucket drawn first): a single call of a method with a string / slice / map / struct / " +
	"raw parameter (hand-written shapes and signature matrix) whose argument is a long position-dependent string (a counter every 5-6 bytes, " +
	"separators incl. escapes and multi-byte runes), an array of hundreds of ints / strings / small structs, a map of hundreds of entries or raw " +
	"JSON of hundreds of small objects, by position or by name; or a batch of up to 400 entries (position-dependent cheap calls mixed with " +
	"grammar entries); or a big call inside a small batch; 1 in 8 damaged at byte level at a uniformly drawn offset; leading whitespace up to " +
	"1500 bytes, trailing bytes. Delivery: a list of segment sizes, each drawn from {1 (runs of up to 300), 2-16, 17-99, 100-600, 511/512/513, " +
	"1023/1024/1025, 127/128/129, 1320-1500 (MTU-like), 601-4096, rest}, or a stream of equal segments of such a size; always at least one split; " +
	"served by a reader that returns exactly one segment per Read (EOF with the last bytes or on its own), as the io.Reader of HandleReader, of " +
	"HandleReadWriter, or as the HTTP request body (with / without gzip). Oracles: the reference model on the one-piece AND on the segmented " +
	"delivery, plus metamorphic: shape, multiset of (id, result | error code) and multiset of handler invocations with their arguments must be the " +
	"same for both deliveries. Non-trivial = valid JSON holding >= 1 well-formed request object (every case is delivered in >= 2 reads); " +
	"distinct = SHA-256 of transport + bytes + segment list"

// TestPropDelivery: the answer to a byte sequence does not depend on how the bytes are split into reads.
func TestPropDelivery(t *testing.T) {
	h := newHarness(4, false)
	stats.Check(t, stats.Budget{Quick: 4000, Thorough: 30000}, deliveryRule,
		func(rt *rapid.T, c *stats.Case) {
			g := newGen(rt, c, false)
			tr := []transport{trReader, trReadWriter, trHTTP, trHTTPGzip}[g.pick("transport", 4, 2, 2, 1)]
			var in []byte
			var info docInfo
			if g.pick("large", 1, 3) == 0 {
				in, info = g.document()
			} else {
				in, info = g.largeDocument()
			}
			dl := g.delivery(len(in))

			ex := checkDelivered(c, h, tr, in, &info, nil)
			whole := behaviour(h.lastOut, h.rec.snapshot())
			wholeOut := append([]byte{}, h.lastOut...)

			checkDelivered(c, h, tr, in, &info, dl)
			reads := h.lastReads
			if seg := behaviour(h.lastOut, h.rec.snapshot()); seg != whole {
				c.Violation("delivery-dependent", "[%s] the same %d bytes are answered differently when they arrive in reads of %s than when they arrive in one piece\n %s\n input %q\n output (one piece) %q\n output (segmented) %q",
					transportNames[tr], len(in), clipInts(reads), firstDifference(whole, seg), clip(in), clip(wholeOut), clip(h.lastOut))
			}

			label(c, ex, in, info.kind, tr)
			c.Fp("%v|%v", dl.segs, dl.eofWithLast)
			labelDelivery(c, in, reads, dl)
			c.Sample(func() any {
				return map[string]any{"transport": transportNames[tr], "bytes": len(in), "reads": clipInts(reads), "input": string(clip(in)[:min(len(in), 400)])}
			})
		})
}
