# Driver configuration for property C11 (read by /verif/checks_config.py)
PROP = dict(
        pkg="c11", level="exploration",
        technique=("grammar-based PBT (rapid) + native Go fuzzing of jsonrpc.Server against an independent reference model of "
                   "JSON-RPC 2.0 dispatch; multiset matching of responses and of recorded handler invocations; metamorphic: a segmented "
                   "delivery of the same bytes must be answered like the one-piece delivery"),
        level_text=("Exploration: generated request documents (tens of thousands per quick run, about a million plus byte-level fuzzing "
                    "in the thorough tier) through HandleReader, HandleReadWriter and the HTTP transport, in one piece and split into drawn read "
                    "segments (requests up to ~16 KB and more); every output is checked against "
                    "the response grammar and against the outcomes a reference model allows; batches also under -race with pool sizes 1 and 8. "
                    "Samples the input space, does not prove absence. The native fuzzer runs without coverage guidance (the driver builds "
                    "the test binary without -fuzz instrumentation), i.e. as a mutation fuzzer over a 230-entry seed corpus (incl. 68 requests to context-taking matrix methods with the optional tail left out "
                    "and 42 large requests with the sizes of their first three read segments, which are part of the fuzzed input)."),
        rule=("rapid grammar: each envelope member valid/missing/ill-typed, 21 hand-written harness methods covering every handler shape the server "
              "accepts (no params, required only, optional tail, all optional, context first, validated struct / *struct / []struct / "
              "map[string]*struct / map[string]struct, optional by-value validated struct, struct with a 'required' tag, a value type whose "
              "UnmarshalJSON rejects null, json.RawMessage, 2- and 3-tuple returns, handler error, internal error, nil / zero-valued results, "
              "escaped method name) plus the handler-SIGNATURE MATRIX: handlers built with reflect.MakeFunc from a specification "
              "([leading context.Context,] 0-4 parameters, a required prefix and an optional tail, each parameter one of 15 Go types: int, string, "
              "bool, *int, *string, []int, []string, validated struct, *struct, []struct, map[string]*struct, map[string]struct, struct with a "
              "required field, json.RawMessage, felt-like type with its own UnmarshalJSON) that return the arguments they received; 56 of them "
              "(every parameter count 1-4 x every required/optional split x 2 assignments of pairwise different types x with/without context) "
              "are registered on every harness server and drawn by all generators (2 of 5 calls), the rest of the space is drawn per case by "
              "TestPropSignatureMatrix, which registers the drawn signature on the live server and sends EVERY positional prefix down to the "
              "required parameters, EVERY subset of the optional names, and params omitted/[]/{} when nothing is required - each alone (same "
              "id: a prefix and the named request supplying the same parameters must answer identically) and all as one shuffled batch, over "
              "HandleReader / HandleReadWriter / HTTP; the model states that an unsupplied optional parameter is the zero value of its own "
              "type whatever its neighbours' types and whether or not a context precedes. Labels 'omitted-optional-tail(positional):"
              "ctx-handler|plain-handler[,type-differs-from-preceding-argument]' and 'omitted-optional-subset(named)' count the cases that hold "
              "such a request (about 23% / 21% / 55% of the TestPropSignatureMatrix cases, 1.1% / 2.3% of the TestPropStructured cases). "
              "Params good/omitted/too few/too many/unknown name/missing required/ill-typed/validator failure/"
              "scalar/null, an explicit null for any one parameter (every parameter kind), by position (any prefix down to the required ones) or by name (any subset of the optional ones), ids of every JSON type, batches of 0-30 (race: 1-40, up to 4 concurrent) entries, "
              "nested arrays, duplicate/extra members, leading whitespace up to 5000 bytes, trailing bytes, byte-level damage. "
              "DELIVERY is part of the input (TestPropDelivery, 4000 cases per shard; also the three segment sizes of the fuzz target): the "
              "request bytes are served by a reader that returns exactly one drawn segment per Read - segment sizes from {1 (runs up to 300), "
              "2-16, 17-99, 100-600, 511/512/513, 1023/1024/1025, 127/128/129, 1320-1500 (MTU-like), 601-4096, rest} or a stream of equal "
              "segments, always >= 1 split, EOF returned with the last bytes or on its own - as the io.Reader of HandleReader, of "
              "HandleReadWriter or as the HTTP request body (plain / gzip); 3 of 4 of those requests are LARGE (size bucket 300-700 / "
              "700-2000 / 2000-4500 / 4500-9000 / 9000-16000 bytes before whitespace styling): one call whose argument is a long "
              "position-dependent string (a counter every 5-6 bytes), an array of hundreds of ints / strings / small structs, a map of hundreds "
              "of entries or raw JSON of hundreds of small objects (hand-written shapes and signature matrix, by position or by name), a batch "
              "of up to 400 position-dependent entries, or a big call inside a small batch; 1 in 8 damaged at a uniform offset. Oracle there = "
              "reference model on both deliveries + equality of (shape, multiset of (id, result | error code), multiset of handler invocations "
              "with arguments) between the segmented and the one-piece delivery. Labels 'delivery:*' count the reads the server was actually "
              "served (e.g. 'delivery:read>=512-followed-by-read<512,before-the-value-is-complete', about 26% of the TestPropDelivery cases), "
              "'request-bytes:>640' (63%), '>2048' (37%), '>8192' (12%). "
              "Non-trivial = the input is valid JSON containing >= 1 well-formed request object (dispatcher reached); mixed-batch = "
              ">= 3 entries of >= 2 classes; distinct = SHA-256 of transport + input bytes (+ segment list)."),
        assumptions=["encoding/json's syntax check decides what 'unparsable JSON' means (first value of the stream)",
                     "tolerances: explicit id null = notification or answered with id null; -32700 or -32600 for a single document that is "
                     "valid JSON but fails typed decoding (ill-typed envelope member, or not an object at all - pinned by "
                     "jsonrpc/pretty_error_test.go); -32600/-32700 answers may carry id null or the request's id; fractional ids and "
                     "\"params\": null may be processed or rejected as Invalid Request; bytes after the first document may be ignored or "
                     "rejected with -32700; empty input may be answered -32700 or not at all",
                     "inputs whose meaning JSON/JSON-RPC does not define (differing duplicate member names, member names differing only by "
                     "case, invalid UTF-8, integer-valued float literals for int parameters, unknown struct fields) are checked "
                     "against the response grammar only",
                     "an explicit null argument is what the caller supplied and is decoded by encoding/json's documented rules: nil for "
                     "pointer/slice/map/RawMessage, the zero value for plain value types (handler invoked), -32602 when the type's "
                     "UnmarshalJSON refuses null or when the resulting zero struct violates its validator tags",
                     "error messages and error.data of server-generated errors are not compared (a parse error's excerpt legitimately depends on "
                     "how far the reader had got when the error was found, i.e. on the delivery)",
                     "deliveries are deterministic reader-level segmentations (one segment per Read, never a zero-length Read); the HTTP body is a "
                     "chunking body handed to ServeHTTP, not a kernel socket"],
        runs=[dict(run="^Test(Prop|Known)"), dict(run="^TestRace", race=True),
              dict(run="^$", fuzz="FuzzHandleReader", fuzztime="120s")],
    )
