# Driver configuration for property C11 (read by /verif/checks_config.py)
PROP = dict(
        pkg="c11", level="exploration",
        technique=("grammar-based PBT (rapid) + native Go fuzzing of jsonrpc.Server against an independent reference model of "
                   "JSON-RPC 2.0 dispatch; multiset matching of responses and of recorded handler invocations"),
        level_text=("Exploration: generated request documents (tens of thousands per quick run, about a million plus byte-level fuzzing "
                    "in the thorough tier) through HandleReader, HandleReadWriter and the HTTP transport; every output is checked against "
                    "the response grammar and against the outcomes a reference model allows; batches also under -race with pool sizes 1 and 8. "
                    "Samples the input space, does not prove absence. The native fuzzer runs without coverage guidance (the driver builds "
                    "the test binary without -fuzz instrumentation), i.e. as a mutation fuzzer over a 120-entry seed corpus."),
        rule=("rapid grammar: each envelope member valid/missing/ill-typed, 21 harness methods covering every handler shape the server "
              "accepts (no params, required only, optional tail, all optional, context first, validated struct / *struct / []struct / "
              "map[string]*struct / map[string]struct, optional by-value validated struct, struct with a 'required' tag, a value type whose "
              "UnmarshalJSON rejects null, json.RawMessage, 2- and 3-tuple returns, handler error, internal error, nil / zero-valued results, "
              "escaped method name), params good/omitted/too few/too many/unknown name/missing required/ill-typed/validator failure/"
              "scalar/null, an explicit null for any one parameter (every parameter kind), by position or by name, ids of every JSON type, batches of 0-30 (race: 1-40, up to 4 concurrent) entries, "
              "nested arrays, duplicate/extra members, leading whitespace up to 5000 bytes, trailing bytes, byte-level damage. "
              "Non-trivial = the input is valid JSON containing >= 1 well-formed request object (dispatcher reached); mixed-batch = "
              ">= 3 entries of >= 2 classes; distinct = SHA-256 of transport + input bytes."),
        assumptions=["encoding/json's syntax check decides what 'unparsable JSON' means (first value of the stream)",
                     "tolerances: explicit id null = notification or answered with id null; -32700 or -32600 for a single document that is "
                     "valid JSON but fails typed decoding (ill-typed envelope member, or not an object at all - pinned by "
                     "jsonrpc/pretty_error_test.go); -32600/-32700 answers may carry id null or the request's id; fractional ids and "
                     "\"params\": null may be processed or rejected as Invalid Request; bytes after the first document may be ignored or "
                     "rejected with -32700; empty input may be answered -32700 or not at all",
                     "inputs whose meaning JSON/JSON-RPC does not define (differing duplicate member names, member names differing only by "
                     "case, invalid UTF-8, integer-valued float literals for int parameters, unknown struct fields) are checked "
                     "against the response grammar only",
                     "an explicit null argument is what the caller supplied and is decoded by encoding/json's documented rules: nil for "
                     "pointer/slice/map/RawMessage, the zero value for plain value types (handler invoked), -32602 when the type's "
                     "UnmarshalJSON refuses null or when the resulting zero struct violates its validator tags",
                     "error messages and error.data of server-generated errors are not compared"],
        runs=[dict(run="^Test(Prop|Known)"), dict(run="^TestRace", race=True),
              dict(run="^$", fuzz="FuzzHandleReader", fuzztime="120s")],
    )
