// Package c11: the JSON-RPC server answers any input with well-formed, correlated responses (property C11).
//
// The real jsonrpc.Server is loaded with a harness method table covering every binding shape it accepts
// (harness_test.go); requests come from a JSON grammar (gen_test.go) or from the native fuzzer; the oracle is
// an independent reference model of JSON-RPC 2.0 dispatch (model_test.go) that yields, per request entry, the
// acceptable (response, invocation) outcomes, matched as multisets against the server's output and the
// handlers' invocation log.
package c11

import (
	"fmt"
	"sort"
	"strconv"
	"strings"
	"sync"
	"testing"

	"pgregory.net/rapid"

	"verif/harness/internal/stats"
)

func TestMain(m *testing.M) { stats.Main(m) }

var refModel = &model{known: stats.Known}

func allowNeither() bool { return stats.Known(kNilRes) }

// checkOne runs one input, delivered in one piece, through one transport and applies the full oracle.
func checkOne(c *stats.Case, h *harness, tr transport, in []byte, info *docInfo) *expectation {
	return checkDelivered(c, h, tr, in, info, nil)
}

// checkDelivered runs one input through one transport, split into reads as dl says (nil: one piece), and applies
// the full oracle - the expectation is a function of the bytes alone.
func checkDelivered(c *stats.Case, h *harness, tr transport, in []byte, info *docInfo, dl *delivery) *expectation {
	md := refModel
	if h.mdl != nil {
		md = h.mdl
	}
	ex := md.doc(in)
	if info != nil && info.tree != nil && ex.validJSON {
		// harness self-check: the model's parser must read back exactly what the generator rendered
		raw, _, _, _ := firstValue(in)
		if got := canonBytes(raw); got != canon(info.tree) {
			stats.HarnessError("render/parse mismatch: %q vs %q", got, canon(info.tree))
		}
	}
	h.rec.reset()
	res := h.callDelivered(tr, in, dl)
	h.lastOut, h.lastReads = res.out, res.reads
	how := transportNames[tr]
	if dl != nil {
		how += fmt.Sprintf(", %d bytes served in reads of %v", len(in), clipInts(res.reads))
	}
	switch {
	case res.hung:
		c.Violation("hang", "%s did not return within %v\n input %q", how, hangTimeout, clip(in))
	case res.panicked != "":
		c.Violation("panic", "%s panicked: %s\n input %q", how, res.panicked, clip(in))
	case res.err != nil:
		c.Violation("error", "%s returned error %v\n input %q", how, res.err, clip(in))
	case res.extra != "":
		c.Violation("transport", "%s: %s\n input %q", how, res.extra, clip(in))
	}
	log := h.rec.snapshot()
	key, msg := verdict(ex, in, res.out, log, true, allowNeither())
	if key != "" {
		c.Violation(key, "[%s] %s", how, msg)
	}
	if msg == "inconclusive" {
		c.Info("match-search-exhausted")
	}
	if tr != trReadWriter {
		if ob, _ := observe(res.out, allowNeither()); ob != nil {
			for _, want := range ob.hdrs {
				found := false
				for _, v := range res.hdr.Values("X-C11") {
					if v == want {
						found = true
					}
				}
				if !found {
					c.Violation("header", "[%s] handler header X-C11=%s lost (got %q)\n input %q", transportNames[tr], want, res.hdr.Values("X-C11"), clip(in))
				}
				c.Label("handler-header-propagated")
			}
		}
	}
	return ex
}

// label records the classification of a checked document and decides non-triviality.
func label(c *stats.Case, ex *expectation, in []byte, kind string, tr transport) {
	c.Fp("%d|%s", tr, in)
	c.Label("doc:" + kind)
	c.Label("transport:" + transportNames[tr])
	if ex.amb != "" {
		c.Label("oracle:grammar-only(ambiguous input)")
	} else {
		c.Label("oracle:full")
	}
	for k := range ex.classes {
		c.Label("known-class-hit:" + k)
	}
	labelNulls(c, ex)
	if len(ex.scen) == 0 {
		return
	}
	classes := map[string]struct{}{}
	well := 0
	for _, e := range ex.scen[0].entries {
		cl := e.class
		if i := strings.IndexByte(cl, ':'); i >= 0 && !strings.HasPrefix(cl, "call") {
			// keep labels few: "notif:call:shape" → "notif:call"
			parts := strings.SplitN(cl, ":", 3)
			if len(parts) == 3 {
				cl = parts[0] + ":" + parts[1]
			}
		}
		c.Label("entry:" + cl)
		classes[e.class] = struct{}{}
		if e.wellFormed {
			well++
		}
	}
	if ex.validJSON && well > 0 {
		c.NonTrivial("dispatcher-reached")
		if ex.isArray && len(ex.scen[0].entries) >= 3 && len(classes) >= 2 {
			c.NonTrivial("mixed-batch")
		}
	}
	if len(ex.scen) > 1 {
		c.Label("oracle:several-acceptable-readings")
	}
}

// labelNulls records how the model treated explicit null arguments of the case (by outcome and by parameter kind).
func labelNulls(c *stats.Case, ex *expectation) {
	for k := range ex.nulls {
		c.Label("null-arg:" + k)
	}
	if ex.isArray && len(ex.nulls) > 0 {
		c.Label("null-arg:inside-batch")
	}
}

func sampleOf(in []byte, ex *expectation) func() any {
	return func() any {
		cl := []string{}
		if len(ex.scen) > 0 {
			for _, e := range ex.scen[0].entries {
				cl = append(cl, e.class)
			}
		}
		return map[string]any{"input": string(clip(in)), "entries": cl}
	}
}

const structuredRule = "rapid grammar of request documents: each envelope member (jsonrpc, method, params, id) valid / missing / ill-typed, " +
	"21 hand-written methods covering every binding shape plus 56 methods of the handler-signature matrix (with / without a leading context, " +
	"1-4 parameters, every required / optional split, pairwise different parameter types out of 15), params good / omitted / too few / too many / unknown name / missing required / ill-typed value / " +
	"validator failure / scalar / null / one explicit null argument (every parameter kind), by position (any prefix down to the required parameters) or by name (any subset of the optional ones), ids of every JSON type, batches of 0-30 entries mixing calls, notifications, " +
	"invalid and non-object entries, nested arrays, duplicate and extra members, leading whitespace up to 5000 bytes, trailing bytes, " +
	"byte-level damage; oracle = reference model of JSON-RPC 2.0 dispatch (multiset of (id, result | error code) + invocation log); " +
	"non-trivial = input is valid JSON holding >= 1 well-formed request object; mixed-batch = >= 3 entries of >= 2 classes; " +
	"distinct = SHA-256 of transport + input bytes"

func TestPropStructured(t *testing.T) {
	h := newHarness(4, false)
	stats.Check(t, stats.Budget{Quick: 25000, Thorough: 150000}, structuredRule,
		func(rt *rapid.T, c *stats.Case) {
			g := newGen(rt, c, false)
			in, info := g.document()
			ex := checkOne(c, h, trReader, in, &info)
			label(c, ex, in, info.kind, trReader)
			c.Sample(sampleOf(in, ex))
		})
}

// TestPropTransports: the same documents through the other entry points (1-byte reads, HandleReadWriter, HTTP, HTTP+gzip).
func TestPropTransports(t *testing.T) {
	h := newHarness(4, false)
	stats.Check(t, stats.Budget{Quick: 8000, Thorough: 50000}, structuredRule+"; transport drawn from {HandleReader fed one byte at a time, HandleReadWriter, HTTP POST via httptest, HTTP with gzip}",
		func(rt *rapid.T, c *stats.Case) {
			g := newGen(rt, c, false)
			tr := transport(g.pick("transport", 0, 2, 3, 3, 2))
			in, info := g.document()
			ex := checkOne(c, h, tr, in, &info)
			label(c, ex, in, info.kind, tr)
			c.Sample(sampleOf(in, ex))
		})
}

// TestPropPositionalNamedAgree: the same logical arguments sent by position and by name must produce the same
// response and the same handler invocation (metamorphic; both are also checked against the model).
func TestPropPositionalNamedAgree(t *testing.T) {
	h := newHarness(4, false)
	var withParams []*mspec
	for _, sp := range baseSpecs {
		if len(sp.params) > 0 {
			withParams = append(withParams, sp)
		}
	}
	stats.Check(t, stats.Budget{Quick: 6000, Thorough: 30000},
		"method with >= 1 parameter (hand-written shapes or the fixed part of the signature matrix), a drawn prefix of argument values (all good, or one ill-typed), sent once as an array and once as an object with "+
			"shuffled members; responses and invocation logs must be equal and match the model; non-trivial = the call binds >= 2 arguments or leaves an optional tail absent",
		func(rt *rapid.T, c *stats.Case) {
			g := newGen(rt, c, false)
			sp := g.pickSpec(withParams, matrixSpecs)
			vals := g.callArgs(sp)
			bad := false
			switch {
			case len(vals) == 0:
			case g.pick("bad", 7, 2, 2) == 1:
				at := g.intn("badat", 0, len(vals)-1)
				if bv := g.badValue(sp.params[at].t); bv != nil {
					vals[at], bad = bv, true
				}
			case true:
				if g.pick("null", 1, 1) == 1 {
					break
				}
				at := g.uniform("nullat", len(vals))
				vals[at] = jnull()
				if _, st := check(sp.params[at].t, vals[at]); st == stBad {
					bad = true
				}
				c.Label("args:one-explicit-null")
			}
			var id *jv
			if g.pick("notif", 5, 1) == 0 {
				id = g.freshID()
			}
			if id == nil && bad && stats.Known(kNotif) {
				c.Excluded(kNotif)
				id = g.freshID()
			}
			build := func(p *jv) []byte {
				ms := []member{mem("jsonrpc", jstr("2.0")), mem("method", jstr(sp.name)), mem("params", p)}
				if id != nil {
					ms = append(ms, mem("id", id))
				}
				return []byte(renderString(jobj(g.shuffle(ms)...), g.style()))
			}
			inPos := build(positional(vals))
			inNamed := build(g.named(sp, vals, nil))
			exP := checkOne(c, h, trReader, inPos, nil)
			labelNulls(c, exP)
			outP := append([]byte{}, h.lastOut...)
			logP := h.rec.snapshot()
			checkOne(c, h, trReader, inNamed, nil)
			outN := append([]byte{}, h.lastOut...)
			logN := h.rec.snapshot()
			cp, cn := "", ""
			if len(outP) > 0 {
				cp = canonBytes(outP)
			}
			if len(outN) > 0 {
				cn = canonBytes(outN)
			}
			if bad {
				// the error text may name the offending form; compare code and id only
				cp, cn = keysOf(outP), keysOf(outN)
			}
			if cp != cn || strings.Join(logP, "\n") != strings.Join(logN, "\n") {
				c.Violation("positional-vs-named", "same arguments, different behaviour\n by position %q -> %q log %q\n by name     %q -> %q log %q",
					inPos, outP, logP, inNamed, outN, logN)
			}
			c.Fp("%s", inPos)
			c.Label("method:" + sp.shape)
			labelOmittedTail(c, sp, len(vals))
			if bad {
				c.Label("args:one-bad-value")
			} else {
				c.Label("args:good")
			}
			if id == nil {
				c.Label("notification")
			}
			if len(vals) >= 2 || len(vals) < len(sp.params) {
				c.NonTrivial("multi-arg-or-absent-optional-tail")
			}
			c.Sample(func() any {
				return map[string]string{"positional": string(inPos), "named": string(inNamed), "class": exP.scen[0].entries[0].class}
			})
		})
}

// TestPropSignatureMatrix: the handler signature space is drawn, not hand-picked. Per case a signature
// ([context,] 0-4 parameters, a required prefix and an optional tail, every parameter of any of the 15 Go types of the
// palette) is registered (once) on the running server, one good value is drawn per parameter, and EVERY way of
// supplying them is sent: by position every prefix from all parameters down to the required ones, by name the
// required parameters plus every subset of the optional ones (and "params" left out when nothing is required).
// Specification (model_test.go matrixSpec/bind): a parameter that is not supplied is the zero value of its own type
// and the handler runs exactly once with the bound values - so a positional prefix and the named request that names
// the same parameters must behave identically. Every request is checked on its own against the model (one response
// with its id, result xor error, one invocation with the supplied arguments, no crash) and all of them together as
// one batch (array complete).
func TestPropSignatureMatrix(t *testing.T) {
	h := newHarness(4, false)
	h.mdl = &model{known: stats.Known, extra: map[string]*mspec{}}
	stats.Check(t, stats.Budget{Quick: 3000, Thorough: 20000},
		"drawn handler signature: leading context yes/no, 0-4 parameters, 0..n of them required (prefix) and the rest optional, each of a type drawn "+
			"from 15 (int, string, bool, *int, *string, []int, []string, validated struct, *struct, []struct, map[string]*struct, map[string]struct, "+
			"struct with a required field, json.RawMessage, felt-like value type with its own UnmarshalJSON); handler built with reflect.MakeFunc and "+
			"registered on the live server; one good value per parameter (1 in 6: one of them an explicit null); requests = every positional prefix "+
			"down to the required parameters + every subset of optional names + params omitted/[]/{} when nothing is required, each sent alone and "+
			"all of them as one shuffled batch over a drawn transport; oracle = reference model per request, equality of each positional prefix with "+
			"its named twin, batch completeness; non-trivial = the signature has >= 1 parameter; distinct = signature + rendered batch",
		func(rt *rapid.T, c *stats.Case) {
			g := newGen(rt, c, false)
			ctx := g.pick("ctx", 1, 1) == 1
			n := g.uniform("nparams", maxMatrixParams+1)
			req := g.uniform("nrequired", n+1)
			types := make([]ptype, n)
			for i := range types {
				types[i] = matrixPalette[g.uniform("ptype", len(matrixPalette))]
			}
			sp := matrixSpec(ctx, types, req)
			if known, ok := h.mdl.lookup(sp.name); ok {
				sp = known
			} else {
				h.register(sp)
			}
			vals := make([]*jv, n)
			for i := range vals {
				vals[i] = g.goodValue(types[i])
			}
			if n > 0 && g.pick("null", 5, 1) == 1 {
				vals[g.uniform("nullat", n)] = jnull()
				c.Label("args:one-explicit-null")
			}
			tr := []transport{trReader, trReadWriter, trHTTP}[g.pick("transport", 3, 1, 1)]
			st := g.style()

			type variant struct {
				params *jv // nil: member left out
				bound  int // bit i set: parameter i supplied
				form   string
			}
			var vs []variant
			for k := n; k >= req; k-- {
				vs = append(vs, variant{positional(vals[:k]), 1<<k - 1, "positional"})
			}
			nopt := n - req
			for mask := 0; mask < 1<<nopt; mask++ {
				drop := map[int]bool{}
				for j := 0; j < nopt; j++ {
					if mask&(1<<j) == 0 {
						drop[req+j] = true
					}
				}
				vs = append(vs, variant{g.named(sp, vals, drop), mask<<req | (1<<req - 1), "named"})
			}
			if req == 0 {
				vs = append(vs, variant{nil, 0, "omitted"})
			}
			build := func(v variant, id *jv) *jv {
				ms := []member{mem("jsonrpc", jstr("2.0")), mem("method", jstr(sp.name)), mem("id", id)}
				if v.params != nil {
					ms = append(ms, mem("params", v.params))
				}
				return jobj(g.shuffle(ms)...)
			}
			// each request alone, all with the same id: requests that bind the same parameters must give the same bytes (canonically)
			byBound := map[int]string{}
			byBoundIn := map[int][]byte{}
			for _, v := range vs {
				in := []byte(renderString(build(v, jint(1)), st))
				ex := checkOne(c, h, tr, in, nil)
				labelNulls(c, ex)
				out, log := "", strings.Join(h.rec.snapshot(), "\n")
				if len(h.lastOut) > 0 {
					out = canonBytes(h.lastOut)
				}
				if ks := keysOf(h.lastOut); strings.Contains(ks, "|err=") {
					out = ks // the error text may name the offending form; compare code and id only
				}
				got := out + "\n" + log
				if prev, ok := byBound[v.bound]; ok && prev != got {
					c.Violation("positional-vs-named", "[%s] same parameters supplied, different behaviour\n %q -> %q\n %q -> %q",
						transportNames[tr], byBoundIn[v.bound], prev, in, got)
				}
				byBound[v.bound], byBoundIn[v.bound] = got, in
				if v.form == "positional" {
					labelOmittedTail(c, sp, len(v.params.a))
				}
				if v.form == "named" && len(v.params.o) < n {
					c.Label("omitted-optional-subset(named)")
				}
			}
			// all of them as one batch with distinct ids
			batch := jarr()
			for _, v := range vs {
				batch.a = append(batch.a, build(v, g.freshID()))
			}
			batch.a = rapid.Permutation(batch.a).Draw(rt, "batchorder")
			in := []byte(renderString(batch, st))
			ex := checkOne(c, h, tr, in, nil)

			c.Fp("%s|%d|%s", sp.name, tr, in)
			c.Label("transport:" + transportNames[tr])
			c.Label("method:" + sp.shape)
			c.Labelf("matrix:params=%d,optional=%d", n, nopt)
			c.Labelf("requests-per-signature:%s", bucket(len(vs)))
			if ex.amb != "" {
				c.Label("oracle:grammar-only(ambiguous input)")
			} else {
				c.Label("oracle:full")
			}
			if n >= 1 {
				c.NonTrivial(">=1-parameter")
			}
			if nopt >= 1 {
				c.NonTrivial("optional-parameters-omitted-every-way")
			}
			c.Sample(func() any {
				return map[string]any{"signature": sp.name, "context": ctx, "transport": transportNames[tr], "batch": string(clip(in))}
			})
		})
}

func keysOf(out []byte) string {
	ob, bad := observe(out, true)
	if ob == nil {
		return "unparsable: " + bad
	}
	ks := append([]string{}, ob.keys...)
	sort.Strings(ks)
	return strings.Join(ks, "\n")
}

// TestRaceBatch: batches executed by the worker pool (sizes 1 and 8), several batches in flight on the same
// server; the multiset of responses per batch and the global invocation log must be exactly the predicted ones.
func TestRaceBatch(t *testing.T) {
	hs := map[int]*harness{1: newHarness(1, true), 8: newHarness(8, true)}
	stats.Check(t, stats.Budget{Quick: 1500, Thorough: 6000},
		"1-4 concurrent HandleReader calls on one server (pool size 1 or 8), each a batch of 1-40 entries (calls of every binding shape, notifications, "+
			"handler errors, unknown methods, bad params, invalid and non-object entries; no tolerance classes) with handlers yielding the processor; "+
			"oracle: per batch the multiset of (id, result|error) and globally the multiset of recorded invocations, independent of order; under -race; "+
			"non-trivial = some batch has >= 3 entries of >= 2 classes with >= 1 executed handler",
		func(rt *rapid.T, c *stats.Case) {
			g := newGen(rt, c, true)
			pool := sample(g, "pool", 1, 8)
			h := hs[pool]
			nb := g.intn("batches", 1, 4)
			ins := make([][]byte, nb)
			exs := make([]*expectation, nb)
			var wantInv []string
			predictable := true
			for b := range ins {
				n := g.intn("n", 1, 12)
				if g.pick("big", 4, 1) == 1 {
					n = g.intn("nbig", 13, 40)
				}
				v := jarr()
				for i := 0; i < n; i++ {
					v.a = append(v.a, g.entry())
				}
				ins[b] = []byte(renderString(v, g.style()))
				exs[b] = refModel.doc(ins[b])
				if exs[b].amb != "" || len(exs[b].scen) != 1 {
					predictable = false
					continue
				}
				for _, e := range exs[b].scen[0].entries {
					for _, a := range e.alts[1:] {
						if a.inv != e.alts[0].inv {
							predictable = false
						}
					}
					if e.alts[0].inv != "" {
						wantInv = append(wantInv, e.alts[0].inv)
					}
				}
			}
			h.rec.reset()
			results := make([]callResult, nb)
			var wg sync.WaitGroup
			for b := range ins {
				wg.Add(1)
				go func(b int) {
					defer wg.Done()
					results[b] = h.call(trReader, ins[b])
				}(b)
			}
			wg.Wait()
			log := h.rec.snapshot()
			for b, res := range results {
				switch {
				case res.hung:
					c.Violation("hang", "batch did not return\n input %q", clip(ins[b]))
				case res.panicked != "":
					c.Violation("panic", "%s\n input %q", res.panicked, clip(ins[b]))
				case res.err != nil:
					c.Violation("error", "%v\n input %q", res.err, clip(ins[b]))
				}
				key, msg := verdict(exs[b], ins[b], res.out, nil, false, allowNeither())
				if key != "" {
					c.Violation(key, "[pool %d, %d concurrent batches] %s", pool, nb, msg)
				}
			}
			if predictable {
				sort.Strings(log)
				sort.Strings(wantInv)
				if strings.Join(log, "\n") != strings.Join(wantInv, "\n") {
					c.Violation("invocations", "[pool %d, %d concurrent batches] invocation log differs from the predicted multiset\n got  %q\n want %q\n inputs %q",
						pool, nb, log, wantInv, ins)
				}
			} else {
				c.Info("race-case-without-exact-invocation-prediction")
			}
			c.Labelf("pool:%d", pool)
			c.Labelf("concurrent-batches:%d", nb)
			for b, ex := range exs {
				labelNulls(c, ex)
				c.Fp("%s", ins[b])
				classes := map[string]struct{}{}
				for _, e := range ex.scen[0].entries {
					classes[e.class] = struct{}{}
				}
				if len(ex.scen[0].entries) >= 3 && len(classes) >= 2 && len(wantInv) > 0 {
					c.NonTrivial("mixed-batch-with-executions")
				}
				if len(ex.scen[0].entries) > 12 {
					c.Label("batch>12")
				}
			}
			c.Sample(func() any { return map[string]any{"pool": pool, "inputs": []string{string(clip(ins[0]))}} })
		})
}

// ---------------------------------------------------------------- byte-level fuzzing

// matrixSeeds: for every context-taking method of the fixed signature matrix that has optional parameters, a request
// supplying only the required ones (by position where possible) and one supplying all but the last by position.
func matrixSeeds() []string {
	var out []string
	samples := map[ptype]string{tInt: "7", tStr: `"s"`, tBool: "true", tPtrInt: "3", tPtrStr: `"p"`, tInts: "[1,2]", tStrs: `["x","y"]`,
		tStruct: `{"a":1,"b":"x"}`, tPtrStruct: `{"a":2}`, tStructs: `[{"a":3}]`, tMapPtr: `{"k":{"a":4}}`, tRaw: `{"r":[null]}`, tNoNull: "5",
		tMapStruct: `{"k":{"a":6}}`, tReqStruct: `{"name":"n"}`}
	for _, sp := range matrixSpecs {
		n, req := len(sp.params), sp.required()
		if !sp.ctx || req == n {
			continue
		}
		for _, k := range []int{req, n - 1} {
			var pos, named []string
			for i := 0; i < k; i++ {
				pos = append(pos, samples[sp.params[i].t])
				named = append(named, strconv.Quote(sp.params[i].name)+":"+samples[sp.params[i].t])
			}
			out = append(out, fmt.Sprintf(`{"jsonrpc":"2.0","id":%d,"method":%q,"params":[%s]}`, k, sp.name, strings.Join(pos, ",")))
			if k == req {
				out = append(out, fmt.Sprintf(`{"jsonrpc":"2.0","id":%d,"method":%q,"params":{%s}}`, k, sp.name, strings.Join(named, ",")))
			}
		}
	}
	return out
}

var fuzzSeeds = append(baseFuzzSeeds, matrixSeeds()...)

var baseFuzzSeeds = []string{
	// literals of jsonrpc/server_test.go
	`{"jsonrpc" : "1.0", "id" : 1}`,
	`{"jsonrpc" : "1.0", "id" : null}`,
	`{"jsonrpc" : "2.0", "method" : "doesnotexits" , "id" : 2}`,
	`{"jsonrpc" : "2.0", "method" : "opt", "id" : 5}`,
	`{"jsonrpc" : "2.0", "method" : "opt", "params" : [3, 4, [5], "too many"] , "id" : 3}`,
	`{"jsonrpc" : "2.0", "method" : "opt", "params" : [3, 4, [5]] , "id" : 3}`,
	`{"jsonrpc" : "2.0", "method" : "fail", "params" : [44, "error message"] , "id" : 4}`,
	"{\"jsonrpc\" : \"2.0\", \"method\" : \"opt\",\n\t\t\"params\" : { \"a\" : 5, \"b\" : 1, \"c\": [1] } , \"id\" : 5}",
	`{"jsonrpc" : "2.0", "method" : "opt", "params" : { "a" : 5 } , "id" : 5}`,
	" \r\t\n" + `{"jsonrpc" : "2.0", "method" : "opt", "params" : { "b" : 1 } , "id" : 22}`,
	`[]`,
	" \r\t\n" + `[{"jsonrpc" : "2.0", "method" : "opt", "params" : { "a" : 5 } , "id" : 5}]`,
	`[{"jsonrpc" : "2.0", "method" : "opt", "params" : { "a" : 5 } , "id" : 5}, {"jsonrpc" : "2.0", "method" : "fail", "params" : { "num" : 5 } , "id" : 7}, {"jsonrpc" : "2.0", "method" : "opt", "params" : { "a" : 44 } , "id" : 6}]`,
	`{"jsonrpc" : "2.0", "method" : "opt","params" : { "a" : 5, "b" : null, "c": [] }}`,
	`[{"jsonrpc" : "2.0", "method" : "opt", "params" : { "a" : 5 }}, {"jsonrpc" : "2.0", "method" : "nope", "params" : { "num" : 5 } , "id" : "7"}, {"jsonrpc" : "2.0", "method" : "opt", "params" : { "a" : 44 } , "id" : 6}]`,
	`[{"jsonrpc" : "2.0", "method" : "opt", "params" : { "a" : 5 }}, {"jsonrpc" : "2.0", "method" : "opt", "params" : { "a" : 44 }}]`,
	`[[{"jsonrpc" : "2.0", "method" : "opt", "params" : { "a" : 5 }}], [{"jsonrpc" : "2.0", "method" : "opt", "params" : { "a" : 44 }}]]`,
	"{\n\t\"jsonrpc\" : \"2.0\"\n}",
	`{"jsonrpc" : "2.0", "method" : "rpc_call", "params" : 44}`,
	`{"jsonrpc" : "2.0", "method" : "rpc_call", "params" : "44"}`,
	`{"jsonrpc" : "2.0", "method" : "rpc_call", "params" : { "malatya" : "44"}, "id" : [37]}`,
	`{"jsonrpc" : "2.0", "method" : "rpc_call", "params" : { "malatya" : "44"}, "id" : { "44" : "37"}}`,
	`{"jsonrpc" : "2.0", "method" : "rpc_call", "params" : { "malatya" : "44"}, "id" : 44.37}`,
	`{"jsonrpc" : "2.0", "method" : "sub", "params" : ["3", 1] , "id" : 3}`,
	`[{"jsonrpc" : "1.0", "method" : "sub", "params" : [1,2] , "id" : 5}, {"jsonrpc" : "2.0", "method" : "sub", "params" : [3,4] , "id" : 6}]`,
	`{"jsonrpc" : "2.0", "method" : "val", "params" : [ {"a": 0} ], "id" : 1}`,
	`{"jsonrpc" : "2.0", "method" : "val", "params" : [{"a": 1}], "id" : 1}`,
	`{"jsonrpc" : "2.0", "method" : "valPtr", "params" : [ {"a": 0} ], "id" : 1}`,
	`{"jsonrpc" : "2.0", "method" : "valPtr", "params" : [ {"a": 1, "b": "x"} ], "id" : 1}`,
	`{"jsonrpc" : "2.0", "method" : "valSlice", "params" : [ [{"a": 0}] ], "id" : 1}`,
	`{"jsonrpc" : "2.0", "method" : "valSlice", "params" : [[{"a": 1}]], "id" : 1}`,
	`{"jsonrpc" : "2.0", "method" : "valMap", "params" : [ { "k" : {"a": 0}} ], "id" : 1}`,
	`{"jsonrpc" : "2.0", "method" : "valMap", "params" : [ { "expectedkey" : {"a": 1}} ], "id" : 1}`,
	`{"jsonrpc": "2.0", "method": "ctxOnly", "params": [], "id": 1}`,
	`{"jsonrpc": "2.0", "method": "ctxOnly","id": 1}`,
	`{"jsonrpc": "2.0", "method": "ctxTwo", "params": ["s", true], "id": 1}`,
	`{"jsonrpc": "2.0", "method": "ctxOnly", "params": {}, "id": 1}`,
	`{"jsonrpc": "2.0", "method": "ctxTwo", "params": {"f": false, "s": "1"}, "id": 1}`,
	`{"jsonrpc": "2.0", "method": "sub", "params": [42, 23], "id": 1}`,
	`{"jsonrpc": "2.0", "method": "sub", "params": {"subtrahend": 23, "minuend": 42}, "id": 3}`,
	`{"jsonrpc": "2.0", "method": "sub", "params": [1,2]}`,
	`{"jsonrpc": "2.0", "method": "noParams"}`,
	`{"jsonrpc": "2.0", "method": "notfound", "id": "1"}`,
	`[1]`,
	`[1,2,3]`,
	`{"jsonrpc": "2.0", "method": "internal", "params": {}, "id": 1}`,
	`{"jsonrpc": "2.0", "method": "allOpt", "params": {}, "id": 1}`,
	`{"jsonrpc": "2.0", "method": "allOpt", "id": 1}`,
	`{"jsonrpc": "2.0", "method": "opt", "params": {"a": 1, "c": [2, 3], "junk": "junk"}, "id": 1}`,
	`{"jsonrpc":"2.0","id":1,"method":"hdr","params":[7]}`,
	`{"jsonrpc":"2.0","id":1,"method":"raw","params":[{"x":[1,2,{"y":null}]}]}`,
	`{"jsonrpc":"2.0","id":1,"method":"emptyish","params":[2]}`,
	`{"jsonrpc":"2.0","id":1,"method":"nilResult"}`,
	`{"jsonrpc":"2.0","id":1,"method":"uni✓ \"q\"\n"}`,
	// explicit null arguments for every parameter kind
	`{"jsonrpc":"2.0","id":1,"method":"sub","params":[null,1]}`,
	`{"jsonrpc":"2.0","id":1,"method":"ctxTwo","params":{"s":null,"f":null}}`,
	`{"jsonrpc":"2.0","id":1,"method":"opt","params":[1,null,null]}`,
	`{"jsonrpc":"2.0","id":1,"method":"val","params":[null]}`,
	`{"jsonrpc":"2.0","id":1,"method":"val","params":{"v":null}}`,
	`{"jsonrpc":"2.0","id":1,"method":"valPtr","params":[null]}`,
	`{"jsonrpc":"2.0","id":1,"method":"valSlice","params":[null]}`,
	`{"jsonrpc":"2.0","id":1,"method":"valSlice","params":[[null]]}`,
	`{"jsonrpc":"2.0","id":1,"method":"valMap","params":[null]}`,
	`{"jsonrpc":"2.0","id":1,"method":"valMapVal","params":[{"k":null}]}`,
	`{"jsonrpc":"2.0","id":1,"method":"valMapVal","params":{"m":null}}`,
	`{"jsonrpc":"2.0","id":1,"method":"valOpt","params":[1,null]}`,
	`{"jsonrpc":"2.0","id":1,"method":"valOpt","params":{"a":1,"v":null}}`,
	`{"jsonrpc":"2.0","id":1,"method":"valOpt","params":[1]}`,
	`{"jsonrpc":"2.0","id":1,"method":"req","params":[null]}`,
	`{"jsonrpc":"2.0","id":1,"method":"req","params":[{"name":null}]}`,
	`{"jsonrpc":"2.0","id":1,"method":"nn","params":[null]}`,
	`{"jsonrpc":"2.0","id":1,"method":"nn","params":{"x":3,"y":null}}`,
	`{"jsonrpc":"2.0","id":1,"method":"nn","params":[3]}`,
	`{"jsonrpc":"2.0","id":1,"method":"raw","params":[null]}`,
	`{"jsonrpc":"2.0","id":1,"method":"fail","params":[null,null]}`,
	`{"jsonrpc":"2.0","id":1,"method":"allOpt","params":[null,null]}`,
	`[{"jsonrpc":"2.0","id":1,"method":"nn","params":[null]},{"jsonrpc":"2.0","id":2,"method":"val","params":{"v":null}},{"jsonrpc":"2.0","method":"req","params":[null],"id":3}]`,
	// JSON-RPC 2.0 specification examples not covered above
	`{"jsonrpc": "2.0", "method": 1, "params": "bar"}`,
	`{"jsonrpc": "2.0", "method": "foobar, "params": "bar", "baz]`,
	`[{"jsonrpc": "2.0", "method": "sum", "params": [1,2,4], "id": "1"},{"jsonrpc": "2.0", "method"]`,
	`{"jsonrpc":"2.0","method":1,"id":3}`,
	// hostile constants
	strings.Repeat("[", 100),
	strings.Repeat("[", 20000),
	strings.Repeat("[", 9999) + strings.Repeat("]", 9999),
	strings.Repeat("{\"a\":", 5000) + "1" + strings.Repeat("}", 5000),
	`{"jsonrpc":"2.0","id":1,"method":"raw","params":[` + strings.Repeat("[", 3000) + strings.Repeat("]", 3000) + `]}`,
	"{\"jsonrpc\":\"2.0\",\"method\":\"no\xffParams\",\"id\":1}",
	"{\"jsonrpc\":\"2.0\",\"method\":\"noParams\",\"id\":\"\xc3\x28\"}",
	"\xff\xfe\x00[",
	"\xef\xbb\xbf{\"jsonrpc\":\"2.0\",\"method\":\"noParams\",\"id\":1}",
	`{"jsonrpc":"2.0","method":"sub","params":[1e400,1],"id":1}`,
	`{"jsonrpc":"2.0","method":"raw","params":[1e400],"id":1e400}`,
	`{"jsonrpc":"2.0","method":"noParams","id":` + strings.Repeat("9", 400) + `}`,
	`{"jsonrpc":"2.0","method":"noParams","id":"` + strings.Repeat("i", 5000) + `"}`,
	`{"jsonrpc":"2.0","method":"noParams","id":-0}`,
	`{"jsonrpc":"2.0","method":"noParams","id":"\ud800"}`,
	`{"jsonrpc":"2.0","method":"noParams","id":1,"id":2}`,
	`{"JSONRPC":"2.0","METHOD":"noParams","ID":1}`,
	`{"jsonrpc":"2.0","method":"noParams","id":1} trailing`,
	`{"jsonrpc":"2.0","method":"noParams","id":1}{"jsonrpc":"2.0","method":"noParams","id":2}`,
	strings.Repeat(" ", 128) + `[{"jsonrpc":"2.0","method":"noParams","id":1}]`,
	strings.Repeat("\n", 4096) + `{"jsonrpc":"2.0","method":"noParams","id":1}`,
	`[` + strings.Repeat(`{"jsonrpc":"2.0","method":"noParams","id":null},`, 200) + `1]`,
	`[` + strings.Repeat(`1,`, 2000) + `1]`,
	``, ` `, `null`, `1`, `"x"`, `true`, `{}`, `[null]`, `[[]]`, `[{}]`, `{"id":1}`, `nul`, `{"jsonrpc":"2.0","method":"sub","params":{"minuend":1,"minuend":1,"subtrahend":0},"id":0}`,
	"{\"jsonrpc\":\"2.0\",\"method\":\"noParams\",\"id\":1,}",
	"{'jsonrpc':'2.0'}",
	"\x00",
}

var (
	fuzzOnce sync.Once
	fuzzH    *harness
)

// fuzzOne is the semantic oracle applied to arbitrary bytes: no panic, no hang, no error, output empty or valid
// JSON obeying the response grammar, batch ⇒ array, and – whenever the reference model can interpret the
// input – exactly the predicted responses and handler invocations. With a delivery the bytes are served in those
// segments and must additionally be answered like the same bytes served in one piece.
func fuzzOne(in []byte, dl *delivery) (string, string, *expectation) {
	fuzzOnce.Do(func() { fuzzH = newHarness(4, false) })
	h := fuzzH
	ex := refModel.doc(in)
	run := func(dl *delivery) (string, string, string) {
		h.rec.reset()
		res := h.callDelivered(trReader, in, dl)
		how := ""
		if dl != nil {
			how = fmt.Sprintf(" served in reads of %s", clipInts(res.reads))
		}
		switch {
		case res.hung:
			return "hang", fmt.Sprintf("no return within %v; input %q%s", hangTimeout, clip(in), how), ""
		case res.panicked != "":
			return "panic", fmt.Sprintf("%s; input %q%s", res.panicked, clip(in), how), ""
		case res.err != nil:
			return "error", fmt.Sprintf("%v; input %q%s", res.err, clip(in), how), ""
		}
		log := h.rec.snapshot()
		key, msg := verdict(ex, in, res.out, log, true, allowNeither())
		if key != "" {
			return key, msg + how, ""
		}
		return "", msg, behaviour(res.out, log)
	}
	key, msg, whole := run(nil)
	if key != "" || dl == nil {
		return key, msg, ex
	}
	key, msg, seg := run(dl)
	if key == "" && seg != whole {
		key, msg = "delivery-dependent", fmt.Sprintf("same bytes, segments %v: %s; input %q", dl.segs, firstDifference(whole, seg), clip(in))
	}
	return key, msg, ex
}

// fuzzDelivery turns the fuzzer's three segment sizes into a delivery (0 ends the list; the rest comes in one piece).
func fuzzDelivery(s1, s2, s3 uint16) *delivery {
	dl := &delivery{}
	for _, s := range []uint16{s1, s2, s3} {
		if s == 0 {
			break
		}
		dl.segs = append(dl.segs, int(s))
	}
	if len(dl.segs) == 0 {
		return nil
	}
	return dl
}

// deliverySeeds: large requests (position-dependent content) with the sizes of their first three segments.
var deliverySeeds = func() []struct {
	in   string
	segs [3]uint16
} {
	str := `{"jsonrpc":"2.0","id":7,"method":"ctxTwo","params":["` + posText(2000, 0, ".") + `",true]}`
	named := `{"jsonrpc":"2.0","id":"n","method":"req","params":{"r":{"name":"` + posText(5000, 17, " ") + `"}}}`
	items := make([]string, 300)
	for i := range items {
		items[i] = fmt.Sprintf(`{"k%d":["v%d","w"]}`, i, i)
	}
	raw := `{"jsonrpc":"2.0","id":1,"method":"raw","params":[[` + strings.Join(items, ",") + `]]}`
	calls := make([]string, 120)
	for i := range calls {
		calls[i] = fmt.Sprintf(`{"jsonrpc":"2.0","method":"sub","params":[%d,%d],"id":%d}`, 1000+i, i, i)
	}
	batch := `[` + strings.Join(calls, ",") + `]`
	var out []struct {
		in   string
		segs [3]uint16
	}
	for _, in := range []string{str, named, raw, batch, batch[:len(batch)-40], raw[:3000] + "}" + raw[3000:]} {
		for _, segs := range [][3]uint16{{0, 0, 0}, {1, 1, 1}, {128, 600, 100}, {128, 512, 1}, {1400, 1400, 200}, {700, 90, 0}, {511, 513, 1024}} {
			out = append(out, struct {
				in   string
				segs [3]uint16
			}{in, segs})
		}
	}
	return out
}()

func FuzzHandleReader(f *testing.F) {
	for _, s := range fuzzSeeds {
		f.Add([]byte(s), uint16(0), uint16(0), uint16(0))
	}
	for _, s := range deliverySeeds {
		f.Add([]byte(s.in), s.segs[0], s.segs[1], s.segs[2])
	}
	f.Fuzz(func(t *testing.T, in []byte, s1, s2, s3 uint16) {
		if key, msg, _ := fuzzOne(in, fuzzDelivery(s1, s2, s3)); key != "" {
			t.Fatalf("ORACLE[%s] %s", key, msg)
		}
	})
}

// TestPropSeedCorpus runs the fuzz target's oracle over its seed corpus in every tier (the native fuzzer itself
// only runs in the thorough tier) and records the evaluations.
func TestPropSeedCorpus(t *testing.T) {
	const rule = "deterministic: every seed of FuzzHandleReader (server_test.go literals, JSON-RPC spec examples, hostile constants; large requests " +
		"with the sizes of their first three segments) under the fuzz oracle"
	one := func(i int, s string, dl *delivery) {
		stats.Once(t, rule, func(c *stats.Case) {
			key, msg, ex := fuzzOne([]byte(s), dl)
			if key != "" {
				t.Fatalf("ORACLE[%s] seed %d: %s", key, i, msg)
			}
			c.Fp("%s", s)
			if dl != nil {
				c.Fp("%v", dl.segs)
				c.Label("delivery:segmented")
			}
			if ex.amb != "" {
				c.Label("oracle:grammar-only(ambiguous input)")
			} else {
				c.Label("oracle:full")
			}
			for k := range ex.classes {
				c.Label("known-class-hit:" + k)
			}
			if ex.validJSON {
				c.NonTrivial("valid-json")
			}
		})
	}
	for i, s := range fuzzSeeds {
		one(i, s, nil)
	}
	for i, s := range deliverySeeds {
		one(len(fuzzSeeds)+i, s.in, fuzzDelivery(s.segs[0], s.segs[1], s.segs[2]))
	}
}

// ---------------------------------------------------------------- known findings (deterministic witnesses)

func witness(t *testing.T, key, in string, buggy func(out string) bool) {
	if !stats.Known(key) {
		t.Skipf("%s is not listed as known", key)
	}
	h := newHarness(1, false)
	res := h.call(trReader, []byte(in))
	if res.hung || res.panicked != "" || res.err != nil {
		t.Fatalf("ORACLE[witness] %s: unexpected failure %+v", key, res)
	}
	rep := buggy(string(res.out))
	t.Logf("%s: input %q -> %q (reproduced=%v)", key, in, res.out, rep)
	stats.KnownFindingWitness(t, key, rep)
}

func TestKnownNotificationAnswered(t *testing.T) {
	witness(t, kNotif, `{"jsonrpc":"2.0","method":"doesNotExist"}`, func(out string) bool { return out != "" })
}

func TestKnownNotificationBatchAnswered(t *testing.T) {
	witness(t, kNotif, `[{"jsonrpc":"2.0","method":"noParams"},{"jsonrpc":"2.0","method":"sub","params":[1]}]`, func(out string) bool { return out != "" })
}

func TestKnownNilResultOmitted(t *testing.T) {
	witness(t, kNilRes, `{"jsonrpc":"2.0","method":"nilResult","id":1}`, func(out string) bool { return !strings.Contains(out, `"result"`) })
}

func TestKnownBatchAfterLongWhitespace(t *testing.T) {
	witness(t, kLongWS, strings.Repeat(" ", 128)+`[{"jsonrpc":"2.0","method":"noParams","id":1}]`, func(out string) bool { return strings.Contains(out, "-32700") })
}
