package c11

// rapid generator of request documents from a JSON grammar (DESIGN §4 C11).

import (
	"fmt"
	"strconv"
	"strings"

	"pgregory.net/rapid"

	"verif/harness/internal/stats"
)

type gen struct {
	rt     *rapid.T
	c      *stats.Case
	strict bool // no tolerance / ambiguous classes (used where the invocation log must be exactly predictable)
	nextID int64
	ids    []*jv
	probe  *model // model without relaxations, used to classify drawn entries for known-finding exclusion
}

func newGen(rt *rapid.T, c *stats.Case, strict bool) *gen {
	return &gen{rt: rt, c: c, strict: strict, nextID: 1, probe: &model{known: func(string) bool { return false }}}
}

func (g *gen) pick(label string, weights ...int) int {
	total := 0
	for _, w := range weights {
		total += w
	}
	// rapid's integer generators favour small values; spread them so the weights mean what they say
	// (0 still maps to the first option, which is where shrinking ends up)
	u := rapid.Uint64().Draw(g.rt, label)
	x := int(u) // small raw values select directly, so shrinking can steer the choice
	if u >= uint64(total) {
		x = int((u * 0x9E3779B97F4A7C15 >> 33) % uint64(total))
	}
	for i, w := range weights {
		if x < w {
			return i
		}
		x -= w
	}
	return len(weights) - 1
}

// uniform draws an index in [0,n) without rapid's small-value bias.
func (g *gen) uniform(label string, n int) int {
	w := make([]int, n)
	for i := range w {
		w[i] = 1
	}
	return g.pick(label, w...)
}

func (g *gen) intn(label string, lo, hi int) int { return rapid.IntRange(lo, hi).Draw(g.rt, label) }

func sample[T any](g *gen, label string, xs ...T) T { return rapid.SampledFrom(xs).Draw(g.rt, label) }

var goodStrings = []string{"", "a", "héllo", `quo"te\back`, "new\nline\ttab", "\u0000\u001f", "<&>'", "日本語 ✓ 😀", "null", "2.0",
	strings.Repeat("long-", 60)}

func (g *gen) goodInt() *jv {
	switch g.pick("intkind", 6, 2, 2) {
	case 0:
		return jint(int64(g.intn("smallint", -3, 12)))
	case 1:
		return jint(sample(g, "edgeint", int64(9223372036854775807), int64(-9223372036854775808), int64(4294967296), int64(-32600), int64(-32000), int64(-32768), int64(-32769)))
	default:
		return jint(rapid.Int64().Draw(g.rt, "int64"))
	}
}

func (g *gen) goodStruct() *jv {
	a := jint(int64(g.intn("A", 1, 9)))
	switch g.pick("structform", 5, 2, 2, 1) {
	case 0:
		return jobj(mem("a", a), mem("b", jstr(sample(g, "B", goodStrings...))))
	case 1:
		return jobj(mem("a", a))
	case 3: // null for a string field: encoding/json leaves it ""
		g.c.Label("nested-null:struct-field")
		return jobj(mem("a", a), mem("b", jnull()))
	default:
		return jobj(mem("b", jstr(sample(g, "B", goodStrings...))), mem("a", a))
	}
}

func (g *gen) anyJSON(depth int) *jv {
	w := []int{2, 1, 1, 4, 4, 3, 3, 1}
	if depth <= 0 {
		w[5], w[6], w[7] = 0, 0, 0
	}
	switch g.pick("anykind", w...) {
	case 0:
		return jnull()
	case 1:
		return jbool(true)
	case 2:
		return jbool(false)
	case 3:
		return jnum(sample(g, "numlit", "0", "-0", "1", "-1", "1.5", "-2.50", "1e400", "1E-7", "1e+2", "0.0", "123456789012345678901234567890",
			"-9223372036854775809", "3.141592653589793238462643383279", "1e-400"))
	case 4:
		return jstr(sample(g, "str", goodStrings...))
	case 5:
		n := g.intn("arrlen", 0, 3)
		v := jarr()
		for i := 0; i < n; i++ {
			v.a = append(v.a, g.anyJSON(depth-1))
		}
		return v
	case 6:
		n := g.intn("objlen", 0, 3)
		v := jobj()
		for i := 0; i < n; i++ {
			v.o = append(v.o, mem(sample(g, "okey", "k", "a", "b", "id", "method", "", "ключ", "x y")+strconv.Itoa(i), g.anyJSON(depth-1)))
		}
		return v
	default: // deep nesting chain
		n := g.intn("deep", 20, 300)
		v := jint(1)
		for i := 0; i < n; i++ {
			if i%2 == 0 {
				v = jarr(v)
			} else {
				v = jobj(mem("n", v))
			}
		}
		return v
	}
}

func (g *gen) goodValue(t ptype) *jv {
	switch t {
	case tInt:
		return g.goodInt()
	case tStr:
		return jstr(sample(g, "gstr", goodStrings...))
	case tBool:
		return jbool(rapid.Bool().Draw(g.rt, "gbool"))
	case tPtrInt:
		if g.pick("ptrnull", 4, 1) == 1 {
			return jnull()
		}
		return g.goodInt()
	case tPtrStr:
		if g.pick("ptrnull", 4, 1) == 1 {
			return jnull()
		}
		return jstr(sample(g, "gstr", goodStrings...))
	case tInts:
		if g.pick("slicenull", 6, 1) == 1 {
			return jnull()
		}
		n := g.intn("nints", 0, 4)
		v := jarr()
		for i := 0; i < n; i++ {
			if g.pick("elemnull", 9, 1) == 1 { // null element of []int: encoding/json leaves it 0
				g.c.Label("nested-null:slice-element")
				v.a = append(v.a, jnull())
				continue
			}
			v.a = append(v.a, g.goodInt())
		}
		return v
	case tStrs:
		if g.pick("slicenull", 6, 1) == 1 {
			return jnull()
		}
		n := g.intn("nstrs", 0, 3)
		v := jarr()
		for i := 0; i < n; i++ {
			if g.pick("elemnull", 9, 1) == 1 { // null element of []string: encoding/json leaves it ""
				g.c.Label("nested-null:slice-element")
				v.a = append(v.a, jnull())
				continue
			}
			v.a = append(v.a, jstr(sample(g, "gstr", goodStrings...)))
		}
		return v
	case tStruct:
		return g.goodStruct()
	case tPtrStruct:
		if g.pick("ptrnull", 4, 1) == 1 {
			return jnull()
		}
		return g.goodStruct()
	case tStructs:
		if g.pick("slicenull", 6, 1) == 1 {
			return jnull()
		}
		n := g.intn("nstructs", 0, 3)
		v := jarr()
		for i := 0; i < n; i++ {
			v.a = append(v.a, g.goodStruct())
		}
		return v
	case tMapPtr:
		if g.pick("mapnull", 6, 1) == 1 {
			return jnull()
		}
		n := g.intn("nmap", 0, 3)
		v := jobj()
		for i := 0; i < n; i++ {
			var e *jv
			if g.pick("mapvalnull", 4, 1) == 1 {
				e = jnull()
			} else {
				e = g.goodStruct()
			}
			v.o = append(v.o, mem(sample(g, "mkey", "k", "", "a", "ключ")+strconv.Itoa(i), e))
		}
		return v
	case tNoNull:
		return g.goodInt()
	case tMapStruct:
		if g.pick("mapnull", 6, 1) == 1 {
			return jnull()
		}
		n := g.intn("nmap", 0, 3)
		v := jobj()
		for i := 0; i < n; i++ {
			v.o = append(v.o, mem(sample(g, "mkey", "k", "", "a", "ключ")+strconv.Itoa(i), g.goodStruct()))
		}
		return v
	case tReqStruct:
		return jobj(mem("name", jstr(sample(g, "reqname", goodStrings[1:]...))))
	default:
		return g.anyJSON(3)
	}
}

// badValue returns a value that is unambiguously outside the parameter's type, or nil if every JSON value is acceptable.
func (g *gen) badValue(t ptype) *jv {
	str, num, fl, arr, obj, tr := jstr("x"), jint(5), jnum("1.5"), jarr(jint(1)), jobj(mem("a", jint(1))), jbool(true)
	switch t {
	case tNoNull:
		return sample(g, "badnn", str, tr, fl, arr, obj, jnum("9223372036854775808"))
	case tMapStruct:
		return sample(g, "badmapval", num, str, arr, jobj(mem("k", jint(5))), jobj(mem("k", jobj(mem("a", jint(0))))),
			jobj(mem("k", jnull())), jobj(mem("j", g.goodStruct()), mem("k", jnull())))
	case tReqStruct:
		return sample(g, "badreq", num, str, arr, jobj(), jobj(mem("name", jstr(""))), jobj(mem("name", jnull())), jobj(mem("name", jint(5))))
	case tInt, tPtrInt:
		return sample(g, "badint", str, tr, fl, arr, obj, jnum("9223372036854775808"), jnum("-1.25e-3"), jstr("7"))
	case tStr, tPtrStr:
		return sample(g, "badstr", num, tr, arr, obj)
	case tBool:
		return sample(g, "badbool", num, jstr("true"), arr, obj)
	case tInts:
		return sample(g, "badints", num, str, obj, jarr(jint(1), jstr("x")), jarr(fl), tr)
	case tStrs:
		return sample(g, "badstrs", num, str, obj, jarr(jstr("x"), jint(1)), jarr(arr), tr)
	case tStruct, tPtrStruct:
		return sample(g, "badstruct", num, str, arr, tr, jobj(mem("a", jint(0))), jobj(mem("a", jint(-3)), mem("b", jstr("x"))),
			jobj(mem("a", jstr("x"))), jobj(mem("b", jstr("only-b"))), jobj(mem("a", jint(1)), mem("b", jint(2))), jobj(), jobj(mem("a", jnull()), mem("b", jstr("x"))))
	case tStructs:
		return sample(g, "badstructs", num, str, obj, jarr(jobj(mem("a", jint(0)))), jarr(jint(5)), jarr(jobj(mem("a", jint(2))), jobj(mem("b", jstr("x")))), jarr(jnull()), jarr(jobj(mem("a", jint(2))), jnull()))
	case tMapPtr:
		return sample(g, "badmap", num, str, arr, jobj(mem("k", jint(5))), jobj(mem("k", jobj(mem("a", jint(0))))), jobj(mem("k", jnull()), mem("j", jobj())))
	}
	return nil
}

func (g *gen) shuffle(ms []member) []member {
	if len(ms) < 2 {
		return ms
	}
	perm := rapid.Permutation(ms).Draw(g.rt, "order")
	return perm
}

// callArgs draws the logical argument list (a prefix of the declared parameters, all required ones included).
func (g *gen) callArgs(sp *mspec) []*jv {
	n, req := len(sp.params), sp.required()
	k := n
	if n > req && g.pick("tail", 3, 2) == 1 {
		k = g.intn("nargs", req, n)
	}
	vals := make([]*jv, k)
	for i := 0; i < k; i++ {
		vals[i] = g.goodValue(sp.params[i].t)
	}
	return vals
}

func positional(vals []*jv) *jv { return jarr(vals...) }

// labelOmittedTail records the dimension "k of the declared parameters supplied by position, the optional tail left
// out": by handler kind (leading context or not) and by whether the first omitted parameter's Go type differs from
// the type of the handler argument just before it (the supplied parameter k-1).
func labelOmittedTail(c *stats.Case, sp *mspec, k int) {
	if k <= 0 || k >= len(sp.params) {
		return
	}
	kind := "plain-handler"
	if sp.ctx {
		kind = "ctx-handler"
	}
	c.Label("omitted-optional-tail(positional):" + kind)
	if sp.params[k].t != sp.params[k-1].t {
		c.Label("omitted-optional-tail(positional):" + kind + ",type-differs-from-preceding-argument")
	}
}

// pickSpec draws the method of a call: the hand-written binding shapes or the fixed part of the signature matrix.
func (g *gen) pickSpec(specs, matrix []*mspec) *mspec {
	if len(matrix) > 0 && g.pick("table", 3, 2) == 1 {
		return matrix[g.uniform("mxmethod", len(matrix))]
	}
	return specs[g.uniform("method", len(specs))]
}

// named renders the same logical arguments by name; optional parameters whose value is absent are left out.
func (g *gen) named(sp *mspec, vals []*jv, drop map[int]bool) *jv {
	var ms []member
	for i, v := range vals {
		if drop[i] {
			continue
		}
		ms = append(ms, mem(sp.params[i].name, v))
	}
	return jobj(g.shuffle(ms)...)
}

// paramsFor draws the params member for a call of a known method; nil = member omitted. scen labels the draw.
func (g *gen) paramsFor(sp *mspec) (p *jv, scen string) {
	n, req := len(sp.params), sp.required()
	good := func() (*jv, string) {
		vals := g.callArgs(sp)
		if len(vals) == 0 {
			switch g.pick("emptyform", 2, 1, 1) {
			case 0:
				return nil, "omitted"
			case 1:
				return jarr(), "empty-array"
			default:
				return jobj(), "empty-object"
			}
		}
		if g.pick("form", 1, 1) == 0 {
			labelOmittedTail(g.c, sp, len(vals))
			return positional(vals), "positional"
		}
		// by name an optional parameter in the middle may be left out too
		drop := map[int]bool{}
		for i := range vals {
			if sp.params[i].opt && g.pick("dropopt", 3, 1) == 1 {
				drop[i] = true
			}
		}
		return g.named(sp, vals, drop), "named"
	}
	w := []int{54, 3, 2, 2, 5, 5, 5, 4, 9, 3, 2, 10}
	switch g.pick("pscen", w...) {
	case 11: // an explicit null for one parameter (any kind, required or optional), the others good
		if n == 0 {
			return good()
		}
		k := n
		if n > req && g.pick("tail", 2, 1) == 1 {
			k = g.intn("nargs", max(req, 1), n)
		}
		vals := make([]*jv, k)
		for i := range vals {
			vals[i] = g.goodValue(sp.params[i].t)
		}
		at := g.uniform("nullat", k)
		vals[at] = jnull()
		if g.pick("allnull", 9, 1) == 1 {
			for i := range vals {
				vals[i] = jnull()
			}
		}
		if g.pick("form", 1, 1) == 0 {
			labelOmittedTail(g.c, sp, len(vals))
			return positional(vals), "null-arg(positional)"
		}
		return g.named(sp, vals, nil), "null-arg(named)"
	case 1:
		return nil, "omitted"
	case 2:
		return jarr(), "empty-array"
	case 3:
		return jobj(), "empty-object"
	case 4: // too few by position
		if req == 0 {
			return good()
		}
		k := g.intn("few", 0, req-1)
		vals := make([]*jv, k)
		for i := range vals {
			vals[i] = g.goodValue(sp.params[i].t)
		}
		return positional(vals), "too-few"
	case 5: // too many by position
		vals := make([]*jv, 0, n+2)
		for i := 0; i < n; i++ {
			vals = append(vals, g.goodValue(sp.params[i].t))
		}
		for i := g.intn("extra", 1, 2); i > 0; i-- {
			vals = append(vals, g.anyJSON(1))
		}
		return positional(vals), "too-many"
	case 6: // unknown name
		vals := g.callArgs(sp)
		o := g.named(sp, vals, nil)
		o.o = append(o.o, mem(sample(g, "junk", "junk", "A", "minuend ", "", "id", "params"), g.anyJSON(1)))
		o.o = g.shuffle(o.o)
		return o, "unknown-name"
	case 7: // required parameter missing by name
		if req == 0 {
			return good()
		}
		vals := make([]*jv, n)
		for i := range vals {
			vals[i] = g.goodValue(sp.params[i].t)
		}
		miss := g.intn("miss", 0, req-1)
		o := g.named(sp, vals, map[int]bool{miss: true})
		if len(o.o) == 0 {
			o.o = append(o.o, mem("junk", jint(1)))
		}
		return o, "missing-required"
	case 8: // one ill-typed / invalid value
		if n == 0 {
			return positional([]*jv{g.anyJSON(1)}), "too-many"
		}
		vals := make([]*jv, n)
		for i := range vals {
			vals[i] = g.goodValue(sp.params[i].t)
		}
		at := g.intn("badat", 0, n-1)
		bv := g.badValue(sp.params[at].t)
		if bv == nil {
			for at = 0; at < n && bv == nil; at++ {
				bv = g.badValue(sp.params[at].t)
			}
			at--
			if bv == nil {
				return good()
			}
		}
		vals[at] = bv
		if g.pick("form", 1, 1) == 0 {
			return positional(vals), "bad-value"
		}
		return g.named(sp, vals, nil), "bad-value"
	case 9:
		return sample(g, "scalarparams", jint(5), jstr("x"), jbool(true), jbool(false), jnum("1.5")), "scalar-params"
	case 10:
		if g.strict {
			return nil, "omitted"
		}
		return jnull(), "null-params"
	}
	return good()
}

func (g *gen) freshID() *jv {
	v := jint(g.nextID)
	g.nextID++
	return v
}

// idMember returns the id member value (nil = absent).
func (g *gen) idMember() (*jv, string) {
	w := []int{46, 10, 14, 4, 12, 6, 6}
	if g.strict {
		w[3], w[5] = 0, 0
	}
	var v *jv
	kind := ""
	switch g.pick("idkind", w...) {
	case 0:
		v, kind = g.freshID(), "int"
	case 1:
		v, kind = jstr("s"+strconv.FormatInt(g.nextID, 10)), "string"
		g.nextID++
	case 2:
		return nil, "absent"
	case 3:
		return jnull(), "null"
	case 4:
		kind = "special"
		v = sample(g, "specialid", jint(0), jint(-1), jnum("-0"), jnum("123456789012345678901234567890"), jnum("1e2"), jnum("1E400"),
			jstr(""), jstr("ид✓😀"), jstr("a\"b\\c\n\u0000"), jstr("<&>"), jstr("1"), jstr(strings.Repeat("i", 300)), jstr("null"))
		if g.strict && v.k == '#' && !intLit.MatchString(v.s) {
			v = jint(0)
		}
		if len(g.ids) > 0 && g.pick("reuse", 2, 1) == 1 {
			v, kind = g.ids[g.intn("reuseid", 0, len(g.ids)-1)], "duplicate"
		}
	case 5:
		v, kind = sample(g, "floatid", jnum("1.5"), jnum("1.0"), jnum("-0.0"), jnum("44.37"), jnum("1e-2"), jnum("2.5e3")), "float"
	default:
		v, kind = sample(g, "badid", jbool(true), jbool(false), jarr(jint(37)), jarr(), jobj(mem("44", jstr("37"))), jobj()), "ill-typed"
	}
	g.ids = append(g.ids, v)
	return v, kind
}

func (g *gen) nonObjectEntry() *jv {
	switch g.pick("nonobj", 3, 2, 2, 1, 2, 2, 1) {
	case 0:
		return jint(int64(g.intn("n", 0, 3)))
	case 1:
		return jstr(sample(g, "s", "x", "", "2.0", "noParams"))
	case 2:
		return jnull()
	case 3:
		return jbool(rapid.Bool().Draw(g.rt, "b"))
	case 4:
		return jarr()
	case 5: // nested batch
		return jarr(g.requestObject())
	default:
		return jarr(jint(1), jint(2))
	}
}

var unknownMethods = []string{"nope", "noparams", "NOPARAMS", "sub ", " sub", "rpc.discover", "0", "null", "uni", "методъ", "no\u0000Params"}

// requestObject draws one object-shaped batch entry / single request.
func (g *gen) requestObject() *jv {
	var ms []member
	switch g.pick("ver", 88, 3, 2, 2, 2, 1, 2) {
	case 0:
		ms = append(ms, mem("jsonrpc", jstr("2.0")))
	case 1: // missing
	case 2:
		ms = append(ms, mem("jsonrpc", jstr("1.0")))
	case 3:
		ms = append(ms, mem("jsonrpc", jstr(sample(g, "verstr", "", "2", "2.00", " 2.0", "2.0 ", "2,0"))))
	case 4:
		ms = append(ms, mem("jsonrpc", jnum(sample(g, "vernum", "2.0", "2", "2e0"))))
	case 5:
		ms = append(ms, mem("jsonrpc", jnull()))
	default:
		ms = append(ms, mem("jsonrpc", sample(g, "verbad", jbool(true), jarr(jstr("2.0")), jobj(), jobj(mem("v", jstr("2.0"))))))
	}
	var sp *mspec
	switch g.pick("meth", 78, 8, 3, 3, 3, 2, 3) {
	case 0:
		sp = g.pickSpec(baseSpecs, matrixSpecs)
		if sp.name == "nilResult" && stats.Known(kNilRes) {
			g.c.Excluded(kNilRes)
			sp = specByName["noParams"]
		}
		ms = append(ms, mem("method", jstr(sp.name)))
	case 1:
		ms = append(ms, mem("method", jstr(sample(g, "unknown", unknownMethods...))))
	case 2: // missing
	case 3:
		ms = append(ms, mem("method", jstr("")))
	case 4:
		ms = append(ms, mem("method", jnum(sample(g, "methnum", "1", "0", "1.5"))))
	case 5:
		ms = append(ms, mem("method", jnull()))
	default:
		ms = append(ms, mem("method", sample(g, "methbad", jbool(true), jarr(jstr("sub")), jobj(), jobj(mem("name", jstr("sub"))))))
	}
	if sp != nil {
		p, scen := g.paramsFor(sp)
		if p != nil {
			ms = append(ms, mem("params", p))
		}
		g.c.Label("params:" + scen)
		g.c.Label("method:" + sp.shape)
		if sp.matrix {
			g.c.Labelf("matrix:params=%d,optional=%d", len(sp.params), len(sp.params)-sp.required())
		}
	} else {
		switch g.pick("freeparams", 4, 2, 1, 1, 1, 1, 1) {
		case 0:
		case 1:
			ms = append(ms, mem("params", jarr(jint(1), jint(2))))
		case 2:
			ms = append(ms, mem("params", jobj(mem("x", jint(1)))))
		case 3:
			ms = append(ms, mem("params", jarr()))
		case 4:
			ms = append(ms, mem("params", sample(g, "freescalar", jint(44), jstr("44"), jbool(true))))
		case 5:
			if !g.strict {
				ms = append(ms, mem("params", jnull()))
			}
		default:
			ms = append(ms, mem("params", g.anyJSON(2)))
			if k := ms[len(ms)-1].v.k; g.strict && k == 'n' {
				ms = ms[:len(ms)-1]
			}
		}
	}
	id, idKind := g.idMember()
	if id != nil {
		ms = append(ms, mem("id", id))
	}
	g.c.Label("id:" + idKind)
	ms = g.shuffle(ms)
	// extra members, duplicated members
	switch g.pick("extra", 86, 8, 4, 2) {
	case 1:
		ms = append(ms, mem(sample(g, "extraname", "extra", "result", "error", "meta", ""), g.anyJSON(1)))
		g.c.Label("envelope:extra-member")
	case 2:
		if len(ms) > 0 {
			d := ms[g.intn("dup", 0, len(ms)-1)]
			at := g.intn("dupat", 0, len(ms))
			ms = append(ms[:at:at], append([]member{d}, ms[at:]...)...)
			g.c.Label("envelope:duplicate-member-same-value")
		}
	case 3:
		if !g.strict {
			switch g.pick("ambkind", 1, 1) {
			case 0:
				ms = append(ms, mem(sample(g, "dupname", "method", "id", "jsonrpc", "params"), g.anyJSON(1)))
				g.c.Label("envelope:duplicate-member-other-value")
			default:
				ms = append(ms, mem(sample(g, "foldname", "Method", "ID", "JSONRPC", "Params", "paramſ"), g.anyJSON(1)))
				g.c.Label("envelope:case-folded-name")
			}
		}
	}
	v := jobj(ms...)
	// known-finding exclusion by construction
	if stats.Known(kNotif) {
		ex := &expectation{classes: map[string]bool{}}
		g.probe.entry(v, false, ex)
		if ex.classes[kNotif] && ex.amb == "" {
			g.c.Excluded(kNotif)
			v.o = append(v.o, mem("id", g.freshID()))
		}
	}
	return v
}

func (g *gen) entry() *jv {
	if g.pick("entrykind", 90, 10) == 1 {
		return g.nonObjectEntry()
	}
	return g.requestObject()
}

// ---------------------------------------------------------------- rendering

type style struct {
	ws  int // 0 compact, 1 spaces after separators, 2 newlines and tabs everywhere
	esc int // 0 minimal escapes, 1 every non-ASCII rune and '/' escaped
}

func quoteJSON(s string, esc int) string {
	var sb strings.Builder
	sb.WriteByte('"')
	for _, r := range s {
		switch {
		case r == '"':
			sb.WriteString(`\"`)
		case r == '\\':
			sb.WriteString(`\\`)
		case r == '\n':
			sb.WriteString(`\n`)
		case r == '\t' && esc == 1:
			sb.WriteString(`\t`)
		case r < 0x20:
			fmt.Fprintf(&sb, `\u%04x`, r)
		case r == '/' && esc == 1:
			sb.WriteString(`\/`)
		case r >= 0x80 && esc == 1:
			if r > 0xFFFF {
				r -= 0x10000
				fmt.Fprintf(&sb, `\u%04X\u%04x`, 0xD800+(r>>10), 0xDC00+(r&0x3FF))
			} else {
				fmt.Fprintf(&sb, `\u%04X`, r)
			}
		default:
			sb.WriteRune(r)
		}
	}
	sb.WriteByte('"')
	return sb.String()
}

func render(v *jv, st style, sb *strings.Builder) {
	sep := func(after byte) {
		switch st.ws {
		case 1:
			if after == ',' || after == ':' {
				sb.WriteByte(' ')
			}
		case 2:
			sb.WriteString(" \r\n\t")
		}
	}
	switch v.k {
	case 'n':
		sb.WriteString("null")
	case 't':
		sb.WriteString("true")
	case 'f':
		sb.WriteString("false")
	case '#':
		sb.WriteString(v.s)
	case 's':
		sb.WriteString(quoteJSON(v.s, st.esc))
	case 'a':
		sb.WriteByte('[')
		sep('[')
		for i, x := range v.a {
			if i > 0 {
				sb.WriteByte(',')
				sep(',')
			}
			render(x, st, sb)
		}
		sep(']')
		sb.WriteByte(']')
	case 'o':
		sb.WriteByte('{')
		sep('{')
		for i, m := range v.o {
			if i > 0 {
				sb.WriteByte(',')
				sep(',')
			}
			sb.WriteString(quoteJSON(m.key, st.esc))
			if st.ws == 2 {
				sep(' ')
			}
			sb.WriteByte(':')
			sep(':')
			render(m.v, st, sb)
		}
		sep('}')
		sb.WriteByte('}')
	}
}

func renderString(v *jv, st style) string {
	var sb strings.Builder
	render(v, st, &sb)
	return sb.String()
}

// ---------------------------------------------------------------- documents

type docInfo struct {
	kind string
	tree *jv // nil for byte-mutated documents
}

func (g *gen) style() style {
	return style{ws: g.pick("ws", 5, 3, 2), esc: g.pick("esc", 3, 1)}
}

// document draws a complete input.
func (g *gen) document() ([]byte, docInfo) {
	var v *jv
	info := docInfo{}
	switch g.pick("dockind", 44, 42, 4, 9, 1) {
	case 0:
		v, info.kind = g.requestObject(), "single"
	case 1:
		n := 0
		switch g.pick("batchsize", 3, 70, 20, 7) {
		case 0:
			n = 0
		case 1:
			n = g.intn("n", 1, 4)
		case 2:
			n = g.intn("n", 5, 9)
		default:
			n = g.intn("n", 10, 30)
		}
		v = jarr()
		for i := 0; i < n; i++ {
			v.a = append(v.a, g.entry())
		}
		info.kind = "batch"
		if n == 0 {
			info.kind = "empty-batch"
		}
	case 2:
		v = sample(g, "toplevel", jnull(), jint(1), jnum("1.5"), jstr("noParams"), jstr(""), jbool(true), jbool(false), jobj())
		info.kind = "toplevel-non-request"
	case 3:
		// a rendered request damaged at byte level
		if g.pick("brokenbase", 1, 1) == 0 {
			v = g.requestObject()
		} else {
			v = jarr(g.entry(), g.entry())
		}
		text := []byte(renderString(v, g.style()))
		text, info.kind = g.damage(text, g.intn("at", 0, len(text)-1))
		return text, info
	default:
		info.kind = "whitespace-only"
		return []byte(sample(g, "wsonly", "", " ", "\n", " \t\r\n ")), info
	}
	info.tree = v
	text := renderString(v, g.style())
	// leading whitespace
	lead := ""
	switch g.pick("lead", 78, 10, 9, 3) {
	case 1:
		lead = sample(g, "leadws", " ", "\n", "\t", "\r\n", " \r\t\n", "  \n\n")
	case 2:
		lead = strings.Repeat(sample(g, "leadch", " ", "\n", "\t"), sample(g, "leadn", 126, 127, 128, 129, 130, 255, 256, 257, 511, 512, 513))
	case 3:
		lead = strings.Repeat(" ", g.intn("leadlong", 100, 5000))
	}
	if len(lead) >= 128 && v.k == 'a' && stats.Known(kLongWS) {
		g.c.Excluded(kLongWS)
		lead = lead[:127]
	}
	if lead != "" {
		g.c.Labelf("leading-ws:%s", bucket(len(lead)))
	}
	trail := ""
	w := []int{88, 6, 2, 2, 2}
	if g.strict {
		w = []int{94, 6, 0, 0, 0}
	}
	switch g.pick("trail", w...) {
	case 1:
		trail = sample(g, "trailws", " ", "\n", " \r\n\t")
	case 2:
		trail = sample(g, "garbage", "x", "]", "}", ",", "\x00", "null", " 1")
		g.c.Label("trailing:garbage")
	case 3:
		trail = sample(g, "seconddoc", "", " ", "\n") + renderString(g.requestObject(), style{})
		g.c.Label("trailing:second-document")
	case 4:
		trail = sample(g, "secondbatch", "[]", "[1]", "{}")
		g.c.Label("trailing:second-document")
	}
	return []byte(lead + text + trail), info
}

// damage breaks a rendered document at byte level at the given position.
func (g *gen) damage(text []byte, at int) ([]byte, string) {
	switch g.pick("damage", 5, 2, 2, 2) {
	case 0:
		return text[:at], "damaged:truncated"
	case 1:
		text[at] = sample(g, "repl", byte('{'), byte('}'), byte('['), byte(']'), byte(','), byte(':'), byte('"'), byte('x'), byte(0), byte(0xff), byte('\''))
		return text, "damaged:byte-replaced"
	case 2:
		ins := sample(g, "ins", ",", "}", "]", "\"", "{", "[", "\\", "/*c*/", "\xef\xbb\xbf", "NaN")
		return append(text[:at:at], append([]byte(ins), text[at:]...)...), "damaged:bytes-inserted"
	default:
		return append(text[:at:at], text[at+1:]...), "damaged:byte-deleted"
	}
}

func bucket(n int) string {
	switch {
	case n < 16:
		return "<16"
	case n < 128:
		return "16..127"
	case n == 128:
		return "128"
	case n <= 512:
		return "129..512"
	default:
		return ">512"
	}
}
