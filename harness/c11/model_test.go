package c11

// Reference model of a JSON-RPC 2.0 dispatcher for the harness method table.
//
// The model never looks at the server: it parses the request bytes into an ordered JSON tree (jv),
// classifies every entry by the rules of the JSON-RPC 2.0 specification and the method table's
// declared parameter lists, and produces for each entry the list of acceptable outcomes
// (response key, invocation key). Where the specification (or the tolerances fixed in DESIGN §4 C11)
// allows several behaviours, every one of them is listed; where the meaning of the input is not
// defined by JSON/JSON-RPC (differing duplicate keys, invalid UTF-8, null for a non-nullable Go
// parameter, …) the document is declared ambiguous and only the response grammar is checked.

import (
	"bytes"
	"encoding/json"
	"fmt"
	"io"
	"math/big"
	"regexp"
	"sort"
	"strconv"
	"strings"
	"unicode/utf8"
)

// ---------------------------------------------------------------- JSON tree

type jv struct {
	k byte // 'n' null, 't' true, 'f' false, '#' number (s = literal), 's' string (s = decoded), 'a', 'o'
	s string
	a []*jv
	o []member
}

type member struct {
	key string
	v   *jv
}

func jnull() *jv { return &jv{k: 'n'} }
func jbool(b bool) *jv {
	if b {
		return &jv{k: 't'}
	}
	return &jv{k: 'f'}
}
func jnum(lit string) *jv      { return &jv{k: '#', s: lit} }
func jint(i int64) *jv         { return &jv{k: '#', s: strconv.FormatInt(i, 10)} }
func jstr(s string) *jv        { return &jv{k: 's', s: s} }
func jarr(xs ...*jv) *jv       { return &jv{k: 'a', a: xs} }
func jobj(ms ...member) *jv    { return &jv{k: 'o', o: ms} }
func mem(k string, v *jv) member { return member{k, v} }

func isWS(c byte) bool { return c == ' ' || c == '\t' || c == '\r' || c == '\n' }

type parseBug string

// parser turns text that encoding/json already accepted into a jv tree (ordered members, duplicates kept).
type parser struct {
	b    []byte
	i    int
	repl bool // some decoded string contains U+FFFD (invalid UTF-8 or lone surrogate in the input)
}

func (p *parser) ws() {
	for p.i < len(p.b) && isWS(p.b[p.i]) {
		p.i++
	}
}

func (p *parser) bug(what string) {
	panic(parseBug(fmt.Sprintf("harness parser: %s at %d in %.200q", what, p.i, p.b)))
}

func (p *parser) str() string {
	if p.i >= len(p.b) || p.b[p.i] != '"' {
		p.bug("expected string")
	}
	j := p.i + 1
	for j < len(p.b) && p.b[j] != '"' {
		if p.b[j] == '\\' {
			j++
		}
		j++
	}
	if j >= len(p.b) {
		p.bug("unterminated string")
	}
	lit := p.b[p.i : j+1]
	p.i = j + 1
	var s string
	if err := json.Unmarshal(lit, &s); err != nil {
		p.bug("string literal " + err.Error())
	}
	if strings.ContainsRune(s, utf8.RuneError) {
		p.repl = true
	}
	return s
}

func (p *parser) value() *jv {
	p.ws()
	if p.i >= len(p.b) {
		p.bug("unexpected end")
	}
	switch c := p.b[p.i]; {
	case c == '{':
		p.i++
		v := &jv{k: 'o'}
		p.ws()
		if p.i < len(p.b) && p.b[p.i] == '}' {
			p.i++
			return v
		}
		for {
			p.ws()
			k := p.str()
			p.ws()
			if p.i >= len(p.b) || p.b[p.i] != ':' {
				p.bug("expected colon")
			}
			p.i++
			v.o = append(v.o, member{k, p.value()})
			p.ws()
			if p.i >= len(p.b) {
				p.bug("unexpected end in object")
			}
			if p.b[p.i] == ',' {
				p.i++
				continue
			}
			if p.b[p.i] == '}' {
				p.i++
				return v
			}
			p.bug("expected , or }")
		}
	case c == '[':
		p.i++
		v := &jv{k: 'a'}
		p.ws()
		if p.i < len(p.b) && p.b[p.i] == ']' {
			p.i++
			return v
		}
		for {
			v.a = append(v.a, p.value())
			p.ws()
			if p.i >= len(p.b) {
				p.bug("unexpected end in array")
			}
			if p.b[p.i] == ',' {
				p.i++
				continue
			}
			if p.b[p.i] == ']' {
				p.i++
				return v
			}
			p.bug("expected , or ]")
		}
	case c == '"':
		return jstr(p.str())
	case c == 't':
		p.i += 4
		return jbool(true)
	case c == 'f':
		p.i += 5
		return jbool(false)
	case c == 'n':
		p.i += 4
		return jnull()
	default:
		j := p.i
		for j < len(p.b) && strings.IndexByte("+-0123456789.eE", p.b[j]) >= 0 {
			j++
		}
		if j == p.i {
			p.bug("unexpected byte")
		}
		v := jnum(string(p.b[p.i:j]))
		p.i = j
		return v
	}
}

// firstValue splits the input like a streaming JSON reader: the first complete value and what follows.
// empty: nothing but whitespace. ok=false: the first value is not valid JSON (trusted base: encoding/json syntax).
func firstValue(in []byte) (raw, rest []byte, ok, empty bool) {
	dec := json.NewDecoder(bytes.NewReader(in))
	var rm json.RawMessage
	err := dec.Decode(&rm)
	if err == io.EOF {
		return nil, nil, false, true
	}
	if err != nil {
		return nil, nil, false, false
	}
	return rm, in[dec.InputOffset():], true, false
}

func onlyWS(b []byte) bool {
	for _, c := range b {
		if !isWS(c) {
			return false
		}
	}
	return true
}

// canon renders a tree canonically: members sorted, duplicate keys collapsed (last wins), strings by value,
// number literals verbatim.
func canon(v *jv) string {
	var sb strings.Builder
	v.writeCanon(&sb)
	return sb.String()
}

func (v *jv) writeCanon(sb *strings.Builder) {
	switch v.k {
	case 'n':
		sb.WriteString("null")
	case 't':
		sb.WriteString("true")
	case 'f':
		sb.WriteString("false")
	case '#':
		sb.WriteString(v.s)
	case 's':
		sb.WriteString(strconv.Quote(v.s))
	case 'a':
		sb.WriteByte('[')
		for i, x := range v.a {
			if i > 0 {
				sb.WriteByte(',')
			}
			x.writeCanon(sb)
		}
		sb.WriteByte(']')
	case 'o':
		last := make(map[string]*jv, len(v.o))
		keys := make([]string, 0, len(v.o))
		for _, m := range v.o {
			if _, ok := last[m.key]; !ok {
				keys = append(keys, m.key)
			}
			last[m.key] = m.v
		}
		sort.Strings(keys)
		sb.WriteByte('{')
		for i, k := range keys {
			if i > 0 {
				sb.WriteByte(',')
			}
			sb.WriteString(strconv.Quote(k))
			sb.WriteByte(':')
			last[k].writeCanon(sb)
		}
		sb.WriteByte('}')
	}
}

// canonBytes canonicalises JSON text produced by Go (handler arguments, server output fragments).
func canonBytes(b []byte) string {
	p := &parser{b: b}
	return canon(p.value())
}

// differingDups reports whether some object anywhere in v has the same key twice with different values.
func differingDups(v *jv) bool {
	switch v.k {
	case 'a':
		for _, x := range v.a {
			if differingDups(x) {
				return true
			}
		}
	case 'o':
		if len(v.o) > 1 {
			seen := make(map[string]*jv, len(v.o))
			for _, m := range v.o {
				if prev, ok := seen[m.key]; ok {
					if canon(prev) != canon(m.v) {
						return true
					}
				}
				seen[m.key] = m.v
			}
		}
		for _, m := range v.o {
			if differingDups(m.v) {
				return true
			}
		}
	}
	return false
}

func (v *jv) get(key string) *jv { // last occurrence
	var r *jv
	for _, m := range v.o {
		if m.key == key {
			r = m.v
		}
	}
	return r
}

// ---------------------------------------------------------------- method table (specification side)

type ptype int

const (
	tInt ptype = iota
	tStr
	tBool
	tPtrInt
	tPtrStr
	tInts
	tStruct
	tPtrStruct
	tStructs
	tMapPtr
	tRaw
	tNoNull    // value type whose pointer-receiver UnmarshalJSON rejects null (felt.Felt-like), otherwise an int
	tMapStruct // map[string]valStruct (by-value validated structs)
	tReqStruct // struct{Name string `validate:"required"`} by value
	tStrs      // []string
)

var ptypeNames = map[ptype]string{tInt: "int", tStr: "string", tBool: "bool", tPtrInt: "*int", tPtrStr: "*string", tInts: "[]int",
	tStruct: "struct(min=1)", tPtrStruct: "*struct", tStructs: "[]struct", tMapPtr: "map[string]*struct", tRaw: "json.RawMessage",
	tNoNull: "null-rejecting-unmarshaler", tMapStruct: "map[string]struct", tReqStruct: "struct(required)", tStrs: "[]string"}

type pspec struct {
	name string
	opt  bool
	t    ptype
}

// argv is a bound argument: canonical JSON of the Go value the handler must receive, plus the bits eval needs.
type argv struct {
	canon string
	i     int64 // tInt value / struct field a
	n     int   // length for slices
}

type outcome struct {
	isErr bool
	res   string // canonical result
	code  int64
	data  string // canonical data of an application error ("null" when absent)
}

type mspec struct {
	name   string
	params []pspec
	eval   func(a []argv) outcome
	shape  string // binding shape covered (for labels)
	ctx    bool   // the handler takes a leading context.Context
	matrix bool   // member of the generated signature matrix (handler built by reflection from this spec)
}

func (m *mspec) required() int {
	n := 0
	for _, p := range m.params {
		if !p.opt {
			n++
		}
	}
	return n
}

func reserved(code int64) bool { return code >= -32768 && code <= -32000 }

func okRes(s string) outcome { return outcome{res: s} }

const uniName = "uni✓ \"q\"\n"

var baseSpecs = []*mspec{
	{name: "noParams", shape: "no-params", eval: func(a []argv) outcome { return okRes("0") }},
	{name: "ctxOnly", shape: "ctx-only", ctx: true, eval: func(a []argv) outcome { return okRes(`""`) }},
	{name: "sub", shape: "required-only", params: []pspec{{"minuend", false, tInt}, {"subtrahend", false, tInt}},
		eval: func(a []argv) outcome { return okRes(strconv.FormatInt(a[0].i-a[1].i, 10)) }},
	{name: "opt", shape: "optional-tail", params: []pspec{{"a", false, tInt}, {"b", true, tPtrInt}, {"c", true, tInts}},
		eval: func(a []argv) outcome {
			return okRes(`{"a":` + a[0].canon + `,"b":` + a[1].canon + `,"c":` + a[2].canon + `}`)
		}},
	{name: "ctxTwo", shape: "ctx-first", ctx: true, params: []pspec{{"s", false, tStr}, {"f", false, tBool}},
		eval: func(a []argv) outcome { return okRes("[" + a[0].canon + "," + a[1].canon + "]") }},
	{name: "val", shape: "struct-validated", params: []pspec{{"v", false, tStruct}},
		eval: func(a []argv) outcome { return okRes(strconv.FormatInt(a[0].i, 10)) }},
	{name: "valPtr", shape: "struct-pointer", params: []pspec{{"v", false, tPtrStruct}},
		eval: func(a []argv) outcome { return okRes(a[0].canon) }},
	{name: "valSlice", shape: "struct-slice", params: []pspec{{"v", false, tStructs}},
		eval: func(a []argv) outcome { return okRes(strconv.Itoa(a[0].n)) }},
	{name: "valMap", shape: "map-of-pointer", params: []pspec{{"m", false, tMapPtr}},
		eval: func(a []argv) outcome { return okRes(a[0].canon) }},
	{name: "hdr", shape: "3-tuple-header", params: []pspec{{"a", false, tInt}},
		eval: func(a []argv) outcome { return okRes(`{"hdr":` + a[0].canon + `}`) }},
	{name: "fail", shape: "handler-error", params: []pspec{{"code", false, tInt}, {"data", true, tRaw}},
		eval: func(a []argv) outcome {
			c := a[0].i
			if reserved(c) {
				c = 1
			}
			return outcome{isErr: true, code: c, data: a[1].canon}
		}},
	{name: "internal", shape: "internal-error", eval: func(a []argv) outcome { return outcome{isErr: true, code: -32603} }},
	{name: "nilResult", shape: "nil-result", eval: func(a []argv) outcome { return okRes("null") }},
	{name: "allOpt", shape: "all-optional", params: []pspec{{"a", true, tPtrInt}, {"s", true, tPtrStr}},
		eval: func(a []argv) outcome { return okRes("[" + a[0].canon + "," + a[1].canon + "]") }},
	{name: "raw", shape: "raw-json", params: []pspec{{"v", false, tRaw}},
		eval: func(a []argv) outcome { return okRes(a[0].canon) }},
	{name: "emptyish", shape: "zero-valued-results", params: []pspec{{"k", false, tInt}},
		eval: func(a []argv) outcome {
			return okRes([]string{"false", `""`, "[]", "{}"}[((a[0].i%4)+4)%4])
		}},
	{name: uniName, shape: "escaped-name", eval: func(a []argv) outcome { return okRes("1") }},
	{name: "nn", shape: "null-rejecting-unmarshaler", params: []pspec{{"x", false, tNoNull}, {"y", true, tNoNull}},
		eval: func(a []argv) outcome { return okRes("[" + a[0].canon + "," + a[1].canon + "]") }},
	{name: "valOpt", shape: "optional-validated-struct", params: []pspec{{"a", false, tInt}, {"v", true, tStruct}},
		eval: func(a []argv) outcome { return okRes(`{"a":` + a[0].canon + `,"v":` + a[1].canon + `}`) }},
	{name: "valMapVal", shape: "map-of-struct", params: []pspec{{"m", false, tMapStruct}},
		eval: func(a []argv) outcome { return okRes(a[0].canon) }},
	{name: "req", shape: "struct-required-tag", params: []pspec{{"r", false, tReqStruct}},
		eval: func(a []argv) outcome { return okRes(a[0].canon) }},
}

// ---------------------------------------------------------------- signature matrix
//
// The handler signature space the server accepts, spelled out independently of server.go: an optional leading
// context.Context, 0-4 declared parameters of which a prefix is required and the tail optional (the only layout in
// which "by position" is defined), each parameter of any of the palette's Go types. A matrix method returns the
// array of the arguments it received, so its specification is: bind the supplied arguments by position or by
// name, give every optional parameter that was not supplied the zero value of ITS OWN type - whatever the types
// of its neighbours, with or without a context - and answer the array of the bound values.

var matrixPalette = []ptype{tInt, tStrs, tPtrStr, tStruct, tNoNull, tStr, tInts, tBool, tPtrInt, tRaw, tPtrStruct, tStructs, tMapPtr,
	tMapStruct, tReqStruct}

var ptypeCodes = map[ptype]string{tInt: "int", tStr: "str", tBool: "bool", tPtrInt: "pint", tPtrStr: "pstr", tInts: "ints", tStrs: "strs",
	tStruct: "st", tPtrStruct: "pst", tStructs: "sts", tMapPtr: "mpst", tRaw: "raw", tNoNull: "nn", tMapStruct: "mst", tReqStruct: "rst"}

const maxMatrixParams = 4

// matrixSpec is the specification of the matrix method with the given signature (the first req parameters required).
func matrixSpec(ctx bool, types []ptype, req int) *mspec {
	sp := &mspec{name: "mx", shape: "matrix-plain", ctx: ctx, matrix: true}
	if ctx {
		sp.name, sp.shape = "mxC", "matrix-ctx"
	}
	for i, t := range types {
		sp.name += "_" + ptypeCodes[t]
		if i >= req {
			sp.name += "?"
		}
		sp.params = append(sp.params, pspec{name: string(rune('a' + i)), opt: i >= req, t: t})
	}
	sp.eval = func(a []argv) outcome {
		parts := make([]string, len(a))
		for i, x := range a {
			parts[i] = x.canon
		}
		return okRes("[" + strings.Join(parts, ",") + "]")
	}
	return sp
}

// fixedMatrix is the part of the matrix registered on every harness server, so that every generator of the package
// reaches it: for every parameter count 1-4 and every required/optional split, two type assignments in which all
// parameters have pairwise different types (a stride walk over the palette), each with and without a context.
// (Parameter count 0 is covered by noParams / ctxOnly.) The rest of the space is drawn in TestPropSignatureMatrix.
func fixedMatrix() []*mspec {
	var out []*mspec
	cnt := 0
	for n := 1; n <= maxMatrixParams; n++ {
		for req := 0; req <= n; req++ {
			for v := 0; v < 2; v++ {
				step := []int{1, 2, 4}[cnt%3]
				types := make([]ptype, n)
				for i := range types {
					types[i] = matrixPalette[(cnt*7+i*step)%len(matrixPalette)]
				}
				cnt++
				out = append(out, matrixSpec(false, types, req), matrixSpec(true, types, req))
			}
		}
	}
	return out
}

var methodSpecs = append(append([]*mspec{}, baseSpecs...), fixedMatrix()...)

var matrixSpecs = methodSpecs[len(baseSpecs):]

var specByName = func() map[string]*mspec {
	m := map[string]*mspec{}
	for _, s := range methodSpecs {
		m[s.name] = s
	}
	return m
}()

type status int

const (
	stOK status = iota
	stBad
	stAmb
)

var intLit = regexp.MustCompile(`^-?(0|[1-9][0-9]*)$`)

// integerValued: a number literal with fraction/exponent whose value is a mathematical integer (1.0, 1e2).
// Unknown (huge exponents) is reported as true, i.e. the caller treats the literal as ambiguous.
func integerValued(lit string) bool {
	if i := strings.IndexAny(lit, "eE"); i >= 0 && len(lit)-i > 6 {
		return true
	}
	r, ok := new(big.Rat).SetString(lit)
	if !ok {
		return true
	}
	return r.IsInt()
}

func zeroOf(t ptype) argv {
	switch t {
	case tInt:
		return argv{canon: "0"}
	case tStr:
		return argv{canon: `""`}
	case tBool:
		return argv{canon: "false"}
	case tStruct:
		return argv{canon: `{"a":0,"b":""}`}
	case tNoNull:
		return argv{canon: `{"V":0}`}
	case tReqStruct:
		return argv{canon: `{"name":""}`}
	default:
		return argv{canon: "null"}
	}
}

// Null semantics (encoding/json documentation, independent of server.go): "The JSON null value unmarshals into an
// interface, map, pointer, or slice by setting that Go value to nil. [...] Otherwise, the JSON null value has no
// effect" - i.e. a plain value type keeps its zero value and no error is reported - and "Unmarshal calls
// UnmarshalJSON, including when the input is a JSON null", so a type may reject null itself. A null is what the
// caller supplied, so the handler must see exactly that decoding; struct values are then validated, and a zero
// struct that violates its tags is a bad parameter.
func checkStruct(v *jv) (argv, status) {
	if v.k == 'n' {
		return argv{}, stBad // zero valStruct: field a = 0 violates validate:"min=1"
	}
	if v.k != 'o' {
		return argv{}, stBad
	}
	var a, b *jv
	for _, m := range v.o {
		switch m.key {
		case "a":
			a = m.v
		case "b":
			b = m.v
		default:
			return argv{}, stAmb // unknown or case-folded field name
		}
	}
	st := stOK
	var av int64
	if a != nil {
		x, s := check(tInt, a)
		if s == stBad {
			return argv{}, stBad
		}
		if s == stAmb {
			st = stAmb
		}
		av = x.i
	}
	bs := `""`
	if b != nil {
		x, s := check(tStr, b)
		if s == stBad {
			return argv{}, stBad
		}
		if s == stAmb {
			st = stAmb
		}
		bs = x.canon
	}
	if st == stAmb {
		return argv{}, stAmb
	}
	if av < 1 {
		return argv{}, stBad // validate:"min=1"
	}
	return argv{canon: `{"a":` + strconv.FormatInt(av, 10) + `,"b":` + bs + `}`, i: av}, stOK
}

func check(t ptype, v *jv) (argv, status) {
	switch t {
	case tInt:
		if v.k == 'n' {
			return argv{canon: "0"}, stOK
		}
		if v.k != '#' {
			return argv{}, stBad
		}
		if intLit.MatchString(v.s) {
			i, err := strconv.ParseInt(v.s, 10, 64)
			if err != nil {
				return argv{}, stBad // does not fit the handler's int
			}
			return argv{canon: strconv.FormatInt(i, 10), i: i}, stOK
		}
		if integerValued(v.s) {
			return argv{}, stAmb
		}
		return argv{}, stBad
	case tStr:
		if v.k == 'n' {
			return argv{canon: `""`}, stOK
		}
		if v.k != 's' {
			return argv{}, stBad
		}
		return argv{canon: canon(v)}, stOK
	case tBool:
		if v.k == 'n' {
			return argv{canon: "false"}, stOK
		}
		if v.k != 't' && v.k != 'f' {
			return argv{}, stBad
		}
		return argv{canon: canon(v)}, stOK
	case tPtrInt:
		if v.k == 'n' {
			return argv{canon: "null"}, stOK
		}
		return check(tInt, v)
	case tPtrStr:
		if v.k == 'n' {
			return argv{canon: "null"}, stOK
		}
		return check(tStr, v)
	case tInts:
		if v.k == 'n' {
			return argv{canon: "null"}, stOK
		}
		if v.k != 'a' {
			return argv{}, stBad
		}
		st := stOK
		parts := make([]string, len(v.a))
		for i, e := range v.a {
			x, s := check(tInt, e)
			if s == stBad {
				return argv{}, stBad
			}
			if s == stAmb {
				st = stAmb
			}
			parts[i] = x.canon
		}
		if st != stOK {
			return argv{}, st
		}
		return argv{canon: "[" + strings.Join(parts, ",") + "]", n: len(parts)}, stOK
	case tStrs:
		if v.k == 'n' {
			return argv{canon: "null"}, stOK
		}
		if v.k != 'a' {
			return argv{}, stBad
		}
		parts := make([]string, len(v.a))
		for i, e := range v.a {
			x, s := check(tStr, e) // a null element leaves ""
			if s != stOK {
				return argv{}, s
			}
			parts[i] = x.canon
		}
		return argv{canon: "[" + strings.Join(parts, ",") + "]", n: len(parts)}, stOK
	case tStruct:
		return checkStruct(v)
	case tPtrStruct:
		if v.k == 'n' {
			return argv{canon: "null"}, stOK
		}
		return checkStruct(v)
	case tStructs:
		if v.k == 'n' {
			return argv{canon: "null"}, stOK
		}
		if v.k != 'a' {
			return argv{}, stBad
		}
		st := stOK
		parts := make([]string, len(v.a))
		for i, e := range v.a {
			x, s := checkStruct(e)
			if s == stBad {
				return argv{}, stBad
			}
			if s == stAmb {
				st = stAmb
			}
			parts[i] = x.canon
		}
		if st != stOK {
			return argv{}, st
		}
		return argv{canon: "[" + strings.Join(parts, ",") + "]", n: len(parts)}, stOK
	case tMapPtr:
		if v.k == 'n' {
			return argv{canon: "null"}, stOK
		}
		if v.k != 'o' {
			return argv{}, stBad
		}
		st := stOK
		vals := map[string]string{}
		keys := []string{}
		for _, m := range v.o {
			var c string
			if m.v.k == 'n' {
				c = "null"
			} else {
				x, s := checkStruct(m.v)
				if s == stBad {
					return argv{}, stBad
				}
				if s == stAmb {
					st = stAmb
				}
				c = x.canon
			}
			if _, ok := vals[m.key]; !ok {
				keys = append(keys, m.key)
			}
			vals[m.key] = c
		}
		if st != stOK {
			return argv{}, st
		}
		sort.Strings(keys)
		var sb strings.Builder
		sb.WriteByte('{')
		for i, k := range keys {
			if i > 0 {
				sb.WriteByte(',')
			}
			sb.WriteString(strconv.Quote(k) + ":" + vals[k])
		}
		sb.WriteByte('}')
		return argv{canon: sb.String(), n: len(keys)}, stOK
	case tRaw:
		return argv{canon: canon(v)}, stOK
	case tNoNull:
		if v.k == 'n' {
			return argv{}, stBad // its UnmarshalJSON is called with null and refuses it
		}
		x, s := check(tInt, v)
		if s != stOK {
			return argv{}, s
		}
		return argv{canon: `{"V":` + x.canon + `}`, i: x.i}, stOK
	case tMapStruct:
		if v.k == 'n' {
			return argv{canon: "null"}, stOK
		}
		if v.k != 'o' {
			return argv{}, stBad
		}
		st := stOK
		vals := map[string]string{}
		keys := []string{}
		for _, m := range v.o {
			x, s := checkStruct(m.v) // a null value decodes to a zero struct, which fails validation
			if s == stBad {
				return argv{}, stBad
			}
			if s == stAmb {
				st = stAmb
			}
			if _, ok := vals[m.key]; !ok {
				keys = append(keys, m.key)
			}
			vals[m.key] = x.canon
		}
		if st != stOK {
			return argv{}, st
		}
		sort.Strings(keys)
		var sb strings.Builder
		sb.WriteByte('{')
		for i, k := range keys {
			if i > 0 {
				sb.WriteByte(',')
			}
			sb.WriteString(strconv.Quote(k) + ":" + vals[k])
		}
		sb.WriteByte('}')
		return argv{canon: sb.String(), n: len(keys)}, stOK
	case tReqStruct:
		if v.k == 'n' {
			return argv{}, stBad // zero struct: Name "" violates validate:"required"
		}
		if v.k != 'o' {
			return argv{}, stBad
		}
		var name *jv
		for _, m := range v.o {
			if m.key != "name" {
				return argv{}, stAmb // unknown or case-folded field name
			}
			name = m.v
		}
		if name == nil || name.k == 'n' {
			return argv{}, stBad
		}
		x, s := check(tStr, name)
		if s != stOK {
			return argv{}, s
		}
		if name.s == "" {
			return argv{}, stBad
		}
		return argv{canon: `{"name":` + x.canon + `}`}, stOK
	}
	return argv{}, stBad
}

// bind applies JSON-RPC parameter rules (by-position / by-name, optional tail, unknown names rejected).
// params == nil means "omitted".
func nullNote(ex *expectation, t ptype, v *jv, s status) {
	if ex == nil || v.k != 'n' {
		return
	}
	how := "null->zero-value(invoked)"
	switch {
	case s == stBad && t == tNoNull:
		how = "null->rejected-by-unmarshaler(-32602)"
	case s == stBad:
		how = "null->zero-fails-validator(-32602)"
	case t == tPtrInt || t == tPtrStr || t == tInts || t == tStrs || t == tPtrStruct || t == tStructs || t == tMapPtr || t == tMapStruct || t == tRaw:
		how = "null->nil(invoked)"
	}
	if ex.nulls == nil {
		ex.nulls = map[string]int{}
	}
	ex.nulls[how]++
	ex.nulls["kind:"+ptypeNames[t]]++
}

func bind(sp *mspec, params *jv, ex *expectation) ([]argv, status) {
	n := len(sp.params)
	args := make([]argv, n)
	empty := params == nil || (params.k == 'a' && len(params.a) == 0) || (params.k == 'o' && len(params.o) == 0)
	if empty {
		if sp.required() > 0 {
			return nil, stBad
		}
		for i, p := range sp.params {
			args[i] = zeroOf(p.t)
		}
		return args, stOK
	}
	st := stOK
	switch params.k {
	case 'a':
		if len(params.a) < sp.required() || len(params.a) > n {
			return nil, stBad
		}
		for i, p := range sp.params {
			if i < len(params.a) {
				x, s := check(p.t, params.a[i])
				nullNote(ex, p.t, params.a[i], s)
				if s == stBad {
					return nil, stBad
				}
				if s == stAmb {
					st = stAmb
				}
				args[i] = x
			} else {
				args[i] = zeroOf(p.t)
			}
		}
	case 'o':
		used := map[string]bool{}
		for i, p := range sp.params {
			v := params.get(p.name)
			switch {
			case v != nil:
				used[p.name] = true
				x, s := check(p.t, v)
				nullNote(ex, p.t, v, s)
				if s == stBad {
					return nil, stBad
				}
				if s == stAmb {
					st = stAmb
				}
				args[i] = x
			case p.opt:
				args[i] = zeroOf(p.t)
			default:
				return nil, stBad
			}
		}
		for _, m := range params.o {
			if !used[m.key] {
				return nil, stBad
			}
		}
	default:
		return nil, stBad
	}
	return args, st
}

// ---------------------------------------------------------------- expectations

// Known-finding keys (classes of input on which the unchanged server deviates; see known_findings.json).
const (
	kNotif  = "c11-notification-error-answered"
	kNilRes = "c11-nil-result-omitted"
	kLongWS = "c11-batch-after-long-whitespace"
)

var allKnownKeys = []string{kNotif, kNilRes, kLongWS}

type alt struct{ resp, inv string } // "" = no response / no invocation

type entryExp struct {
	alts       []alt
	class      string // primary classification (labels)
	wellFormed bool   // a syntactically valid request object (dispatcher reached)
}

type scenario struct {
	batch   bool // output must be an array (or nothing); otherwise one object (or nothing)
	entries []entryExp
}

type expectation struct {
	amb       string // non-empty: meaning of the document is not defined; grammar-only oracle
	scen      []scenario
	classes   map[string]bool // known-finding classes the document falls into
	validJSON bool
	isArray   bool
	nEntries  int
	nulls     map[string]int // explicit null arguments seen while binding, by predicted treatment and by parameter kind
}

func keyRes(id, res string) string { return "id=" + id + "|res=" + res }
func keyErr(id string, code int64, data string) string {
	k := "id=" + id + "|err=" + strconv.FormatInt(code, 10)
	if !reserved(code) {
		k += "|data=" + data
	}
	return k
}

type model struct {
	known func(string) bool // relax the oracle for these classes (the deviation is listed as a known finding)
	extra map[string]*mspec // methods registered on this model's server besides the fixed table (drawn signatures)
}

func (m *model) lookup(name string) (*mspec, bool) {
	if sp, ok := specByName[name]; ok {
		return sp, true
	}
	sp, ok := m.extra[name]
	return sp, ok
}

var envelopeNames = []string{"jsonrpc", "method", "params", "id"}

func invalidAlts(ids []string, codes ...int64) []alt {
	var out []alt
	for _, c := range codes {
		for _, id := range ids {
			out = append(out, alt{resp: keyErr(id, c, "")})
		}
	}
	return out
}

func (m *model) entry(v *jv, single bool, ex *expectation) entryExp {
	if v.k != 'o' {
		e := entryExp{class: "invalid:non-object", alts: invalidAlts([]string{"null"}, -32600)}
		if single && v.k != 'n' {
			// Tolerance (same family as the decided one for ill-typed envelope members): a single document that is
			// valid JSON but not an object fails in the typed decoder like an ill-typed member does and is
			// answered -32700; jsonrpc/pretty_error_test.go ("top-level scalar") pins that answer, so it is a
			// deliberate reading, not flagged. The specification's code would be -32600; both are accepted.
			e.alts = append(e.alts, invalidAlts([]string{"null"}, -32700)...)
			e.class = "tolerated:toplevel-scalar"
		}
		return e
	}
	var ver, meth, params, id *jv
	for _, mb := range v.o {
		switch mb.key {
		case "jsonrpc":
			ver = mb.v
		case "method":
			meth = mb.v
		case "params":
			params = mb.v
		case "id":
			id = mb.v
		default:
			for _, n := range envelopeNames {
				if strings.EqualFold(mb.key, n) {
					ex.amb = "envelope member name differing only by case"
				}
			}
		}
	}
	mismatch := (ver != nil && ver.k != 's' && ver.k != 'n') || (meth != nil && meth.k != 's' && meth.k != 'n')
	invalid := ver == nil || ver.k != 's' || ver.s != "2.0" ||
		meth == nil || meth.k != 's' || meth.s == "" ||
		(params != nil && params.k != 'a' && params.k != 'o' && params.k != 'n') ||
		(id != nil && (id.k == 't' || id.k == 'f' || id.k == 'a' || id.k == 'o'))
	ids := []string{"null"}
	if id != nil && id.k != 'n' {
		ids = append(ids, canon(id))
	}
	if invalid {
		codes := []int64{-32600}
		cl := "invalid:envelope"
		if mismatch {
			cl = "invalid:member-type"
			if single {
				codes = append(codes, -32700) // decided tolerance
			}
		}
		return entryExp{class: cl, alts: invalidAlts(ids, codes...)}
	}

	e := entryExp{wellFormed: true}
	notif := id == nil
	idNull := id != nil && id.k == 'n'
	idc := "null"
	if !notif && !idNull {
		idc = canon(id)
	}
	// dispatch
	var out outcome
	inv := ""
	var p *jv
	if params != nil && params.k != 'n' {
		p = params
	}
	sp, found := m.lookup(meth.s)
	switch {
	case !found:
		out = outcome{isErr: true, code: -32601}
		e.class = "unknown-method"
	default:
		args, st := bind(sp, p, ex)
		switch st {
		case stAmb:
			ex.amb = "argument whose Go decoding is not defined by JSON-RPC (integer-valued float literal for an int, unknown struct field)"
			e.class = "ambiguous-argument"
			return e
		case stBad:
			out = outcome{isErr: true, code: -32602}
			e.class = "bad-params"
		default:
			out = sp.eval(args)
			parts := make([]string, len(args))
			for i, a := range args {
				parts[i] = a.canon
			}
			inv = sp.name + "|[" + strings.Join(parts, ",") + "]"
			e.class = "call:" + sp.shape
			if out.isErr {
				e.class = "call-error:" + sp.shape
			}
		}
	}
	respKey := func(id string) string {
		if out.isErr {
			return keyErr(id, out.code, out.data)
		}
		return keyRes(id, out.res)
	}
	switch {
	case notif:
		e.alts = []alt{{inv: inv}}
		e.class = "notif:" + e.class
		if out.isErr && inv == "" { // -32601 / -32602 on a notification: the server MUST NOT reply
			ex.classes[kNotif] = true
			if m.known(kNotif) {
				e.alts = append(e.alts, alt{resp: respKey("null")})
			}
		}
	case idNull: // decided tolerance: notification or answered with id null
		e.alts = []alt{{inv: inv}, {resp: respKey("null"), inv: inv}}
		e.class = "idnull:" + e.class
	default:
		e.alts = []alt{{resp: respKey(idc), inv: inv}}
	}
	if found && sp.name == "nilResult" && inv != "" {
		ex.classes[kNilRes] = true
		if m.known(kNilRes) {
			n := len(e.alts)
			for i := 0; i < n; i++ {
				if e.alts[i].resp != "" {
					e.alts = append(e.alts, alt{resp: strings.Replace(e.alts[i].resp, "|res=null", "|neither", 1), inv: inv})
				}
			}
		}
	}
	// tolerances that make the request legitimately rejectable as Invalid Request
	floatID := id != nil && id.k == '#' && !intLit.MatchString(id.s)
	if floatID || (params != nil && params.k == 'n') {
		e.alts = append(e.alts, invalidAlts(ids, -32600)...)
		e.class = "tolerated:" + e.class
	}
	return e
}

func leadingWS(in []byte) int {
	n := 0
	for n < len(in) && isWS(in[n]) {
		n++
	}
	return n
}

// doc computes the expectation for a whole input.
func (m *model) doc(in []byte) *expectation {
	ex := &expectation{classes: map[string]bool{}}
	parseErr := scenario{entries: []entryExp{{class: "parse-error", alts: invalidAlts([]string{"null"}, -32700)}}}
	raw, rest, ok, empty := firstValue(in)
	if empty {
		ex.scen = []scenario{{entries: []entryExp{{class: "empty-input", alts: append([]alt{{}}, invalidAlts([]string{"null"}, -32700)...)}}}}
		return ex
	}
	if !ok {
		ex.scen = []scenario{parseErr}
		return ex
	}
	ex.validJSON = true
	p := &parser{b: raw}
	v := p.value()
	if p.repl {
		ex.amb = "string with invalid UTF-8 / lone surrogate (U+FFFD after decoding)"
	}
	if differingDups(v) {
		ex.amb = "duplicate member names with different values"
	}
	if v.k == 'a' {
		ex.isArray = true
		ex.nEntries = len(v.a)
		if len(v.a) == 0 {
			ex.scen = []scenario{{entries: []entryExp{{class: "empty-batch", alts: invalidAlts([]string{"null"}, -32600)}}}}
		} else {
			sc := scenario{batch: true}
			for _, e := range v.a {
				sc.entries = append(sc.entries, m.entry(e, false, ex))
			}
			ex.scen = []scenario{sc}
		}
		if leadingWS(in) >= 128 {
			ex.classes[kLongWS] = true
			if m.known(kLongWS) {
				ex.scen = append(ex.scen, parseErr)
			}
		}
	} else {
		ex.nEntries = 1
		ex.scen = []scenario{{entries: []entryExp{m.entry(v, true, ex)}}}
	}
	if !onlyWS(rest) {
		// bytes after the first value: a streaming reader may stop after the first document or reject the input
		ex.scen = append(ex.scen, parseErr)
	}
	return ex
}

// ---------------------------------------------------------------- observed output

type observed struct {
	empty   bool
	isArray bool
	keys    []string
	hdrs    []string // canonical "a" of every successful "hdr" result (its HTTP header must be present)
}

// respGrammar checks one response object against the JSON-RPC 2.0 response grammar and returns its key.
func respGrammar(v *jv, allowNeither bool) (key string, hdr string, bad string) {
	if v.k != 'o' {
		return "", "", "response is not an object: " + canon(v)
	}
	seen := map[string]*jv{}
	for _, m := range v.o {
		if _, dup := seen[m.key]; dup {
			return "", "", "duplicate member " + m.key
		}
		seen[m.key] = m.v
		switch m.key {
		case "jsonrpc", "result", "error", "id":
		default:
			return "", "", "unexpected member " + strconv.Quote(m.key)
		}
	}
	if j := seen["jsonrpc"]; j == nil || j.k != 's' || j.s != "2.0" {
		return "", "", `member "jsonrpc" is not "2.0"`
	}
	id, ok := seen["id"]
	if !ok {
		return "", "", `member "id" missing`
	}
	idc := canon(id)
	res, hasRes := seen["result"]
	er, hasErr := seen["error"]
	switch {
	case hasRes && hasErr:
		return "", "", "both result and error present"
	case !hasRes && !hasErr:
		if !allowNeither {
			return "", "", "neither result nor error present"
		}
		return "id=" + idc + "|neither", "", ""
	case hasRes:
		if res.k == 'o' && len(res.o) == 1 && res.o[0].key == "hdr" {
			hdr = canon(res.o[0].v)
		}
		return keyRes(idc, canon(res)), hdr, ""
	}
	if er.k != 'o' {
		return "", "", "error is not an object"
	}
	code, msg := er.get("code"), er.get("message")
	if code == nil || code.k != '#' || !intLit.MatchString(code.s) {
		return "", "", "error.code is not an integer"
	}
	if msg == nil || msg.k != 's' {
		return "", "", "error.message is not a string"
	}
	for _, m := range er.o {
		if m.key != "code" && m.key != "message" && m.key != "data" {
			return "", "", "unexpected error member " + strconv.Quote(m.key)
		}
	}
	c, err := strconv.ParseInt(code.s, 10, 64)
	if err != nil {
		return "", "", "error.code out of range"
	}
	data := "null"
	if d := er.get("data"); d != nil {
		data = canon(d)
	}
	return keyErr(idc, c, data), "", ""
}

func observe(out []byte, allowNeither bool) (*observed, string) {
	ob := &observed{}
	if len(out) == 0 {
		ob.empty = true
		return ob, ""
	}
	raw, rest, ok, _ := firstValue(out)
	if !ok || !onlyWS(rest) {
		return nil, "output is not one valid JSON document"
	}
	p := &parser{b: raw}
	v := p.value()
	var items []*jv
	switch v.k {
	case 'o':
		items = []*jv{v}
	case 'a':
		ob.isArray = true
		if len(v.a) == 0 {
			return nil, "empty response array"
		}
		items = v.a
	default:
		return nil, "output is neither an object nor an array"
	}
	for _, it := range items {
		k, h, bad := respGrammar(it, allowNeither)
		if bad != "" {
			return nil, bad
		}
		ob.keys = append(ob.keys, k)
		if h != "" {
			ob.hdrs = append(ob.hdrs, h)
		}
	}
	return ob, ""
}

// ---------------------------------------------------------------- matching

// matchExhausted is set when the alternative search gave up (the verdict is then "inconclusive", never a violation).
var matchExhausted bool

func matchScenario(sc scenario, ob *observed, log []string, checkInv bool) bool {
	if !ob.empty && sc.batch != ob.isArray {
		return false
	}
	resp := map[string]int{}
	for _, k := range ob.keys {
		resp[k]++
	}
	inv := map[string]int{}
	for _, k := range log {
		inv[k]++
	}
	take := func(a alt) bool {
		if a.resp != "" {
			if resp[a.resp] == 0 {
				return false
			}
		}
		if checkInv && a.inv != "" {
			if inv[a.inv] == 0 {
				return false
			}
		}
		if a.resp != "" {
			resp[a.resp]--
		}
		if checkInv && a.inv != "" {
			inv[a.inv]--
		}
		return true
	}
	give := func(a alt) {
		if a.resp != "" {
			resp[a.resp]++
		}
		if checkInv && a.inv != "" {
			inv[a.inv]++
		}
	}
	var multi [][]alt
	for _, e := range sc.entries {
		if len(e.alts) == 1 {
			if !take(e.alts[0]) {
				return false
			}
		} else {
			// alternatives that consume a response first: keeps the search linear for runs of equal entries
			as := make([]alt, 0, len(e.alts))
			for _, a := range e.alts {
				if a.resp != "" {
					as = append(as, a)
				}
			}
			for _, a := range e.alts {
				if a.resp == "" {
					as = append(as, a)
				}
			}
			multi = append(multi, as)
		}
	}
	allZero := func() bool {
		for _, n := range resp {
			if n != 0 {
				return false
			}
		}
		if checkInv {
			for _, n := range inv {
				if n != 0 {
					return false
				}
			}
		}
		return true
	}
	budget := 2_000_000
	var rec func(i int) bool
	rec = func(i int) bool {
		if i == len(multi) {
			return allZero()
		}
		for _, a := range multi[i] {
			budget--
			if budget < 0 {
				matchExhausted = true
				return false
			}
			if take(a) {
				if rec(i + 1) {
					return true
				}
				give(a)
			}
		}
		return false
	}
	return rec(0)
}

func (ex *expectation) describe() string {
	var sb strings.Builder
	for i, sc := range ex.scen {
		fmt.Fprintf(&sb, "  scenario %d (batch=%v):\n", i, sc.batch)
		for j, e := range sc.entries {
			if j >= 12 {
				fmt.Fprintf(&sb, "    … %d more entries\n", len(sc.entries)-j)
				break
			}
			fmt.Fprintf(&sb, "    entry %d [%s]:", j, e.class)
			for _, a := range e.alts {
				r := a.resp
				if r == "" {
					r = "<no response>"
				}
				fmt.Fprintf(&sb, "  {%s ; inv=%q}", r, a.inv)
			}
			sb.WriteByte('\n')
		}
	}
	return sb.String()
}

// verdict compares what the server did with the expectation. Returns (oracle key, message) or ("","").
func verdict(ex *expectation, in, out []byte, log []string, checkInv bool, allowNeither bool) (string, string) {
	ob, bad := observe(out, allowNeither)
	if bad != "" {
		return "grammar", fmt.Sprintf("%s\n input  %q\n output %q", bad, clip(in), clip(out))
	}
	if ex.amb != "" {
		// grammar and shape only
		if ob.isArray && !(ex.validJSON && ex.isArray && len(ob.keys) <= ex.nEntries) {
			return "shape", fmt.Sprintf("array output for a non-batch / more responses than entries\n input  %q\n output %q", clip(in), clip(out))
		}
		if !ob.isArray && !ob.empty && ex.validJSON && ex.isArray && ex.nEntries > 0 {
			// an object for a non-empty batch is only right for a rejected whole document
			if !(strings.Contains(ob.keys[0], "|err=-32700") || strings.Contains(ob.keys[0], "|err=-32600")) {
				return "shape", fmt.Sprintf("object output for a batch\n input  %q\n output %q", clip(in), clip(out))
			}
		}
		return "", ""
	}
	matchExhausted = false
	for _, sc := range ex.scen {
		if matchScenario(sc, ob, log, checkInv) {
			return "", ""
		}
	}
	if matchExhausted {
		return "", "inconclusive"
	}
	key := "responses"
	// finer oracle key for the report
	for _, sc := range ex.scen {
		if matchScenario(sc, ob, nil, false) {
			key = "invocations"
		}
	}
	sort.Strings(log)
	return key, fmt.Sprintf("server behaviour matches no acceptable outcome\n input  %q\n output %q\n observed keys %q\n invocation log %q\n expected:\n%s",
		clip(in), clip(out), ob.keys, log, ex.describe())
}

func clip(b []byte) []byte {
	if len(b) > 3000 {
		return append(append([]byte{}, b[:3000]...), "…"...)
	}
	return b
}
