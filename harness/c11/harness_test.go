package c11

// The real server under test with the harness method table: every handler records its invocation
// (method name + canonical JSON of the decoded Go arguments) and returns a value that is a pure
// function of its arguments (mirrored by methodSpecs[..].eval in model_test.go).

import (
	"bytes"
	"compress/gzip"
	"context"
	"encoding/json"
	"errors"
	"fmt"
	"io"
	"net/http"
	"net/http/httptest"
	"reflect"
	"runtime"
	"runtime/debug"
	"strconv"
	"sync"
	"testing/iotest"
	"time"

	"github.com/NethermindEth/juno/jsonrpc"
	"github.com/NethermindEth/juno/utils/log"
	"github.com/go-playground/validator/v10"

	"verif/harness/internal/stats"
)

type valStruct struct {
	A int    `json:"a" validate:"min=1"`
	B string `json:"b"`
}

// noNull is a value type in the style of felt.Felt: its pointer-receiver UnmarshalJSON refuses JSON null
// (encoding/json calls UnmarshalJSON for null too); any other input must be an int.
type noNull struct{ V int }

func (n *noNull) UnmarshalJSON(b []byte) error {
	if string(bytes.TrimSpace(b)) == "null" {
		return errors.New("noNull: null is not a value")
	}
	return json.Unmarshal(b, &n.V)
}

type reqStruct struct {
	Name string `json:"name" validate:"required"`
}

type recorder struct {
	mu    sync.Mutex
	log   []string
	yield bool
}

func (r *recorder) add(name string, args ...any) {
	if args == nil {
		args = []any{}
	}
	b, err := json.Marshal(args)
	if err != nil {
		stats.HarnessError("recorder marshal: %v", err)
	}
	k := name + "|" + canonBytes(b)
	r.mu.Lock()
	r.log = append(r.log, k)
	r.mu.Unlock()
	if r.yield {
		runtime.Gosched()
	}
}

func (r *recorder) ctx(name string, ctx context.Context) {
	if ctx == nil {
		r.mu.Lock()
		r.log = append(r.log, name+"|NIL-CONTEXT")
		r.mu.Unlock()
	}
}

func (r *recorder) reset() {
	r.mu.Lock()
	r.log = r.log[:0]
	r.mu.Unlock()
}

func (r *recorder) snapshot() []string {
	r.mu.Lock()
	defer r.mu.Unlock()
	return append([]string{}, r.log...)
}

type harness struct {
	srv       *jsonrpc.Server
	http      *jsonrpc.HTTP
	rec       *recorder
	lastOut   []byte // output of the last checkOne (single-threaded use only)
	lastReads []int  // sizes of the reads the server was served in the last checkDelivered (segmented deliveries)
	mdl       *model // reference model that knows the methods registered later on this server (nil: refModel)
}

// Go type of every parameter kind of the model.
var goTypes = map[ptype]reflect.Type{
	tInt: reflect.TypeFor[int](), tStr: reflect.TypeFor[string](), tBool: reflect.TypeFor[bool](), tPtrInt: reflect.TypeFor[*int](),
	tPtrStr: reflect.TypeFor[*string](), tInts: reflect.TypeFor[[]int](), tStrs: reflect.TypeFor[[]string](),
	tStruct: reflect.TypeFor[valStruct](), tPtrStruct: reflect.TypeFor[*valStruct](), tStructs: reflect.TypeFor[[]valStruct](),
	tMapPtr: reflect.TypeFor[map[string]*valStruct](), tRaw: reflect.TypeFor[json.RawMessage](), tNoNull: reflect.TypeFor[noNull](),
	tMapStruct: reflect.TypeFor[map[string]valStruct](), tReqStruct: reflect.TypeFor[reqStruct](),
}

// matrixMethod builds the handler of a signature-matrix method from its specification:
// func([ctx context.Context,] p0 T0, ..., pn Tn) (any, *jsonrpc.Error), recording its invocation like the hand-written
// handlers and returning the arguments it received as an array.
func matrixMethod(r *recorder, sp *mspec) jsonrpc.Method {
	var in []reflect.Type
	if sp.ctx {
		in = append(in, reflect.TypeFor[context.Context]())
	}
	m := jsonrpc.Method{Name: sp.name}
	for _, p := range sp.params {
		gt, ok := goTypes[p.t]
		if !ok {
			stats.HarnessError("no Go type for parameter kind %d", p.t)
		}
		in = append(in, gt)
		m.Params = append(m.Params, jsonrpc.Parameter{Name: p.name, Optional: p.opt})
	}
	errT := reflect.TypeFor[*jsonrpc.Error]()
	ft := reflect.FuncOf(in, []reflect.Type{reflect.TypeFor[any](), errT}, false)
	name, hasCtx := sp.name, sp.ctx
	m.Handler = reflect.MakeFunc(ft, func(args []reflect.Value) []reflect.Value {
		if hasCtx {
			if args[0].IsNil() {
				r.ctx(name, nil)
			}
			args = args[1:]
		}
		vals := make([]any, len(args))
		for i, a := range args {
			vals[i] = a.Interface()
		}
		r.add(name, vals...)
		var res any = vals
		return []reflect.Value{reflect.ValueOf(&res).Elem(), reflect.Zero(errT)}
	}).Interface()
	return m
}

// register adds a drawn matrix method to the running server (and to the harness's own model).
func (h *harness) register(sp *mspec) {
	if err := h.srv.RegisterMethods(matrixMethod(h.rec, sp)); err != nil {
		stats.HarnessError("RegisterMethods(%s): %v", sp.name, err)
	}
	h.mdl.extra[sp.name] = sp
}

func newHarness(poolSize int, yield bool) *harness {
	r := &recorder{yield: yield}
	P := func(name string, opt bool) jsonrpc.Parameter { return jsonrpc.Parameter{Name: name, Optional: opt} }
	methods := []jsonrpc.Method{
		{Name: "noParams", Handler: func() (int, *jsonrpc.Error) { r.add("noParams"); return 0, nil }},
		{Name: "ctxOnly", Handler: func(ctx context.Context) (string, *jsonrpc.Error) {
			r.ctx("ctxOnly", ctx)
			r.add("ctxOnly")
			return "", nil
		}},
		{Name: "sub", Params: []jsonrpc.Parameter{P("minuend", false), P("subtrahend", false)},
			Handler: func(a, b int) (int, *jsonrpc.Error) { r.add("sub", a, b); return a - b, nil }},
		{Name: "opt", Params: []jsonrpc.Parameter{P("a", false), P("b", true), P("c", true)},
			Handler: func(a int, b *int, c []int) (any, *jsonrpc.Error) {
				r.add("opt", a, b, c)
				return map[string]any{"a": a, "b": b, "c": c}, nil
			}},
		{Name: "ctxTwo", Params: []jsonrpc.Parameter{P("s", false), P("f", false)},
			Handler: func(ctx context.Context, s string, f bool) ([]any, *jsonrpc.Error) {
				r.ctx("ctxTwo", ctx)
				r.add("ctxTwo", s, f)
				return []any{s, f}, nil
			}},
		{Name: "val", Params: []jsonrpc.Parameter{P("v", false)},
			Handler: func(v valStruct) (int, *jsonrpc.Error) { r.add("val", v); return v.A, nil }},
		{Name: "valPtr", Params: []jsonrpc.Parameter{P("v", false)},
			Handler: func(v *valStruct) (*valStruct, *jsonrpc.Error) { r.add("valPtr", v); return v, nil }},
		{Name: "valSlice", Params: []jsonrpc.Parameter{P("v", false)},
			Handler: func(v []valStruct) (int, *jsonrpc.Error) { r.add("valSlice", v); return len(v), nil }},
		{Name: "valMap", Params: []jsonrpc.Parameter{P("m", false)},
			Handler: func(m map[string]*valStruct) (map[string]*valStruct, *jsonrpc.Error) {
				r.add("valMap", m)
				return m, nil
			}},
		{Name: "hdr", Params: []jsonrpc.Parameter{P("a", false)},
			Handler: func(a int) (map[string]int, http.Header, *jsonrpc.Error) {
				r.add("hdr", a)
				return map[string]int{"hdr": a}, http.Header{"X-C11": []string{strconv.Itoa(a)}}, nil
			}},
		{Name: "fail", Params: []jsonrpc.Parameter{P("code", false), P("data", true)},
			Handler: func(code int, data json.RawMessage) (any, *jsonrpc.Error) {
				r.add("fail", code, data)
				if reserved(int64(code)) {
					code = 1
				}
				var d any
				if data != nil {
					d = data
				}
				return nil, &jsonrpc.Error{Code: code, Message: "fail", Data: d}
			}},
		{Name: "internal", Handler: func() (int, *jsonrpc.Error) {
			r.add("internal")
			return 0, jsonrpc.Err(jsonrpc.InternalError, nil)
		}},
		{Name: "nilResult", Handler: func() (any, *jsonrpc.Error) { r.add("nilResult"); return nil, nil }},
		{Name: "allOpt", Params: []jsonrpc.Parameter{P("a", true), P("s", true)},
			Handler: func(a *int, s *string) ([]any, *jsonrpc.Error) { r.add("allOpt", a, s); return []any{a, s}, nil }},
		{Name: "raw", Params: []jsonrpc.Parameter{P("v", false)},
			Handler: func(v json.RawMessage) (json.RawMessage, *jsonrpc.Error) { r.add("raw", v); return v, nil }},
		{Name: "emptyish", Params: []jsonrpc.Parameter{P("k", false)},
			Handler: func(k int) (any, *jsonrpc.Error) {
				r.add("emptyish", k)
				switch ((k % 4) + 4) % 4 {
				case 0:
					return false, nil
				case 1:
					return "", nil
				case 2:
					return []int{}, nil
				default:
					return map[string]int{}, nil
				}
			}},
		{Name: uniName, Handler: func() (int, *jsonrpc.Error) { r.add(uniName); return 1, nil }},
		{Name: "nn", Params: []jsonrpc.Parameter{P("x", false), P("y", true)},
			Handler: func(x, y noNull) ([]noNull, *jsonrpc.Error) { r.add("nn", x, y); return []noNull{x, y}, nil }},
		{Name: "valOpt", Params: []jsonrpc.Parameter{P("a", false), P("v", true)},
			Handler: func(a int, v valStruct) (map[string]any, *jsonrpc.Error) {
				r.add("valOpt", a, v)
				return map[string]any{"a": a, "v": v}, nil
			}},
		{Name: "valMapVal", Params: []jsonrpc.Parameter{P("m", false)},
			Handler: func(m map[string]valStruct) (map[string]valStruct, *jsonrpc.Error) {
				r.add("valMapVal", m)
				return m, nil
			}},
		{Name: "req", Params: []jsonrpc.Parameter{P("r", false)},
			Handler: func(q reqStruct) (reqStruct, *jsonrpc.Error) { r.add("req", q); return q, nil }},
	}
	if len(methods) != len(baseSpecs) {
		stats.HarnessError("method table and model disagree: %d vs %d", len(methods), len(baseSpecs))
	}
	for _, sp := range matrixSpecs {
		methods = append(methods, matrixMethod(r, sp))
	}
	for i, m := range methods {
		sp := methodSpecs[i]
		if m.Name != sp.name || len(m.Params) != len(sp.params) {
			stats.HarnessError("method %d: table %q/%d vs model %q/%d", i, m.Name, len(m.Params), sp.name, len(sp.params))
		}
		for j, p := range m.Params {
			if p.Name != sp.params[j].name || p.Optional != sp.params[j].opt {
				stats.HarnessError("method %s param %d differs between table and model", m.Name, j)
			}
		}
	}
	srv := jsonrpc.NewServer(poolSize, log.NewNopZapLogger()).WithValidator(validator.New())
	if err := srv.RegisterMethods(methods...); err != nil {
		stats.HarnessError("RegisterMethods: %v", err)
	}
	return &harness{srv: srv, http: jsonrpc.NewHTTP(srv, log.NewNopZapLogger()), rec: r}
}

type transport int

const (
	trReader transport = iota
	trOneByte
	trReadWriter
	trHTTP
	trHTTPGzip
)

var transportNames = []string{"HandleReader", "HandleReader/1-byte-reads", "HandleReadWriter", "HTTP", "HTTP+gzip"}

type rwBuf struct {
	io.Reader
	mu sync.Mutex
	w  bytes.Buffer
}

func (b *rwBuf) Write(p []byte) (int, error) {
	b.mu.Lock()
	defer b.mu.Unlock()
	return b.w.Write(p)
}

type callResult struct {
	out      []byte
	hdr      http.Header
	err      error
	panicked string
	hung     bool
	extra    string // transport-level oracle failure
	reads    []int  // sizes of the Reads the server was served (segmented deliveries only)
}

// delivery is the part of an input that says HOW its bytes reach the server: the sizes of the successive segments
// (whatever lies beyond their sum arrives as one last segment). The property quantifies over the bytes received; how
// they are split into reads must not matter.
type delivery struct {
	segs        []int
	eofWithLast bool // the Read that hands out the last bytes also returns io.EOF (both conventions are legal io.Readers)
}

// segReader serves exactly one segment per Read, however large the caller's buffer is (the way a socket or a chunked
// HTTP body does); a segment larger than the caller's buffer is continued by the next Read.
type segReader struct {
	data        []byte
	segs        []int
	eofWithLast bool
	reads       []int
}

func newSegReader(in []byte, dl *delivery) *segReader {
	return &segReader{data: in, segs: append([]int{}, dl.segs...), eofWithLast: dl.eofWithLast}
}

func (r *segReader) Read(p []byte) (int, error) {
	if len(r.data) == 0 {
		return 0, io.EOF
	}
	if len(p) == 0 {
		return 0, nil
	}
	n := len(r.data)
	if len(r.segs) > 0 {
		n = min(n, r.segs[0])
	}
	n = min(n, len(p))
	copy(p, r.data[:n])
	r.data = r.data[n:]
	if len(r.segs) > 0 {
		if r.segs[0] -= n; r.segs[0] <= 0 {
			r.segs = r.segs[1:]
		}
	}
	r.reads = append(r.reads, n)
	if len(r.data) == 0 && r.eofWithLast {
		return n, io.EOF
	}
	return n, nil
}

const hangTimeout = 60 * time.Second

// call sends the bytes in one piece through one transport; panics and hangs are reported, not propagated.
func (h *harness) call(tr transport, in []byte) callResult { return h.callDelivered(tr, in, nil) }

// callDelivered sends the bytes through one transport, split into reads as dl says (nil: everything in one piece).
// The HTTP transports get the segmented reader as the request body (a chunking body: http.MaxBytesReader and the
// NopCloser around it pass every Read through unchanged).
func (h *harness) callDelivered(tr transport, in []byte, dl *delivery) callResult {
	ch := make(chan callResult, 1)
	go func() {
		var res callResult
		var src io.Reader = bytes.NewReader(in)
		var seg *segReader
		if dl != nil && tr != trOneByte {
			seg = newSegReader(in, dl)
			src = seg
		}
		defer func() {
			if p := recover(); p != nil {
				res.panicked = fmt.Sprintf("%v\n%s", p, debug.Stack())
			}
			if seg != nil {
				res.reads = seg.reads
			}
			ch <- res
		}()
		ctx := context.Background()
		switch tr {
		case trReader:
			res.out, res.hdr, res.err = h.srv.HandleReader(ctx, src)
		case trOneByte:
			res.out, res.hdr, res.err = h.srv.HandleReader(ctx, iotest.OneByteReader(bytes.NewReader(in)))
		case trReadWriter:
			rw := &rwBuf{Reader: src}
			res.err = h.srv.HandleReadWriter(ctx, 0, rw)
			res.out = rw.w.Bytes()
		case trHTTP, trHTTPGzip:
			req := httptest.NewRequest(http.MethodPost, "/", src)
			if tr == trHTTPGzip {
				req.Header.Set("Accept-Encoding", "gzip")
			}
			rec := httptest.NewRecorder()
			h.http.ServeHTTP(rec, req)
			resp := rec.Result()
			body, _ := io.ReadAll(resp.Body)
			res.hdr = resp.Header
			if resp.StatusCode != http.StatusOK {
				res.extra = fmt.Sprintf("HTTP status %d", resp.StatusCode)
			}
			if ct := resp.Header.Get("Content-Type"); ct != "application/json" {
				res.extra = fmt.Sprintf("Content-Type %q", ct)
			}
			if resp.Header.Get("Content-Encoding") == "gzip" {
				zr, err := gzip.NewReader(bytes.NewReader(body))
				if err != nil {
					res.extra = "gzip: " + err.Error()
				} else if body, err = io.ReadAll(zr); err != nil {
					res.extra = "gzip: " + err.Error()
				}
			} else if tr == trHTTPGzip && len(body) > 0 {
				res.extra = "gzip requested, non-empty body not gzip-encoded"
			}
			res.out = body
		}
	}()
	select {
	case r := <-ch:
		return r
	case <-time.After(hangTimeout):
		return callResult{hung: true}
	}
}
