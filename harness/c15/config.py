# Driver configuration for property C15 (read by /verif/checks_config.py)
PROP = dict(
        pkg="c15", level="exploration",
        technique="model-based stateful PBT (rapid): differential memory vs Pebble v1 vs Pebble v2 vs sorted-map reference model",
        level_text=("Exploration: generated operation histories (thousands per run, every result compared with an explicit reference "
                    "model and across three backends); samples the space, does not prove absence. Concurrent-reader variant under -race."),
        rule=("rapid state machine over a tiny key alphabet ({00,01,7f,fe,ff}, length 0-4) applied to memory, Pebble v1, "
              "Pebble v2 and a sorted-map model; every result compared. Non-trivial = the sequence contains an iterator "
              "moved back from past the end, a DeleteRange inside a batch overlapping batch-local writes, an 0xff-terminated "
              "prefix iteration, a snapshot read after a later write, or a failing Update/Write callback; distinct = distinct "
              "SHA-256 of the rendered operation sequence."),
        assumptions=["Pebble's own batch atomicity/WAL is trusted", "error identity compared only for db.ErrKeyNotFound",
                     "iterator calls stay within the documented contract (DESIGN §4 C15)"],
        runs=[dict(run="^TestProp"), dict(run="^TestRace", race=True)],
    )
