# Driver configuration for property C15 (read by /verif/checks_config.py)
PROP = dict(
        pkg="c15", level="exploration",
        technique="model-based stateful PBT (rapid): differential memory vs Pebble v1 vs Pebble v2 vs sorted-map reference model",
        level_text=("Exploration: generated operation histories (thousands per run, every result compared with an explicit reference "
                    "model and across three backends); samples the space, does not prove absence. Concurrent-reader variant under -race. "
                    "TestPropLargeBatches covers the size of the atomic unit: single batches of 1-33 MiB (thorough: 65 MiB), read through the "
                    "store and through the batch while they are open, then written, dropped or failed."),
        rule=("rapid state machine over a tiny key alphabet ({00,01,7f,fe,ff}, length 0-4) applied to memory, Pebble v1, "
              "Pebble v2 and a sorted-map model; every result compared. Non-trivial = the sequence contains an iterator "
              "moved back from past the end, a DeleteRange inside a batch overlapping batch-local writes, an 0xff-terminated "
              "prefix iteration, a snapshot read after a later write, or a failing Update/Write callback; distinct = distinct "
              "SHA-256 of the rendered operation sequence. Large batches: one batch per case (plain, indexed, with size hint, SyncBatch, "
              "Update/Write helper) accumulating a drawn total around 1/4/10+-/16/33 MiB (thorough up to 65 MiB) from 256 KiB-4 MiB values with "
              "overwrites, deletes and range deletes over 0-6 pre-existing entries; the store is read while the batch is open (nothing visible), "
              "indexed kinds read their own writes; end = Write / Close without Write / callback ok / callback fails; full scan of each backend "
              "against the model, snapshot taken before the batch, optional close+reopen of the Pebble stores, small follow-up batch; "
              "non-trivial = more than 4 MiB buffered."),
        assumptions=["Pebble's own batch atomicity/WAL is trusted", "error identity compared only for db.ErrKeyNotFound",
                     "iterator calls stay within the documented contract (DESIGN §4 C15)"],
        runs=[dict(run="^TestProp"), dict(run="^TestRace", race=True)],
    )
