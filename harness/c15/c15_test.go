// Package c15: all database backends implement one contract (property C15).
//
// A rapid state machine drives memory, Pebble v1, Pebble v2 with the same operation sequence and
// compares every observable result with a sorted-map reference model (internal/ref.KV).
package c15

import (
	"bytes"
	"errors"
	"fmt"
	"os"
	"path/filepath"
	"sync"
	"testing"

	"github.com/NethermindEth/juno/db"
	"github.com/NethermindEth/juno/db/memory"
	"github.com/NethermindEth/juno/db/pebble"
	"github.com/NethermindEth/juno/db/pebblev2"
	"pgregory.net/rapid"

	"verif/harness/internal/ref"
	"verif/harness/internal/stats"
)

func TestMain(m *testing.M) { stats.Main(m) }

type backend struct {
	name string
	s    db.KeyValueStore
}

func scratchBase() string {
	if st, err := os.Stat("/dev/shm"); err == nil && st.IsDir() {
		if d, err := os.MkdirTemp("/dev/shm", "verif-c15-"); err == nil {
			return d
		}
	}
	d, err := os.MkdirTemp("", "verif-c15-")
	if err != nil {
		stats.HarnessError("mkdtemp: %v", err)
	}
	return d
}

func openBackends(base string) []backend {
	p1, err := pebble.New(filepath.Join(base, "p1"))
	if err != nil {
		stats.HarnessError("pebble v1 open: %v", err)
	}
	p2, err := pebblev2.New(filepath.Join(base, "p2"))
	if err != nil {
		stats.HarnessError("pebble v2 open: %v", err)
	}
	return []backend{{"memory", memory.New()}, {"pebble", p1}, {"pebblev2", p2}}
}

var alphabet = []byte{0x00, 0x01, 0x7f, 0xfe, 0xff}

func genKey(minLen int) *rapid.Generator[[]byte] {
	return rapid.Custom(func(t *rapid.T) []byte {
		n := rapid.IntRange(minLen, 4).Draw(t, "klen")
		k := make([]byte, n)
		for i := range k {
			k[i] = rapid.SampledFrom(alphabet).Draw(t, "kb")
		}
		return k
	})
}

var genVal = rapid.SliceOfN(rapid.Byte(), 0, 3)

type readerSet struct {
	rs []db.KeyValueReader
}

// handle groups one logical object (batch/snapshot/iterator) across the backends.
type batchH struct {
	kind    string // "batch", "indexed", "sync", "buffer"
	bs      []db.Batch
	readers []db.KeyValueReader // nil for non-indexed
	ops     []ref.Op
}

type snapH struct {
	ss    []db.Snapshot
	model *ref.KV
}

type iterH struct {
	its   []db.Iterator
	keys  [][]byte
	vals  [][]byte
	state int // see below
	idx   int
	desc  string
}

const (
	stUnpositioned = iota
	stValid
	stAtEnd
	stBeforeFirst
	stDead
)

type machine struct {
	t     *rapid.T
	c     *stats.Case
	bk    []backend
	model *ref.KV
	bats  []*batchH
	snaps []*snapH
	iters []*iterH
}

func (m *machine) fail(key, f string, a ...any) {
	m.t.Helper()
	m.c.Violation(key, f, a...)
}

func errClass(err error) string {
	switch {
	case err == nil:
		return "nil"
	case errors.Is(err, db.ErrKeyNotFound):
		return "ErrKeyNotFound"
	default:
		return "other:" + err.Error()
	}
}

// compareReads performs Get and Has for key on every reader and compares with the expectation.
func (m *machine) compareReads(what string, readers []db.KeyValueReader, names []string, exp *ref.KV, key []byte) {
	wantV, wantOK := exp.Get(key)
	for i, r := range readers {
		var got []byte
		called := false
		err := r.Get(key, func(v []byte) error { got = append([]byte{}, v...); called = true; return nil })
		if wantOK {
			if err != nil || !called || !bytes.Equal(got, wantV) {
				m.fail("get", "%s %s.Get(%x) = %x,%s want %x", what, names[i], key, got, errClass(err), wantV)
			}
		} else if !errors.Is(err, db.ErrKeyNotFound) || called {
			m.fail("get-missing", "%s %s.Get(%x) = %x,%s called=%v want ErrKeyNotFound", what, names[i], key, got, errClass(err), called)
		}
		has, err := r.Has(key)
		if err != nil || has != wantOK {
			m.fail("has", "%s %s.Has(%x) = %v,%s want %v,nil", what, names[i], key, has, errClass(err), wantOK)
		}
		// the same read with a callback that FAILS (a decoder rejecting the value): the callback's error comes back, the
		// callback runs exactly once for a present key and not at all for a missing one - on every reader kind alike
		calls := 0
		err = r.Get(key, func([]byte) error { calls++; return errCallback })
		if wantOK {
			if !errors.Is(err, errCallback) || calls != 1 {
				m.fail("get-failing-callback", "%s %s.Get(%x, failing callback) = %s after %d calls, want the callback's error after 1 call", what, names[i], key, errClass(err), calls)
			}
		} else if !errors.Is(err, db.ErrKeyNotFound) || calls != 0 {
			m.fail("get-failing-callback", "%s %s.Get(%x, failing callback) on a missing key = %s after %d calls, want ErrKeyNotFound and no call", what, names[i], key, errClass(err), calls)
		}
	}
}

var errCallback = errors.New("callback rejects the value")

// closeNoPanic closes a store; a panic inside Close (e.g. a leaked reference into the block/file cache) is reported as an error.
func closeNoPanic(s interface{ Close() error }) (err error) {
	defer func() {
		if r := recover(); r != nil {
			err = fmt.Errorf("Close PANICKED: %v", r)
		}
	}()
	return s.Close()
}

func (m *machine) names() []string {
	n := make([]string, len(m.bk))
	for i, b := range m.bk {
		n[i] = b.name
	}
	return n
}

func (m *machine) storeReaders() []db.KeyValueReader {
	r := make([]db.KeyValueReader, len(m.bk))
	for i, b := range m.bk {
		r[i] = b.s
	}
	return r
}

// overlay is the view an indexed batch must present: current store contents + the batch's ops.
func (m *machine) overlay(b *batchH) *ref.KV {
	o := m.model.Clone()
	o.Apply(b.ops)
	return o
}

func (m *machine) newIter(readers []db.KeyValueReader, view *ref.KV, desc string) {
	t := m.t
	mode := rapid.SampledFrom([]string{"prefix", "prefix", "prefix", "all"}).Draw(t, "itermode")
	var prefix []byte
	wub := true
	prefixOnly := true
	if mode == "all" {
		prefix, wub, prefixOnly = nil, false, false
	} else {
		prefix = genKey(0).Draw(t, "prefix")
		if len(prefix) > 3 {
			prefix = prefix[:3]
		}
		if len(prefix) > 0 && prefix[len(prefix)-1] == 0xff {
			m.c.NonTrivial("ff-prefix")
		}
	}
	h := &iterH{desc: fmt.Sprintf("%s.iter(%x,%v)", desc, prefix, wub)}
	h.keys = view.Keys(prefix, prefixOnly)
	for _, k := range h.keys {
		v, _ := view.Get(k)
		h.vals = append(h.vals, v)
	}
	for i, r := range readers {
		it, err := r.NewIterator(prefix, wub)
		if err != nil {
			m.fail("iter-new", "%s %s.NewIterator: %v", h.desc, m.bk[i].name, err)
		}
		h.its = append(h.its, it)
	}
	m.c.Fp("newiter %s", h.desc)
	m.iters = append(m.iters, h)
	m.iterSteps(h, rapid.IntRange(1, 6).Draw(t, "nsteps"))
}

func (m *machine) iterSteps(h *iterH, n int) {
	t := m.t
	for s := 0; s < n; s++ {
		n := len(h.keys)
		// choose among the calls the documented contract allows in this state
		opts := []string{"first", "seek"}
		switch h.state {
		case stUnpositioned, stValid:
			opts = append(opts, "next", "next", "next", "prev")
		case stAtEnd:
			opts = append(opts, "next", "prev", "prev")
		case stBeforeFirst:
			opts = append(opts, "next")
		}
		op := rapid.SampledFrom(opts).Draw(t, "iterop")
		var seekKey []byte
		wantOK := false
		switch op {
		case "first":
			h.idx = 0
		case "seek":
			seekKey = genKey(0).Draw(t, "seekkey")
			h.idx = n
			for i, k := range h.keys {
				if bytes.Compare(k, seekKey) >= 0 {
					h.idx = i
					break
				}
			}
		case "next":
			switch h.state {
			case stUnpositioned, stBeforeFirst:
				h.idx = 0
			case stValid:
				h.idx++
			case stAtEnd: // documented: once invalid, Next keeps it invalid
				h.idx = n + 1
			}
		case "prev":
			switch h.state {
			case stUnpositioned:
				h.idx = 0
			case stValid:
				h.idx--
			case stAtEnd:
				h.idx = n - 1
				m.c.NonTrivial("iter-back-from-end")
			}
		}
		switch {
		case n == 0:
			h.state = stDead
		case h.idx < 0:
			h.state = stBeforeFirst
		case h.idx == n:
			h.state = stAtEnd
		case h.idx > n:
			h.state = stDead
		default:
			h.state = stValid
			wantOK = true
		}
		m.c.Fp("%s %x", op, seekKey)
		for i, it := range h.its {
			var got bool
			switch op {
			case "first":
				got = it.First()
			case "seek":
				got = it.Seek(seekKey)
			case "next":
				got = it.Next()
			case "prev":
				got = it.Prev()
			}
			if got != wantOK || it.Valid() != wantOK {
				m.fail("iter-pos", "%s on %s: %s(%x) returned %v, Valid()=%v, want %v (model keys %x idx %d)",
					h.desc, m.bk[i].name, op, seekKey, got, it.Valid(), wantOK, h.keys, h.idx)
			}
			if wantOK {
				k := it.Key()
				v, err := it.Value()
				if !bytes.Equal(k, h.keys[h.idx]) || err != nil || !bytes.Equal(v, h.vals[h.idx]) {
					m.fail("iter-kv", "%s on %s: after %s(%x) at %x=%x (err %v), want %x=%x", h.desc, m.bk[i].name, op, seekKey, k, v, err, h.keys[h.idx], h.vals[h.idx])
				}
				uv, err := it.UncopiedValue()
				if err != nil || !bytes.Equal(uv, h.vals[h.idx]) {
					m.fail("iter-kv", "%s on %s: UncopiedValue %x err %v want %x", h.desc, m.bk[i].name, uv, err, h.vals[h.idx])
				}
			}
		}
	}
}

func (m *machine) closeIter(i int) {
	h := m.iters[i]
	for j, it := range h.its {
		if err := it.Close(); err != nil {
			m.fail("iter-close", "%s on %s: Close: %v", h.desc, m.bk[j].name, err)
		}
	}
	m.iters = append(m.iters[:i], m.iters[i+1:]...)
}

// drawWrite draws one write op. Written keys are non-empty: every juno caller prefixes keys with a bucket byte,
// and Pebble v2.1.6 itself panics (colblk PrefixBytesBuilder 'unreachable') when flushing a block holding only the empty key.
// Ranges satisfy start <= end (the documented [start,end) contract).
func (m *machine) drawWrite(allowRange bool) ref.Op {
	t := m.t
	kinds := []byte{'p', 'p', 'p', 'd', 'd'}
	if allowRange {
		kinds = append(kinds, 'r')
	}
	switch rapid.SampledFrom(kinds).Draw(t, "wkind") {
	case 'p':
		return ref.Op{Kind: 'p', A: genKey(1).Draw(t, "k"), B: genVal.Draw(t, "v")}
	case 'd':
		return ref.Op{Kind: 'd', A: genKey(1).Draw(t, "k")}
	default:
		// [start, end) in plain byte order: empty and nil bounds are ordinary byte strings (an empty END is an empty range,
		// not "unbounded"), and start > end is a no-op (the repository's own conformance suite relies on that); one case in
		// four keeps the drawn order, the others are sorted so that most ranges delete something
		a, b := genKey(0).Draw(t, "ra"), genKey(0).Draw(t, "rb")
		if rapid.IntRange(0, 3).Draw(t, "rangeOrder") != 0 && bytes.Compare(a, b) > 0 {
			a, b = b, a
		}
		if len(b) == 0 && rapid.Bool().Draw(t, "nilEnd") {
			b = nil
		}
		if len(a) == 0 && rapid.Bool().Draw(t, "nilStart") {
			a = nil
		}
		return ref.Op{Kind: 'r', A: a, B: b}
	}
}

func applyWrite(w interface {
	db.KeyValueWriter
	db.KeyValueRangeDeleter
}, o ref.Op) error {
	switch o.Kind {
	case 'p':
		return w.Put(o.A, o.B)
	case 'd':
		return w.Delete(o.A)
	default:
		return w.DeleteRange(o.A, o.B)
	}
}

func (m *machine) run() {
	t := m.t
	names := m.names()
	m.t.Repeat(map[string]func(*rapid.T){
		"write": func(t *rapid.T) {
			o := m.drawWrite(true)
			m.c.Fp("w%c %x %x", o.Kind, o.A, o.B)
			for _, b := range m.bk {
				if err := applyWrite(b.s, o); err != nil {
					m.fail("write", "%s direct %c(%x,%x): %v", b.name, o.Kind, o.A, o.B, err)
				}
			}
			m.model.Apply([]ref.Op{o})
		},
		"read": func(t *rapid.T) {
			k := genKey(0).Draw(t, "k")
			m.c.Fp("r %x", k)
			m.compareReads("store", m.storeReaders(), names, m.model, k)
		},
		"newBatch": func(t *rapid.T) {
			if len(m.bats) >= 2 {
				t.Skip()
			}
			kind := rapid.SampledFrom([]string{"batch", "indexed", "indexed", "sync", "buffer"}).Draw(t, "bkind")
			h := &batchH{kind: kind}
			for _, b := range m.bk {
				switch kind {
				case "batch":
					h.bs = append(h.bs, b.s.NewBatch())
				case "indexed":
					ib := b.s.NewIndexedBatch()
					h.bs = append(h.bs, ib)
					h.readers = append(h.readers, ib)
				case "sync":
					sb := db.NewSyncBatch(b.s.NewIndexedBatchWithSize(64))
					h.bs = append(h.bs, sb)
					h.readers = append(h.readers, sb)
				case "buffer":
					bb := db.NewBufferBatch(b.s.NewIndexedBatch())
					h.bs = append(h.bs, bb)
				}
			}
			m.c.Fp("newbatch %s", kind)
			m.bats = append(m.bats, h)
		},
		"batchWrite": func(t *rapid.T) {
			if len(m.bats) == 0 {
				t.Skip()
			}
			h := m.bats[rapid.IntRange(0, len(m.bats)-1).Draw(t, "bi")]
			o := m.drawWrite(h.kind != "buffer")
			m.c.Fp("b%s %c %x %x", h.kind, o.Kind, o.A, o.B)
			if o.Kind == 'r' {
				for _, p := range h.ops {
					if p.Kind == 'p' && bytes.Compare(p.A, o.A) >= 0 && bytes.Compare(p.A, o.B) < 0 {
						m.c.NonTrivial("batch-delrange-overlap")
					}
				}
			}
			for i, b := range h.bs {
				if err := applyWrite(b, o); err != nil {
					m.fail("batch-op", "%s %s %c(%x,%x): %v", m.bk[i].name, h.kind, o.Kind, o.A, o.B, err)
				}
			}
			h.ops = append(h.ops, o)
		},
		"batchRead": func(t *rapid.T) {
			if len(m.bats) == 0 {
				t.Skip()
			}
			h := m.bats[rapid.IntRange(0, len(m.bats)-1).Draw(t, "bi")]
			k := genKey(0).Draw(t, "k")
			ov := m.overlay(h)
			m.c.Fp("bread %s %x", h.kind, k)
			switch {
			case h.kind == "buffer":
				want, ok := ov.Get(k)
				for i, b := range h.bs {
					var got []byte
					err := b.(*db.BufferBatch).Get(k, func(v []byte) error { got = append([]byte{}, v...); return nil })
					if ok && (err != nil || !bytes.Equal(got, want)) || !ok && !errors.Is(err, db.ErrKeyNotFound) {
						m.fail("bufferbatch-get", "%s BufferBatch.Get(%x)=%x,%s want %x,%v", m.bk[i].name, k, got, errClass(err), want, ok)
					}
				}
			case h.readers != nil:
				m.compareReads(h.kind, h.readers, names, ov, k)
				if rapid.IntRange(0, 3).Draw(t, "biter") == 0 {
					m.newIter(h.readers, ov, h.kind)
					m.closeIter(len(m.iters) - 1) // batch iterators are used immediately (no documented view semantics across later batch writes)
				}
			default:
				t.Skip()
			}
		},
		"batchEnd": func(t *rapid.T) {
			if len(m.bats) == 0 {
				t.Skip()
			}
			i := rapid.IntRange(0, len(m.bats)-1).Draw(t, "bi")
			h := m.bats[i]
			commit := rapid.IntRange(0, 3).Draw(t, "commit") > 0
			m.c.Fp("bend %v", commit)
			for j, b := range h.bs {
				var err error
				if commit {
					err = b.Write()
				} else {
					err = b.Close()
				}
				if err != nil {
					m.fail("batch-end", "%s %s end(commit=%v): %v", m.bk[j].name, h.kind, commit, err)
				}
			}
			if commit {
				m.model.Apply(h.ops)
				m.c.Label("batch-committed")
			} else {
				m.c.Label("batch-discarded")
			}
			m.bats = append(m.bats[:i], m.bats[i+1:]...)
		},
		"helper": func(t *rapid.T) {
			useUpdate := rapid.Bool().Draw(t, "update")
			n := rapid.IntRange(0, 4).Draw(t, "nops")
			ops := make([]ref.Op, n)
			for i := range ops {
				ops[i] = m.drawWrite(true)
			}
			failCb := rapid.IntRange(0, 2).Draw(t, "failcb") == 0
			readKey := genKey(0).Draw(t, "hk")
			m.c.Fp("helper %v %v %v", useUpdate, ops, failCb)
			sentinel := errors.New("callback failed")
			exp := m.model.Clone()
			exp.Apply(ops)
			for _, b := range m.bk {
				var err error
				if useUpdate {
					err = b.s.Update(func(ib db.IndexedBatch) error {
						for _, o := range ops {
							if e := applyWrite(ib, o); e != nil {
								return fmt.Errorf("op: %w", e)
							}
						}
						m.compareReads("update-cb", []db.KeyValueReader{ib}, []string{b.name}, exp, readKey)
						if failCb {
							return sentinel
						}
						return nil
					})
				} else {
					err = b.s.Write(func(wb db.Batch) error {
						for _, o := range ops {
							if e := applyWrite(wb, o); e != nil {
								return fmt.Errorf("op: %w", e)
							}
						}
						if failCb {
							return sentinel
						}
						return nil
					})
				}
				if failCb && !errors.Is(err, sentinel) || !failCb && err != nil {
					m.fail("helper-err", "%s helper(update=%v) returned %v, failCb=%v", b.name, useUpdate, err, failCb)
				}
			}
			if failCb {
				m.c.NonTrivial("cb-fail")
			} else {
				m.model = exp
			}
		},
		"snapshot": func(t *rapid.T) {
			if len(m.snaps) >= 2 {
				t.Skip()
			}
			h := &snapH{model: m.model.Clone()}
			for _, b := range m.bk {
				h.ss = append(h.ss, b.s.NewSnapshot())
			}
			m.c.Fp("snap")
			m.snaps = append(m.snaps, h)
		},
		"snapRead": func(t *rapid.T) {
			if len(m.snaps) == 0 {
				t.Skip()
			}
			h := m.snaps[rapid.IntRange(0, len(m.snaps)-1).Draw(t, "si")]
			k := genKey(0).Draw(t, "k")
			m.c.Fp("sread %x", k)
			rs := make([]db.KeyValueReader, len(h.ss))
			for i, s := range h.ss {
				rs[i] = s
			}
			a, aok := h.model.Get(k)
			b, bok := m.model.Get(k)
			if aok != bok || !bytes.Equal(a, b) {
				m.c.NonTrivial("snapshot-after-write")
			}
			m.compareReads("snapshot", rs, names, h.model, k)
			if rapid.IntRange(0, 3).Draw(t, "siter") == 0 {
				m.newIter(rs, h.model, "snapshot")
			}
		},
		"snapClose": func(t *rapid.T) {
			if len(m.snaps) == 0 {
				t.Skip()
			}
			i := rapid.IntRange(0, len(m.snaps)-1).Draw(t, "si")
			m.dropItersOf("snapshot")
			for j, s := range m.snaps[i].ss {
				if err := s.Close(); err != nil {
					m.fail("snap-close", "%s snapshot close: %v", m.bk[j].name, err)
				}
			}
			m.snaps = append(m.snaps[:i], m.snaps[i+1:]...)
		},
		"iterNew": func(t *rapid.T) {
			if len(m.iters) >= 3 {
				t.Skip()
			}
			m.newIter(m.storeReaders(), m.model, "store")
		},
		"iterStep": func(t *rapid.T) {
			if len(m.iters) == 0 {
				t.Skip()
			}
			h := m.iters[rapid.IntRange(0, len(m.iters)-1).Draw(t, "ii")]
			m.c.Fp("step %s", h.desc)
			m.iterSteps(h, rapid.IntRange(1, 5).Draw(t, "nsteps"))
		},
		"iterClose": func(t *rapid.T) {
			if len(m.iters) == 0 {
				t.Skip()
			}
			m.closeIter(rapid.IntRange(0, len(m.iters)-1).Draw(t, "ii"))
		},
		"": func(t *rapid.T) {},
	})
	_ = t
}

func (m *machine) dropItersOf(prefix string) {
	for i := len(m.iters) - 1; i >= 0; i-- {
		if len(m.iters[i].desc) >= len(prefix) && m.iters[i].desc[:len(prefix)] == prefix {
			m.closeIter(i)
		}
	}
}

// finalScan compares the full contents of every backend with the model.
func (m *machine) finalScan() {
	want := m.model.Keys(nil, false)
	for _, b := range m.bk {
		it, err := b.s.NewIterator(nil, false)
		if err != nil {
			m.fail("scan", "%s NewIterator: %v", b.name, err)
		}
		var got [][]byte
		for ok := it.First(); ok; ok = it.Next() {
			k := it.Key()
			v, err := it.Value()
			wv, _ := m.model.Get(k)
			if err != nil || !bytes.Equal(v, wv) {
				m.fail("scan", "%s final scan key %x value %x (err %v) want %x", b.name, k, v, err, wv)
			}
			got = append(got, k)
		}
		it.Close()
		if len(got) != len(want) {
			m.fail("scan", "%s final scan has keys %x, model %x", b.name, got, want)
		}
		for i := range got {
			if !bytes.Equal(got[i], want[i]) {
				m.fail("scan", "%s final scan has keys %x, model %x", b.name, got, want)
			}
		}
	}
}

func (m *machine) cleanup() {
	for len(m.iters) > 0 {
		h := m.iters[0]
		for _, it := range h.its {
			it.Close()
		}
		m.iters = m.iters[1:]
	}
	for _, s := range m.snaps {
		for _, x := range s.ss {
			x.Close()
		}
	}
	for _, b := range m.bats {
		for _, x := range b.bs {
			x.Close()
		}
	}
}

// wipe empties every backend with point deletes (range tombstones would pile up in Pebble's memtable
// across cases and make fragmenting quadratic).
func wipe(bk []backend) {
	for _, b := range bk {
		it, err := b.s.NewIterator(nil, false)
		if err != nil {
			stats.HarnessError("wipe %s: %v", b.name, err)
		}
		var keys [][]byte
		for ok := it.First(); ok; ok = it.Next() {
			keys = append(keys, it.Key())
		}
		it.Close()
		for _, k := range keys {
			if err := b.s.Delete(k); err != nil {
				stats.HarnessError("wipe %s: %v", b.name, err)
			}
		}
	}
}

// pool hands out the three backends, re-creating the Pebble directories every 20 cases so that
// tombstones of earlier cases do not accumulate.
type pool struct {
	base string
	bk   []backend
	used int
	gen  int
}

func (p *pool) get() []backend {
	if p.bk != nil && p.used < 20 {
		p.used++
		wipe(p.bk)
		return p.bk
	}
	p.close()
	p.gen++
	p.used = 1
	p.bk = openBackends(filepath.Join(p.base, fmt.Sprint(p.gen)))
	return p.bk
}

func (p *pool) close() {
	for _, b := range p.bk {
		b.s.Close()
	}
	if p.bk != nil {
		os.RemoveAll(filepath.Join(p.base, fmt.Sprint(p.gen)))
	}
	p.bk = nil
}

func TestPropBackendsAgree(t *testing.T) {
	base := scratchBase()
	defer os.RemoveAll(base)
	pl := &pool{base: base}
	defer pl.close()
	stats.Check(t, stats.Budget{Quick: 8000, Thorough: 30000},
		"rapid state machine (direct writes, batches of 4 kinds, Update/Write helpers, snapshots, iterator programs) on memory/pebble/pebblev2 vs sorted-map model",
		func(rt *rapid.T, c *stats.Case) {
			bk := pl.get()
			m := &machine{t: rt, c: c, bk: bk, model: ref.NewKV()}
			defer m.cleanup()
			m.run()
			m.finalScan()
			c.Sample(func() any { return "see fingerprinted op list; final model keys: " + fmt.Sprintf("%x", m.model.Keys(nil, false)) })
		})
}

// TestPropReopen: committed data survives close/reopen of the Pebble backends and equals the model
// (durability side of "write batches are all-or-nothing").
func TestPropReopen(t *testing.T) {
	stats.Check(t, stats.Budget{Quick: 100, Thorough: 600},
		"write sequences with interleaved close/reopen of Pebble v1/v2 directories; contents must equal the model after every reopen; non-trivial = reopen after a committed batch containing a range delete or a discarded batch",
		func(rt *rapid.T, c *stats.Case) {
			base := scratchBase()
			defer os.RemoveAll(base)
			model := ref.NewKV()
			open := func() []backend {
				p1, err := pebble.New(filepath.Join(base, "p1"))
				if err != nil {
					c.Violation("reopen", "pebble v1 reopen failed: %v", err)
				}
				p2, err := pebblev2.New(filepath.Join(base, "p2"))
				if err != nil {
					c.Violation("reopen", "pebble v2 reopen failed: %v", err)
				}
				return []backend{{"pebble", p1}, {"pebblev2", p2}}
			}
			bk := open()
			defer func() {
				for _, b := range bk {
					if err := closeNoPanic(b.s); err != nil {
						c.Violation("close", "%s final close: %v", b.name, err)
					}
				}
			}()
			rounds := rapid.IntRange(1, 4).Draw(rt, "rounds")
			for r := 0; r < rounds; r++ {
				nb := rapid.IntRange(1, 4).Draw(rt, "nb")
				for i := 0; i < nb; i++ {
					m := &machine{t: rt, c: c, bk: bk, model: model}
					n := rapid.IntRange(1, 5).Draw(rt, "nops")
					ops := make([]ref.Op, n)
					for j := range ops {
						ops[j] = m.drawWrite(true)
						if ops[j].Kind == 'r' {
							c.NonTrivial("reopen-after-rangedel")
						}
					}
					commit := rapid.IntRange(0, 3).Draw(rt, "commit") > 0
					c.Fp("%v %v", ops, commit)
					for _, b := range bk {
						bt := b.s.NewBatch()
						for _, o := range ops {
							if err := applyWrite(bt, o); err != nil {
								c.Violation("batch-op", "%s: %v", b.name, err)
							}
						}
						var err error
						if commit {
							err = bt.Write()
						} else {
							err = bt.Close()
							c.NonTrivial("reopen-after-discard")
						}
						if err != nil {
							c.Violation("batch-end", "%s: %v", b.name, err)
						}
					}
					if commit {
						model.Apply(ops)
					}
				}
				for _, b := range bk {
					if err := closeNoPanic(b.s); err != nil {
						c.Violation("close", "%s close: %v", b.name, err)
					}
				}
				bk = open()
				m := &machine{t: rt, c: c, bk: bk, model: model}
				m.finalScan()
				// point reads on the reopened stores (values now come from tables, not from the memtable) through every reader
				// kind, with succeeding and failing callbacks; the next Close (or the deferred one) must still work
				for q := rapid.IntRange(0, 4).Draw(rt, "readsAfterReopen"); q > 0; q-- {
					k := genKey(1).Draw(rt, "readKey")
					kind := rapid.IntRange(0, 3).Draw(rt, "readerKind")
					c.Fp("read %x via %d", k, kind)
					var readers []db.KeyValueReader
					var names []string
					var closers []func() error
					for _, b := range bk {
						switch kind {
						case 0:
							readers, names = append(readers, b.s), append(names, b.name)
						case 1:
							sn := b.s.NewSnapshot()
							readers, names, closers = append(readers, sn), append(names, b.name+"/snapshot"), append(closers, sn.Close)
						case 2:
							ib := b.s.NewIndexedBatch()
							readers, names, closers = append(readers, ib), append(names, b.name+"/indexed-batch"), append(closers, ib.Close)
						default: // the store again, while an unrelated write-only batch is open and then dropped
							bt := b.s.NewBatch()
							readers, names, closers = append(readers, b.s), append(names, b.name), append(closers, bt.Close)
						}
					}
					m.compareReads("after reopen", readers, names, model, k)
					c.NonTrivial("failing-callback-read-after-reopen")
					for _, cl := range closers {
						if err := cl(); err != nil {
							c.Violation("reader-close", "closing a reader after reads: %v", err)
						}
					}
				}
			}
		})
}

// TestRaceReadersSeeAtomicBatches: one writer commits batches that set a fixed group of keys to one
// generation value; concurrent readers using snapshots, iterators and indexed batches must never
// observe a mix of generations inside one consistent view. Run under -race.
func TestRaceReadersSeeAtomicBatches(t *testing.T) {
	base := scratchBase()
	defer os.RemoveAll(base)
	pl := &pool{base: base}
	defer pl.close()
	stats.Check(t, stats.Budget{Quick: 80, Thorough: 400},
		"writer commits generations of a key group via Batch/Update/Write while 3 readers per backend read through snapshots and store iterators; every consistent view must show a single generation; non-trivial = readers observed >= 2 different generations during the case",
		func(rt *rapid.T, c *stats.Case) {
			bk := pl.get()
			nkeys := rapid.IntRange(2, 5).Draw(rt, "nkeys")
			gens := rapid.IntRange(5, 40).Draw(rt, "gens")
			how := rapid.SliceOfN(rapid.IntRange(0, 2), gens, gens).Draw(rt, "how")
			c.Fp("%d %d %v", nkeys, gens, how)
			keys := make([][]byte, nkeys)
			for i := range keys {
				keys[i] = []byte{0x01, byte(i)}
			}
			for _, b := range bk {
				b := b
				write := func(w db.KeyValueWriter, g byte) error {
					for _, k := range keys {
						if err := w.Put(k, []byte{g}); err != nil {
							return err
						}
					}
					return nil
				}
				if err := b.s.Write(func(w db.Batch) error { return write(w, 0) }); err != nil {
					c.Violation("race-write", "%s: %v", b.name, err)
				}
				stop := make(chan struct{})
				var wg sync.WaitGroup
				var mu sync.Mutex
				seen := map[byte]struct{}{}
				var bad string
				for r := 0; r < 3; r++ {
					wg.Add(1)
					go func(r int) {
						defer wg.Done()
						for i := 0; ; i++ {
							select {
							case <-stop:
								return
							default:
							}
							var vals []byte
							if (i+r)%2 == 0 {
								s := b.s.NewSnapshot()
								for _, k := range keys {
									_ = s.Get(k, func(v []byte) error { vals = append(vals, v...); return nil })
								}
								s.Close()
							} else {
								it, err := b.s.NewIterator([]byte{0x01}, true)
								if err == nil {
									for ok := it.First(); ok; ok = it.Next() {
										v, _ := it.Value()
										vals = append(vals, v...)
									}
									it.Close()
								}
							}
							mu.Lock()
							if len(vals) != len(keys) {
								bad = fmt.Sprintf("view has %d values for %d keys: %x", len(vals), len(keys), vals)
							}
							for _, v := range vals {
								if v != vals[0] {
									bad = fmt.Sprintf("mixed generations in one view: %x", vals)
								}
							}
							if len(vals) > 0 {
								seen[vals[0]] = struct{}{}
							}
							mu.Unlock()
						}
					}(r)
				}
				for g := 1; g <= gens; g++ {
					var err error
					switch how[g-1] {
					case 0:
						bt := b.s.NewBatch()
						if err = write(bt, byte(g)); err == nil {
							err = bt.Write()
						}
					case 1:
						err = b.s.Update(func(w db.IndexedBatch) error { return write(w, byte(g)) })
					default:
						err = b.s.Write(func(w db.Batch) error { return write(w, byte(g)) })
					}
					if err != nil {
						close(stop)
						wg.Wait()
						c.Violation("race-write", "%s: %v", b.name, err)
					}
				}
				close(stop)
				wg.Wait()
				if bad != "" {
					c.Violation("atomic-view", "%s: %s", b.name, bad)
				}
				if len(seen) >= 2 {
					c.NonTrivial("readers-saw-multiple-generations")
				}
			}
		})
}
