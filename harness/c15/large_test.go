package c15

import (
	"bytes"
	"errors"
	"fmt"
	"os"
	"path/filepath"
	"runtime/debug"
	"sort"
	"testing"

	"github.com/NethermindEth/juno/db"
	"github.com/NethermindEth/juno/db/memory"
	"github.com/NethermindEth/juno/db/pebble"
	"github.com/NethermindEth/juno/db/pebblev2"
	"pgregory.net/rapid"

	"verif/harness/internal/stats"
)

// ---- SIZE OF THE ATOMIC UNIT: one batch accumulating 1..65 MiB -------------------------------------------------------
//
// The state machine of TestPropBackendsAgree never builds a batch above a few hundred bytes, so nothing that depends on
// the SIZE of a batch (spilling or flushing before Write, the "large batch" commit path of Pebble, indexed-batch limits,
// the copy paths of the memory store) is exercised there. Here one case = one batch of a drawn kind that accumulates a
// drawn total around 1/4/10/16/33(/65) MiB out of values of 256 KiB..4 MiB, with overwrites, deletes and range deletes of
// batch-local and pre-existing keys, and ends in Write, Close without Write, or a failing/succeeding helper callback.
// While the batch is open the STORE is read (nothing of the batch may be visible) and, for indexed kinds, the batch is
// read (its own writes over the store). Afterwards every backend is compared with the model, a snapshot taken before
// the batch must still show the old contents, the Pebble stores are optionally closed and reopened, and a small
// follow-up batch is committed. Backends run one after the other so that only one of them holds the data at a time.

const (
	kib = 1 << 10
	mib = 1 << 20
)

type lop struct {
	kind byte // 'p', 'd', 'r'
	a, b []byte
	val  []byte // shared between the model and the backends (never mutated)
}

type lentry struct {
	val []byte
	del bool
}

// lmodel: contents of the store (base) and the effect of the open batch over it (ov), sorted-map semantics.
type lmodel struct {
	base map[string][]byte
	ov   map[string]lentry
}

func (m *lmodel) apply(o lop) {
	switch o.kind {
	case 'p':
		m.ov[string(o.a)] = lentry{val: o.val}
	case 'd':
		m.ov[string(o.a)] = lentry{del: true}
	case 'r':
		in := func(k string) bool { return bytes.Compare([]byte(k), o.a) >= 0 && bytes.Compare([]byte(k), o.b) < 0 }
		for k := range m.base {
			if in(k) {
				m.ov[k] = lentry{del: true}
			}
		}
		for k := range m.ov {
			if in(k) {
				m.ov[k] = lentry{del: true}
			}
		}
	}
}

func (m *lmodel) baseGet(k []byte) ([]byte, bool) { v, ok := m.base[string(k)]; return v, ok }

func (m *lmodel) ovGet(k []byte) ([]byte, bool) {
	if e, ok := m.ov[string(k)]; ok {
		return e.val, !e.del
	}
	return m.baseGet(k)
}

// merged is the store after the batch was committed.
func (m *lmodel) merged() map[string][]byte {
	out := make(map[string][]byte, len(m.base)+len(m.ov))
	for k, v := range m.base {
		out[k] = v
	}
	for k, e := range m.ov {
		if e.del {
			delete(out, k)
		} else {
			out[k] = e.val
		}
	}
	return out
}

func sortedKeys(m map[string][]byte, prefix []byte) []string {
	var ks []string
	for k := range m {
		if bytes.HasPrefix([]byte(k), prefix) {
			ks = append(ks, k)
		}
	}
	sort.Strings(ks)
	return ks
}

// largeValue is a deterministic n-byte value identified by id (distinct ids give distinct contents at every offset window).
func largeValue(id, n int) []byte {
	v := make([]byte, n)
	x := uint32(id)*2654435761 + 12345
	for i := 0; i+4 <= n; i += 4 {
		x = x*1664525 + 1013904223
		v[i], v[i+1], v[i+2], v[i+3] = byte(x>>24), byte(x>>16), byte(x>>8), byte(x)
	}
	if n > 0 {
		v[0] = byte(id)
	}
	return v
}

type largePlan struct {
	pre      []lop // contents before the batch (committed directly)
	preBatch bool  // pre-contents written through one small batch instead of direct puts
	kind     string
	sizeHint int
	ops      []lop
	probeAt  map[int][][]byte // after op i: keys read through the store and (indexed kinds) the batch
	end      string           // write, close, cb-ok, cb-fail
	iterPfx  []byte
	reopen   bool
	follow   []lop // small batch committed afterwards
	total    int
}

var largePrefixes = []byte{0x01, 0x7f, 0xfe, 0xff}

func drawLargeKey(t *rapid.T, label string) []byte {
	k := []byte{rapid.SampledFrom(largePrefixes).Draw(t, label+"p"), byte(rapid.IntRange(0, 11).Draw(t, label+"i"))}
	if rapid.IntRange(0, 7).Draw(t, label+"ext") == 0 {
		k = append(k, 0x00) // a key that extends another key
	}
	return k
}

func drawLargePlan(t *rapid.T, c *stats.Case) *largePlan {
	p := &largePlan{probeAt: map[int][][]byte{}}
	// ---- contents before the batch
	npre := rapid.IntRange(0, 6).Draw(t, "npre")
	vid := 1
	for i := 0; i < npre; i++ {
		n := rapid.SampledFrom([]int{0, 1, 3, 40, 64 * kib}).Draw(t, "prelen")
		p.pre = append(p.pre, lop{kind: 'p', a: drawLargeKey(t, "pre"), val: largeValue(vid, n)})
		vid++
	}
	p.preBatch = rapid.Bool().Draw(t, "preBatch")
	// ---- the batch
	p.kind = rapid.SampledFrom([]string{"batch", "batch", "indexed", "indexed", "indexed", "batch-sized", "indexed-sized", "sync", "update", "write"}).Draw(t, "kind")
	if p.kind == "batch-sized" || p.kind == "indexed-sized" {
		p.sizeHint = rapid.SampledFrom([]int{0, 64, 4 * mib, db.DefaultBatchSize, 2 * db.DefaultBatchSize}).Draw(t, "sizeHint")
	}
	// total: around the sizes where an implementation may change strategy (Pebble's memtable and large-batch thresholds,
	// juno's db.DefaultBatchSize = 10 MiB and its multiples)
	classes := []int{1, 4, 10, 10, 16, 33}
	if stats.Thorough() {
		classes = append(classes, 16, 33, 65)
	}
	class := rapid.SampledFrom(classes).Draw(t, "totalClass")
	target := class*mib + rapid.IntRange(-192*kib, 192*kib).Draw(t, "totalJitter")
	if class == 10 {
		target = db.DefaultBatchSize + rapid.IntRange(-256*kib, 768*kib).Draw(t, "totalJitter10")
	}
	vclass := rapid.SampledFrom([]int{256 * kib, mib, mib, 4 * mib}).Draw(t, "valueClass")
	if class >= 33 && vclass < mib {
		vclass = mib // keeps the op count small
	}
	var touched [][]byte
	for p.total < target {
		o := lop{}
		switch rapid.SampledFrom([]byte{'p', 'p', 'p', 'p', 'p', 'p', 'p', 'p', 'd', 'r'}).Draw(t, "opkind") {
		case 'p':
			o.kind = 'p'
			if len(touched) > 0 && rapid.IntRange(0, 5).Draw(t, "overwrite") == 0 {
				o.a = touched[rapid.IntRange(0, len(touched)-1).Draw(t, "owkey")] // later operations win
			} else {
				o.a = drawLargeKey(t, "k")
			}
			n := vclass + rapid.IntRange(-1023, 1023).Draw(t, "vjitter")
			if rapid.IntRange(0, 9).Draw(t, "tiny") == 0 {
				n = rapid.IntRange(0, 64).Draw(t, "tinylen")
			}
			o.val = largeValue(vid, n)
			vid++
			p.total += len(o.a) + n
		case 'd':
			o.kind = 'd'
			if len(touched) > 0 && rapid.Bool().Draw(t, "delTouched") {
				o.a = touched[rapid.IntRange(0, len(touched)-1).Draw(t, "delkey")]
			} else {
				o.a = drawLargeKey(t, "dk")
			}
			p.total += len(o.a)
		default:
			o.kind = 'r'
			o.a, o.b = drawLargeKey(t, "ra"), drawLargeKey(t, "rb")
			if bytes.Compare(o.a, o.b) > 0 {
				o.a, o.b = o.b, o.a
			}
			if rapid.IntRange(0, 3).Draw(t, "prefixRange") == 0 { // a whole prefix, incl. the 0xff one
				o.a, o.b = o.a[:1], []byte{o.a[0], 0xff, 0xff}
			}
		}
		touched = append(touched, o.a)
		p.ops = append(p.ops, o)
		i := len(p.ops) - 1
		if len(p.ops) <= 12 || rapid.IntRange(0, 3).Draw(t, "probe") == 0 {
			ks := [][]byte{touched[rapid.IntRange(0, len(touched)-1).Draw(t, "probeTouched")], drawLargeKey(t, "probe")}
			if len(p.pre) > 0 {
				ks = append(ks, p.pre[rapid.IntRange(0, len(p.pre)-1).Draw(t, "probePre")].a)
			}
			p.probeAt[i] = ks
		}
	}
	switch p.kind {
	case "update", "write":
		p.end = rapid.SampledFrom([]string{"cb-ok", "cb-fail", "cb-fail"}).Draw(t, "end")
	default:
		p.end = rapid.SampledFrom([]string{"write", "close", "close"}).Draw(t, "end")
	}
	p.iterPfx = rapid.SampledFrom([][]byte{nil, {0x01}, {0x7f}, {0xfe}, {0xff}}).Draw(t, "iterPrefix")
	p.reopen = rapid.Bool().Draw(t, "reopen")
	nf := rapid.IntRange(0, 2).Draw(t, "nfollow")
	for i := 0; i < nf; i++ {
		if rapid.IntRange(0, 3).Draw(t, "followDel") == 0 && len(touched) > 0 {
			p.follow = append(p.follow, lop{kind: 'd', a: touched[rapid.IntRange(0, len(touched)-1).Draw(t, "fk")]})
		} else {
			p.follow = append(p.follow, lop{kind: 'p', a: drawLargeKey(t, "f"), val: largeValue(vid, rapid.IntRange(0, 40).Draw(t, "flen"))})
			vid++
		}
	}
	// fingerprint and classification
	for _, o := range p.pre {
		c.Fp("pre %x %d", o.a, len(o.val))
	}
	c.Fp("%s/%d", p.kind, p.sizeHint)
	for i, o := range p.ops {
		c.Fp("%c %x %x %d %x", o.kind, o.a, o.b, len(o.val), p.probeAt[i])
	}
	c.Fp("%s %x %v %d", p.end, p.iterPfx, p.reopen, len(p.follow))
	c.Label("kind:" + p.kind)
	c.Label("end:" + p.end)
	switch {
	case p.total <= 2*mib:
		c.Label("total:<=2MiB")
	case p.total <= 6*mib:
		c.Label("total:2-6MiB")
	case p.total < db.DefaultBatchSize:
		c.Label("total:6-10MiB")
	case p.total <= 12*mib:
		c.Label("total:10-12MiB")
	case p.total <= 20*mib:
		c.Label("total:12-20MiB")
	case p.total <= 40*mib:
		c.Label("total:20-40MiB")
	default:
		c.Label("total:>40MiB")
	}
	if p.total > db.DefaultBatchSize {
		c.NonTrivial("batch-above-10MiB")
		if p.end == "close" || p.end == "cb-fail" {
			c.Label("dropped-or-failed-batch-above-10MiB")
		}
	}
	if p.total > 4*mib {
		c.NonTrivial("batch-above-4MiB")
	}
	return p
}

func lerr(err error) string {
	switch {
	case err == nil:
		return "nil"
	case errors.Is(err, db.ErrKeyNotFound):
		return "ErrKeyNotFound"
	}
	return err.Error()
}

func short(v []byte) string {
	if len(v) <= 8 {
		return fmt.Sprintf("%x(len %d)", v, len(v))
	}
	return fmt.Sprintf("%x…(len %d)", v[:8], len(v))
}

// expectRead compares Get and Has of one key with the expectation.
func expectRead(c *stats.Case, vkey, what string, r db.KeyValueReader, key, want []byte, wantOK bool) {
	var got []byte
	called := false
	err := r.Get(key, func(v []byte) error { got = append([]byte{}, v...); called = true; return nil })
	if wantOK {
		if err != nil || !called || !bytes.Equal(got, want) {
			c.Violation(vkey, "%s: Get(%x) = %s, %s; want %s", what, key, short(got), lerr(err), short(want))
		}
	} else if !errors.Is(err, db.ErrKeyNotFound) || called {
		c.Violation(vkey, "%s: Get(%x) = %s, %s (callback called: %v); want ErrKeyNotFound", what, key, short(got), lerr(err), called)
	}
	has, err := r.Has(key)
	if err != nil || has != wantOK {
		c.Violation(vkey, "%s: Has(%x) = %v, %s; want %v, nil", what, key, has, lerr(err), wantOK)
	}
}

// expectScan iterates r under prefix and compares keys (in order) and values with want.
func expectScan(c *stats.Case, vkey, what string, r db.KeyValueReader, prefix []byte, want map[string][]byte) {
	it, err := r.NewIterator(prefix, prefix != nil)
	if err != nil {
		c.Violation(vkey, "%s: NewIterator(%x): %v", what, prefix, err)
	}
	defer it.Close()
	ks := sortedKeys(want, prefix)
	i := 0
	for ok := it.First(); ok; ok = it.Next() {
		k := it.Key()
		if i >= len(ks) || !bytes.Equal(k, []byte(ks[i])) {
			exp := "nothing more"
			if i < len(ks) {
				exp = fmt.Sprintf("%x", ks[i])
			}
			c.Violation(vkey, "%s: scan(%x) position %d has key %x, the model has %s (model keys %x)", what, prefix, i, k, exp, ks)
		}
		v, err := it.Value()
		if err != nil || !bytes.Equal(v, want[ks[i]]) {
			c.Violation(vkey, "%s: scan(%x) key %x has value %s (err %v), the model has %s", what, prefix, k, short(v), err, short(want[ks[i]]))
		}
		i++
	}
	if i != len(ks) {
		c.Violation(vkey, "%s: scan(%x) ended after %d keys, the model has %d: %x", what, prefix, i, len(ks), ks)
	}
}

type lwriter interface {
	db.KeyValueWriter
	db.KeyValueRangeDeleter
}

func lapply(w lwriter, o lop) error {
	switch o.kind {
	case 'p':
		return w.Put(o.a, o.val)
	case 'd':
		return w.Delete(o.a)
	}
	return w.DeleteRange(o.a, o.b)
}

// quietLogger keeps the open/replay chatter of the Pebble stores (one open per case and backend) out of the logs.
type quietLogger struct{}

func (quietLogger) Infof(string, ...any)  {}
func (quietLogger) Errorf(string, ...any) {}
func (quietLogger) Fatalf(f string, a ...any) {
	panic(fmt.Sprintf(f, a...))
}

var errLargeCallback = errors.New("callback failed")

// runLargeOn executes the plan on one backend and compares everything observable with the model.
func runLargeOn(c *stats.Case, name string, s db.KeyValueStore, reopen func() db.KeyValueStore, p *largePlan) db.KeyValueStore {
	m := &lmodel{base: map[string][]byte{}, ov: map[string]lentry{}}
	// contents before the batch
	if p.preBatch {
		b := s.NewBatch()
		for _, o := range p.pre {
			if err := lapply(b, o); err != nil {
				c.Violation("batch-op", "%s: small batch: %v", name, err)
			}
		}
		if err := b.Write(); err != nil {
			c.Violation("batch-end", "%s: small batch Write: %v", name, err)
		}
	} else {
		for _, o := range p.pre {
			if err := lapply(s, o); err != nil {
				c.Violation("write", "%s: direct put: %v", name, err)
			}
		}
	}
	for _, o := range p.pre {
		m.base[string(o.a)] = o.val
	}
	snap := s.NewSnapshot()
	before := m.base

	// fill is run with the open batch; reader is nil for plain batches
	fill := func(w lwriter, reader db.KeyValueReader) {
		buffered := 0
		for i, o := range p.ops {
			if err := lapply(w, o); err != nil {
				c.Violation("batch-op", "%s %s: op %d %c(%x,%x) with %d bytes buffered: %v", name, p.kind, i, o.kind, o.a, o.b, buffered, err)
			}
			m.apply(o)
			buffered += len(o.a) + len(o.val)
			for _, k := range p.probeAt[i] {
				// the store does not show anything of a batch that was not written
				v, ok := m.baseGet(k)
				expectRead(c, "large-batch-visible-before-commit", fmt.Sprintf("%s STORE while a %s batch holds %d bytes (%d ops, not written)", name, p.kind, buffered, i+1), s, k, v, ok)
				if reader != nil {
					v, ok = m.ovGet(k)
					expectRead(c, "large-batch-read-own-writes", fmt.Sprintf("%s %s batch holding %d bytes (%d ops)", name, p.kind, buffered, i+1), reader, k, v, ok)
				}
			}
		}
		// everything accumulated, nothing written: the whole key space through the store and through the batch
		what := fmt.Sprintf("%s STORE while a %s batch holds %d bytes (all %d ops, not written)", name, p.kind, buffered, len(p.ops))
		keys := map[string][]byte{}
		for k := range m.base {
			keys[k] = nil
		}
		for k := range m.ov {
			keys[k] = nil
		}
		for _, k := range sortedKeys(keys, nil) {
			v, ok := m.baseGet([]byte(k))
			expectRead(c, "large-batch-visible-before-commit", what, s, []byte(k), v, ok)
			if reader != nil {
				v, ok = m.ovGet([]byte(k))
				expectRead(c, "large-batch-read-own-writes", fmt.Sprintf("%s %s batch holding %d bytes (all ops)", name, p.kind, buffered), reader, []byte(k), v, ok)
			}
		}
		expectScan(c, "large-batch-visible-before-commit", what, s, p.iterPfx, m.base)
		if reader != nil {
			expectScan(c, "large-batch-read-own-writes", fmt.Sprintf("%s %s batch holding %d bytes", name, p.kind, buffered), reader, p.iterPfx, m.merged())
		}
	}

	committed := false
	switch p.kind {
	case "update", "write":
		cb := func(w lwriter, r db.KeyValueReader) error {
			fill(w, r)
			if p.end == "cb-fail" {
				return errLargeCallback
			}
			return nil
		}
		var err error
		if p.kind == "update" {
			err = s.Update(func(ib db.IndexedBatch) error { return cb(ib, ib) })
		} else {
			err = s.Write(func(b db.Batch) error { return cb(b, nil) })
		}
		if p.end == "cb-fail" && !errors.Is(err, errLargeCallback) || p.end == "cb-ok" && err != nil {
			c.Violation("helper-err", "%s: %s helper with a %d-byte batch returned %v (%s)", name, p.kind, p.total, err, p.end)
		}
		committed = p.end == "cb-ok"
	default:
		var b db.Batch
		var r db.KeyValueReader
		switch p.kind {
		case "batch":
			b = s.NewBatch()
		case "batch-sized":
			b = s.NewBatchWithSize(p.sizeHint)
		case "indexed":
			ib := s.NewIndexedBatch()
			b, r = ib, ib
		case "indexed-sized":
			ib := s.NewIndexedBatchWithSize(p.sizeHint)
			b, r = ib, ib
		case "sync":
			sb := db.NewSyncBatch(s.NewIndexedBatch())
			b, r = sb, sb
		}
		fill(b, r)
		var err error
		if p.end == "write" {
			err = b.Write()
			committed = true
		} else {
			err = b.Close()
		}
		if err != nil {
			c.Violation("batch-end", "%s: %s of a %s batch holding %d bytes: %v", name, p.end, p.kind, p.total, err)
		}
	}
	after := m.base
	vkey := "large-batch-dropped-but-visible"
	if committed {
		after = m.merged()
		vkey = "large-batch-committed"
	}
	m.base, m.ov = after, map[string]lentry{}
	check := func(when string) {
		what := fmt.Sprintf("%s after %s of a %s batch of %d bytes%s", name, p.end, p.kind, p.total, when)
		expectScan(c, vkey, what, s, nil, after)
		for _, o := range p.ops {
			v, ok := m.baseGet(o.a)
			expectRead(c, vkey, what, s, o.a, v, ok)
		}
	}
	check("")
	// the snapshot taken before the batch still shows the old contents
	expectScan(c, "snapshot-after-large-batch", fmt.Sprintf("%s snapshot taken before a %s batch of %d bytes (%s)", name, p.kind, p.total, p.end), snap, nil, before)
	for _, o := range p.pre {
		expectRead(c, "snapshot-after-large-batch", name+" snapshot taken before the large batch", snap, o.a, before[string(o.a)], true)
	}
	if err := snap.Close(); err != nil {
		c.Violation("snap-close", "%s: %v", name, err)
	}
	if p.reopen && reopen != nil {
		if err := s.Close(); err != nil {
			c.Violation("close", "%s close: %v", name, err)
		}
		s = reopen()
		check(", store closed and reopened")
	}
	// a small batch afterwards commits exactly its own operations
	if len(p.follow) > 0 {
		b := s.NewBatch()
		for _, o := range p.follow {
			if err := lapply(b, o); err != nil {
				c.Violation("batch-op", "%s: follow-up batch: %v", name, err)
			}
			m.apply(o)
		}
		if err := b.Write(); err != nil {
			c.Violation("batch-end", "%s: follow-up batch Write: %v", name, err)
		}
		m.base, m.ov = m.merged(), map[string]lentry{}
		expectScan(c, vkey, fmt.Sprintf("%s after %s of a %s batch of %d bytes and a small follow-up batch", name, p.end, p.kind, p.total), s, nil, m.base)
	}
	return s
}

func TestPropLargeBatches(t *testing.T) {
	stats.Check(t, stats.Budget{Quick: 12, Thorough: 80},
		"one batch per case of a drawn kind (plain, indexed, with size hint 0..20 MiB, SyncBatch, Update/Write helper) accumulating a drawn total around 1/4/10(+-)/16/33 MiB (thorough: up to 65 MiB) out of 256 KiB / 1 MiB / 4 MiB values (some tiny) with overwrites, deletes and range deletes of batch-local and pre-existing keys over 0-6 pre-existing entries; during the fill the STORE is read at drawn points and completely before the end (nothing of an unwritten batch is visible), indexed kinds are read as well (own writes over the store, point reads and a prefix scan); the batch ends in Write, Close without Write, or a succeeding/failing helper callback; then full scan + point reads of every backend (memory, Pebble v1, Pebble v2, one after the other) against the model, a snapshot taken before the batch still shows the old contents, Pebble stores are closed and reopened in half of the cases, and a small follow-up batch commits exactly its own operations; non-trivial = the batch buffers more than 4 MiB",
		func(rt *rapid.T, c *stats.Case) {
			p := drawLargePlan(rt, c)
			base := scratchBase()
			defer os.RemoveAll(base)
			defer debug.FreeOSMemory() // the buffers of one case are released before the next one is drawn
			open1 := func() db.KeyValueStore {
				s, err := pebble.New(filepath.Join(base, "p1"), pebble.WithLogger(quietLogger{}))
				if err != nil {
					c.Violation("reopen", "pebble v1 open: %v", err)
				}
				return s
			}
			open2 := func() db.KeyValueStore {
				s, err := pebblev2.New(filepath.Join(base, "p2"), pebblev2.WithLogger(quietLogger{}))
				if err != nil {
					c.Violation("reopen", "pebble v2 open: %v", err)
				}
				return s
			}
			for _, bk := range []struct {
				name   string
				open   func() db.KeyValueStore
				reopen func() db.KeyValueStore
			}{
				{"memory", func() db.KeyValueStore { return memory.New() }, nil},
				{"pebble", open1, open1},
				{"pebblev2", open2, open2},
			} {
				func() {
					s := bk.open()
					defer func() { _ = s.Close() }()
					s = runLargeOn(c, bk.name, s, bk.reopen, p)
				}()
				os.RemoveAll(filepath.Join(base, "p1"))
				os.RemoveAll(filepath.Join(base, "p2"))
			}
			c.Sample(func() any {
				return map[string]any{"kind": p.kind, "size_hint": p.sizeHint, "ops": len(p.ops), "bytes": p.total, "end": p.end, "pre_existing": len(p.pre), "reopen": p.reopen, "follow_up_ops": len(p.follow)}
			})
		})
}
